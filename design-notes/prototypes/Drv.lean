import Leantest.Basic
open Wire

def hexVal (c : Char) : Option Nat :=
  if '0' ≤ c ∧ c ≤ '9' then some (c.toNat - '0'.toNat)
  else if 'a' ≤ c ∧ c ≤ 'f' then some (c.toNat - 'a'.toNat + 10)
  else none

def unhex (s : String) : Option Bytes :=
  let rec go : List Char → List UInt8 → Option (List UInt8)
    | [], acc => some acc.reverse
    | a :: b :: rest, acc =>
      match hexVal a, hexVal b with
      | some x, some y => go rest (UInt8.ofNat (x * 16 + y) :: acc)
      | _, _ => none
    | _, _ => none
  go s.toList []

partial def loop (h : IO.FS.Stream) (n : Nat) : IO Nat := do
  let line ← h.getLine
  if line.isEmpty then return n
  match unhex line.trimAscii.toString with
  | none => IO.println "bad"; loop h n
  | some b =>
    match parseExts b with
    | none => IO.println "err"
    | some es => IO.println s!"ok {es.length} {(putExts es).length}"
    loop h (n + 1)

def main : IO Unit := do
  let n ← loop (← IO.getStdin) 0
  IO.eprintln s!"{n} lines"
