abbrev Bytes := List UInt8

namespace Wire

def u16 (n : Nat) : Bytes := [UInt8.ofNat (n / 256), UInt8.ofNat (n % 256)]

def readU8 : Bytes → Option (UInt8 × Bytes)
  | a :: rest => some (a, rest)
  | _ => none

def readU16 : Bytes → Option (Nat × Bytes)
  | a :: b :: rest => some (a.toNat * 256 + b.toNat, rest)
  | _ => none

def readN (n : Nat) (b : Bytes) : Option (Bytes × Bytes) :=
  if n ≤ b.length then some (b.take n, b.drop n) else none

def readLP8 (b : Bytes) : Option (Bytes × Bytes) :=
  match readU8 b with
  | none => none
  | some (n, rest) => readN n.toNat rest

def readLP16 (b : Bytes) : Option (Bytes × Bytes) :=
  match readU16 b with
  | none => none
  | some (n, rest) => readN n rest

/-- inverse direction: whatever readLP16 accepted re-encodes to the consumed prefix -/
theorem readU16_inv {b rest : Bytes} {n : Nat} (h : readU16 b = some (n, rest)) :
    b = u16 n ++ rest ∧ n < 65536 := by
  match b, h with
  | a :: c :: r, h =>
    simp [readU16] at h
    obtain ⟨h1, h2⟩ := h
    subst h2
    have ha := a.toNat_lt
    have hc := c.toNat_lt
    constructor
    · simp only [u16, ← h1, List.cons_append, List.nil_append, List.cons.injEq, and_true]
      constructor
      · apply UInt8.toNat_inj.mp; simp <;> omega
      · apply UInt8.toNat_inj.mp; simp <;> omega
    · omega

theorem readN_inv {n : Nat} {b x rest : Bytes} (h : readN n b = some (x, rest)) :
    b = x ++ rest ∧ x.length = n := by
  unfold readN at h
  split at h
  · simp at h
    obtain ⟨h1, h2⟩ := h
    subst h1; subst h2
    simp [List.take_append_drop]; omega
  · simp at h

theorem readLP16_inv {b x rest : Bytes} (h : readLP16 b = some (x, rest)) :
    b = u16 x.length ++ x ++ rest ∧ x.length < 65536 := by
  unfold readLP16 at h
  split at h
  · simp at h
  · rename_i n r heq
    obtain ⟨h1, h2⟩ := readU16_inv heq
    obtain ⟨h3, h4⟩ := readN_inv h
    subst h4
    simp [h1, h3, h2]

structure Ext where
  typ : Nat
  data : Bytes
deriving Repr, DecidableEq

def parseExtsF : Nat → Bytes → Option (List Ext)
  | 0, b => if b = [] then some [] else none
  | fuel+1, b =>
    if b = [] then some [] else
    match readU16 b with
    | none => none
    | some (t, r1) =>
      match readLP16 r1 with
      | none => none
      | some (d, r2) =>
        match parseExtsF fuel r2 with
        | none => none
        | some es => some (⟨t, d⟩ :: es)

def parseExts (b : Bytes) : Option (List Ext) := parseExtsF b.length b

def putExts : List Ext → Bytes
  | [] => []
  | e :: es => u16 e.typ ++ (u16 e.data.length ++ e.data) ++ putExts es

theorem putExts_parseExtsF (fuel : Nat) (b : Bytes) (es : List Ext) (h : parseExtsF fuel b = some es) :
    putExts es = b := by
  induction fuel generalizing b es with
  | zero =>
    simp [parseExtsF] at h
    obtain ⟨h1, h2⟩ := h
    subst h1; subst h2; rfl
  | succ n ih =>
    unfold parseExtsF at h
    split at h
    · simp at h; subst h; simp_all [putExts]
    · split at h
      · simp at h
      · rename_i t r1 h1
        split at h
        · simp at h
        · rename_i d r2 h2
          split at h
          · simp at h
          · rename_i es' h3
            simp at h
            subst h
            have e1 := (readU16_inv h1).1
            have e2 := (readLP16_inv h2).1
            simp [putExts, ih r2 es' h3, e1, e2]

theorem putExts_parseExts (b : Bytes) (es : List Ext) (h : parseExts b = some es) :
    putExts es = b := putExts_parseExtsF _ b es h

#print axioms putExts_parseExts
end Wire
