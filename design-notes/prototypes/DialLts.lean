/-! Prototype: Dialer.Dial concurrency (dial.go:168-299) as a labelled transition system.
    Untimed: timers / timeouts / context cancellation are nondeterministically enabled events. -/
namespace DialLts

/-- what the scripted DialFunc does for target k -/
inductive Script | resolveErr | refuse | ok | fail
deriving DecidableEq, Repr

inductive Feeder
  | wait (k : Nat)   -- in the `select` before sending target k (k ≥ 1)
  | send (k : Nat)   -- blocked on `targetChan <- target k`
  | done             -- closed targetChan
deriving DecidableEq, Repr

inductive Worker
  | idle | dial (k : Nat) (late : Bool) | sendErr (k : Nat) | sendConn (k : Nat) | exited
deriving DecidableEq, Repr

inductive Ret | conn (k : Nat) | ctxErr | errs (ks : List Nat)
deriving DecidableEq, Repr

structure St where
  feeder : Feeder
  workers : List Worker
  ctxDone : Bool
  errs : List Nat            -- errors collected so far (by target index)
  ret : Option Ret
  errClosed : Bool
  closed : List Nat          -- connections closed by sendConn
  established : List Nat     -- connections DialFunc returned
  lateStarts : List (Nat × Bool)   -- attempts started after `ret` with their ctx state
deriving DecidableEq, Repr

inductive Label
  | parentCancel
  | feederGo            -- timer / ctx.Done in the feeder's select
  | handoff (w : Nat)   -- targetChan rendezvous with worker w
  | closeTargets
  | prep (w : Nat)      -- worker w leaves pre-dial checks (err target / refuse / start dial)
  | finish (w : Nat)    -- DialFunc returns for worker w
  | errRecv (w : Nat)   -- errChan rendezvous worker w -> collector (+ wake)
  | errDrop (w : Nat)   -- sendErr sees ctx.Done
  | connRecv (w : Nat)  -- connChan rendezvous: collector returns this conn
  | connClose (w : Nat) -- sendConn sees ctx.Done: closes conn
  | workerExit (w : Nat)
  | closeErr            -- closer: all workers exited
  | collectClosed       -- collector sees errChan closed
  | collectCtx          -- collector sees ctx.Done
deriving DecidableEq, Repr

def setW (ws : List Worker) (i : Nat) (w : Worker) : List Worker := ws.set i w

def init (nTargets nWorkers : Nat) : St :=
  { feeder := if nTargets = 0 then .done else .send 0,
    workers := List.replicate nWorkers .idle, ctxDone := false, errs := [], ret := none,
    errClosed := false, closed := [], established := [], lateStarts := [] }

def step (script : List Script) (s : St) : Label → Option St
  | .parentCancel => if s.ctxDone then none else some { s with ctxDone := true }
  | .feederGo => match s.feeder with
    | .wait k => some { s with feeder := .send k }
    | _ => none
  | .handoff w => match s.feeder, s.workers[w]? with
    | .send k, some .idle =>
      some { s with workers := setW s.workers w (.dial k s.ctxDone),   -- `late` recorded at prep
                    feeder := if k + 1 < script.length then .wait (k + 1) else .done }
    | _, _ => none
  | .closeTargets => none  -- folded into handoff (feeder := done means channel closed)
  | .prep _ => none        -- folded into finish for the prototype
  | .finish w => match s.workers[w]? with
    | some (.dial k _) => match script[k]? with
      | some .ok => some { s with workers := setW s.workers w (.sendConn k), established := k :: s.established }
      | some _ => some { s with workers := setW s.workers w (.sendErr k) }
      | none => none
    | _ => none
  | .errRecv w => match s.workers[w]?, s.ret with
    | some (.sendErr k), none =>
      some { s with workers := setW s.workers w .idle, errs := s.errs ++ [k],
                    feeder := match s.feeder with | .wait j => .send j | f => f }  -- wake()
    | _, _ => none
  | .errDrop w => match s.workers[w]? with
    | some (.sendErr _) => if s.ctxDone then some { s with workers := setW s.workers w .idle } else none
    | _ => none
  | .connRecv w => match s.workers[w]?, s.ret with
    | some (.sendConn k), none =>
      some { s with workers := setW s.workers w .idle, ret := some (.conn k), ctxDone := true }
    | _, _ => none
  | .connClose w => match s.workers[w]? with
    | some (.sendConn k) =>
      if s.ctxDone then some { s with workers := setW s.workers w .idle, closed := k :: s.closed } else none
    | _ => none
  | .workerExit w => match s.workers[w]?, s.feeder with
    | some .idle, .done => some { s with workers := setW s.workers w .exited }
    | _, _ => none
  | .closeErr => if !s.errClosed && s.workers.all (· == .exited) then some { s with errClosed := true } else none
  | .collectClosed => match s.ret with
    | none => if s.errClosed then some { s with ret := some (.errs s.errs), ctxDone := true } else none
    | some _ => none
  | .collectCtx => match s.ret with
    | none => if s.ctxDone then some { s with ret := some .ctxErr } else none
    | some _ => none

def allLabels (nW : Nat) : List Label :=
  [.parentCancel, .feederGo, .closeErr, .collectClosed, .collectCtx] ++
  (List.range nW).flatMap (fun w => [.handoff w, .finish w, .errRecv w, .errDrop w, .connRecv w, .connClose w, .workerExit w])

/-- bounded exploration, used here only to sanity-check the model (NOT a proof) -/
partial def explore (script : List Script) (nW : Nat) (frontier : List St) (seen : List St) : List St :=
  match frontier with
  | [] => seen
  | s :: rest =>
    let succ := (allLabels nW).filterMap (step script s)
    let new := succ.filter (fun t => !(seen.contains t) && !(rest.contains t)) |>.eraseDups
    explore script nW (rest ++ new) (s :: seen)

def final (s : St) : Bool := s.ret.isSome && s.errClosed

def checkState (s : St) : Bool :=
  -- every established connection is returned, closed, or still held by a worker
  s.established.all (fun k => s.ret == some (.conn k) || s.closed.contains k ||
      s.workers.any (· == .sendConn k)) &&
  -- after return ctx is done
  (s.ret.isNone || s.ctxDone || s.ret == some .ctxErr)

def deadlocks (script : List Script) (nW : Nat) (ss : List St) : List St :=
  ss.filter (fun s => !final s && ((allLabels nW).filterMap (step script s)).isEmpty)

#eval
  let script := [Script.fail, .ok, .ok]
  let ss := explore script 2 [init 3 2] []
  (ss.length, ss.all checkState, (deadlocks script 2 ss).length, (ss.filter final).length)

end DialLts
