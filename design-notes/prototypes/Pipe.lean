/-! Prototype: chunked transport, io.ReadFull, readRecord, and the read-side pipe invariant (C07),
    for the identity transform (no hello rewriting) -/
abbrev Bytes := List UInt8
namespace Pipe

inductive IOErr | eof | other
deriving DecidableEq, Repr

/-- remaining client→server transport: chunks as the kernel will hand them out, then `fin` -/
structure Tr where
  chunks : List Bytes
  fin : IOErr
deriving Repr

def Tr.stream (t : Tr) : Bytes := t.chunks.flatten

/-- one `conn.Read(buf)` with `len(buf) = k` -/
def Tr.read1 (k : Nat) (t : Tr) : Bytes × Option IOErr × Tr :=
  match t.chunks with
  | [] => ([], some t.fin, t)
  | c :: cs =>
    if c.length ≤ k then (c, none, { t with chunks := cs })
    else (c.take k, none, { t with chunks := c.drop k :: cs })

theorem read1_stream (k : Nat) (t : Tr) :
    let r := t.read1 k
    r.1 ++ r.2.2.stream = t.stream ∧ r.1.length ≤ k ∧ r.2.2.fin = t.fin := by
  unfold Tr.read1 Tr.stream
  cases h : t.chunks with
  | nil => simp [h]
  | cons c cs =>
    simp only
    split
    · simp [*]
    · refine ⟨?_, ?_, rfl⟩
      · simp [← List.append_assoc, List.take_append_drop]
      · simp [List.length_take]; exact Nat.min_le_left _ _

/-- `io.ReadFull(conn, buf[:k])` — returns what was read and the error (EOF only if nothing read;
    ErrUnexpectedEOF is mapped to EOF by the caller, as readRecord does). Fuel bounds the loop. -/
def Tr.readFull : Nat → Nat → Tr → Bytes × Option IOErr × Tr
  | 0, _, t => ([], some .other, t)          -- out of fuel: unreachable with fuel = chunks+1
  | _, 0, t => ([], none, t)
  | fuel+1, k+1, t =>
    match t.read1 (k+1) with
    | (d, some e, t') => (d, some e, t')
    | (d, none, t') =>
      let (d2, e, t'') := Tr.readFull fuel (k + 1 - d.length) t'
      (d ++ d2, e, t'')

theorem readFull_stream (fuel k : Nat) (t : Tr) :
    let r := Tr.readFull fuel k t
    r.1 ++ r.2.2.stream = t.stream ∧ r.1.length ≤ k := by
  induction fuel generalizing k t with
  | zero => simp [Tr.readFull]
  | succ n ih =>
    cases k with
    | zero => simp [Tr.readFull]
    | succ k =>
      simp only [Tr.readFull]
      have h1 := read1_stream (k+1) t
      rcases hr : t.read1 (k+1) with ⟨d, e, t'⟩
      rw [hr] at h1
      simp only at h1
      cases e with
      | some e => simp; exact ⟨h1.1, h1.2.1⟩
      | none =>
        simp only
        have h2 := ih (k + 1 - d.length) t'
        rcases hr2 : Tr.readFull n (k + 1 - d.length) t' with ⟨d2, e2, t''⟩
        rw [hr2] at h2
        simp only at h2 ⊢
        constructor
        · rw [List.append_assoc, h2.1, h1.1]
        · have := h1.2.1; have := h2.2; simp; omega

/-- read-side state (identity transform): bytes already handed to the caller, pending buffer -/
structure St where
  readBuf : Bytes
  readErr : Option IOErr
  pt : Bool
deriving Repr

def recLen (hdr : Bytes) : Nat :=
  match hdr with
  | [_, _, _, a, b] => a.toNat * 256 + b.toNat
  | _ => 0

/-- tls.go readRecord (with the length limit as a parameter) -/
def readRecord (lim : Nat) (t : Tr) : Bytes × Option IOErr × Tr :=
  match Tr.readFull (t.chunks.length + 1) 5 t with
  | (h, some e, t') => (h, some e, t')
  | (h, none, t') =>
    if recLen h > lim then (h, some .other, t')
    else
      let (b, e, t'') := Tr.readFull (t'.chunks.length + 1) (recLen h) t'
      (h ++ b, e, t'')

theorem readRecord_stream (lim : Nat) (t : Tr) :
    let r := readRecord lim t
    r.1 ++ r.2.2.stream = t.stream := by
  unfold readRecord
  have h1 := readFull_stream (t.chunks.length + 1) 5 t
  rcases hr : Tr.readFull (t.chunks.length + 1) 5 t with ⟨h, e, t'⟩
  rw [hr] at h1
  cases e with
  | some e => simpa using h1.1
  | none =>
    simp only
    split
    · simpa using h1.1
    · have h2 := readFull_stream (t'.chunks.length + 1) (recLen h) t'
      rcases hr2 : Tr.readFull (t'.chunks.length + 1) (recLen h) t' with ⟨b, e2, t''⟩
      rw [hr2] at h2
      simp only at h1 h2 ⊢
      rw [List.append_assoc, h2.1, h1.1]

/-- Conn.Read(b) with len(b) = n, identity transform; returns data and error -/
def connRead (lim n : Nat) (s : St) (t : Tr) : Bytes × Option IOErr × St × Tr :=
  let (s, t) :=
    if !s.pt && s.readBuf = [] && s.readErr.isNone then
      let (r, e, t') := readRecord lim t
      ({ s with readBuf := r, readErr := e,
                pt := s.pt || (e.isNone && r.head? = some 23) }, t')
    else (s, t)
  if s.readBuf ≠ [] then
    let d := s.readBuf.take n
    let rest := s.readBuf.drop n
    (d, if rest = [] then s.readErr else none, { s with readBuf := rest }, t)
  else match s.readErr with
    | some e => ([], some e, s, t)
    | none => let (d, e, t') := t.read1 n; (d, e, s, t')

/-- C07 (read side, identity part): whatever the chunking and the buffer size, one Read moves bytes
    from the front of (readBuf ++ transport stream) to the caller, in order, nothing lost. -/
theorem connRead_pipe (lim n : Nat) (s : St) (t : Tr) :
    let r := connRead lim n s t
    r.1 ++ r.2.2.1.readBuf ++ r.2.2.2.stream = s.readBuf ++ t.stream := by
  unfold connRead
  split
  · rename_i s1 t1 heq
    split at heq
    · have hrr := readRecord_stream lim t
      rcases hr : readRecord lim t with ⟨r, e, t'⟩
      rw [hr] at hrr heq
      simp only at hrr heq
      obtain ⟨rfl, rfl⟩ := Prod.mk.inj heq
      rename_i hc
      have hb : s.readBuf = [] := by simp at hc; exact hc.1.2
      simp only
      split
      · simp [hb, ← hrr, List.take_append_drop]
      · rename_i hne
        simp at hne
        split
        · simp [hb, hne, ← hrr]
        · have := read1_stream n t'
          rcases hr1 : t'.read1 n with ⟨d, e1, t''⟩
          rw [hr1] at this
          simp only at this ⊢
          simp [hb, hne, ← hrr, this.1]
    · obtain ⟨rfl, rfl⟩ := Prod.mk.inj heq
      split
      · simp [List.take_append_drop]
      · rename_i hne
        simp at hne
        split
        · simp [hne]
        · have := read1_stream n t
          rcases hr1 : t.read1 n with ⟨d, e1, t''⟩
          rw [hr1] at this
          simp only at this ⊢
          simp [hne, this.1]

#print axioms connRead_pipe
end Pipe
