/-! Prototype: Appendix B outer-extension substitution (ech.go:256-293) vs. a declarative spec. -/
namespace Splice

structure Ext where
  typ : Nat
  data : List Nat
deriving DecidableEq, Repr

inductive Err | illegal | decode
deriving DecidableEq, Repr

/-- Go: `for p < len(outer) && outer[p].Type != t { p++ }` expressed on the remaining suffix. -/
def seek (t : Nat) : List Ext → Option (Ext × List Ext)
  | [] => none
  | e :: es => if e.typ = t then some (e, es) else seek t es

/-- Go inner loop over the reference list, cursor = remaining suffix of outer. -/
def refsLoop : List Nat → List Ext → Except Err (List Ext)
  | [], _ => .ok []
  | t :: ts, rem =>
    if t = 0xfe0d ∨ t = 0xfd00 then .error .illegal else
    match seek t rem with
    | none => .error .illegal
    | some (e, rem') =>
      match refsLoop ts rem' with
      | .error x => .error x
      | .ok es => .ok (e :: es)

/-- Declarative spec: `xs` is obtained from `outer` by keeping exactly the extensions whose types
    are listed, given that the listed types appear in `outer` in that order. -/
def keep (refs : List Nat) (outer : List Ext) : List Ext := outer.filter (fun e => refs.contains e.typ)

theorem seek_some {t : Nat} {l : List Ext} {e : Ext} {r : List Ext} (h : seek t l = some (e, r)) :
    ∃ pre, l = pre ++ e :: r ∧ e.typ = t ∧ ∀ x ∈ pre, x.typ ≠ t := by
  induction l with
  | nil => simp [seek] at h
  | cons a as ih =>
    simp only [seek] at h
    split at h
    · simp at h; obtain ⟨rfl, rfl⟩ := h
      exact ⟨[], by simp, by assumption, by simp⟩
    · obtain ⟨pre, h1, h2, h3⟩ := ih h
      refine ⟨a :: pre, by simp [h1], h2, ?_⟩
      intro x hx
      simp at hx
      rcases hx with rfl | hx
      · assumption
      · exact h3 x hx

/-- Main characterisation: when the outer extension types are pairwise distinct, a successful
    substitution returns exactly the outer extensions whose type is referenced, in outer order,
    and the reference list is the list of their types (so: in order, no repeats, all present). -/
theorem refsLoop_eq_keep (refs : List Nat) (outer res : List Ext)
    (hnd : (outer.map (·.typ)).Nodup)
    (h : refsLoop refs outer = .ok res) :
    res = keep refs outer ∧ res.map (·.typ) = refs ∧
    (∀ t ∈ refs, t ≠ 0xfe0d ∧ t ≠ 0xfd00) := by
  induction refs generalizing outer res with
  | nil =>
    simp [refsLoop] at h; subst h
    simp [keep]
  | cons t ts ih =>
    simp only [refsLoop] at h
    split at h
    · simp at h
    · rename_i hne
      split at h
      · simp at h
      · rename_i e rem' hs
        split at h
        · simp at h
        · rename_i es hes
          simp at h; subst h
          obtain ⟨pre, hl, het, hpre⟩ := seek_some hs
          subst hl
          have hnd' : (rem'.map (·.typ)).Nodup := by
            simp [List.map_append, List.nodup_append] at hnd
            exact hnd.2.1.2
          obtain ⟨ih1, ih2, ih3⟩ := ih rem' es hnd' hes
          -- types in `pre` and `e` do not occur among ts (since ts ⊆ types of rem', all distinct)
          have hts_in : ∀ u ∈ ts, u ∈ rem'.map (·.typ) := by
            intro u hu
            rw [← ih2] at hu
            rw [ih1] at hu
            simp [keep] at hu
            obtain ⟨a, ⟨ha, _⟩, rfl⟩ := hu
            exact List.mem_map.mpr ⟨a, ha, rfl⟩
          simp [List.map_append, List.nodup_append] at hnd
          obtain ⟨hnd1, ⟨hnd2, hnd3⟩, hnd4⟩ := hnd
          refine ⟨?_, by simp [het, ih2], ?_⟩
          · -- filter over pre ++ e :: rem'
            have hpre_none : pre.filter (fun x => (t :: ts).contains x.typ) = [] := by
              apply List.filter_eq_nil_iff.mpr
              intro x hx
              simp only [List.contains_eq_mem, List.mem_cons, decide_eq_true_eq, not_or]
              refine ⟨hpre x hx, ?_⟩
              intro hmem
              have := hts_in _ hmem
              simp only [List.mem_map] at this
              obtain ⟨b, hb, hbt⟩ := this
              exact (hnd4 x hx).2 b hb hbt.symm
            have he_keep : (t :: ts).contains e.typ = true := by simp [het]
            have hrem : rem'.filter (fun x => (t :: ts).contains x.typ) = keep ts rem' := by
              simp only [keep]
              apply List.filter_congr
              intro x hx
              have hxne : x.typ ≠ t := by
                intro hxt
                exact hnd2 x hx (by rw [het, hxt])
              simp [hxne]
            simp only [keep, List.filter_append, List.filter_cons, hpre_none, he_keep, hrem,
              List.nil_append, if_true]
            rw [ih1]; rfl
          · intro u hu
            simp only [List.mem_cons] at hu
            rcases hu with rfl | hu
            · simpa [not_or] using hne
            · exact ih3 u hu

#print axioms refsLoop_eq_keep
end Splice
