/-! Prototype: NewConn watcher race as a labelled transition system. -/
namespace C10

/-- main thread program counter -/
inductive MainPc | reading | processing | closedDone | returnedOk | returnedErr
deriving DecidableEq, Repr

/-- watcher program counter -/
inductive WPc | notStarted | selecting | firing | exited
deriving DecidableEq, Repr

structure St where
  main : MainPc
  w : WPc
  helloAvail : Bool     -- the record is available on the transport
  ctxDone : Bool
  doneClosed : Bool
  deadlineSet : Bool    -- SetDeadline(now) has been called and not undone
  badEvent : Bool       -- a SetDeadline happened after `returnedOk`
deriving DecidableEq, Repr

def init : St := ⟨.reading, .notStarted, false, false, false, false, false⟩

inductive Label
  | helloArrives | ctxCancel
  | mainRead          -- blocking read completes (needs helloAvail, or deadline ⇒ error)
  | mainProcess       -- parse etc.
  | mainCloseDone | mainReturn
  | wStart | wPickDone | wPickCtx | wFire
deriving DecidableEq, Repr

/-- the code as it is today -/
def step (s : St) : Label → Option St
  | .helloArrives => if s.helloAvail then none else some { s with helloAvail := true }
  | .ctxCancel => if s.ctxDone then none else some { s with ctxDone := true }
  | .mainRead =>
    if s.main = .reading then
      if s.deadlineSet then some { s with main := .returnedErr, doneClosed := true }
      else if s.helloAvail then some { s with main := .processing } else none
    else none
  | .mainProcess => if s.main = .processing then some { s with main := .closedDone, doneClosed := true } else none
  | .mainCloseDone => none
  | .mainReturn => if s.main = .closedDone then some { s with main := .returnedOk } else none
  | .wStart => if s.w = .notStarted then some { s with w := .selecting } else none
  | .wPickDone => if s.w = .selecting ∧ s.doneClosed then some { s with w := .exited } else none
  | .wPickCtx => if s.w = .selecting ∧ s.ctxDone then some { s with w := .firing } else none
  | .wFire =>
    if s.w = .firing then
      some { s with w := .exited, deadlineSet := true,
                    badEvent := s.badEvent || (s.main = .returnedOk) }
    else none

def run : St → List Label → Option St
  | s, [] => some s
  | s, l :: ls => match step s l with
    | none => none
    | some s' => run s' ls

/-- The property is FALSE of today's code: explicit schedule. -/
theorem today_violates :
    ∃ sched s, run init sched = some s ∧ s.badEvent = true :=
  ⟨[.helloArrives, .mainRead, .mainProcess, .mainReturn, .ctxCancel, .wStart, .wPickCtx, .wFire], _, rfl, rfl⟩

/-! Candidate fix: main waits for the watcher to exit before returning
    (`close(done); <-exited`) and, on success, clears a deadline the watcher set. -/
def stepFixed (s : St) : Label → Option St
  | .mainReturn =>
    if s.main = .closedDone ∧ s.w = .exited then
      some { s with main := .returnedOk, deadlineSet := false } else none
  | .wStart => if s.w = .notStarted then some { s with w := .selecting } else none
  | l => step s l

def runFixed : St → List Label → Option St
  | s, [] => some s
  | s, l :: ls => match stepFixed s l with
    | none => none
    | some s' => runFixed s' ls

/-- invariant: once returned ok the watcher has exited, no deadline is pending, no bad event -/
def Inv (s : St) : Prop :=
  s.badEvent = false ∧ (s.main = .returnedOk → s.w = .exited ∧ s.deadlineSet = false)

instance : DecidablePred Inv := fun s => by unfold Inv; infer_instance

theorem inv_init : Inv init := by decide

theorem inv_step (s s' : St) (l : Label) (h : Inv s) (hs : stepFixed s l = some s') : Inv s' := by
  unfold Inv at *
  cases l <;> simp only [stepFixed, step] at hs <;> (repeat' split at hs) <;>
    simp at hs <;> subst hs <;> simp_all

theorem inv_run (s s' : St) (ls : List Label) (h : Inv s) (hr : runFixed s ls = some s') : Inv s' := by
  induction ls generalizing s with
  | nil => simp [runFixed] at hr; subst hr; exact h
  | cons l ls ih =>
    simp only [runFixed] at hr
    split at hr
    · simp at hr
    · rename_i s1 h1
      exact ih s1 (inv_step s s1 l h h1) hr

/-- C10: for every schedule of the fixed protocol, no SetDeadline after a successful return,
    and at a successful return no watcher deadline is pending. -/
theorem C10_no_effect_after_return (ls : List Label) (s : St) (hr : runFixed init ls = some s) :
    s.badEvent = false ∧ (s.main = .returnedOk → s.deadlineSet = false) := by
  have := inv_run init s ls inv_init hr
  exact ⟨this.1, fun h => (this.2 h).2⟩

#print axioms C10_no_effect_after_return
#print axioms today_violates
end C10
