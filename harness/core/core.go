// Package core is the generic part of the correspondence harness: cases made of op lines,
// the pipe to the Lean driver (echdrv), the comparison and the result file.
package core

import (
	"bufio"
	"bytes"
	"encoding/hex"
	"encoding/json"
	"fmt"
	"math/rand/v2"
	"os"
	"os/exec"
	"runtime"
	"sort"
	"strings"
	"sync"
	"time"
)

// Op is one line of the line protocol.
//
//	Kind 'M': the driver's answer (the model's output) must equal Want (the implementation's
//	          canonical output): correspondence.
//	Kind 'S': the line carries implementation output; the driver evaluates the executable
//	          specification predicate on it and must answer "S ok": property on the implementation.
//	Kind 'X': the Go side already evaluated a predicate on the implementation (for oracles that
//	          need Go: crypto/tls, dnsmessage, race detector ...); Line is not sent; Want is "" for
//	          pass or the failure text.
type Op struct {
	Line string
	Kind byte
	Want string
	Note string // what this op checks (for replay files)
}

// Case is one generated input / op sequence / history.
type Case struct {
	Name   string // replayable identity (stream + index + seed)
	Stream string // generator stream
	Ops    []Op
	Sig    string // model-branch signature: distinct signatures are counted
	Sample any    // written to evidence samples
	Key    string // identity of the failing input for KNOWN_FINDINGS matching ("" = Name)
}

type Failure struct {
	Case   string `json:"case"`
	Stream string `json:"stream"`
	Key    string `json:"key"`
	Kind   string `json:"kind"` // "spec" (property fails on implementation) | "corr" (model != impl)
	Op     string `json:"op"`
	Note   string `json:"note,omitempty"`
	Model  string `json:"model,omitempty"`
	Impl   string `json:"impl,omitempty"`
	Ops    []string `json:"ops"` // full op list of the case: the replay
}

type Result struct {
	Property    string         `json:"property"`
	Tier        string         `json:"tier"`
	Seed        uint64         `json:"seed"`
	Evaluations int            `json:"evaluations"`
	OpsRun      int            `json:"ops_run"`
	Distinct    int            `json:"distinct_nontrivial"`
	Rule        string         `json:"rule"`
	Exhaustive  bool           `json:"exhaustive"`
	ExhaustiveNote string      `json:"exhaustive_note,omitempty"`
	Streams     map[string]int `json:"streams"`
	Distribution map[string]int `json:"distribution"`
	Samples     []any          `json:"samples"`
	Failures    []Failure      `json:"failures"`
	SpecFail    int            `json:"spec_failures"`
	CorrFail    int            `json:"corr_failures"`
	Notes       []string       `json:"notes,omitempty"`
	WallS       float64        `json:"wall_s"`
}

// Campaign is what a property implements.
type Campaign struct {
	Property string
	Rule     string
	// Gen produces the cases (already run against the implementation) on ch.
	Gen func(env *Env, emit func(Case))
}

type Env struct {
	Tier   string
	Seed   uint64
	Rng    *rand.Rand
	Replay []string // op lines to replay instead of generating (optional)
	mu     sync.Mutex
	dist   map[string]int
	notes  []string
	exh    bool
	exhNote string
}

func (e *Env) Thorough() bool { return e.Tier == "thorough" }
func (e *Env) Count(k string) { e.mu.Lock(); e.dist[k]++; e.mu.Unlock() }
func (e *Env) Note(s string)  { e.mu.Lock(); e.notes = append(e.notes, s); e.mu.Unlock() }
func (e *Env) Exhaustive(note string) { e.mu.Lock(); e.exh = true; e.exhNote = note; e.mu.Unlock() }
// Pick returns quick or thorough value.
func (e *Env) Pick(q, t int) int {
	if e.Thorough() {
		return t
	}
	return q
}

func Hex(b []byte) string {
	if len(b) == 0 {
		return "-"
	}
	return hex.EncodeToString(b)
}

func HexList(l [][]byte) string {
	if len(l) == 0 {
		return "_"
	}
	s := make([]string, len(l))
	for i, b := range l {
		s[i] = Hex(b)
	}
	return strings.Join(s, ",")
}

func StrHexList(l []string) string {
	if len(l) == 0 {
		return "_"
	}
	s := make([]string, len(l))
	for i, b := range l {
		s[i] = Hex([]byte(b))
	}
	return strings.Join(s, ",")
}

func NatList(l []int) string {
	if len(l) == 0 {
		return "_"
	}
	s := make([]string, len(l))
	for i, b := range l {
		s[i] = fmt.Sprint(b)
	}
	return strings.Join(s, ",")
}

// driver runs a batch of lines through echdrv and returns one answer per line.
func driver(drv string, lines []string) ([]string, error) {
	if len(lines) == 0 {
		return nil, nil
	}
	cmd := exec.Command(drv)
	var in bytes.Buffer
	for _, l := range lines {
		in.WriteString(l)
		in.WriteByte('\n')
	}
	cmd.Stdin = &in
	var out, errb bytes.Buffer
	cmd.Stdout = &out
	cmd.Stderr = &errb
	if err := cmd.Run(); err != nil {
		return nil, fmt.Errorf("echdrv: %v: %s", err, errb.String())
	}
	sc := bufio.NewScanner(&out)
	sc.Buffer(make([]byte, 1<<20), 1<<28)
	var res []string
	for sc.Scan() {
		res = append(res, sc.Text())
	}
	if len(res) != len(lines) {
		return nil, fmt.Errorf("echdrv returned %d answers for %d lines (stderr: %s)", len(res), len(lines), errb.String())
	}
	return res, nil
}

// Run executes a campaign and writes the result JSON.
func Run(c Campaign, tier string, seed uint64, drv, outPath string, replay []string, only string) (*Result, error) {
	start := time.Now()
	env := &Env{Tier: tier, Seed: seed, Rng: rand.New(rand.NewPCG(seed, 0x9e3779b97f4a7c15)), dist: map[string]int{}, Replay: replay}
	res := &Result{Property: c.Property, Tier: tier, Seed: seed, Rule: c.Rule, Streams: map[string]int{}}
	sigs := map[string]bool{}
	var batch []Case
	var mu sync.Mutex
	flush := func(cases []Case) error {
		// shard over processes
		nsh := runtime.NumCPU()
		if nsh > len(cases) {
			nsh = len(cases)
		}
		if nsh == 0 {
			return nil
		}
		var wg sync.WaitGroup
		errs := make([]error, nsh)
		for sh := 0; sh < nsh; sh++ {
			wg.Add(1)
			go func(sh int) {
				defer wg.Done()
				var lines []string
				type ref struct{ ci, oi int }
				var refs []ref
				for ci := sh; ci < len(cases); ci += nsh {
					for oi, op := range cases[ci].Ops {
						if op.Kind == 'X' {
							continue
						}
						lines = append(lines, op.Line)
						refs = append(refs, ref{ci, oi})
					}
				}
				ans, err := driver(drv, lines)
				if err != nil {
					errs[sh] = err
					return
				}
				var fails []Failure
				bad := map[int]bool{}
				add := func(ci, oi int, kind, model, impl string) {
					if bad[ci] && kind == "corr" {
						return // one correspondence failure per case is enough
					}
					bad[ci] = true
					cs := cases[ci]
					key := cs.Key
					if key == "" {
						key = cs.Name
					}
					var ops []string
					for _, o := range cs.Ops {
						if o.Kind == 'X' {
							ops = append(ops, "# go-side predicate: "+o.Note+" => "+o.Want)
						} else {
							ops = append(ops, o.Line+"   # "+string(o.Kind)+" impl="+o.Want)
						}
					}
					fails = append(fails, Failure{Case: cs.Name, Stream: cs.Stream, Key: key, Kind: kind, Op: cs.Ops[oi].Line, Note: cs.Ops[oi].Note, Model: model, Impl: impl, Ops: ops})
				}
				for i, r := range refs {
					op := cases[r.ci].Ops[r.oi]
					switch op.Kind {
					case 'M':
						if ans[i] != op.Want {
							add(r.ci, r.oi, "corr", ans[i], op.Want)
						}
					case 'S':
						if ans[i] != "S ok" {
							if strings.HasPrefix(ans[i], "S fail") {
								add(r.ci, r.oi, "spec", ans[i], "")
							} else {
								add(r.ci, r.oi, "corr", ans[i], "(driver could not evaluate the spec op)")
							}
						}
					}
				}
				for ci := sh; ci < len(cases); ci += nsh {
					for oi, op := range cases[ci].Ops {
						if op.Kind == 'X' && op.Want != "" {
							add(ci, oi, "spec", "", op.Want)
						}
					}
				}
				mu.Lock()
				res.Failures = append(res.Failures, fails...)
				res.OpsRun += len(lines)
				mu.Unlock()
			}(sh)
		}
		wg.Wait()
		for _, e := range errs {
			if e != nil {
				return e
			}
		}
		return nil
	}
	var ferr error
	emit := func(cs Case) {
		if only != "" && cs.Name != only {
			return
		}
		if only != "" {
			for _, o := range cs.Ops {
				fmt.Printf("replay op: %s\n   kind=%c impl/expected: %s   (%s)\n", o.Line, o.Kind, o.Want, o.Note)
			}
		}
		res.Evaluations++
		res.Streams[cs.Stream]++
		if cs.Sig != "" && !sigs[cs.Sig] {
			sigs[cs.Sig] = true
			if len(res.Samples) < 12 && cs.Sample != nil {
				res.Samples = append(res.Samples, cs.Sample)
			}
		}
		batch = append(batch, cs)
		if len(batch) >= 20000 {
			if err := flush(batch); err != nil && ferr == nil {
				ferr = err
			}
			batch = nil
		}
	}
	c.Gen(env, emit)
	if err := flush(batch); err != nil && ferr == nil {
		ferr = err
	}
	if ferr != nil {
		return nil, ferr
	}
	res.Distinct = len(sigs)
	res.Distribution = env.dist
	res.Notes = env.notes
	res.Exhaustive = env.exh
	res.ExhaustiveNote = env.exhNote
	sort.Slice(res.Failures, func(i, j int) bool {
		a, b := res.Failures[i], res.Failures[j]
		if a.Kind != b.Kind {
			return a.Kind > b.Kind // spec first
		}
		if len(a.Ops) != len(b.Ops) {
			return len(a.Ops) < len(b.Ops)
		}
		if len(a.Op) != len(b.Op) {
			return len(a.Op) < len(b.Op)
		}
		return a.Case < b.Case
	})
	for _, f := range res.Failures {
		if f.Kind == "spec" {
			res.SpecFail++
		} else {
			res.CorrFail++
		}
	}
	if len(res.Failures) > 200 {
		// keep up to 100 of each kind so that one kind cannot hide the other
		var keep []Failure
		n := map[string]int{}
		for _, f := range res.Failures {
			if n[f.Kind] < 100 {
				n[f.Kind]++
				keep = append(keep, f)
			}
		}
		res.Failures = keep
	}
	res.WallS = time.Since(start).Seconds()
	b, _ := json.MarshalIndent(res, "", " ")
	if err := os.WriteFile(outPath, b, 0o644); err != nil {
		return nil, err
	}
	return res, nil
}
