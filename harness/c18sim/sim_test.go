// Package c18sim runs the real Dialer.Dial in testing/synctest bubbles (virtual time) over a grid of
// scripted DialFunc behaviours and writes the observed event traces plus timed monitor verdicts.
package c18sim

import (
	"context"
	"crypto/tls"
	"encoding/json"
	"errors"
	"fmt"
	"os"
	"sort"
	"strconv"
	"strings"
	"sync"
	"testing"
	"testing/synctest"
	"time"

	"github.com/c2FmZQ/ech"
)

type fakeConn struct {
	k       int
	onClose func(int)
}

func (f *fakeConn) Close() error { f.onClose(f.k); return nil }

type event struct {
	T    int64  `json:"t"` // virtual ms since start
	Kind string `json:"kind"`
	K    int    `json:"k"`
	Late bool   `json:"late,omitempty"`
	Seq  int    `json:"seq"`
}

type simCase struct {
	Name       string   `json:"name"`
	N          int      `json:"n"`
	Workers    int      `json:"workers"`
	DelayMs    int      `json:"delay_ms"`
	TimeoutMs  int      `json:"timeout_ms"`
	CancelMs   int      `json:"cancel_ms"`   // -1: never
	DeadlineMs int      `json:"deadline_ms"` // the caller's own context deadline; 0: none
	Require    bool     `json:"require"`     // RequireECH without any config list: targets are refused before dialling
	Script     []string `json:"script"`      // per target: ok:<ms> | fail:<ms> | hang
	Trace      []string `json:"trace"`       // observable events, in order
	Monitor    string   `json:"monitor"`     // "" or the first violated monitor
	Leak       bool     `json:"leak"`
	Timed      []string `json:"timed"` // the same events with their virtual time in ms
}

func runCase(t *testing.T, c *simCase) {
	defer func() {
		if r := recover(); r != nil {
			c.Leak = true
			if c.Monitor == "" {
				c.Monitor = fmt.Sprint("goroutines left behind (synctest deadlock): ", r)
			}
		}
	}()
	synctest.Test(t, func(t *testing.T) {
		var mu sync.Mutex
		var evs []event
		seq := 0
		t0 := time.Now()
		// every observation is taken under one lock, so that the recorded order is a linearisation:
		// `during` runs inside it (the caller's cancel(); reading the attempt's context).
		addf := func(kind string, k int, during func() bool) {
			mu.Lock()
			seq++
			late := false
			if during != nil {
				late = during()
			}
			evs = append(evs, event{T: time.Since(t0).Milliseconds(), Kind: kind, K: k, Late: late, Seq: seq})
			mu.Unlock()
		}
		add := func(kind string, k int, _ bool) { addf(kind, k, nil) }
		calls := map[int]int{}
		d := &ech.Dialer[*fakeConn]{RequireECH: c.Require, MaxConcurrency: c.Workers, ConcurrencyDelay: time.Duration(c.DelayMs) * time.Millisecond, Timeout: time.Duration(c.TimeoutMs) * time.Millisecond}
		d.DialFunc = func(ctx context.Context, network, addr string, tc *tls.Config) (*fakeConn, error) {
			// addr = 10.0.0.k:1
			host := strings.TrimSuffix(strings.TrimPrefix(addr, "10.0.0."), ":1")
			k, _ := strconv.Atoi(host)
			k--
			sc := c.Script[k]
			if strings.HasPrefix(sc, "rej") {
				// one attempt, two DialFunc calls: the server rejects ECH with retry configs after <ms>, and
				// the retry (with those configs) then hangs until its context ends. Both calls are the same
				// attempt: one start, one finish, one Timeout.
				mu.Lock()
				calls[k]++
				first := calls[k] == 1
				mu.Unlock()
				if first {
					addf("start", k, func() bool { return ctx.Err() != nil })
					ms, _ := strconv.Atoi(strings.Split(sc, ":")[1])
					select {
					case <-time.After(time.Duration(ms) * time.Millisecond):
						return nil, &tls.ECHRejectionError{RetryConfigList: []byte{0, 4, 1, 2, 3, 4}}
					case <-ctx.Done():
						add("finish-err", k, false)
						return nil, ctx.Err()
					}
				}
				<-ctx.Done()
				add("finish-err", k, false)
				return nil, ctx.Err()
			}
			addf("start", k, func() bool { return ctx.Err() != nil })
			if sc == "hang" {
				<-ctx.Done()
				add("finish-err", k, false)
				return nil, ctx.Err()
			}
			parts := strings.Split(sc, ":")
			ms, _ := strconv.Atoi(parts[1])
			if strings.HasPrefix(parts[0], "s") {
				// a stubborn attempt: a DialFunc stuck in a step that cannot be interrupted takes its time
				// whatever happens to its context (sok: then succeeds, sfail: then fails)
				time.Sleep(time.Duration(ms) * time.Millisecond)
				parts[0] = parts[0][1:]
			} else {
				select {
				case <-time.After(time.Duration(ms) * time.Millisecond):
				case <-ctx.Done():
					add("finish-err", k, false)
					return nil, ctx.Err()
				}
			}
			if parts[0] == "ok" {
				add("finish-ok", k, false)
				return &fakeConn{k: k, onClose: func(k int) { add("close", k, false) }}, nil
			}
			add("finish-err", k, false)
			return nil, errors.New("scripted failure")
		}
		var addrs []string
		for i := 0; i < c.N; i++ {
			if c.Script[i] == "rerr" {
				// a label of 64 octets: Resolve fails at once with ErrInvalidName
				addrs = append(addrs, fmt.Sprintf("e%d-%s.x:1", i+1, strings.Repeat("a", 64)))
			} else {
				addrs = append(addrs, fmt.Sprintf("10.0.0.%d:1", i+1))
			}
		}
		ctx, cancel := context.WithCancel(context.Background())
		defer cancel()
		if c.DeadlineMs > 0 {
			var cancelDL context.CancelFunc
			ctx, cancelDL = context.WithTimeout(ctx, time.Duration(c.DeadlineMs)*time.Millisecond)
			defer cancelDL()
		}
		if c.CancelMs >= 0 {
			go func() {
				time.Sleep(time.Duration(c.CancelMs) * time.Millisecond)
				addf("cancel", -1, func() bool { cancel(); return false })
			}()
		}
		conn, err := d.Dial(ctx, "tcp", strings.Join(addrs, ","), nil)
		switch {
		case err == nil:
			add("ret-conn", conn.k, false)
		case errors.Is(err, context.Canceled) && !strings.Contains(err.Error(), "\n") && !strings.Contains(err.Error(), "10.0.0.") && !strings.Contains(err.Error(), "-aaaa"):
			add("ret-ctx", -1, false)
		default:
			add("ret-errs", -1, false)
			mu.Lock()
			// arrival order of the joined errors: "<host>: ..." lines
			var ks []string
			for _, line := range strings.Split(err.Error(), "\n") {
				if strings.HasPrefix(line, "10.0.0.") {
					h := strings.SplitN(strings.TrimPrefix(line, "10.0.0."), ":", 2)[0]
					k, _ := strconv.Atoi(h)
					ks = append(ks, strconv.Itoa(k-1))
				} else if strings.HasPrefix(line, "e") && strings.Contains(line, "-aaaa") {
					k, _ := strconv.Atoi(strings.SplitN(line[1:], "-", 2)[0])
					ks = append(ks, strconv.Itoa(k-1))
				}
			}
			evs[len(evs)-1].Kind = "ret-errs:" + strings.Join(ks, ",")
			mu.Unlock()
		}
		retT := time.Since(t0).Milliseconds()
		// let everything settle: outstanding attempts return once their context is cancelled
		synctest.Wait()
		time.Sleep(90 * time.Second)
		synctest.Wait()
		mu.Lock()
		defer mu.Unlock()
		sort.SliceStable(evs, func(i, j int) bool { return evs[i].Seq < evs[j].Seq })
		for _, e := range evs {
			c.Timed = append(c.Timed, fmt.Sprintf("%d:%s:%d", e.T, e.Kind, e.K))
			switch {
			case e.Kind == "start":
				c.Trace = append(c.Trace, fmt.Sprintf("start:%d:%d", e.K, b2i(e.Late)))
			case e.Kind == "finish-ok":
				c.Trace = append(c.Trace, fmt.Sprintf("finish:%d:1", e.K))
			case e.Kind == "finish-err":
				c.Trace = append(c.Trace, fmt.Sprintf("finish:%d:0", e.K))
			case e.Kind == "close":
				c.Trace = append(c.Trace, fmt.Sprintf("close:%d", e.K))
			case e.Kind == "ret-conn":
				c.Trace = append(c.Trace, fmt.Sprintf("ret-conn:%d", e.K))
			default:
				c.Trace = append(c.Trace, e.Kind)
			}
		}
		c.Monitor = monitor(c, evs, retT)
	})
}

func b2i(b bool) int {
	if b {
		return 1
	}
	return 0
}

// monitor checks the timed C18 rules on the observed events.
func monitor(c0 *simCase, evs []event, retT int64) string {
	// the documented defaults
	cc := *c0
	c := &cc
	if c.Workers <= 0 {
		c.Workers = 3
	}
	if c.DelayMs <= 0 {
		c.DelayMs = 1000
	}
	if c.TimeoutMs <= 0 {
		c.TimeoutMs = 30000
	}
	preFail := func(from, to int) bool { // a target in (from, to) that fails without dialling
		for j := from + 1; j < to && j < len(c.Script); j++ {
			if c.Script[j] == "rerr" || c.Script[j] == "refuse" {
				return true
			}
		}
		return false
	}
	startT := map[int]int64{}
	inflight, maxIn := 0, 0
	lastLive := -1 // last attempt started with a live context
	var lastLiveT int64
	lastLiveSeq := 0
	_ = lastLiveSeq
	var ret *event
	cancelT := int64(-1)
	established := map[int]int64{}
	closed := map[int]bool{}
	var failT []event // DialFunc failures (time and position in the linearised record)
	for i := range evs {
		e := &evs[i]
		switch {
		case e.Kind == "cancel":
			cancelT = e.T
		case e.Kind == "start":
			if c.Script[e.K] == "rerr" || c.Script[e.K] == "refuse" {
				return fmt.Sprintf("DialFunc was called for target %d, which must fail before dialling (%s)", e.K, c.Script[e.K])
			}
			if !e.Late {
				if e.K <= lastLive {
					return fmt.Sprintf("attempt %d started after attempt %d: not in target order", e.K, lastLive)
				}
				if lastLive >= 0 {
					okGap := e.T >= lastLiveT+int64(c.DelayMs) || preFail(lastLive, e.K)
					// Otherwise the feeder was woken by a failure. A wake-up is delivered only while
					// the feeder waits in its select, i.e. after the previous hand-off (same instant
					// allowed: the order of the collector's wake() and the worker's next receive is
					// not observable), and each wake-up lets exactly one target through.
					if !okGap {
						for i := range failT {
							f := &failT[i]
							if !f.Late && f.T <= e.T && f.T >= lastLiveT {
								f.Late = true // consumed
								okGap = true
								break
							}
						}
					}
					if !okGap {
						return fmt.Sprintf("attempt %d started %dms after attempt %d without ConcurrencyDelay (%dms) having elapsed or an earlier failure", e.K, e.T-lastLiveT, lastLive, c.DelayMs)
					}
				}
				lastLive, lastLiveT, lastLiveSeq = e.K, e.T, e.Seq
			}
			startT[e.K] = e.T
			inflight++
			if inflight > maxIn {
				maxIn = inflight
			}
			if ret != nil && !e.Late {
				return fmt.Sprintf("attempt %d began after the outcome was decided with a live context", e.K)
			}
		case e.Kind == "finish-ok" || e.Kind == "finish-err":
			inflight--
			if e.T-startT[e.K] > int64(c.TimeoutMs) && !strings.HasPrefix(c.Script[e.K], "s") {
				// (a stubborn DialFunc overruns by its own fault; Dial's part is the deadline on the context)
				return fmt.Sprintf("attempt %d ran %dms, Timeout is %dms", e.K, e.T-startT[e.K], c.TimeoutMs)
			}
			if e.Kind == "finish-ok" {
				established[e.K] = e.T
			} else {
				failT = append(failT, *e)
			}
		case e.Kind == "close":
			if _, ok := established[e.K]; !ok {
				return fmt.Sprintf("connection %d closed but never established", e.K)
			}
			closed[e.K] = true
		case strings.HasPrefix(e.Kind, "ret-"):
			if ret != nil {
				return "Dial returned twice?"
			}
			ret = e
		}
	}
	// once the outcome is decided nothing paces the remaining targets any more: they are flushed (and
	// fail at once under the cancelled context) at that very instant, so that every goroutine of Dial
	// is gone as soon as the outstanding attempts have returned
	decided := int64(-1)
	if ret != nil {
		decided = ret.T
	}
	if cancelT >= 0 && (decided < 0 || cancelT < decided) {
		decided = cancelT
	}
	// (a worker held up by a stubborn attempt takes its next target when that attempt comes back)
	freed := map[int64]bool{}
	for i := range evs {
		if e := &evs[i]; (e.Kind == "finish-ok" || e.Kind == "finish-err") && strings.HasPrefix(c.Script[e.K], "s") {
			freed[e.T] = true
		}
	}
	for i := range evs {
		e := &evs[i]
		if e.Kind == "start" && e.Late && decided >= 0 && e.T > decided && !freed[e.T] {
			return fmt.Sprintf("attempt %d began %dms after the outcome was decided (at %dms): targets are still being paced although nobody waits for them - Dial's goroutines outlive the call", e.K, e.T-decided, decided)
		}
	}
	if maxIn > c.Workers {
		return fmt.Sprintf("%d attempts in flight, MaxConcurrency is %d", maxIn, c.Workers)
	}
	if ret == nil {
		return "Dial did not return"
	}
	for k := range established {
		if !(ret.Kind == "ret-conn" && ret.K == k) && !closed[k] {
			return fmt.Sprintf("established connection %d was neither returned nor closed", k)
		}
		if ret.Kind == "ret-conn" && ret.K == k && closed[k] {
			return fmt.Sprintf("the returned connection %d was closed by Dial", k)
		}
	}
	switch {
	case ret.Kind == "ret-conn":
		t, ok := established[ret.K]
		if !ok {
			return fmt.Sprintf("returned connection %d which was never established", ret.K)
		}
		for k, tk := range established {
			if tk < t {
				return fmt.Sprintf("connection %d succeeded at %dms, before the returned connection %d (%dms): not the first success", k, tk, ret.K, t)
			}
		}
		if ret.T != t {
			return fmt.Sprintf("connection established at %dms but Dial returned at %dms", t, ret.T)
		}
	case ret.Kind == "ret-ctx":
		if cancelT < 0 {
			return "Dial returned a context error although the caller never cancelled"
		}
		if ret.T != cancelT {
			return fmt.Sprintf("cancelled at %dms, Dial returned at %dms: not prompt", cancelT, ret.T)
		}
	default: // joined errors
		ks := strings.Split(strings.TrimPrefix(ret.Kind, "ret-errs:"), ",")
		if ret.Kind == "ret-errs:" {
			ks = nil
		}
		// once the caller has cancelled, workers may drop their errors (sendErr sees ctx.Done) and the
		// collector may still find errChan closed first: the join is complete only without cancellation
		// (the hypothesis of C18_errors_joined)
		if len(ks) != c.N && !(cancelT >= 0 && cancelT <= ret.T) {
			return fmt.Sprintf("no connection: %d errors joined for %d targets", len(ks), c.N)
		}
	}
	_ = retT
	return ""
}

func TestTraces(t *testing.T) {
	out := os.Getenv("C18_OUT")
	if out == "" {
		t.Skip("C18_OUT not set")
	}
	thorough := os.Getenv("C18_TIER") == "thorough"
	seed, _ := strconv.Atoi(os.Getenv("C18_SEED"))
	var cases []*simCase
	idx := seed
	family := func(fam string, alphabet []string, maxN int, keep func(cur []string) bool, thin int, mk func(c *simCase)) {
		var rec func(n int, cur []string)
		rec = func(n int, cur []string) {
			if len(cur) == n {
				if keep != nil && !keep(cur) {
					return
				}
				for w := 1; w <= 3; w++ {
					for _, cancelMs := range []int{-1, 0, 120, 1500} {
						idx++
						if n >= 3 && thin > 1 && (idx*7919/13)%thin != 0 {
							continue
						}
						c := &simCase{Name: fmt.Sprintf("%s/n%d/w%d/c%d/%s", fam, n, w, cancelMs, strings.Join(cur, ",")), N: n, Workers: w, DelayMs: 100, TimeoutMs: 1000, CancelMs: cancelMs, Script: append([]string{}, cur...)}
						if mk != nil {
							mk(c)
						}
						cases = append(cases, c)
					}
				}
				return
			}
			for _, s := range alphabet {
				rec(n, append(cur, s))
			}
		}
		for n := 1; n <= maxN; n++ {
			rec(n, nil)
		}
	}
	hasRerr := func(cur []string) bool {
		for _, s := range cur {
			if s == "rerr" {
				return true
			}
		}
		return false
	}
	if thorough {
		family("dial", []string{"ok:0", "ok:50", "ok:150", "fail:0", "fail:50", "fail:150", "hang", "ok:2000"}, 3, nil, 1, nil)
		family("dial4", []string{"ok:0", "ok:150", "fail:0", "fail:50", "hang", "ok:2000"}, 4, func(cur []string) bool { return len(cur) == 4 }, 5, nil)
		family("rerr", []string{"rerr", "ok:0", "ok:150", "fail:50", "hang"}, 4, hasRerr, 3, nil)
	} else {
		family("dial", []string{"ok:0", "ok:50", "ok:150", "fail:0", "fail:50", "fail:150", "hang", "ok:2000"}, 3, nil, 3, nil)
		family("rerr", []string{"rerr", "ok:0", "ok:150", "fail:50", "hang"}, 3, hasRerr, 2, nil)
	}
	family("require", []string{"rerr", "refuse"}, 3, nil, 1, func(c *simCase) { c.Require = true })
	// the documented defaults: MaxConcurrency 3, ConcurrencyDelay 1s, Timeout 30s
	family("defaults", []string{"hang", "ok:0", "fail:50", "ok:5000"}, 4, func(cur []string) bool { return len(cur) == 4 }, 2, func(c *simCase) {
		c.Workers, c.DelayMs, c.TimeoutMs = 0, 0, 0
		if c.CancelMs == 1500 {
			c.CancelMs = 45000
		}
	})
	// options given as negative numbers mean "the default" just like zero
	family("negative", []string{"hang", "ok:0", "fail:50", "ok:5000"}, 4, func(cur []string) bool { return len(cur) == 4 }, 4, func(c *simCase) {
		c.Workers, c.DelayMs, c.TimeoutMs = -1, -250, -30000
		switch c.CancelMs % 3 {
		case 0:
			c.DelayMs = 100
		case 1:
			c.TimeoutMs = 1000
		}
		if c.CancelMs == 1500 {
			c.CancelMs = 45000
		}
	})
	// attempts that do not react to their context: the outcome is still decided, and Dial still returns,
	// at the first success / at the caller's cancellation, not when the stragglers come back
	family("stubborn", []string{"sok:300", "sfail:300", "ok:50", "fail:0", "sok:2000"}, 3, func(cur []string) bool {
		for _, s := range cur {
			if strings.HasPrefix(s, "s") {
				return true
			}
		}
		return false
	}, 2, nil)
	// an attempt that is rejected by the server's ECH and retried with the retry configs is still one
	// attempt: the Timeout covers both calls
	family("echretry", []string{"rej:300", "rej:700", "ok:50", "fail:0", "hang"}, 3, func(cur []string) bool {
		for _, s := range cur {
			if strings.HasPrefix(s, "rej") {
				return true
			}
		}
		return false
	}, 2, nil)
	// a caller whose own deadline is far away: each attempt is still bounded by the Dialer's Timeout
	family("deadline", []string{"hang", "ok:0", "fail:50", "ok:2000", "rej:700"}, 3, func(cur []string) bool {
		for _, s := range cur {
			if s == "hang" || s == "ok:2000" {
				return true
			}
		}
		return false
	}, 3, func(c *simCase) { c.DeadlineMs = 3600000 })
	reps := 2
	if thorough {
		reps = 5
	}
	var all []*simCase
	for rep := 0; rep < reps; rep++ {
		for _, c := range cases {
			cc := *c
			cc.Name = fmt.Sprintf("%s#%d", c.Name, rep)
			runCase(t, &cc)
			all = append(all, &cc)
		}
	}
	b, _ := json.Marshal(all)
	if err := os.WriteFile(out, b, 0o644); err != nil {
		t.Fatal(err)
	}
	t.Logf("%d cases", len(all))
}
