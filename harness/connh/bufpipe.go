package connh

import (
	"io"
	"net"
	"os"
	"sync"
	"time"
)

// BufPipe is an in-memory full-duplex connection with unbounded buffering (unlike net.Pipe,
// a Write never waits for the peer), so that a peer that stops reading cannot dead-lock a test.
type bufHalf struct {
	mu     sync.Mutex
	cond   *sync.Cond
	buf    []byte
	closed bool // writer closed: reader gets EOF after draining
}

type BufConn struct {
	rd, wr   *bufHalf
	mu       sync.Mutex
	deadline time.Time
	closed   bool
}

func NewBufPipe() (*BufConn, *BufConn) {
	a, b := &bufHalf{}, &bufHalf{}
	a.cond = sync.NewCond(&a.mu)
	b.cond = sync.NewCond(&b.mu)
	return &BufConn{rd: a, wr: b}, &BufConn{rd: b, wr: a}
}

func (c *BufConn) Read(p []byte) (int, error) {
	h := c.rd
	h.mu.Lock()
	defer h.mu.Unlock()
	for len(h.buf) == 0 {
		if h.closed {
			return 0, io.EOF
		}
		c.mu.Lock()
		closed, dl := c.closed, c.deadline
		c.mu.Unlock()
		if closed {
			return 0, net.ErrClosed
		}
		if !dl.IsZero() && !time.Now().Before(dl) {
			return 0, os.ErrDeadlineExceeded
		}
		// wake up periodically to notice deadlines
		t := time.AfterFunc(20*time.Millisecond, h.cond.Broadcast)
		h.cond.Wait()
		t.Stop()
	}
	n := copy(p, h.buf)
	h.buf = h.buf[n:]
	return n, nil
}

func (c *BufConn) Write(p []byte) (int, error) {
	c.mu.Lock()
	closed := c.closed
	c.mu.Unlock()
	if closed {
		return 0, net.ErrClosed
	}
	h := c.wr
	h.mu.Lock()
	defer h.mu.Unlock()
	if h.closed {
		return 0, io.ErrClosedPipe
	}
	h.buf = append(h.buf, p...)
	h.cond.Broadcast()
	return len(p), nil
}

func (c *BufConn) Close() error {
	c.mu.Lock()
	c.closed = true
	c.mu.Unlock()
	c.wr.mu.Lock()
	c.wr.closed = true
	c.wr.cond.Broadcast()
	c.wr.mu.Unlock()
	c.rd.mu.Lock()
	c.rd.cond.Broadcast()
	c.rd.mu.Unlock()
	return nil
}

func (c *BufConn) LocalAddr() net.Addr  { return fakeAddr{} }
func (c *BufConn) RemoteAddr() net.Addr { return fakeAddr{} }
func (c *BufConn) SetDeadline(t time.Time) error {
	c.mu.Lock()
	c.deadline = t
	c.mu.Unlock()
	c.rd.mu.Lock()
	c.rd.cond.Broadcast()
	c.rd.mu.Unlock()
	return nil
}
func (c *BufConn) SetReadDeadline(t time.Time) error  { return c.SetDeadline(t) }
func (c *BufConn) SetWriteDeadline(t time.Time) error { return nil }
