// Package connh drives the real ech.Conn through a scripted net.Conn and mirrors every call as a
// line of the driver protocol.
package connh

import (
	"errors"
	"io"
	"net"
	"os"
	"sync"
	"time"
)

var ErrScripted = errors.New("scripted transport failure")

// FakeConn is the scripted transport: client→server bytes are handed out chunk by chunk, then
// Fin; everything written is recorded.
type FakeConn struct {
	mu        sync.Mutex
	Chunks    [][]byte
	Fin       string // eof | fail | timeout
	Out       []byte
	Closed    bool
	Deadlines []time.Time
	Reads     int
	OnWrite   func(total int) // called once after a Write has delivered its bytes to the client (no lock held)
	DataErr   bool            // the last scripted chunk is handed out TOGETHER with the Fin error (n > 0 and err != nil in one call, as io.Reader allows)
	Block     bool            // with no chunk left, Read waits for Feed instead of reporting Fin
	Waiting   int             // readers currently waiting
	cond      *sync.Cond
}

// Wake is called (with mu held or not) after Chunks / Block / Closed changed.
func (f *FakeConn) wake() {
	if f.cond != nil {
		f.cond.Broadcast()
	}
}

func (f *FakeConn) Read(b []byte) (int, error) {
	f.mu.Lock()
	defer f.mu.Unlock()
	f.Reads++
	if f.Closed {
		return 0, net.ErrClosed
	}
	for len(f.Chunks) == 0 && f.Block && !f.Closed {
		if f.cond == nil {
			f.cond = sync.NewCond(&f.mu)
		}
		f.Waiting++
		f.cond.Wait()
		f.Waiting--
	}
	if f.Closed {
		return 0, net.ErrClosed
	}
	if len(f.Chunks) == 0 {
		switch f.Fin {
		case "eof":
			return 0, io.EOF
		case "timeout":
			return 0, os.ErrDeadlineExceeded
		default:
			return 0, ErrScripted
		}
	}
	c := f.Chunks[0]
	if len(c) <= len(b) {
		copy(b, c)
		f.Chunks = f.Chunks[1:]
		if f.DataErr && len(f.Chunks) == 0 && !f.Block {
			switch f.Fin {
			case "eof":
				return len(c), io.EOF
			case "timeout":
				return len(c), os.ErrDeadlineExceeded
			default:
				return len(c), ErrScripted
			}
		}
		return len(c), nil
	}
	copy(b, c[:len(b)])
	f.Chunks[0] = c[len(b):]
	return len(b), nil
}

func (f *FakeConn) Write(b []byte) (int, error) {
	f.mu.Lock()
	defer f.mu.Unlock()
	if f.Closed {
		return 0, net.ErrClosed
	}
	f.Out = append(f.Out, b...)
	if hook := f.OnWrite; hook != nil {
		f.OnWrite = nil
		total := len(f.Out)
		f.mu.Unlock()
		hook(total)
		f.mu.Lock()
	}
	return len(b), nil
}

func (f *FakeConn) Close() error {
	f.mu.Lock()
	defer f.mu.Unlock()
	f.Closed = true
	f.wake()
	return nil
}

// SetBlock switches the waiting mode; Append adds client bytes and wakes a waiting reader.
func (f *FakeConn) SetBlock(b bool) {
	f.mu.Lock()
	f.Block = b
	f.wake()
	f.mu.Unlock()
}

func (f *FakeConn) Append(chunks [][]byte, fin string) {
	f.mu.Lock()
	for _, c := range chunks {
		f.Chunks = append(f.Chunks, append([]byte{}, c...))
	}
	f.Fin = fin
	f.Block = false
	f.wake()
	f.mu.Unlock()
}

func (f *FakeConn) WaitingReaders() int {
	f.mu.Lock()
	defer f.mu.Unlock()
	return f.Waiting
}

type fakeAddr struct{}

func (fakeAddr) Network() string { return "fake" }
func (fakeAddr) String() string  { return "fake" }

func (f *FakeConn) LocalAddr() net.Addr  { return fakeAddr{} }
func (f *FakeConn) RemoteAddr() net.Addr { return fakeAddr{} }
func (f *FakeConn) SetDeadline(t time.Time) error {
	f.mu.Lock()
	defer f.mu.Unlock()
	f.Deadlines = append(f.Deadlines, t)
	return nil
}
func (f *FakeConn) SetReadDeadline(t time.Time) error  { return nil }
func (f *FakeConn) SetWriteDeadline(t time.Time) error { return nil }
