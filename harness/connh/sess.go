package connh

import (
	"bytes"
	"context"
	"crypto/ecdh"
	"crypto/hpke"
	"errors"
	"fmt"
	"io"
	"net"
	"os"
	"strings"
	"time"

	"github.com/c2FmZQ/ech"

	"verifharness/core"
	"verifharness/gen"
)

// Sess is one case of the Conn family: it accumulates the op lines and runs the implementation.
type Sess struct {
	wscratch []byte // reused write buffer (see Write)
	Keys     []ech.Key
	Ops      []core.Op
	Fake     *FakeConn
	Conn     *ech.Conn
	seen     int // bytes of Fake.Out already reported
	recip    map[int]*hpke.Recipient
	info     map[int]sealInfo
	// what the real AEAD decided for registered records (validation of the ideal-HPKE table)
	Opened []OpenFact
}

type sealInfo struct {
	kem, kdf, aead int
	info, enc      []byte
}

type OpenFact struct {
	Key int
	Seq int
	PT  []byte
}

func (s *Sess) m(line, want, note string) {
	s.Ops = append(s.Ops, core.Op{Line: line, Kind: 'M', Want: want, Note: note})
}

// X adds a Go-side specification predicate result ("" = holds).
func (s *Sess) X(note, fail string) {
	s.Ops = append(s.Ops, core.Op{Kind: 'X', Note: note, Want: fail})
}

// S adds a Lean-side specification predicate op.
func (s *Sess) S(line, note string) {
	s.Ops = append(s.Ops, core.Op{Line: line, Kind: 'S', Note: note})
}

func NewSess(keys []ech.Key) *Sess {
	s := &Sess{Keys: keys, recip: map[int]*hpke.Recipient{}, info: map[int]sealInfo{}}
	s.m("reset", "ok", "")
	// the application has looked at its configs before (to derive the next key generation, say) and
	// edited what Spec() gave it: that is its own copy
	for _, k := range keys {
		// (parsed from a copy of the bytes: the parsed byte fields are views into what was parsed)
		if spec, err := ech.Config(bytes.Clone(k.Config)).Spec(); err == nil {
			for i := range spec.CipherSuites {
				spec.CipherSuites[i].KDF, spec.CipherSuites[i].AEAD = 0x7777, 0x7777
			}
			for i := range spec.PublicName {
				spec.PublicName[i] = '#'
			}
			for i := range spec.PublicKey {
				spec.PublicKey[i] ^= 0xff
			}
		}
	}
	for _, k := range keys {
		s.m(fmt.Sprintf("key %s %s", core.Hex(k.Config), core.Hex(k.PrivateKey)), "ok", "")
		if spec, err := ech.Config(k.Config).Spec(); err == nil {
			// ParseHPKEPrivateKey succeeds iff the KEM is X25519 and the scalar is well-formed
			if spec.KEM == 0x20 {
				if _, err := ecdh.X25519().NewPrivateKey(k.PrivateKey); err == nil {
					s.m(fmt.Sprintf("hpke-priv %d %s", spec.KEM, core.Hex(k.PrivateKey)), "ok", "")
				}
			}
		}
	}
	return s
}

// Register fills the ideal-HPKE table for one client record using the standard library's
// crypto/hpke (not the package's internal copy): for every key whose KEM is supported, whether a
// recipient context can be set up for the hello's (kdf, aead, enc), and - if the payload opens under
// that context with the independently computed ClientHelloOuterAAD - the seal itself.
func (s *Sess) Register(rec []byte) {
	h, _, err := gen.ParseRecord(rec)
	if err != nil {
		return
	}
	e, idx := gen.FindECH(h)
	if e == nil {
		return
	}
	aad := gen.AAD(h, idx, e)
	for i, k := range s.Keys {
		spec, err := ech.Config(k.Config).Spec()
		if err != nil || spec.KEM != 0x20 {
			continue
		}
		priv, err := ecdh.X25519().NewPrivateKey(k.PrivateKey)
		if err != nil {
			continue
		}
		if e.KDF != 1 || e.AEAD < 1 || e.AEAD > 3 {
			continue // the package supports HKDF-SHA256 and the three RFC 9180 AEADs only
		}
		kdf, _ := hpke.NewKDF(e.KDF)
		aead, _ := hpke.NewAEAD(e.AEAD)
		hk, err := hpke.NewDHKEMPrivateKey(priv)
		if err != nil {
			continue
		}
		info := append([]byte("tls ech\x00"), k.Config...)
		if len(e.Enc) > 0 {
			r, err := hpke.NewRecipient(e.Enc, hk, kdf, aead, info)
			if err != nil {
				continue
			}
			s.m(fmt.Sprintf("hpke-setup %s %d %d %d %s", core.Hex(k.PrivateKey), spec.KEM, e.KDF, e.AEAD, core.Hex(e.Enc)), "ok", "")
			pt, err := r.Open(aad, e.Payload)
			if err != nil {
				continue
			}
			s.m(fmt.Sprintf("hpke-seal %s %d %d %d %s %s 0 %s %s %s", core.Hex(k.PrivateKey), spec.KEM, e.KDF, e.AEAD, core.Hex(info), core.Hex(e.Enc), core.Hex(aad), core.Hex(e.Payload), core.Hex(pt)), "ok", "")
			if _, dup := s.recip[i]; !dup {
				s.recip[i] = r
				s.info[i] = sealInfo{int(spec.KEM), int(e.KDF), int(e.AEAD), info, e.Enc}
			}
			s.Opened = append(s.Opened, OpenFact{i, 0, pt})
		} else if r, ok := s.recip[i]; ok {
			si := s.info[i]
			if si.kdf != int(e.KDF) || si.aead != int(e.AEAD) {
				continue
			}
			pt, err := r.Open(aad, e.Payload)
			if err != nil {
				continue
			}
			s.m(fmt.Sprintf("hpke-seal %s %d %d %d %s %s 1 %s %s %s", core.Hex(k.PrivateKey), si.kem, si.kdf, si.aead, core.Hex(si.info), core.Hex(si.enc), core.Hex(aad), core.Hex(e.Payload), core.Hex(pt)), "ok", "")
			s.Opened = append(s.Opened, OpenFact{i, 1, pt})
		}
	}
}

// ErrClass maps an error of the implementation to the canonical class.
func ErrClass(err error) string {
	switch {
	case err == nil:
		return "-"
	case errors.Is(err, ech.ErrUnexpectedMessage):
		return "unexpected"
	case errors.Is(err, ech.ErrIllegalParameter):
		return "illegal"
	case errors.Is(err, ech.ErrDecodeError):
		return "decode"
	case errors.Is(err, ech.ErrMissingExtension):
		return "missing"
	case errors.Is(err, ech.ErrDecryptError):
		return "decrypt"
	case errors.Is(err, io.EOF):
		return "io:eof"
	case errors.Is(err, ErrScripted):
		return "io:fail"
	case errors.Is(err, net.ErrClosed):
		return "io:closed"
	case errors.Is(err, os.ErrDeadlineExceeded):
		return "io:timeout"
	}
	return "other"
}

func chunksStr(chunks [][]byte) string { return core.HexList(chunks) }

type NewRes struct {
	Err       string
	Accepted  bool
	Presented bool
	SNI       string
	ALPN      []string
	Out       []byte
	Closed    bool
	Panic     string
}

func b01(b bool) int {
	if b {
		return 1
	}
	return 0
}

// New runs ech.NewConn on a fresh scripted transport.
func (s *Sess) New(chunks [][]byte, fin string) NewRes {
	cp := make([][]byte, len(chunks))
	for i, c := range chunks {
		cp[i] = append([]byte{}, c...)
	}
	// some transports report the end of the stream together with its last bytes (n > 0 and an error from
	// one Read). While NewConn reads the first record that makes no difference to anybody: io.ReadFull
	// semantics. (Switched off afterwards: a relaying Conn.Read would pass the pair on as it got it.)
	s.Fake = &FakeConn{Chunks: cp, Fin: fin, DataErr: (len(chunks)+len(s.Keys))%3 == 1}
	var res NewRes
	func() {
		defer func() {
			if r := recover(); r != nil {
				res.Err = "panic"
				res.Panic = fmt.Sprint(r)
			}
		}()
		// WithKeys appends: the key list may be handed over in one option or in several
		opts := []ech.Option{ech.WithKeys(s.Keys)}
		if n := len(s.Keys); n >= 2 && (len(chunks)+n)%2 == 0 {
			cut := 1 + (len(s.Keys[0].Config)+len(chunks))%(n-1)
			opts = []ech.Option{ech.WithKeys(s.Keys[:cut]), ech.WithKeys(s.Keys[cut:])}
		}
		if n := len(s.Keys); n >= 1 && len(chunks) > 0 && (len(s.Keys[0].Config)+len(s.Keys[0].PrivateKey)+len(chunks[0]))%3 == 0 {
			// ... and an option that adds nothing (a deployment whose second key file is empty)
			opts = append(opts, ech.WithKeys(nil))
		}
		// debugging as deployments configure it: not at all, with a function that formats what it is
		// given (log.Printf, t.Logf), or with the zero value of an optional setting. Logging observes; it
		// does not change what the connection does.
		if len(chunks) > 0 {
			switch (len(chunks[0]) + len(s.Keys)) % 4 {
			case 1:
				opts = append(opts, ech.WithDebug(func(format string, args ...any) { DebugSink = len(fmt.Sprintf(format, args...)) }))
			case 2:
				opts = append(opts, ech.WithDebug(nil))
			}
		}
		c, err := ech.NewConn(context.Background(), s.Fake, opts...)
		s.Fake.mu.Lock()
		s.Fake.DataErr = false
		s.Fake.mu.Unlock()
		s.Conn = c
		res.Err = ErrClass(err)
		res.Accepted = c.ECHAccepted()
		res.Presented = c.ECHPresented()
		res.SNI = c.ServerName()
		res.ALPN = c.ALPNProtos()
	}()
	res.Out = append([]byte{}, s.Fake.Out...)
	res.Closed = s.Fake.Closed
	s.seen = len(s.Fake.Out)
	want := fmt.Sprintf("err=%s accepted=%d presented=%d sni=%s alpn=%s out=%s closed=%d", res.Err, b01(res.Accepted), b01(res.Presented),
		core.Hex([]byte(res.SNI)), core.StrHexList(res.ALPN), core.Hex(res.Out), b01(res.Closed))
	if res.Err == "panic" {
		want = "panic " + res.Panic
	}
	s.m(fmt.Sprintf("new %s %s", chunksStr(chunks), fin), want, "NewConn")
	return res
}

// DebugSink keeps the formatting debug function from being optimised away.
var DebugSink int

// Names compares what the Conn reports about the client's hello at this point of its life.
func (s *Sess) Names() {
	if s.Conn == nil {
		return
	}
	// a caller that filters or sorts the list it was given (its own copy) and asks again later
	if got := s.Conn.ALPNProtos(); len(got) > 0 {
		for i := range got {
			got[i] = "edited-by-the-caller"
		}
		_ = append(got[:0], "x")
	}
	s.m("names", fmt.Sprintf("sni=%s alpn=%s", core.Hex([]byte(s.Conn.ServerName())), core.StrHexList(s.Conn.ALPNProtos())), "Conn.ServerName / Conn.ALPNProtos")
}

// Feed appends client bytes to the transport.
func (s *Sess) Feed(chunks [][]byte, fin string) {
	for _, c := range chunks {
		s.Fake.Chunks = append(s.Fake.Chunks, append([]byte{}, c...))
	}
	s.Fake.Fin = fin
	s.m(fmt.Sprintf("feed %s %s", chunksStr(chunks), fin), "ok", "")
}

type IORes struct {
	N      int
	Data   []byte
	Err    string
	Out    []byte // bytes written to the client during this call
	Closed bool
	Panic  string
}

func (s *Sess) outDelta() []byte {
	d := append([]byte{}, s.Fake.Out[s.seen:]...)
	s.seen = len(s.Fake.Out)
	return d
}

func (s *Sess) Read(n int) IORes {
	var res IORes
	buf := make([]byte, n)
	func() {
		defer func() {
			if r := recover(); r != nil {
				res.Err = "panic"
				res.Panic = fmt.Sprint(r)
			}
		}()
		k, err := s.Conn.Read(buf)
		res.N = k
		res.Data = buf[:k]
		res.Err = ErrClass(err)
	}()
	res.Out = s.outDelta()
	res.Closed = s.Fake.Closed
	want := fmt.Sprintf("data=%s err=%s out=%s closed=%d", core.Hex(res.Data), res.Err, core.Hex(res.Out), b01(res.Closed))
	if res.Err == "panic" {
		want = "panic " + res.Panic
	}
	s.m(fmt.Sprintf("read %d", n), want, "Conn.Read")
	return res
}

func (s *Sess) Write(b []byte) IORes {
	var res IORes
	func() {
		defer func() {
			if r := recover(); r != nil {
				res.Err = "panic"
				res.Panic = fmt.Sprint(r)
			}
		}()
		// the caller's buffer is reused, as an io.Copy relay loop does: the Conn is given a view of a
		// scratch buffer that is overwritten as soon as Write returns, so bytes it keeps for later must be its own copy
		if cap(s.wscratch) < len(b) {
			s.wscratch = make([]byte, len(b)+1024)
		}
		view := s.wscratch[:len(b)]
		copy(view, b)
		k, err := s.Conn.Write(view)
		for i := range view {
			view[i] = 0xA5
		}
		res.N = k
		res.Err = ErrClass(err)
	}()
	res.Out = s.outDelta()
	res.Closed = s.Fake.Closed
	want := fmt.Sprintf("n=%d err=%s out=%s closed=%d", res.N, res.Err, core.Hex(res.Out), b01(res.Closed))
	if res.Err == "panic" {
		want = "panic " + res.Panic
	}
	s.m("write "+core.Hex(b), want, "Conn.Write")
	return res
}

// WriteWhileReadPending is the proxy situation: one goroutine is already blocked in Conn.Read on the
// client socket when the backend's record passes through Conn.Write on another goroutine, and only
// then the client's next bytes arrive. Linearised, this is "write, feed, read", and that is what
// the model is asked; the implementation must answer the same.
func (s *Sess) WriteWhileReadPending(n int, rec []byte, chunks [][]byte, fin string) (IORes, IORes) {
	s.Fake.SetBlock(true)
	var rd IORes
	buf := make([]byte, n)
	done := make(chan struct{})
	go func() {
		defer close(done)
		defer func() {
			if r := recover(); r != nil {
				rd.Err = "panic"
				rd.Panic = fmt.Sprint(r)
			}
		}()
		k, err := s.Conn.Read(buf)
		rd.N = k
		rd.Data = buf[:k]
		rd.Err = ErrClass(err)
	}()
	for i := 0; i < 20000 && s.Fake.WaitingReaders() == 0; i++ {
		select {
		case <-done:
			i = 20000
		default:
			time.Sleep(50 * time.Microsecond)
		}
	}
	wr := s.Write(rec)
	s.m(fmt.Sprintf("feed %s %s", chunksStr(chunks), fin), "ok", "")
	s.Fake.Append(chunks, fin)
	<-done
	rd.Out = s.outDelta()
	rd.Closed = s.Fake.Closed
	want := fmt.Sprintf("data=%s err=%s out=%s closed=%d", core.Hex(rd.Data), rd.Err, core.Hex(rd.Out), b01(rd.Closed))
	if rd.Err == "panic" {
		want = "panic " + rd.Panic
	}
	s.m(fmt.Sprintf("read %d", n), want, "Conn.Read that was already pending when the backend record was written")
	return wr, rd
}

// WriteAnsweredDuring is the other proxy interleaving: a Read is pending, the backend's record is
// written, and the client answers it as soon as the bytes reach it - while Conn.Write has not yet
// returned on the writer's goroutine. What the client saw (the record) came first, so linearised
// this is again "write, feed, read".
func (s *Sess) WriteAnsweredDuring(n int, rec []byte, chunks [][]byte, fin string) (IORes, IORes) {
	s.Fake.SetBlock(true)
	var rd IORes
	buf := make([]byte, n)
	done := make(chan struct{})
	go func() {
		defer close(done)
		defer func() {
			if r := recover(); r != nil {
				rd.Err = "panic"
				rd.Panic = fmt.Sprint(r)
			}
		}()
		k, err := s.Conn.Read(buf)
		rd.N = k
		rd.Data = buf[:k]
		rd.Err = ErrClass(err)
	}()
	for i := 0; i < 20000 && s.Fake.WaitingReaders() == 0; i++ {
		select {
		case <-done:
			i = 20000
		default:
			time.Sleep(50 * time.Microsecond)
		}
	}
	mark := -1
	s.Fake.OnWrite = func(total int) {
		mark = total
		s.Fake.Append(chunks, fin)
		select {
		case <-done:
		case <-time.After(200 * time.Millisecond):
		}
	}
	var wr IORes
	func() {
		defer func() {
			if r := recover(); r != nil {
				wr.Err = "panic"
				wr.Panic = fmt.Sprint(r)
			}
		}()
		k, err := s.Conn.Write(append([]byte{}, rec...))
		wr.N = k
		wr.Err = ErrClass(err)
	}()
	if mark < 0 { // nothing was written to the client: feed now
		s.Fake.OnWrite = nil
		s.Fake.Append(chunks, fin)
		mark = len(s.Fake.Out)
	}
	<-done
	all := append([]byte{}, s.Fake.Out[s.seen:]...)
	cut := min(max(mark-s.seen, 0), len(all))
	wr.Out, rd.Out = all[:cut], all[cut:]
	s.seen = len(s.Fake.Out)
	wr.Closed = false
	rd.Closed = s.Fake.Closed
	want := fmt.Sprintf("n=%d err=%s out=%s closed=%d", wr.N, wr.Err, core.Hex(wr.Out), b01(wr.Closed))
	if wr.Err == "panic" {
		want = "panic " + wr.Panic
	}
	s.m("write "+core.Hex(rec), want, "Conn.Write (the client answers while it is still in progress)")
	s.m(fmt.Sprintf("feed %s %s", chunksStr(chunks), fin), "ok", "")
	want = fmt.Sprintf("data=%s err=%s out=%s closed=%d", core.Hex(rd.Data), rd.Err, core.Hex(rd.Out), b01(rd.Closed))
	if rd.Err == "panic" {
		want = "panic " + rd.Panic
	}
	s.m(fmt.Sprintf("read %d", n), want, "Conn.Read of the client's answer, concurrent with the Write that provoked it")
	return wr, rd
}

// Sig helper
func Short(s string) string { return strings.SplitN(s, " ", 2)[0] }
