package gen

import (
	"math/rand/v2"
)

// DNSBuilder assembles a raw DNS message byte by byte, with full control over name encoding
// (compression pointers to arbitrary offsets), counts and RDATA, independently of the package
// under test.
type DNSBuilder struct {
	B       []byte
	NameOff []int // offsets at which a name starts (targets for backward pointers)
}

func (d *DNSBuilder) Header(id uint16, flags uint16, qd, an, ns, ar int) {
	d.B = append(d.B, U16(int(id))...)
	d.B = append(d.B, U16(int(flags))...)
	d.B = append(d.B, U16(qd)...)
	d.B = append(d.B, U16(an)...)
	d.B = append(d.B, U16(ns)...)
	d.B = append(d.B, U16(ar)...)
}

// NameStyle controls how a name is written.
type NameStyle int

const (
	NamePlain      NameStyle = iota // labels + 0
	NameCompressed                  // some labels, then a pointer to an earlier name
	NamePtrOnly                     // just a pointer to an earlier name
	NameSelfPtr                     // pointer to itself
	NameFwdPtr                      // pointer forward
	NameLoopLabel                   // label(s) then pointer back to the first label: cycle through labels
	NameChain                       // pointer to a pointer to a pointer ...
	NameTruncated                   // label length larger than what follows
	NameLong                        // more than 255 octets of labels
	NameBigLabel                    // label length 64..191 (illegal per RFC, accepted as a length by the code)
)

func RandLabel(r *rand.Rand) []byte {
	n := 1 + r.IntN(12)
	if r.IntN(20) == 0 {
		n = 63
	}
	b := make([]byte, n)
	for i := range b {
		b[i] = byte('a' + r.IntN(26))
	}
	return b
}

func RandLabels(r *rand.Rand, max int) [][]byte {
	n := r.IntN(max + 1)
	var l [][]byte
	for i := 0; i < n; i++ {
		l = append(l, RandLabel(r))
	}
	return l
}

// Name appends a name in the given style and returns the labels a correct RFC 1035 decoder yields
// (nil, false when the name is malformed / cyclic).
func (d *DNSBuilder) Name(r *rand.Rand, style NameStyle, labels [][]byte) {
	start := len(d.B)
	putLabels := func(ls [][]byte) {
		for _, l := range ls {
			d.B = append(d.B, byte(len(l)))
			d.B = append(d.B, l...)
		}
	}
	ptr := func(off int) { d.B = append(d.B, 0xc0|byte(off>>8), byte(off)) }
	switch style {
	case NamePlain:
		d.NameOff = append(d.NameOff, start)
		putLabels(labels)
		d.B = append(d.B, 0)
	case NameCompressed, NamePtrOnly:
		if len(d.NameOff) == 0 {
			d.NameOff = append(d.NameOff, start)
			putLabels(labels)
			d.B = append(d.B, 0)
			return
		}
		target := d.NameOff[r.IntN(len(d.NameOff))]
		// a later name may point at this one, also when this one is nothing but a pointer (RFC 1035 4.1.4
		// allows a pointer to lead to a pointer; compressors that remember whole-name offsets write that)
		d.NameOff = append(d.NameOff, start)
		if style == NameCompressed {
			putLabels(labels)
		}
		ptr(target)
	case NameSelfPtr:
		putLabels(labels)
		ptr(len(d.B))
	case NameFwdPtr:
		putLabels(labels)
		ptr(len(d.B) + 2 + r.IntN(20))
	case NameLoopLabel:
		if len(labels) == 0 {
			labels = [][]byte{RandLabel(r)}
		}
		putLabels(labels)
		ptr(start)
	case NameChain:
		// a chain of pointers each pointing to the previous one, ending at an earlier name
		base := 12
		if len(d.NameOff) > 0 {
			base = d.NameOff[r.IntN(len(d.NameOff))]
		}
		prev := base
		for i := 0; i < 1+r.IntN(40); i++ {
			here := len(d.B)
			ptr(prev)
			prev = here
		}
	case NameTruncated:
		putLabels(labels)
		d.B = append(d.B, byte(10+r.IntN(50)))
		d.B = append(d.B, RandBytes(r, r.IntN(5))...)
	case NameLong:
		for i := 0; i < 5+r.IntN(4); i++ {
			l := make([]byte, 63)
			for j := range l {
				l[j] = 'x'
			}
			d.B = append(d.B, 63)
			d.B = append(d.B, l...)
		}
		d.B = append(d.B, 0)
	case NameBigLabel:
		n := 64 + r.IntN(128)
		d.B = append(d.B, byte(n))
		d.B = append(d.B, RandBytes(r, n)...)
		d.B = append(d.B, 0)
	}
}

func (d *DNSBuilder) Question(r *rand.Rand, style NameStyle, labels [][]byte, typ, cls int) {
	d.Name(r, style, labels)
	d.B = append(d.B, U16(typ)...)
	d.B = append(d.B, U16(cls)...)
}

// RR appends a resource record whose RDATA is produced by rdata (which may itself append names
// through the builder, so that compression pointers into and out of RDATA are possible).
func (d *DNSBuilder) RR(r *rand.Rand, style NameStyle, labels [][]byte, typ, cls int, ttl uint32, rdata func(), lenDelta int) {
	d.Name(r, style, labels)
	d.B = append(d.B, U16(typ)...)
	d.B = append(d.B, U16(cls)...)
	d.B = append(d.B, byte(ttl>>24), byte(ttl>>16), byte(ttl>>8), byte(ttl))
	lp := len(d.B)
	d.B = append(d.B, 0, 0)
	rdata()
	n := len(d.B) - lp - 2 + lenDelta
	if n < 0 {
		n = 0
	}
	d.B[lp], d.B[lp+1] = byte(n>>8), byte(n)
}
