// Package gen holds the harness's own (implementation-independent) TLS ClientHello codec and
// generators. Nothing here imports the package under test.
package gen

import (
	"errors"
	"math/rand/v2"
)

type Ext struct {
	Type uint16
	Data []byte
}

// Hello is a ClientHello in structured form (RFC 8446 4.1.2).
type Hello struct {
	Version    uint16
	Random     []byte // 32
	SID        []byte
	Suites     []byte
	Comp       []byte
	Exts       []Ext
	Trail      []byte // bytes after the extensions vector (only EncodedClientHelloInner padding)
	NoExtField bool   // the hello ends after the compression methods (legal before TLS 1.3)
}

func U16(v int) []byte     { return []byte{byte(v >> 8), byte(v)} }
func U24(v int) []byte     { return []byte{byte(v >> 16), byte(v >> 8), byte(v)} }
func LP8(b []byte) []byte  { return append([]byte{byte(len(b))}, b...) }
func LP16(b []byte) []byte { return append(U16(len(b)), b...) }
func LP24(b []byte) []byte { return append(U24(len(b)), b...) }
func Cat(bs ...[]byte) []byte {
	var out []byte
	for _, b := range bs {
		out = append(out, b...)
	}
	return out
}

func ExtBlock(es []Ext) []byte {
	var out []byte
	for _, e := range es {
		out = append(out, U16(int(e.Type))...)
		out = append(out, LP16(e.Data)...)
	}
	return out
}

// Body is the ClientHello structure (no handshake header).
func (h *Hello) Body() []byte {
	if h.NoExtField {
		return Cat(U16(int(h.Version)), h.Random, LP8(h.SID), LP16(h.Suites), LP8(h.Comp), h.Trail)
	}
	return Cat(U16(int(h.Version)), h.Random, LP8(h.SID), LP16(h.Suites), LP8(h.Comp), LP16(ExtBlock(h.Exts)), h.Trail)
}

// Msg is the handshake message (type 1 + uint24 length + body).
func (h *Hello) Msg() []byte { return Cat([]byte{1}, LP24(h.Body())) }

// Record wraps a payload into one TLS record.
func Record(typ byte, ver uint16, payload []byte) []byte {
	return Cat([]byte{typ}, U16(int(ver)), LP16(payload))
}

func (h *Hello) Record(recVer uint16) []byte { return Record(22, recVer, h.Msg()) }

var ErrParse = errors.New("parse")

type rd struct{ b []byte }

func (r *rd) n(k int) ([]byte, bool) {
	if k > len(r.b) {
		return nil, false
	}
	v := r.b[:k]
	r.b = r.b[k:]
	return v, true
}
func (r *rd) u8() (int, bool) {
	v, ok := r.n(1)
	if !ok {
		return 0, false
	}
	return int(v[0]), true
}
func (r *rd) u16() (int, bool) {
	v, ok := r.n(2)
	if !ok {
		return 0, false
	}
	return int(v[0])<<8 | int(v[1]), true
}
func (r *rd) lp8() ([]byte, bool) {
	l, ok := r.u8()
	if !ok {
		return nil, false
	}
	return r.n(l)
}
func (r *rd) lp16() ([]byte, bool) {
	l, ok := r.u16()
	if !ok {
		return nil, false
	}
	return r.n(l)
}

// ParseBody parses a ClientHello structure.
func ParseBody(b []byte) (*Hello, error) {
	r := &rd{b}
	h := &Hello{}
	v, ok := r.u16()
	if !ok {
		return nil, ErrParse
	}
	h.Version = uint16(v)
	if h.Random, ok = r.n(32); !ok {
		return nil, ErrParse
	}
	if h.SID, ok = r.lp8(); !ok {
		return nil, ErrParse
	}
	if h.Suites, ok = r.lp16(); !ok {
		return nil, ErrParse
	}
	if h.Comp, ok = r.lp8(); !ok {
		return nil, ErrParse
	}
	eb, ok := r.lp16()
	if !ok {
		return nil, ErrParse
	}
	h.Trail = r.b
	er := &rd{eb}
	for len(er.b) > 0 {
		t, ok := er.u16()
		if !ok {
			return nil, ErrParse
		}
		d, ok := er.lp16()
		if !ok {
			return nil, ErrParse
		}
		h.Exts = append(h.Exts, Ext{uint16(t), d})
	}
	return h, nil
}

// ParseRecord parses a handshake record carrying one ClientHello; returns the hello and the body bytes.
func ParseRecord(rec []byte) (*Hello, []byte, error) {
	if len(rec) < 9 || rec[0] != 22 || rec[5] != 1 {
		return nil, nil, ErrParse
	}
	n := int(rec[6])<<16 | int(rec[7])<<8 | int(rec[8])
	if 9+n > len(rec) {
		return nil, nil, ErrParse
	}
	body := rec[9 : 9+n]
	h, err := ParseBody(body)
	return h, body, err
}

// ECHOuter is the content of an outer encrypted_client_hello extension.
type ECHOuter struct {
	KDF, AEAD uint16
	ConfigID  uint8
	Enc       []byte
	Payload   []byte
}

func (e ECHOuter) Data() []byte {
	return Cat([]byte{0}, U16(int(e.KDF)), U16(int(e.AEAD)), []byte{e.ConfigID}, LP16(e.Enc), LP16(e.Payload))
}

// FindECH returns the (first) outer ECH extension of h, strictly parsed.
func FindECH(h *Hello) (*ECHOuter, int) {
	for i, e := range h.Exts {
		if e.Type != 0xfe0d {
			continue
		}
		r := &rd{e.Data}
		t, ok := r.u8()
		if !ok || t != 0 {
			return nil, -1
		}
		kdf, ok1 := r.u16()
		aead, ok2 := r.u16()
		id, ok3 := r.u8()
		enc, ok4 := r.lp16()
		pl, ok5 := r.lp16()
		if !(ok1 && ok2 && ok3 && ok4 && ok5) || len(r.b) != 0 {
			return nil, -1
		}
		return &ECHOuter{uint16(kdf), uint16(aead), uint8(id), enc, pl}, i
	}
	return nil, -1
}

// AAD computes ClientHelloOuterAAD (draft 5.2): the body with the payload zeroed.
func AAD(h *Hello, idx int, e *ECHOuter) []byte {
	c := *h
	c.Exts = append([]Ext{}, h.Exts...)
	z := *e
	z.Payload = make([]byte, len(e.Payload))
	c.Exts[idx] = Ext{0xfe0d, z.Data()}
	c.Trail = nil
	return c.Body()
}

// ---- extension builders -----------------------------------------------------------------------

func SNI(name string) Ext {
	return Ext{0, LP16(Cat([]byte{0}, LP16([]byte(name))))}
}
func ALPN(protos ...string) Ext {
	var l []byte
	for _, p := range protos {
		l = append(l, LP8([]byte(p))...)
	}
	return Ext{16, LP16(l)}
}
func Versions(vs ...uint16) Ext {
	var l []byte
	for _, v := range vs {
		l = append(l, U16(int(v))...)
	}
	return Ext{43, LP8(l)}
}
func ECHInner() Ext { return Ext{0xfe0d, []byte{1}} }
func OuterExtensions(types ...uint16) Ext {
	var l []byte
	for _, t := range types {
		l = append(l, U16(int(t))...)
	}
	return Ext{0xfd00, LP8(l)}
}

func RandBytes(r *rand.Rand, n int) []byte {
	b := make([]byte, n)
	for i := range b {
		b[i] = byte(r.IntN(256))
	}
	return b
}

var greaseTypes = []uint16{0x0a0a, 0x1a1a, 0x2a2a, 0x3a3a, 0x4a4a, 0xfafa}
var knownTypes = []uint16{5, 10, 11, 13, 18, 21, 23, 27, 35, 45, 51, 17513, 65281}

// RandomExt returns an opaque extension of a type that the package does not interpret.
func RandomExt(r *rand.Rand, used map[uint16]bool, maxLen int) Ext {
	for {
		var t uint16
		switch r.IntN(4) {
		case 0:
			t = greaseTypes[r.IntN(len(greaseTypes))]
		case 1, 2:
			t = knownTypes[r.IntN(len(knownTypes))]
		default:
			t = uint16(r.IntN(65536))
		}
		if used[t] || t == 0 || t == 16 || t == 43 || t == 0xfd00 || t == 0xfe0d {
			continue
		}
		used[t] = true
		n := 0
		switch r.IntN(5) {
		case 0:
			n = 0
		case 1:
			n = 1 + r.IntN(4)
		case 2, 3:
			n = r.IntN(40)
		default:
			n = r.IntN(maxLen + 1)
		}
		return Ext{t, RandBytes(r, n)}
	}
}

// BaseHello returns a hello with random scalar fields and no extensions.
func BaseHello(r *rand.Rand) *Hello {
	h := &Hello{Version: 0x0303, Random: RandBytes(r, 32), Comp: []byte{0}}
	switch r.IntN(4) {
	case 0:
		h.SID = nil
	case 1:
		h.SID = RandBytes(r, 1+r.IntN(31))
	default:
		h.SID = RandBytes(r, 32)
	}
	h.Suites = RandBytes(r, 2*(1+r.IntN(8)))
	if r.IntN(10) == 0 {
		h.Comp = RandBytes(r, 1+r.IntN(3))
	}
	if r.IntN(10) == 0 {
		h.Version = []uint16{0x0301, 0x0302, 0x0300, 0x0304}[r.IntN(4)]
	}
	return h
}

// HRRRandom is the special ServerHello.random of a HelloRetryRequest (RFC 8446 4.1.3).
var HRRRandom = []byte{
	0xCF, 0x21, 0xAD, 0x74, 0xE5, 0x9A, 0x61, 0x11, 0xBE, 0x1D, 0x8C, 0x02, 0x1E, 0x65, 0xB8, 0x91,
	0xC2, 0xA2, 0x11, 0x16, 0x7A, 0xBB, 0x8C, 0x5E, 0x07, 0x9E, 0x09, 0xE2, 0xC8, 0xA8, 0x33, 0x9C,
}

// ServerHelloMsg builds a ServerHello handshake message.
func ServerHelloMsg(random, sid []byte, suite uint16, exts []Ext) []byte {
	body := Cat(U16(0x0303), random, LP8(sid), U16(int(suite)), []byte{0}, LP16(ExtBlock(exts)))
	return Cat([]byte{2}, LP24(body))
}

// ServerFlight12Record is the first record of a TLS 1.2 server flight as OpenSSL / GnuTLS write it: the
// ServerHello and the handshake messages that follow it (Certificate, ServerHelloDone) in ONE record.
func ServerFlight12Record(r *rand.Rand, sid []byte, certLen int) []byte {
	sh := ServerHelloMsg(RandBytes(r, 32), sid, 0xc02f, []Ext{{0xff01, []byte{0}}, {11, []byte{1, 0}}})
	cert := Cat([]byte{11}, LP24(LP24(LP24(RandBytes(r, certLen)))))
	done := []byte{14, 0, 0, 0}
	return Record(22, 0x0303, Cat(sh, cert, done))
}

func ServerHelloRecord(r *rand.Rand, hrr bool, sid []byte) []byte {
	rnd := RandBytes(r, 32)
	if hrr {
		rnd = HRRRandom
	}
	exts := []Ext{{43, U16(0x0304)}}
	if hrr {
		exts = append(exts, Ext{51, U16(0x0017)})
	} else {
		exts = append(exts, Ext{51, Cat(U16(0x001d), LP16(RandBytes(r, 32)))})
	}
	return Record(22, 0x0303, ServerHelloMsg(rnd, sid, 0x1301, exts))
}
