package gen

import (
	"crypto/ecdh"
	"crypto/hpke"
	"math/rand/v2"
)

type Suite struct{ KDF, AEAD uint16 }

// KeyMat is one ECH key of the client-facing server.
type KeyMat struct {
	ID         uint8
	KEM        uint16
	Priv       *ecdh.PrivateKey
	PrivBytes  []byte
	Config     []byte
	PublicName string
	Suites     []Suite
}

// EncodeConfig is the harness's own draft section 4 ECHConfig encoder.
func EncodeConfig(id uint8, kem uint16, pub []byte, suites []Suite, publicName string) []byte {
	var cs []byte
	for _, s := range suites {
		cs = append(cs, U16(int(s.KDF))...)
		cs = append(cs, U16(int(s.AEAD))...)
	}
	contents := Cat([]byte{id}, U16(int(kem)), LP16(pub), LP16(cs), []byte{byte(min(len(publicName)+16, 255))}, LP8([]byte(publicName)), U16(0))
	return Cat(U16(0xfe0d), LP16(contents))
}

// EncodeConfigWith encodes an ECHConfig with an arbitrary maximum_name_length and extension block
// (configs written by other tools are not in this library's canonical form).
func EncodeConfigWith(id uint8, kem uint16, pub []byte, suites []Suite, publicName string, maxName uint8, exts []Ext) []byte {
	var cs []byte
	for _, s := range suites {
		cs = append(cs, U16(int(s.KDF))...)
		cs = append(cs, U16(int(s.AEAD))...)
	}
	var eb []byte
	for _, e := range exts {
		eb = append(eb, Cat(U16(int(e.Type)), LP16(e.Data))...)
	}
	contents := Cat([]byte{id}, U16(int(kem)), LP16(pub), LP16(cs), []byte{maxName}, LP8([]byte(publicName)), LP16(eb))
	return Cat(U16(0xfe0d), LP16(contents))
}

func NewKey(r *rand.Rand, id uint8, publicName string, suites []Suite) *KeyMat {
	pb := RandBytes(r, 32)
	priv, err := ecdh.X25519().NewPrivateKey(pb)
	if err != nil {
		panic(err)
	}
	k := &KeyMat{ID: id, KEM: 0x20, Priv: priv, PrivBytes: pb, PublicName: publicName, Suites: suites,
		Config: EncodeConfig(id, 0x20, priv.PublicKey().Bytes(), suites, publicName)}
	// a third of the keys carry a config that is valid but not in the library's canonical form:
	// another maximum_name_length and / or (non-mandatory) config extensions. The HPKE info string is
	// built from these exact bytes on both sides.
	if r.IntN(3) == 0 {
		maxName := uint8(r.IntN(256))
		var exts []Ext
		for i := r.IntN(3); i > 0; i-- {
			exts = append(exts, Ext{Type: uint16(0x1000 + r.IntN(0x1000) + i), Data: RandBytes(r, r.IntN(12))})
		}
		k.Config = EncodeConfigWith(id, 0x20, priv.PublicKey().Bytes(), suites, publicName, maxName, exts)
	}
	return k
}

var AllSuites = []Suite{{1, 3}, {1, 2}, {1, 1}}

// Sealed is an honest ECH ClientHelloOuter.
type Sealed struct {
	Outer    *Hello
	Rec      []byte
	PT       []byte // EncodedClientHelloInner incl. padding
	Enc      []byte
	Payload  []byte
	AAD      []byte
	ECHIndex int
	Sender   *hpke.Sender
	Key      *KeyMat
	Suite    Suite
}

// Seal builds ClientHelloOuter = base with an ECH extension inserted at echPos, sealing pt to key
// with the standard library's HPKE. sender == nil: first hello (fresh context, enc sent);
// otherwise a retried hello (same context, empty enc).
func Seal(base *Hello, echPos int, key *KeyMat, suite Suite, pt []byte, sender *hpke.Sender, recVer uint16) *Sealed {
	return SealAs(base, echPos, key, key.ID, suite, pt, sender, recVer)
}

// forceEnc, when set, is the enc field written into (and authenticated with) the extension, whatever the sender.
var forceEnc []byte

// SealRepeatingEnc seals a second hello with the first hello's HPKE context like Seal, but the extension repeats
// a non-empty enc (which the AAD then covers): authentic in every respect except that enc must be empty.
func SealRepeatingEnc(base *Hello, echPos int, key *KeyMat, suite Suite, pt []byte, sender *hpke.Sender, enc []byte, recVer uint16) *Sealed {
	forceEnc = enc
	defer func() { forceEnc = nil }()
	return Seal(base, echPos, key, suite, pt, sender, recVer)
}

// SealAs is Seal with the config_id field of the extension chosen freely: the payload is
// authentically sealed to key (its public key, its config in the info string, the AAD of this very
// hello), but the extension names configID.
func SealAs(base *Hello, echPos int, key *KeyMat, configID uint8, suite Suite, pt []byte, sender *hpke.Sender, recVer uint16) *Sealed {
	return SealInfo(base, echPos, key, configID, nil, suite, pt, sender, recVer)
}

// SealInfo is SealAs with the HPKE info string chosen freely (nil = the standard "tls ech\0" || config).
func SealInfo(base *Hello, echPos int, key *KeyMat, configID uint8, info []byte, suite Suite, pt []byte, sender *hpke.Sender, recVer uint16) *Sealed {
	s := &Sealed{Key: key, Suite: suite, PT: pt}
	kdf, err := hpke.NewKDF(suite.KDF)
	if err != nil {
		panic(err)
	}
	aead, err := hpke.NewAEAD(suite.AEAD)
	if err != nil {
		panic(err)
	}
	if sender == nil {
		pk, err := hpke.NewDHKEMPublicKey(key.Priv.PublicKey())
		if err != nil {
			panic(err)
		}
		if info == nil {
			info = append([]byte("tls ech\x00"), key.Config...)
		}
		enc, snd, err := hpke.NewSender(pk, kdf, aead, info)
		if err != nil {
			panic(err)
		}
		s.Enc, sender = enc, snd
	}
	if forceEnc != nil {
		s.Enc = forceEnc
	}
	s.Sender = sender
	o := *base
	o.Exts = nil
	echPos = min(echPos, len(base.Exts))
	o.Exts = append(o.Exts, base.Exts[:echPos]...)
	e := &ECHOuter{KDF: suite.KDF, AEAD: suite.AEAD, ConfigID: configID, Enc: s.Enc, Payload: make([]byte, len(pt)+16)}
	o.Exts = append(o.Exts, Ext{0xfe0d, e.Data()})
	o.Exts = append(o.Exts, base.Exts[echPos:]...)
	s.ECHIndex = echPos
	s.AAD = AAD(&o, echPos, e)
	ct, err := sender.Seal(s.AAD, pt)
	if err != nil {
		panic(err)
	}
	e.Payload = ct
	s.Payload = ct
	o.Exts[echPos] = Ext{0xfe0d, e.Data()}
	s.Outer = &o
	s.Rec = o.Record(recVer)
	return s
}

// InnerPlan describes an EncodedClientHelloInner and the outer extensions it references.
type InnerPlan struct {
	Enc       *Hello   // EncodedClientHelloInner: SID empty, Exts contain the marker, Trail = padding
	OuterBase *Hello   // ClientHelloOuter without the ECH extension
	Refs      []uint16 // referenced outer types, in order
	MarkerPos int      // index of the marker in Enc.Exts (-1: none)
	InnerSNI  string
	InnerALPN []string
}

// PlanOpts steer the generator.
type PlanOpts struct {
	NOuterOpaque     int // opaque outer extensions
	NInnerOpaque     int
	MaxExtLen        int
	Padding          int
	SIDLen           int    // outer session id length (0,1..32)
	RefMask          uint64 // which of the shareable outer extensions are referenced (bit i = i-th shareable)
	MarkerPos        int    // position of the marker among inner extensions (clamped); -1 = no marker
	InnerName        string
	ALPN             []string
	PublicName       string
	RefOuterVersions bool // reference the outer supported_versions instead of carrying an own one
	RefOuterALPN     bool // the inner hello's ALPN extension is the outer one, referenced through ech_outer_extensions (what clients do when both offer the same protocols)
	OuterPad         int  // the outer hello carries an RFC 7685 padding extension of this many zero bytes (-1: none)
	InnerSIDLen      int  // legacy_session_id of the EncodedClientHelloInner: 0 as the draft requires; some encoders leave the outer value in, which servers tolerate (it is replaced by the outer one either way)
}

// Plan builds a valid (inner, outer) pair.
func Plan(r *rand.Rand, o PlanOpts) *InnerPlan {
	used := map[uint16]bool{}
	outer := BaseHello(r)
	outer.Version = 0x0303
	switch {
	case o.SIDLen >= 0 && o.SIDLen <= 32:
		outer.SID = RandBytes(r, o.SIDLen)
	}
	// outer extension list: SNI(public name), supported_versions, opaque ones, in random order
	// supported_versions as other stacks write it: an RFC 8701 GREASE value may come first
	grease := func() uint16 { g := uint16(r.IntN(16))<<4 | 0x0a; return g<<8 | g }
	overs := []uint16{0x0304, 0x0303}
	ivers := []uint16{0x0304}
	if r.IntN(3) == 0 {
		overs = append([]uint16{grease()}, overs...)
	}
	if r.IntN(3) == 0 {
		ivers = append([]uint16{grease()}, ivers...)
	}
	oexts := []Ext{SNI(o.PublicName), Versions(overs...)}
	refALPN := o.RefOuterALPN && len(o.ALPN) > 0 && o.MarkerPos >= 0
	if refALPN {
		oexts = append(oexts, ALPN(o.ALPN...))
		used[16] = true
	} else if r.IntN(3) == 0 {
		// the outer hello may offer ALPN of its own; it says nothing about the inner one
		oexts = append(oexts, ALPN("h2", "http/1.1"))
		used[16] = true
	}
	for i := 0; i < o.NOuterOpaque; i++ {
		oexts = append(oexts, RandomExt(r, used, o.MaxExtLen))
	}
	if o.OuterPad > 0 && !used[21] {
		oexts = append(oexts, Ext{Type: 21, Data: make([]byte, o.OuterPad)})
		used[21] = true
	}
	r.Shuffle(len(oexts), func(i, j int) { oexts[i], oexts[j] = oexts[j], oexts[i] })
	outer.Exts = oexts
	// shareable = outer extensions other than SNI (and versions unless RefOuterVersions)
	var refs []uint16
	k := 0
	for _, e := range oexts {
		if e.Type == 16 && refALPN {
			refs = append(refs, 16)
			continue
		}
		if e.Type == 0 || e.Type == 16 {
			continue // the inner hello keeps its own server name and ALPN
		}
		if e.Type == 43 {
			if o.RefOuterVersions {
				refs = append(refs, 43)
			}
			continue
		}
		if o.RefMask&(1<<uint(k)) != 0 {
			refs = append(refs, e.Type)
		}
		k++
	}
	inner := BaseHello(r)
	inner.Version = 0x0303
	inner.SID = nil
	if o.InnerSIDLen > 0 {
		inner.SID = RandBytes(r, o.InnerSIDLen)
	}
	inner.Random = RandBytes(r, 32)
	iexts := []Ext{ECHInner()}
	if o.InnerName != "" {
		iexts = append(iexts, SNI(o.InnerName))
	}
	if !o.RefOuterVersions {
		iexts = append(iexts, Versions(ivers...))
	}
	if len(o.ALPN) > 0 && !refALPN {
		iexts = append(iexts, ALPN(o.ALPN...))
	}
	for i := 0; i < o.NInnerOpaque; i++ {
		iexts = append(iexts, RandomExt(r, used, o.MaxExtLen))
	}
	r.Shuffle(len(iexts), func(i, j int) { iexts[i], iexts[j] = iexts[j], iexts[i] })
	mp := -1
	if o.MarkerPos >= 0 && (len(refs) > 0 || refALPN || r.IntN(4) == 0) {
		mp = min(o.MarkerPos, len(iexts))
		iexts = append(iexts[:mp:mp], append([]Ext{OuterExtensions(refs...)}, iexts[mp:]...)...)
	} else {
		refs = nil
		if o.RefOuterVersions {
			iexts = append(iexts, Versions(ivers...))
		}
	}
	inner.Exts = iexts
	inner.Trail = make([]byte, o.Padding)
	return &InnerPlan{Enc: inner, OuterBase: outer, Refs: refs, MarkerPos: mp, InnerSNI: o.InnerName, InnerALPN: o.ALPN}
}

// Expected reconstructs the ClientHelloInner record the client committed to (harness-side, for
// Go-side comparisons; the Lean specInner is the normative spec).
func (p *InnerPlan) Expected(outer *Hello, recVer uint16) []byte {
	in := *p.Enc
	in.SID = outer.SID
	in.Trail = nil
	var exts []Ext
	for _, e := range p.Enc.Exts {
		if e.Type != 0xfd00 {
			exts = append(exts, e)
			continue
		}
		pos := 0
		for _, t := range p.Refs {
			for pos < len(outer.Exts) && outer.Exts[pos].Type != t {
				pos++
			}
			if pos < len(outer.Exts) {
				exts = append(exts, outer.Exts[pos])
				pos++
			}
		}
	}
	in.Exts = exts
	return in.Record(recVer)
}
