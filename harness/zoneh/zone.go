// Package zoneh is a scripted DNS universe served over a local DoH endpoint, with a query log.
package zoneh

import (
	"fmt"
	"io"
	"math/rand/v2"
	"net/http"
	"net/http/httptest"
	"strconv"
	"strings"
	"sync"

	"verifharness/core"
	"verifharness/gen"
)

// HTTPS is the semantic content of an HTTPS RR (what the decoder should produce).
type HTTPS struct {
	Priority int
	Target   string
	ALPN     []string
	NoDef    bool
	Port     int
	V4, V6   [][]byte
	ECH      []byte // nil = parameter absent
}

// Ans is one answer RR.
type Ans struct {
	Owner string
	Type  int // 1, 28, 5, 65
	TTL   uint32
	IP    []byte
	Name  string
	HTTPS *HTTPS
	Raw   []byte // RDATA of a record type the generator does not know (TXT, RRSIG, ...)
}

type Resp struct {
	Fail    bool // HTTP-level failure
	RCode   int
	Answers []Ans
}

type Key struct {
	Name string
	Type int
}

type Universe map[Key]Resp

type Query struct {
	Name string
	Type int
	Time int64
}

// Server is a DoH server for a Universe.
type Server struct {
	mu   sync.Mutex
	U    Universe
	Log  []Query
	Now  func() int64
	HS   []*httptest.Server
	next int
	Rand *rand.Rand
	// Extra HTTP response headers, as an HTTP cache in front of the DoH server adds them (Age, Cache-Control)
	Headers map[string]string
	// OnQuery is called (without the lock) when a query has arrived, before it is answered: time passes
	// while a lookup is on the wire
	OnQuery func(name string, typ int)
}

// NewServer starts the DoH endpoint on several loopback ports. The package under test opens a new
// TCP connection for every query (a fresh retryablehttp client per call), so a long campaign would
// exhaust the (source port, destination port) tuples of a single listener while they sit in
// TIME_WAIT; keep-alives are disabled and the listeners are used in rotation.
func NewServer(seed uint64) *Server {
	s := &Server{U: Universe{}, Rand: rand.New(rand.NewPCG(seed, 7))}
	for i := 0; i < 24; i++ {
		hs := httptest.NewUnstartedServer(http.HandlerFunc(s.handle))
		hs.Config.SetKeepAlivesEnabled(false)
		hs.Start()
		s.HS = append(s.HS, hs)
	}
	return s
}

// URL returns the endpoint of the next listener (round robin).
func (s *Server) URL() string {
	s.mu.Lock()
	defer s.mu.Unlock()
	s.next++
	return s.HS[s.next%len(s.HS)].URL + "/dns-query"
}

func (s *Server) Close() {
	for _, h := range s.HS {
		h.Close()
	}
}

func (s *Server) Set(u Universe) {
	s.mu.Lock()
	s.U = u
	s.mu.Unlock()
}

// mu gives the harness access to the lock that guards the hooks.
func (s *Server) Mu() *sync.Mutex { return &s.mu }

func (s *Server) SetHeaders(h map[string]string) {
	s.mu.Lock()
	s.Headers = h
	s.mu.Unlock()
}

func (s *Server) TakeLog() []Query {
	s.mu.Lock()
	defer s.mu.Unlock()
	l := s.Log
	s.Log = nil
	return l
}

// parseQuestion extracts the first question (uncompressed) from a query.
func parseQuestion(b []byte) (string, int, uint16, bool) {
	if len(b) < 12 {
		return "", 0, 0, false
	}
	id := uint16(b[0])<<8 | uint16(b[1])
	p := 12
	var labels []string
	for {
		if p >= len(b) {
			return "", 0, 0, false
		}
		l := int(b[p])
		p++
		if l == 0 {
			break
		}
		if p+l > len(b) {
			return "", 0, 0, false
		}
		labels = append(labels, string(b[p:p+l]))
		p += l
	}
	if p+4 > len(b) {
		return "", 0, 0, false
	}
	return strings.Join(labels, "."), int(b[p])<<8 | int(b[p+1]), id, true
}

func (s *Server) handle(w http.ResponseWriter, req *http.Request) {
	body, _ := io.ReadAll(req.Body)
	name, typ, id, ok := parseQuestion(body)
	if !ok {
		http.Error(w, "bad query", 400)
		return
	}
	s.mu.Lock()
	var now int64
	if s.Now != nil {
		now = s.Now()
	}
	s.Log = append(s.Log, Query{name, typ, now})
	resp, found := s.U[Key{name, typ}]
	if !found {
		resp = Resp{RCode: 3}
	}
	compress := s.Rand.IntN(2) == 0
	hook := s.OnQuery
	for k, v := range s.Headers {
		w.Header().Set(k, v)
	}
	s.mu.Unlock()
	if hook != nil {
		hook(name, typ)
	}
	if resp.Fail {
		http.Error(w, "scripted failure", 400)
		return
	}
	out := BuildResponse(id, name, typ, resp, compress)
	w.Header().Set("content-type", "application/dns-message")
	w.Header().Set("content-length", strconv.Itoa(len(out)))
	w.Write(out)
}

func nameBytes(n string) []byte {
	var b []byte
	if n != "" {
		for _, l := range strings.Split(n, ".") {
			b = append(b, byte(len(l)))
			b = append(b, l...)
		}
	}
	return append(b, 0)
}

// BuildResponse encodes a response with the harness's own encoder (optionally compressing owner
// names against the question name).
func BuildResponse(id uint16, qname string, qtype int, r Resp, compress bool) []byte {
	var b []byte
	b = append(b, byte(id>>8), byte(id), 0x81, 0x80|byte(r.RCode&0xf))
	b = append(b, gen.U16(1)...)
	b = append(b, gen.U16(len(r.Answers))...)
	b = append(b, 0, 0, 0, 0)
	b = append(b, nameBytes(qname)...)
	b = append(b, gen.U16(qtype)...)
	b = append(b, 0, 1)
	for _, a := range r.Answers {
		if compress && a.Owner == qname {
			b = append(b, 0xc0, 12)
		} else {
			b = append(b, nameBytes(a.Owner)...)
		}
		b = append(b, gen.U16(a.Type)...)
		b = append(b, 0, 1)
		b = append(b, byte(a.TTL>>24), byte(a.TTL>>16), byte(a.TTL>>8), byte(a.TTL))
		var rd []byte
		switch a.Type {
		case 1, 28:
			rd = a.IP
		case 5:
			rd = nameBytes(a.Name)
		case 65:
			h := a.HTTPS
			rd = append(rd, gen.U16(h.Priority)...)
			rd = append(rd, nameBytes(h.Target)...)
			param := func(k int, v []byte) {
				rd = append(rd, gen.U16(k)...)
				rd = append(rd, gen.LP16(v)...)
			}
			if len(h.ALPN) > 0 {
				var v []byte
				for _, p := range h.ALPN {
					v = append(v, gen.LP8([]byte(p))...)
				}
				param(1, v)
			}
			if h.NoDef {
				param(2, nil)
			}
			if h.Port > 0 {
				param(3, gen.U16(h.Port))
			}
			if len(h.V4) > 0 {
				param(4, gen.Cat(h.V4...))
			}
			if h.ECH != nil {
				param(5, h.ECH)
			}
			if len(h.V6) > 0 {
				param(6, gen.Cat(h.V6...))
			}
		default:
			rd = a.Raw
		}
		b = append(b, gen.LP16(rd)...)
	}
	return b
}

// ---- canonical text (shared with the Lean driver) -----------------------------------------------

func plus(l []string) string {
	if len(l) == 0 {
		return "_"
	}
	return strings.Join(l, "+")
}

func hexList(l [][]byte) string {
	var s []string
	for _, x := range l {
		s = append(s, core.Hex(x))
	}
	return plus(s)
}

func hexStrs(l []string) string {
	var s []string
	for _, x := range l {
		s = append(s, core.Hex([]byte(x)))
	}
	return plus(s)
}

func ECHText(b []byte) string {
	if b == nil {
		return "nil"
	}
	return core.Hex(b)
}

func (h *HTTPS) Text() string {
	nd := "0"
	if h.NoDef {
		nd = "1"
	}
	return fmt.Sprintf("%d:%s:%s:%s:%d:%s:%s:%s", h.Priority, core.Hex([]byte(h.Target)), hexStrs(h.ALPN), nd, h.Port, hexList(h.V4), hexList(h.V6), ECHText(h.ECH))
}

// Text renders the universe for the driver, in a deterministic order.
func (u Universe) Text() string {
	if len(u) == 0 {
		return "_"
	}
	var keys []Key
	for k := range u {
		keys = append(keys, k)
	}
	for i := range keys {
		for j := i + 1; j < len(keys); j++ {
			if keys[j].Name < keys[i].Name || (keys[j].Name == keys[i].Name && keys[j].Type < keys[i].Type) {
				keys[i], keys[j] = keys[j], keys[i]
			}
		}
	}
	var es []string
	for _, k := range keys {
		r := u[k]
		e := fmt.Sprintf("%s/%d=", core.Hex([]byte(k.Name)), k.Type)
		if r.Fail {
			e += "fail"
		} else {
			parts := []string{strconv.Itoa(r.RCode)}
			for _, a := range r.Answers {
				var d string
				switch a.Type {
				case 1, 28:
					d = "ip:" + core.Hex(a.IP)
				case 5:
					d = "name:" + core.Hex([]byte(a.Name))
				case 65:
					d = "https:" + a.HTTPS.Text()
				default:
					d = "other"
				}
				parts = append(parts, fmt.Sprintf("%d,%s,%d,%s", a.TTL, core.Hex([]byte(a.Owner)), a.Type, d))
			}
			e += strings.Join(parts, "~")
		}
		es = append(es, e)
	}
	return strings.Join(es, ";")
}
