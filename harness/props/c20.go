package props

import (
	"context"
	"encoding/base64"
	"encoding/json"
	"fmt"
	"io"
	"math/rand/v2"
	"net/http"
	"net/http/httptest"
	"net/url"
	"regexp"
	"slices"
	"strconv"
	"strings"
	"sync"

	"github.com/c2FmZQ/ech/publish"

	"verifharness/core"
	"verifharness/gen"
)

func init() {
	register(core.Campaign{
		Property: "C20",
		Rule: "CloudflarePublisher (base URL hook) against the harness's own fake Cloudflare v4 API (result_info.count = items on THIS page, total_count, total_pages; auth header checked; request log; failure injection by request index with non-retried 403s): " +
			"zones with 0..65 HTTPS records (1..4 pages) and large zones of 1001..2003 records (51..101 pages) whose parameter strings are generated (quoted / unquoted values, several / no ech entries, repeated spaces, empty value), target lists with existing / missing / duplicate records and unknown zones, " +
			"SEQUENCES of 1..4 publishes with changing config lists, faults at every request index of a call (thorough) or sampled (quick). Compared with the Lean model (results, PATCH log, API state) and Go predicates: one result per record in order, " +
			"exactly one ech entry equal to base64(list) with the other parameters in order, no PATCH when current, nothing else touched. distinct = (zone shape, target shape, fault position class, result vector).",
		Gen: genC20,
	})
}

type cfRec struct {
	ID, Name, Value string
	Priority        int
	Target          string
}

type cfZoneT struct {
	ID, Name string
	Recs     []*cfRec
}

type fakeCF struct {
	mu        sync.Mutex
	zones     []*cfZoneT
	reqs      int
	faults    map[int]bool
	faultSalt int
	patches   []string
	badAuth   bool
	onPatch   func() // called (once) when a PATCH request arrives, before it is answered
	omitEmpty bool   // record listings leave out empty members
}

func (f *fakeCF) handle(w http.ResponseWriter, req *http.Request) {
	f.mu.Lock()
	defer f.mu.Unlock()
	n := f.reqs
	f.reqs++
	if req.Header.Get("Authorization") != "Bearer test-token" {
		f.badAuth = true
	}
	if f.faults[n] {
		// an API refusal comes in several shapes: an HTTP error with error entries, or HTTP 200 with
		// "success": false and an empty / absent errors array
		switch (n + f.faultSalt) % 3 {
		case 0:
			http.Error(w, `{"success":false,"errors":[{"code":10000,"message":"scripted"}]}`, 403)
		case 1:
			w.Header().Set("content-type", "application/json")
			w.Write([]byte(`{"success":false,"errors":[],"result":null}`))
		default:
			w.Header().Set("content-type", "application/json")
			w.Write([]byte(`{"success":false}`))
		}
		return
	}
	writeJSON := func(v any) {
		b, _ := json.Marshal(v)
		w.Header().Set("content-type", "application/json")
		w.Write(b)
	}
	path := strings.TrimPrefix(req.URL.Path, "/client/v4/zones")
	switch {
	case path == "" && req.Method == "GET":
		name := req.URL.Query().Get("name")
		var res []map[string]string
		for _, z := range f.zones {
			if z.Name == name {
				res = append(res, map[string]string{"id": z.ID, "name": z.Name})
			}
		}
		writeJSON(map[string]any{"success": true, "errors": []any{}, "result": res,
			"result_info": map[string]int{"page": 1, "per_page": 20, "count": len(res), "total_count": len(res), "total_pages": 1}})
	case strings.HasSuffix(path, "/dns_records") && req.Method == "GET":
		zid := strings.TrimSuffix(strings.TrimPrefix(path, "/"), "/dns_records")
		page, _ := strconv.Atoi(req.URL.Query().Get("page"))
		per, _ := strconv.Atoi(req.URL.Query().Get("per_page"))
		if page < 1 {
			page = 1
		}
		if per < 1 {
			per = 20
		}
		var z *cfZoneT
		for _, x := range f.zones {
			if x.ID == zid {
				z = x
			}
		}
		if z == nil {
			http.Error(w, `{"success":false}`, 404)
			return
		}
		lo := min((page-1)*per, len(z.Recs))
		hi := min(lo+per, len(z.Recs))
		var res []map[string]any
		for _, r := range z.Recs[lo:hi] {
			data := map[string]any{"priority": r.Priority, "target": r.Target, "value": r.Value}
			if f.omitEmpty {
				// an API that leaves out members that are empty / zero instead of writing "" / 0
				if r.Value == "" {
					delete(data, "value")
				}
				if r.Priority == 0 {
					delete(data, "priority")
				}
			}
			res = append(res, map[string]any{"id": r.ID, "name": r.Name, "type": "HTTPS", "data": data})
		}
		if res == nil {
			res = []map[string]any{}
		}
		writeJSON(map[string]any{"success": true, "errors": []any{}, "result": res,
			"result_info": map[string]int{"page": page, "per_page": per, "count": len(res), "total_count": len(z.Recs), "total_pages": (len(z.Recs) + per - 1) / per}})
	case strings.Contains(path, "/dns_records/") && req.Method == "PATCH":
		if hook := f.onPatch; hook != nil {
			f.onPatch = nil
			hook()
		}
		parts := strings.Split(strings.TrimPrefix(path, "/"), "/")
		rid := parts[len(parts)-1]
		body, _ := io.ReadAll(req.Body)
		var in struct {
			Data struct {
				Priority int    `json:"priority"`
				Target   string `json:"target"`
				Value    string `json:"value"`
			} `json:"data"`
		}
		json.Unmarshal(body, &in)
		for _, z := range f.zones {
			for _, r := range z.Recs {
				if r.ID == rid {
					if in.Data.Priority != r.Priority || in.Data.Target != r.Target {
						f.patches = append(f.patches, "CHANGED-OTHER-FIELDS:"+rid)
					}
					r.Value = in.Data.Value
					f.patches = append(f.patches, core.Hex([]byte(rid))+"="+core.Hex([]byte(in.Data.Value)))
				}
			}
		}
		writeJSON(map[string]any{"success": true, "errors": []any{}})
	default:
		http.Error(w, "unexpected request", 400)
	}
}

func (f *fakeCF) stateText() string {
	var zs []string
	for _, z := range f.zones {
		var rs []string
		for _, r := range z.Recs {
			rs = append(rs, fmt.Sprintf("%s,%s,%s", hs2(r.ID), hs2(r.Name), hs2(r.Value)))
		}
		rt := "_"
		if len(rs) > 0 {
			rt = strings.Join(rs, "|")
		}
		zs = append(zs, fmt.Sprintf("%s,%s:%s", hs2(z.Name), hs2(z.ID), rt))
	}
	return semi(zs)
}

var echValueRe = regexp.MustCompile(`(ech="?)[^" ]*("?)`)

func randParams(r *rand.Rand, withEch int) string {
	toks := []string{`alpn="h3,h2"`, `ipv4hint="192.0.2.1"`, `port=8443`, `no-default-alpn`, `alpn=h2`, `ipv6hint="2001:db8::1"`, `mandatory=alpn`, `key65400="x=y"`}
	r.Shuffle(len(toks), func(i, j int) { toks[i], toks[j] = toks[j], toks[i] })
	toks = toks[:r.IntN(4)]
	for i := 0; i < withEch; i++ {
		v := base64.StdEncoding.EncodeToString(gen.RandBytes(r, 6+r.IntN(30)))
		e := `ech="` + v + `"`
		if r.IntN(3) == 0 {
			e = "ech=" + v
		}
		toks = slices.Insert(toks, r.IntN(len(toks)+1), e)
	}
	sep := " "
	s := strings.Join(toks, sep)
	if r.IntN(10) == 0 && len(toks) > 1 {
		s = strings.Replace(s, " ", "  ", 1) // a double space
	}
	return s
}

func genC20(env *core.Env, emit func(core.Case)) {
	r := env.Rng
	fake := &fakeCF{}
	ts := httptest.NewServer(http.HandlerFunc(fake.handle))
	defer ts.Close()
	u, _ := url.Parse(ts.URL + "/client/v4/zones")
	n := env.Pick(250, 4000)
	for i := 0; i < n; i++ {
		// a fresh publisher per case (it remembers zone ids); its idle HTTP connection is closed from the
		// server side afterwards, otherwise thousands of publishers exhaust the file descriptors
		ts.CloseClientConnections()
		// zones
		nrec := []int{0, 1, 3, 19, 20, 21, 40, 41, 65}[r.IntN(9)]
		if !env.Thorough() && nrec > 21 && r.IntN(2) == 0 {
			nrec = 21
		}
		if i == 7 || (env.Thorough() && i%50 == 7) {
			// a large zone: the listing has more pages than anyone would guess as a limit
			nrec = []int{1001, 1005, 2003, 1290}[(i/50)%4]
		}
		lists := [][]byte{gen.RandBytes(r, 20), gen.RandBytes(r, 33)}
		z1 := &cfZoneT{ID: "zid1", Name: "example.org"}
		for k := 0; k < nrec; k++ {
			ne := []int{0, 0, 1, 1, 2}[r.IntN(5)]
			name := fmt.Sprintf("h%d.example.org", k)
			if k > 0 && r.IntN(25) == 0 {
				name = fmt.Sprintf("h%d.example.org", k-1) // two records with one name
			}
			val := randParams(r, ne)
			if ne == 1 && k%3 == 1 {
				// the record already carries one of the lists that will be published - written by someone else:
				// anywhere among the parameters, quoted or not
				val = echValueRe.ReplaceAllString(val, "${1}"+base64.StdEncoding.EncodeToString(lists[k%2])+"${2}")
			}
			if r.IntN(6) == 0 {
				val = "" // a record without any parameter yet
			}
			z1.Recs = append(z1.Recs, &cfRec{ID: fmt.Sprintf("r%d", k), Name: name, Value: val, Priority: 1 + r.IntN(3), Target: "."})
		}
		z2 := &cfZoneT{ID: "zid2", Name: "example.net", Recs: []*cfRec{{ID: "n0", Name: "example.net", Value: randParams(r, 1), Priority: 1, Target: "."}}}
		fake.mu.Lock()
		fake.zones = []*cfZoneT{z1, z2}
		fake.badAuth = false
		fake.omitEmpty = i%2 == 1
		fake.mu.Unlock()
		pubr := publish.NewCloudflarePublisher("test-token")
		publish.VerifSetBaseURL(pubr, *u)
		ops := []core.Op{{Line: "cf-reset " + fake.stateText(), Kind: 'M', Want: "ok"}}
		w := ""
		var lastTargets []publish.Target
		sigParts := []string{fmt.Sprintf("n%d", nrec)}
		ncalls := 1 + r.IntN(3)
		for call := 0; call < ncalls; call++ {
			// targets
			var tg []publish.Target
			nt := 1 + r.IntN(5)
			shape := ""
			for k := 0; k < nt; k++ {
				switch r.IntN(8) {
				case 0:
					tg = append(tg, publish.Target{Zone: "example.org", Name: "missing.example.org"})
					shape += "m"
				case 1:
					tg = append(tg, publish.Target{Zone: "unknown.example", Name: "x.unknown.example"})
					shape += "u"
				case 2:
					if len(tg) > 0 {
						tg = append(tg, tg[r.IntN(len(tg))])
						shape += "d"
						continue
					}
					fallthrough
				case 3:
					tg = append(tg, publish.Target{Zone: "example.net", Name: "example.net"})
					shape += "n"
				case 4:
					// a record name that exists - in the OTHER zone of this account: not found in the zone named
					if nrec > 0 && r.IntN(2) == 0 {
						tg = append(tg, publish.Target{Zone: "example.net", Name: fmt.Sprintf("h%d.example.org", r.IntN(nrec))})
					} else {
						tg = append(tg, publish.Target{Zone: "example.org", Name: "example.net"})
					}
					shape += "x"
				default:
					if nrec > 0 {
						// favour records on later pages
						k := r.IntN(nrec)
						if r.IntN(2) == 0 {
							k = nrec - 1 - r.IntN(min(nrec, 5))
						}
						tg = append(tg, publish.Target{Zone: "example.org", Name: fmt.Sprintf("h%d.example.org", k)})
						shape += "e"
					} else {
						tg = append(tg, publish.Target{Zone: "example.org", Name: "h0.example.org"})
						shape += "m"
					}
				}
			}
			list := lists[r.IntN(2)]
			if call > 0 && r.IntN(2) == 0 {
				list = lists[0]
			}
			b64 := base64.StdEncoding.EncodeToString(list)
			// faults
			faults := map[int]bool{}
			faultClass := "none"
			if r.IntN(3) == 0 {
				k := r.IntN(8)
				faults[k] = true
				faultClass = fmt.Sprintf("f%d", min(k, 4))
			}
			if nrec > 1000 && call == 0 {
				// the large zone's first call: no API failure, and the zone's last record is asked for
				faults, faultClass = map[int]bool{}, "none"
				tg = append(tg, publish.Target{Zone: "example.org", Name: fmt.Sprintf("h%d.example.org", nrec-1)})
				shape += "L"
			}
			var fl []int
			for k := range faults {
				fl = append(fl, k)
			}
			before := map[string]string{}
			fake.mu.Lock()
			fake.reqs = 0
			fake.faults = faults
			fake.faultSalt = r.IntN(3)
			fake.patches = nil
			for _, z := range fake.zones {
				for _, rc := range z.Recs {
					before[rc.ID] = rc.Value
				}
			}
			fake.mu.Unlock()
			results := pubr.PublishECH(context.Background(), tg, list)
			lastTargets = tg
			fake.mu.Lock()
			patches := slices.Clone(fake.patches)
			reqs := fake.reqs
			fake.mu.Unlock()
			var rt []string
			for _, x := range results {
				rt = append(rt, map[publish.StatusCode]string{publish.StatusUpdated: "updated", publish.StatusNotFound: "notfound", publish.StatusNoChange: "nochange", publish.StatusError: "error"}[x.Code])
			}
			var tt []string
			for _, t := range tg {
				tt = append(tt, fmt.Sprintf("%s,%s", hs2(t.Zone), hs2(t.Name)))
			}
			ops = append(ops, core.Op{Line: fmt.Sprintf("cf-publish %s %s %s", semi(tt), core.Hex([]byte(b64)), core.NatList(fl)), Kind: 'M',
				Want: fmt.Sprintf("results=%s patches=%s reqs=%d", strings.Join(rt, ","), semi(patches), reqs), Note: fmt.Sprintf("PublishECH call %d", call)})
			ops = append(ops, core.Op{Line: "cf-state", Kind: 'M', Want: fake.stateText(), Note: "API data after the call"})
			// Go-side predicates
			if w == "" && len(results) != len(tg) {
				w = fmt.Sprintf("%d results for %d records", len(results), len(tg))
			}
			fake.mu.Lock()
			patched := map[string]int{}
			for _, p := range patches {
				if strings.HasPrefix(p, "CHANGED-OTHER-FIELDS") && w == "" {
					w = "a PATCH changed priority/target: " + p
				}
				patched[strings.SplitN(p, "=", 2)[0]]++
			}
			requested := map[string]bool{}
			for _, t := range tg {
				requested[t.Zone+"/"+t.Name] = true
			}
			for _, z := range fake.zones {
				for _, rc := range z.Recs {
					rid := hs2(rc.ID)
					if patched[rid] > 1 && w == "" {
						w = fmt.Sprintf("record %s was PATCHed %d times in one call (a write although the published value was already current)", rc.ID, patched[rid])
					}
					if patched[rid] > 0 && !requested[z.Name+"/"+rc.Name] && w == "" {
						w = "a record that was not requested was PATCHed: " + rc.ID
					}
					if patched[rid] == 0 && rc.Value != before[rc.ID] && w == "" {
						w = "record changed without a PATCH?"
					}
					if patched[rid] > 0 && w == "" {
						// exactly one ech entry == b64, others preserved in order
						oldToks := strings.Split(before[rc.ID], " ")
						var keep []string
						oldVal := ""
						for _, t := range oldToks {
							if strings.HasPrefix(t, "ech=") {
								oldVal = strings.Trim(strings.TrimPrefix(t, "ech="), `"`)
								continue
							}
							keep = append(keep, t)
						}
						wantToks := append(keep, `ech="`+b64+`"`)
						if !slices.Equal(strings.Split(rc.Value, " "), wantToks) {
							w = fmt.Sprintf("stored value %q: want the other parameters in order plus one ech entry (%q)", rc.Value, strings.Join(wantToks, " "))
						}
						if oldVal == b64 {
							w = "PATCH although the published ech value was already current: " + rc.ID
						}
					}
				}
			}
			fake.mu.Unlock()
			// existing records requested must be found (paging!)
			for k, t := range tg {
				exists := false
				for _, z := range []*cfZoneT{z1, z2} {
					if z.Name == t.Zone {
						for _, rc := range z.Recs {
							if rc.Name == t.Name {
								exists = true
							}
						}
					}
				}
				if exists && k < len(rt) && rt[k] == "notfound" && len(faults) == 0 && w == "" {
					w = fmt.Sprintf("record %s exists in zone %s (%d records) but was reported not found", t.Name, t.Zone, nrec)
				}
			}
			if fake.badAuth && w == "" {
				w = "request without the bearer token"
			}
			sigParts = append(sigParts, shape+"/"+faultClass+"/"+strings.Join(rt, ","))
		}
		// a last call whose context ends - before the call, or while its first write is in flight: the
		// caller still gets one result per requested record, in request order
		if len(lastTargets) > 0 {
			for _, when := range []string{"before", "during-first-patch"} {
				ctx, cancel := context.WithCancel(context.Background())
				if when == "before" {
					cancel()
				} else {
					fake.mu.Lock()
					fake.onPatch = cancel
					fake.mu.Unlock()
				}
				res := pubr.PublishECH(ctx, lastTargets, gen.RandBytes(r, 24))
				cancel()
				fake.mu.Lock()
				fake.onPatch = nil
				fake.mu.Unlock()
				if w == "" && len(res) != len(lastTargets) {
					w = fmt.Sprintf("context ended %s: %d results for %d requested records", when, len(res), len(lastTargets))
				}
			}
		}
		ops = append(ops, core.Op{Kind: 'X', Note: "one result per record in order; exactly the ech parameter of exactly the requested existing records is rewritten; no write when current; several pages", Want: w})
		sig := strings.Join(sigParts, "|")
		emit(core.Case{Name: fmt.Sprintf("publish/%d", i), Stream: "publish", Ops: ops, Key: fmt.Sprintf("publish/n%d", nrec), Sig: sig,
			Sample: map[string]any{"records_in_zone": nrec, "calls": ncalls, "shape": sig}})
		env.Count(fmt.Sprintf("n%d", nrec))
	}
	// the rewrite alone, on generated parameter strings
	for i := 0; i < env.Pick(800, 20000); i++ {
		v := randParams(r, []int{0, 1, 1, 2, 3}[r.IntN(5)])
		if r.IntN(20) == 0 {
			v = ""
		}
		newv := base64.StdEncoding.EncodeToString(gen.RandBytes(r, 10+r.IntN(20)))
		emit(core.Case{Name: fmt.Sprintf("rewrite/%d", i), Stream: "rewrite", Key: "rewrite", Sig: fmt.Sprintf("rewrite/%d", strings.Count(v, "ech=")),
			Ops: []core.Op{{Line: fmt.Sprintf("cf-rewrite %s %s", hs2(v), hs2(newv)), Kind: 'M', Want: goRewrite(v, newv)}}})
	}
}

// goRewrite runs the real PublishECH on a one-record zone to observe the rewrite of `value`.
var rewriteOnce sync.Once
var rewriteFake *fakeCF
var rewriteURL *url.URL
var rewritePub *publish.CloudflarePublisher

func goRewrite(value, newB64 string) string {
	rewriteOnce.Do(func() {
		rewriteFake = &fakeCF{}
		ts := httptest.NewServer(http.HandlerFunc(rewriteFake.handle))
		rewriteURL, _ = url.Parse(ts.URL + "/client/v4/zones")
		rewritePub = publish.NewCloudflarePublisher("test-token")
		publish.VerifSetBaseURL(rewritePub, *rewriteURL)
	})
	rewriteFake.mu.Lock()
	rewriteFake.zones = []*cfZoneT{{ID: "z", Name: "z.example", Recs: []*cfRec{{ID: "r", Name: "a.z.example", Value: value, Priority: 1, Target: "."}}}}
	rewriteFake.faults = nil
	rewriteFake.mu.Unlock()
	p := rewritePub
	list, _ := base64.StdEncoding.DecodeString(newB64)
	res := p.PublishECH(context.Background(), []publish.Target{{Zone: "z.example", Name: "a.z.example"}}, list)
	if len(res) == 1 && res[0].Code == publish.StatusNoChange {
		return "nochange"
	}
	rewriteFake.mu.Lock()
	defer rewriteFake.mu.Unlock()
	return "ok " + hs2(rewriteFake.zones[0].Recs[0].Value)
}
