package props

import (
	"fmt"
	"slices"

	"verifharness/connh"
	"verifharness/core"
	"verifharness/gen"
)

func init() {
	register(core.Campaign{
		Property: "C02",
		Rule: "valid (inner, outer, key, suite) tuples sealed with the standard library's crypto/hpke; for each: EVERY single-bit flip of the ClientHelloOuter body for the first hellos and random flips for the others, " +
			"wrong key (same id, other key material), wrong info (same key material, different config bytes), swapped AEAD / KDF ids, wrong config id, enc and payload truncated at every length. " +
			"Predicate: ECHAccepted is never reported (fall-back or abort only); outcome class equals the model's, which validates the ideal-HPKE table against the real AEAD. " +
			"distinct = (mutation kind, region of the flipped bit, outcome class).",
		Gen: genC02,
	})
}

func genC02(env *core.Env, emit func(core.Case)) {
	r := env.Rng
	idx := 0
	nFull := env.Pick(1, 6)
	nRand := env.Pick(30, 300)
	check := func(kind, region string, keys []*gen.KeyMat, rec []byte, mustReject bool) {
		idx++
		s := connh.NewSess(echKeys(keys...))
		s.Register(rec)
		res := s.New(oneChunk(rec), "eof")
		outcome := res.Err
		if res.Err == "-" {
			outcome = "passthrough"
			if res.Accepted {
				outcome = "accepted"
			}
		}
		w := ""
		if mustReject && res.Accepted {
			w = "ECH accepted for a " + kind + " (" + region + ")"
		} else if !mustReject && !res.Accepted {
			w = "the unmodified tuple was not accepted: " + outcome
		}
		s.X("acceptance only for the authentic payload bound to the exact outer hello", w)
		emit(core.Case{Name: fmt.Sprintf("%s/%d", kind, idx), Stream: kind, Ops: s.Ops, Key: kind + "/" + region,
			Sig: fmt.Sprintf("%s/%s/%s", kind, region, outcome), Sample: map[string]any{"mutation": kind, "region": region, "outcome": outcome}})
		env.Count(kind + "/" + connh.Short(outcome))
	}
	regionOf := func(sealed *gen.Sealed, bodyOff int) string {
		// walk the body layout
		h := sealed.Outer
		pos := 2
		if bodyOff < pos {
			return "legacy_version"
		}
		pos += 32
		if bodyOff < pos {
			return "random"
		}
		pos += 1 + len(h.SID)
		if bodyOff < pos {
			return "session_id"
		}
		pos += 2 + len(h.Suites)
		if bodyOff < pos {
			return "cipher_suites"
		}
		pos += 1 + len(h.Comp)
		if bodyOff < pos {
			return "compression"
		}
		pos += 2
		if bodyOff < pos {
			return "extensions_length"
		}
		for i, e := range h.Exts {
			l := 4 + len(e.Data)
			if bodyOff < pos+l {
				if i == sealed.ECHIndex {
					in := bodyOff - pos
					switch {
					case in < 4:
						return "ech-ext-header"
					case in < 4+6:
						return "ech-suite-id"
					case in < 4+6+2+len(sealed.Enc):
						return "ech-enc"
					default:
						return "ech-payload"
					}
				}
				if e.Type == 0 {
					return "outer-sni"
				}
				return "other-extension"
			}
			pos += l
		}
		return "end"
	}
	for hi := 0; hi < nFull+nRand; hi++ {
		key := gen.NewKey(r, uint8(r.IntN(256)), "public.example", gen.AllSuites)
		suite := gen.AllSuites[r.IntN(3)]
		o := gen.PlanOpts{NOuterOpaque: 1 + r.IntN(3), NInnerOpaque: r.IntN(3), MaxExtLen: 24, Padding: r.IntN(16), SIDLen: []int{0, 32}[r.IntN(2)], RefMask: uint64(r.IntN(8)), MarkerPos: r.IntN(4),
			InnerName: hostName(r), ALPN: alpnList(r), PublicName: "public.example", OuterPad: []int{0, 0, 17, 64}[r.IntN(4)]}
		plan := gen.Plan(r, o)
		pt := plan.Enc.Body()
		sealed := gen.Seal(plan.OuterBase, r.IntN(len(plan.OuterBase.Exts)+1), key, suite, pt, nil, 0x0301)
		check("unmodified", "-", []*gen.KeyMat{key}, sealed.Rec, false)
		bodyLen := len(sealed.Rec) - 9
		flip := func(bit int) {
			rec := slices.Clone(sealed.Rec)
			rec[9+bit/8] ^= 1 << uint(bit%8)
			check("bitflip", regionOf(sealed, bit/8), []*gen.KeyMat{key}, rec, true)
		}
		if hi < nFull {
			for bit := 0; bit < bodyLen*8; bit++ {
				flip(bit)
			}
			env.Exhaustive(fmt.Sprintf("every single-bit flip of the ClientHelloOuter body of %d hellos; enc/payload truncated at every length", nFull))
			// enc and payload truncated at every length (lengths re-encoded consistently)
			h, _, _ := gen.ParseRecord(sealed.Rec)
			e, i := gen.FindECH(h)
			for l := 0; l < len(e.Enc); l++ {
				e2 := *e
				e2.Enc = e.Enc[:l]
				h2 := *h
				h2.Exts = slices.Clone(h.Exts)
				h2.Exts[i] = gen.Ext{Type: 0xfe0d, Data: e2.Data()}
				check("enc-truncated", fmt.Sprintf("len%d", min(l, 1)), []*gen.KeyMat{key}, h2.Record(0x0301), true)
			}
			for l := 0; l < len(e.Payload); l++ {
				e2 := *e
				e2.Payload = e.Payload[:l]
				h2 := *h
				h2.Exts = slices.Clone(h.Exts)
				h2.Exts[i] = gen.Ext{Type: 0xfe0d, Data: e2.Data()}
				check("payload-truncated", fmt.Sprintf("len%d", min(l, 1)), []*gen.KeyMat{key}, h2.Record(0x0301), true)
			}
		} else {
			for k := 0; k < env.Pick(40, 120); k++ {
				flip(r.IntN(bodyLen * 8))
			}
		}
		// wrong key: the server holds another key with the same id / suites / public name
		wrong := gen.NewKey(r, key.ID, "public.example", gen.AllSuites)
		check("wrong-key", "same-id", []*gen.KeyMat{wrong}, sealed.Rec, true)
		// wrong info: same key material, config bytes differ (other public name length / maximum_name_length)
		wi := *key
		wi.Config = gen.EncodeConfig(key.ID, 0x20, key.Priv.PublicKey().Bytes(), gen.AllSuites[:2], "public.example")
		check("wrong-info", "suite-list-differs", []*gen.KeyMat{&wi}, sealed.Rec, !(suite == gen.AllSuites[0] || suite == gen.AllSuites[1]) || true)
		// swapped AEAD / KDF ids and wrong config id in the extension
		edit := func(kind string, f func(e *gen.ECHOuter)) {
			h, _, _ := gen.ParseRecord(sealed.Rec)
			e, i := gen.FindECH(h)
			f(e)
			h.Exts[i] = gen.Ext{Type: 0xfe0d, Data: e.Data()}
			check(kind, "-", []*gen.KeyMat{key}, h.Record(0x0301), true)
		}
		edit("swapped-aead", func(e *gen.ECHOuter) { e.AEAD = e.AEAD%3 + 1 })
		edit("swapped-kdf", func(e *gen.ECHOuter) { e.KDF = 2 })
		edit("wrong-config-id", func(e *gen.ECHOuter) { e.ConfigID += uint8(1 + r.IntN(255)) })
		// a suite the key's config does not offer: sealed correctly (right public key, info, AAD) with an
		// AEAD the library implements but this config does not list
		{
			sub := gen.NewKey(r, key.ID, "public.example", []gen.Suite{suite})
			for _, other := range gen.AllSuites {
				if other != suite {
					s3 := gen.Seal(plan.OuterBase, r.IntN(len(plan.OuterBase.Exts)+1), sub, other, pt, nil, 0x0301)
					check("suite-not-offered", "-", []*gen.KeyMat{sub}, s3.Rec, true)
				}
			}
			s4 := gen.Seal(plan.OuterBase, 0, sub, suite, pt, nil, 0x0301)
			check("unmodified", "single-suite-config", []*gen.KeyMat{sub}, s4.Rec, false)
			// ... also when ANOTHER held key, listed before or after, does offer that suite: the suite list
			// that counts is the named config's own
			wide := gen.NewKey(r, sub.ID+1+uint8(r.IntN(100)), "public.example", gen.AllSuites)
			for _, other := range gen.AllSuites {
				if other != suite {
					s7 := gen.Seal(plan.OuterBase, r.IntN(len(plan.OuterBase.Exts)+1), sub, other, pt, nil, 0x0301)
					check("suite-not-offered", "offered-by-an-earlier-key", []*gen.KeyMat{wide, sub}, s7.Rec, true)
					check("suite-not-offered", "offered-by-a-later-key", []*gen.KeyMat{sub, wide}, s7.Rec, true)
				}
			}
		}
		// the extension names the id of one held key while the payload is sealed to another held key
		{
			k2 := gen.NewKey(r, key.ID+1+uint8(r.IntN(200)), "public.example", gen.AllSuites)
			s5 := gen.SealAs(plan.OuterBase, r.IntN(len(plan.OuterBase.Exts)+1), k2, key.ID, suite, pt, nil, 0x0301)
			check("names-other-held-key", "named-first", []*gen.KeyMat{key, k2}, s5.Rec, true)
			check("names-other-held-key", "named-last", []*gen.KeyMat{k2, key}, s5.Rec, true)
			check("names-other-held-key", "named-absent", []*gen.KeyMat{k2}, s5.Rec, true)
		}
		// several held keys share the config id: the hello is authentic for the last of them, or is sealed
		// under an info string made of several configs (never what the draft prescribes)
		{
			k0 := gen.NewKey(r, key.ID, "public.example", gen.AllSuites)
			k1 := gen.NewKey(r, key.ID, "public.example", gen.AllSuites)
			check("unmodified", "target-last-of-same-id-keys", []*gen.KeyMat{k0, k1, key}, sealed.Rec, false)
			badInfo := gen.Cat([]byte("tls ech\x00"), k0.Config, key.Config)
			s6 := gen.SealInfo(plan.OuterBase, r.IntN(len(plan.OuterBase.Exts)+1), key, key.ID, badInfo, suite, pt, nil, 0x0301)
			check("wrong-info", "info-of-two-configs", []*gen.KeyMat{k0, key}, s6.Rec, true)
			check("wrong-info", "info-of-two-configs", []*gen.KeyMat{key}, s6.Rec, true)
		}
		// payload of another tuple sealed to the same key (authentic, but bound to another outer hello)
		plan2 := gen.Plan(r, o)
		sealed2 := gen.Seal(plan2.OuterBase, 0, key, suite, plan2.Enc.Body(), nil, 0x0301)
		edit("payload-from-other-hello", func(e *gen.ECHOuter) { e.Payload = sealed2.Payload; e.Enc = sealed2.Enc })
	}
	// the same binding on a retried hello: it is opened only if it names the config id and the cipher suite
	// of the first one, carries no enc, and was sealed under the first hello's context
	ridx := 0
	for rep := 0; rep < env.Pick(3, 30); rep++ {
		for _, rc := range retryCases(r) {
			ridx++
			s, first, rd := runRetryCase(rc, 70000)
			w := ""
			switch {
			case first.Err != "-" || !first.Accepted:
				w = "first hello of the retry history not accepted: " + first.Err
			case rd.Err != rc.Class && !(rc.Class == "" && rd.Err == "-"):
				w = fmt.Sprintf("retried hello of kind %s: outcome %s, want %q (%d bytes delivered to the backend)", rc.Kind, rd.Err, rc.Class, len(rd.Data))
			case rc.Class != "" && len(rd.Data) != 0:
				w = fmt.Sprintf("retried hello of kind %s was refused, but %d bytes of it reached the backend", rc.Kind, len(rd.Data))
			}
			s.X("a retried hello is opened only under the first hello's config id, cipher suite and context", w)
			emit(core.Case{Name: fmt.Sprintf("retry/%d", ridx), Stream: "retry", Ops: s.Ops, Key: "retry-" + rc.Kind,
				Sig: fmt.Sprintf("retry-%s/%s/%s", rc.Kind, rc.Mode, rd.Err), Sample: map[string]any{"mutator": "retry-" + rc.Kind, "mode": rc.Mode, "outcome": rd.Err}})
			env.Count("retry/" + rc.Kind + "/" + rd.Err)
		}
	}
}
