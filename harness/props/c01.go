package props

import (
	"bytes"
	"context"
	"crypto/ecdh"
	"crypto/tls"
	"errors"
	"fmt"
	"io"
	"math/rand/v2"
	"net"
	"slices"
	"sync"
	"time"

	"github.com/c2FmZQ/ech"

	"verifharness/connh"
	"verifharness/core"
	"verifharness/gen"
)

func init() {
	register(core.Campaign{
		Property: "C01",
		Rule: "real stack: crypto/tls client (ECH) -> ech.NewConn (client-facing server) -> crypto/tls backend WITHOUT ECH keys (or, when ECH is not accepted, the public-name crypto/tls server holding the current key), over in-memory pipes. " +
			"Matrix (pairwise-style random product): curve preferences {X25519, P-256, X25519MLKEM768 first; client's first share refused => real HelloRetryRequest}, ALPN lists, inner names of 1..253 bytes, cold/warm session cache (PSK binders), " +
			"client certificates {none, small, 20 KB}, backend chains {0.5, 4, 16.3, 20, 40 KB}, client-auth, key sets of 1..4 keys with every target position and colliding config ids, the three AEADs, stale vs fresh client config. " +
			"Oracles: handshake completes, client ECHAccepted, echo both ways, DidResume, backend ServerName/ALPN == Conn.ServerName()/ALPNProtos() == client's inner values; stale => ECHRejectionError with RetryConfigList == the held config. " +
			"Every recorded run (all transport reads; Conn.Read calls where they complete, Conn.Write calls where they start) is replayed through the Lean Conn model; the HPKE table is filled by opening the captured payloads with crypto/hpke. " +
			"distinct = (curves/HRR, alpn, name length, resumption, client cert, chain size, #keys/target position/collision, aead, stale).",
		Gen: genC01,
	})
}

// recConn records the transport-level reads and writes of the conn handed to ech.NewConn.
type recConn struct {
	net.Conn
	mu      sync.Mutex
	pending [][]byte // transport reads since the last read-side op
	out     []byte   // transport writes since the last write-side op
	frozen  bool
	closed  bool
}

func (r *recConn) Close() error {
	r.mu.Lock()
	r.closed = true
	r.mu.Unlock()
	return r.Conn.Close()
}

func (r *recConn) Read(b []byte) (int, error) {
	n, err := r.Conn.Read(b)
	r.mu.Lock()
	if n > 0 && !r.frozen {
		r.pending = append(r.pending, slices.Clone(b[:n]))
	}
	r.mu.Unlock()
	return n, err
}

func (r *recConn) Write(b []byte) (int, error) {
	n, err := r.Conn.Write(b)
	r.mu.Lock()
	if n > 0 && !r.frozen {
		r.out = append(r.out, b[:n]...)
	}
	r.mu.Unlock()
	return n, err
}

type c01Params struct {
	curves     string // x25519 | p256 | mlkem | hrr
	alpn       []string
	innerName  string
	warm       bool
	clientCert int // 0 none, else DER padding size
	chain      int // backend leaf padding
	clientAuth bool
	nKeys      int
	targetPos  int
	collide    bool
	aead       uint16
	stale      bool
	relayBuf   int  // size of the backend -> client copy buffer
	noCCS      bool // the client does not use middlebox compatibility mode: no dummy change_cipher_spec before its second flight (RFC 8446 D.4: optional)
}

func curveList(c string, server bool) []tls.CurveID {
	switch c {
	case "p256":
		return []tls.CurveID{tls.CurveP256}
	case "mlkem":
		return []tls.CurveID{tls.X25519MLKEM768, tls.X25519}
	case "hrr":
		if server {
			return []tls.CurveID{tls.CurveP256}
		}
		return []tls.CurveID{tls.X25519, tls.CurveP256}
	}
	return []tls.CurveID{tls.X25519}
}

// ccsDropper is a client that does not send the compatibility change_cipher_spec: crypto/tls always
// does, so the record (unauthenticated, ignored by every TLS 1.3 server) is taken out of what it writes.
type ccsDropper struct {
	net.Conn
	buf []byte
}

func (c *ccsDropper) Write(b []byte) (int, error) {
	c.buf = append(c.buf, b...)
	var out []byte
	for len(c.buf) >= 5 {
		n := 5 + (int(c.buf[3])<<8 | int(c.buf[4]))
		if len(c.buf) < n {
			break
		}
		if !(c.buf[0] == 20 && n == 6 && c.buf[5] == 1) {
			out = append(out, c.buf[:n]...)
		}
		c.buf = c.buf[n:]
	}
	if len(out) > 0 {
		if _, err := c.Conn.Write(out); err != nil {
			return 0, err
		}
	}
	return len(b), nil
}

type c01Run struct {
	ops        []core.Op
	fail       string
	accepted   bool
	sawHRR     bool
	resumed    bool
	fragmented bool // the ClientHello does not fit one TLS record
}

// oneHandshake runs client -> front -> backend once and returns the recorded op lines.
func oneHandshake(p c01Params, keys []ech.Key, clientCfg *tls.Config, backendCfg, publicCfg *tls.Config, wantRetryList []byte) c01Run {
	var run c01Run
	c1, f1 := connh.NewBufPipe() // client <-> front
	f2, b2 := connh.NewBufPipe() // front <-> backend
	deadline := time.Now().Add(6 * time.Second)
	for _, c := range []net.Conn{c1, f1, f2, b2} {
		c.SetDeadline(deadline)
	}
	defer func() {
		c1.Close()
		f1.Close()
		f2.Close()
		b2.Close()
	}()
	rc := &recConn{Conn: f1}
	sess := connh.NewSess(keys)
	var logMu sync.Mutex
	type frontRes struct {
		sni      string
		alpn     []string
		accepted bool
		err      error
	}
	frontDone := make(chan frontRes, 1)
	var serverState tls.ConnectionState
	var serverCHI struct {
		sni  string
		alpn []string
	}
	serverErr := make(chan error, 1)
	var wg sync.WaitGroup
	go func() {
		conn, err := ech.NewConn(context.Background(), rc, ech.WithKeys(keys))
		rc.mu.Lock()
		chunks := rc.pending
		rc.pending = nil
		out0 := rc.out
		rc.out = nil
		closed0 := rc.closed
		rc.mu.Unlock()
		// the HPKE table: open every client record we saw with the standard library
		if len(chunks) > 0 {
			sess.Register(bytes.Join(chunks, nil))
		}
		want := fmt.Sprintf("err=%s accepted=%d presented=%d sni=%s alpn=%s out=%s closed=%d", connh.ErrClass(err), b2i(conn.ECHAccepted()), b2i(conn.ECHPresented()),
			core.Hex([]byte(conn.ServerName())), core.StrHexList(conn.ALPNProtos()), core.Hex(out0), b2i(closed0))
		if c := bytes.Join(chunks, nil); len(c) >= 9 && c[0] == 22 {
			if (int(c[6])<<16|int(c[7])<<8|int(c[8]))+4 > (int(c[3])<<8 | int(c[4])) {
				run.fragmented = true
			}
		}
		logMu.Lock()
		sess.Ops = append(sess.Ops, core.Op{Line: fmt.Sprintf("new %s eof", core.HexList(chunks)), Kind: 'M', Want: want, Note: "NewConn on the real client's first flight"})
		logMu.Unlock()
		if err != nil {
			frontDone <- frontRes{err: err}
			return
		}
		fr := frontRes{sni: conn.ServerName(), alpn: conn.ALPNProtos(), accepted: conn.ECHAccepted()}
		// route: accepted => backend, else => public-name server
		scfg := backendCfg
		if !fr.accepted {
			scfg = publicCfg
		}
		srv := tls.Server(b2, scfg)
		wg.Add(1)
		go func() {
			defer wg.Done()
			err := srv.Handshake()
			if err == nil {
				serverState = srv.ConnectionState()
				buf := make([]byte, 64)
				n, _ := srv.Read(buf)
				srv.Write(append([]byte("echo:"), buf[:n]...))
			}
			serverErr <- err
		}()
		// client -> backend
		wg.Add(2)
		go func() {
			defer wg.Done()
			buf := make([]byte, 32*1024)
			var scan []byte // client bytes after the first flight not yet cut into records
			for {
				n, err := conn.Read(buf)
				rc.mu.Lock()
				chunks := rc.pending
				rc.pending = nil
				frozen := rc.frozen
				rc.mu.Unlock()
				if !frozen {
					// a retried hello needs its seal registered before the model sees it: walk the TLS records
					// of the client's byte stream, however the Conn's transport reads happened to cut it
					scan = append(scan, bytes.Join(chunks, nil)...)
					for len(scan) >= 5 {
						n := 5 + (int(scan[3])<<8 | int(scan[4]))
						if len(scan) < n {
							break
						}
						if scan[0] == 22 && n > 5 && scan[5] == 1 {
							sess.Register(scan[:n])
						}
						scan = scan[n:]
					}
					logMu.Lock()
					if len(chunks) > 0 {
						sess.Ops = append(sess.Ops, core.Op{Line: fmt.Sprintf("feed %s eof", core.HexList(chunks)), Kind: 'M', Want: "ok"})
					}
					sess.Ops = append(sess.Ops, core.Op{Line: fmt.Sprintf("read %d", len(buf)), Kind: 'M',
						Want: fmt.Sprintf("data=%s err=%s out=- closed=0", core.Hex(buf[:n]), connh.ErrClass(err)), Note: "Conn.Read (front -> backend copier)"})
					logMu.Unlock()
				}
				if n > 0 {
					if _, werr := f2.Write(buf[:n]); werr != nil {
						return
					}
				}
				if err != nil {
					return
				}
			}
		}()
		// backend -> client
		go func() {
			defer wg.Done()
			// the relay's copy buffer is reused for every chunk, as io.Copy does, and its size decides
			// where the backend's records are cut
			buf := make([]byte, p.relayBuf)
			for {
				n, err := f2.Read(buf)
				if n > 0 {
					// A Write takes its place in the recorded sequence when it STARTS: what it changes for the
					// reading side (a HelloRetryRequest arms the retry handling) happens before its bytes reach
					// the client, and the client's answer can be read - and that Read recorded - before this
					// call has returned. Reads take theirs when they complete (they look at that state after
					// their record has arrived). Nothing a Read does changes what a Write returns.
					logMu.Lock()
					slot := len(sess.Ops)
					sess.Ops = append(sess.Ops, core.Op{Kind: 'M', Note: "Conn.Write (backend -> client copier)"})
					logMu.Unlock()
					k, werr := conn.Write(buf[:n])
					rc.mu.Lock()
					out := rc.out
					rc.out = nil
					frozen := rc.frozen
					rc.mu.Unlock()
					logMu.Lock()
					if !frozen {
						sess.Ops[slot].Line = "write " + core.Hex(buf[:n])
						sess.Ops[slot].Want = fmt.Sprintf("n=%d err=%s out=%s closed=0", k, connh.ErrClass(werr), core.Hex(out))
					}
					logMu.Unlock()
					if werr != nil {
						return
					}
				}
				if err != nil {
					return
				}
			}
		}()
		frontDone <- fr
	}()
	var cliConn net.Conn = c1
	if p.noCCS {
		cliConn = &ccsDropper{Conn: c1}
	}
	cli := tls.Client(cliConn, clientCfg)
	herr := cli.Handshake()
	var fr frontRes
	select {
	case fr = <-frontDone:
	case <-time.After(6 * time.Second):
		run.fail = "front did not finish NewConn"
		return run
	}
	run.accepted = fr.accepted
	fail := func(f string, a ...any) {
		if run.fail == "" {
			run.fail = fmt.Sprintf(f, a...)
		}
	}
	if fr.err != nil {
		fail("NewConn failed on a real client hello: %v", fr.err)
	}
	if p.stale {
		var rej *tls.ECHRejectionError
		if !errors.As(herr, &rej) {
			fail("stale config: client error is %v, want ECHRejectionError", herr)
		} else if !bytes.Equal(rej.RetryConfigList, wantRetryList) {
			fail("stale config: RetryConfigList differs from the list held by the public-name server")
		}
		if fr.accepted {
			fail("stale config but ECH accepted")
		}
	} else {
		if herr != nil {
			fail("client handshake failed: %v", herr)
		} else {
			cs := cli.ConnectionState()
			if !cs.ECHAccepted {
				fail("client does not observe ECH acceptance")
			}
			msg := []byte("ping-through-ech")
			cli.Write(msg)
			buf := make([]byte, 64)
			n, rerr := io.ReadAtLeast(cli, buf, 5+len(msg))
			if rerr != nil || !bytes.Equal(buf[:n], append([]byte("echo:"), msg...)) {
				fail("application data did not flow both ways: %v %q", rerr, buf[:n])
			}
			run.resumed = cli.ConnectionState().DidResume
			select {
			case serr := <-serverErr:
				if serr != nil {
					fail("backend handshake failed: %v", serr)
				}
			case <-time.After(3 * time.Second):
				fail("backend did not finish")
			}
			if !fr.accepted {
				fail("fresh config but NewConn did not accept ECH")
			}
			if fr.sni != p.innerName {
				fail("Conn.ServerName()=%q, client's inner name %q", fr.sni, p.innerName)
			}
			if serverState.ServerName != p.innerName {
				fail("backend observed SNI %q, inner name %q", serverState.ServerName, p.innerName)
			}
			if !slices.Equal(fr.alpn, p.alpn) {
				fail("Conn.ALPNProtos()=%q, client offered %q", fr.alpn, p.alpn)
			}
			if !slices.Equal(serverCHI.alpn, p.alpn) && serverCHI.sni != "" {
				fail("backend saw ALPN %q, client offered %q", serverCHI.alpn, p.alpn)
			}
			if len(p.alpn) > 0 && serverState.NegotiatedProtocol != cs.NegotiatedProtocol {
				fail("negotiated protocol differs: backend %q client %q", serverState.NegotiatedProtocol, cs.NegotiatedProtocol)
			}
			if p.warm && !run.resumed {
				fail("warm session cache but the handshake did not resume")
			}
		}
	}
	rc.mu.Lock()
	rc.frozen = true
	rc.mu.Unlock()
	logMu.Lock()
	run.ops = slices.DeleteFunc(slices.Clone(sess.Ops), func(o core.Op) bool { return o.Kind == 'M' && o.Line == "" }) // a Write still in flight
	logMu.Unlock()
	for _, o := range run.ops {
		if o.Kind == 'M' && len(o.Line) > 30 && o.Line[:5] == "write" && bytes.Contains([]byte(o.Line), []byte(core.Hex(gen.HRRRandom))) {
			run.sawHRR = true
		}
	}
	c1.Close()
	f2.Close()
	b2.Close()
	f1.Close()
	wg.Wait()
	_ = serverCHI
	return run
}

func b2i(b bool) int {
	if b {
		return 1
	}
	return 0
}

func genC01(env *core.Env, emit func(core.Case)) {
	r := env.Rng
	pk := getPKI()
	n := env.Pick(60, 1200)
	for i := 0; i < n; i++ {
		p := c01Params{
			curves:     []string{"x25519", "p256", "mlkem", "hrr"}[r.IntN(4)],
			alpn:       [][]string{nil, {"h2"}, {"h2", "http/1.1"}, {"h3", "h2", "http/1.1", "acme-tls/1"}}[r.IntN(4)],
			warm:       r.IntN(3) == 0,
			clientCert: []int{0, 0, 200, 20000}[r.IntN(4)],
			chain:      []int{100, 3500, 15900, 20000, 40000}[r.IntN(5)],
			nKeys:      1 + r.IntN(4),
			collide:    r.IntN(2) == 0,
			aead:       uint16(1 + r.IntN(3)),
			stale:      r.IntN(4) == 0,
			relayBuf:   []int{1460, 4096, 16384, 32 * 1024}[r.IntN(4)],
			noCCS:      r.IntN(2) == 0,
		}
		nl := []int{3, 5, 63, 200, 253}[r.IntN(5)]
		p.innerName = dnsName(r.IntN, nl)
		p.clientAuth = p.clientCert > 0
		p.targetPos = r.IntN(p.nKeys)
		if p.stale {
			p.warm = false
		}
		// keys: the target at targetPos; others with the same id when collide
		id := uint8(r.IntN(256))
		suites := []gen.Suite{{KDF: 1, AEAD: p.aead}}
		var kms []*gen.KeyMat
		for k := 0; k < p.nKeys; k++ {
			kid := id
			if !p.collide && k != p.targetPos {
				kid = id + uint8(k+1)
			}
			pn := "public.example"
			if k != p.targetPos && r.IntN(2) == 0 {
				pn = "other-public.example" // another deployment's key, possibly under the same one-byte id
			}
			kms = append(kms, gen.NewKey(r, kid, pn, suites))
		}
		target := kms[p.targetPos]
		clientKey := target
		if p.stale {
			// a key the server no longer holds - under the id of a current key, or (rotation with fresh
			// ids, a bootstrap config with a random id) under an id and a suite that no held key has
			sid, ssuites := id, suites
			if r.IntN(2) == 0 {
				sid = id + 101
				if r.IntN(2) == 0 {
					ssuites = []gen.Suite{{KDF: 1, AEAD: p.aead%3 + 1}}
				}
			}
			clientKey = gen.NewKey(r, sid, "public.example", ssuites)
		}
		keys := echKeys(kms...)
		list, _ := ech.ConfigList([]ech.Config{clientKey.Config})
		var retryList []byte
		{
			var cfgs []ech.Config
			for _, k := range kms {
				cfgs = append(cfgs, k.Config)
			}
			retryList, _ = ech.ConfigList(cfgs)
		}
		backendCert := pk.leaf(p.chain, false, p.innerName)
		backendCfg := &tls.Config{Certificates: []tls.Certificate{backendCert}, NextProtos: []string{"h2", "http/1.1", "h3"}, CurvePreferences: curveList(p.curves, true), MinVersion: tls.VersionTLS13}
		if p.clientAuth {
			backendCfg.ClientAuth = tls.RequireAnyClientCert
		}
		publicCert := pk.leaf(0, false, "public.example")
		var echKeysTLS []tls.EncryptedClientHelloKey
		for _, k := range kms {
			echKeysTLS = append(echKeysTLS, tls.EncryptedClientHelloKey{Config: k.Config, PrivateKey: k.PrivBytes, SendAsRetry: true})
		}
		publicCfg := &tls.Config{Certificates: []tls.Certificate{publicCert}, EncryptedClientHelloKeys: echKeysTLS, MinVersion: tls.VersionTLS13,
			CurvePreferences: curveList(p.curves, true)} // the public-name server may answer with a HelloRetryRequest too
		clientCfg := &tls.Config{ServerName: p.innerName, RootCAs: pk.pool, EncryptedClientHelloConfigList: list, NextProtos: p.alpn, CurvePreferences: curveList(p.curves, false), MinVersion: tls.VersionTLS13}
		if p.clientCert > 0 {
			clientCfg.Certificates = []tls.Certificate{pk.leaf(p.clientCert, true, "client")}
		}
		if p.warm {
			clientCfg.ClientSessionCache = tls.NewLRUClientSessionCache(4)
		}
		_ = ecdh.X25519
		var runs []c01Run
		if p.warm {
			runs = append(runs, oneHandshake(c01Params{curves: p.curves, alpn: p.alpn, innerName: p.innerName, clientCert: p.clientCert, chain: p.chain, clientAuth: p.clientAuth, relayBuf: p.relayBuf}, keys, clientCfg, backendCfg, publicCfg, retryList))
		}
		runs = append(runs, oneHandshake(p, keys, clientCfg, backendCfg, publicCfg, retryList))
		for ri, run := range runs {
			ops := run.ops
			note := "C01 oracles: handshake completes through NewConn with a keyless backend, client observes ECH acceptance, data flows both ways, names/ALPN agree, resumption, retry configs"
			ops = append(ops, core.Op{Kind: 'X', Note: note, Want: run.fail})
			if p.curves == "hrr" && !p.stale && !run.sawHRR && !run.resumed && run.fail == "" {
				ops = append(ops, core.Op{Kind: 'X', Note: "the hrr configuration produces a real HelloRetryRequest", Want: "no HelloRetryRequest was written by the backend"})
			}
			phase := "full"
			if p.warm && ri == 0 {
				phase = "prime"
			} else if p.warm {
				phase = "resume"
			}
			sig := fmt.Sprintf("%s/hrr%v/alpn%d/name%d/%s/cc%d/chain%d/keys%d@%d/col%v/aead%d/stale%v", p.curves, run.sawHRR, len(p.alpn), nl, phase, p.clientCert, p.chain, p.nKeys, p.targetPos, p.collide, p.aead, p.stale)
			key := sig
			if run.fragmented {
				key = "clienthello-spans-several-records"
			}
			emit(core.Case{Name: fmt.Sprintf("hs/%d/%d", i, ri), Stream: "realstack", Ops: ops, Key: key, Sig: sig,
				Sample: map[string]any{"curves": p.curves, "hello_retry_request": run.sawHRR, "alpn": p.alpn, "inner_name_len": nl, "phase": phase, "resumed": run.resumed, "client_cert": p.clientCert,
					"backend_chain": p.chain, "keys": p.nKeys, "target_pos": p.targetPos, "colliding_ids": p.collide, "aead": p.aead, "stale": p.stale, "accepted": run.accepted, "ops": len(run.ops)}})
			env.Count(fmt.Sprintf("phase-%s/stale-%v", phase, p.stale))
			if run.sawHRR {
				env.Count("with-HelloRetryRequest")
			}
			if run.resumed {
				env.Count("resumed")
			}
		}
	}
	// first flights as clients other than crypto/tls write them (GREASE versions and extensions, shuffled
	// order, ech_outer_extensions compression, outer ALPN): routed on the inner hello, which is what an
	// independent TLS server then reads from the forwarded bytes
	for i := 0; i < env.Pick(60, 1500); i++ {
		key := gen.NewKey(r, uint8(r.IntN(256)), "public.example", gen.AllSuites)
		o := gen.PlanOpts{NOuterOpaque: 2 + r.IntN(4), NInnerOpaque: r.IntN(4), MaxExtLen: 40, Padding: r.IntN(32), SIDLen: 32, RefMask: r.Uint64(), MarkerPos: r.IntN(6),
			InnerName: hostName(r), ALPN: alpnList(r), PublicName: "public.example", RefOuterVersions: r.IntN(6) == 0}
		plan := gen.Plan(r, o)
		sealed := gen.Seal(plan.OuterBase, r.IntN(len(plan.OuterBase.Exts)+1), key, gen.AllSuites[r.IntN(3)], plan.Enc.Body(), nil, 0x0301)
		s := connh.NewSess(echKeys(key))
		s.Register(sealed.Rec)
		res := s.New(oneChunk(sealed.Rec), "eof")
		w := ""
		if res.Err != "-" || !res.Accepted {
			w = fmt.Sprintf("an authentic ECH hello of a non-Go client was not accepted (err=%s accepted=%v)", res.Err, res.Accepted)
		} else {
			d := s.Read(70000)
			sni, alpn, ok := tlsView(d.Data)
			if !ok {
				// crypto/tls refuses hellos whose (randomly filled) well-known extensions do not parse; read
				// the two extensions with the harness's own reader instead
				sni, alpn, ok = ownView(d.Data)
				env.Count("foreign-client/read-by-own-parser")
			} else {
				env.Count("foreign-client/read-by-crypto-tls")
			}
			switch {
			case !ok:
				w = "the forwarded hello cannot be read"
			case sni != o.InnerName || res.SNI != o.InnerName:
				w = fmt.Sprintf("inner server name %q: backend sees %q, Conn reports %q", o.InnerName, sni, res.SNI)
			case !slices.Equal(alpn, o.ALPN) && !(len(alpn) == 0 && len(o.ALPN) == 0):
				w = fmt.Sprintf("inner ALPN %q: backend sees %q", o.ALPN, alpn)
			case !slices.Equal(res.ALPN, o.ALPN) && !(len(res.ALPN) == 0 && len(o.ALPN) == 0):
				w = fmt.Sprintf("inner ALPN %q: Conn reports %q", o.ALPN, res.ALPN)
			}
		}
		s.X("a non-Go client's ECH hello is accepted and routed on its inner hello (names as the backend's TLS stack reads them)", w)
		emit(core.Case{Name: fmt.Sprintf("foreign/%d", i), Stream: "foreign-client", Ops: s.Ops, Key: "foreign-client",
			Sig: fmt.Sprintf("foreign/%v/alpn%d", res.Accepted, len(o.ALPN)), Sample: map[string]any{"stream": "foreign-client", "inner_name_len": len(o.InnerName), "alpn": o.ALPN, "accepted": res.Accepted}})
		env.Count(fmt.Sprintf("foreign-client/accepted-%v", res.Accepted))
	}
	_ = rand.Int
}

// ownView extracts server_name and ALPN from a ClientHello record with the harness's own parser.
func ownView(rec []byte) (sni string, alpn []string, ok bool) {
	h, _, err := gen.ParseRecord(rec)
	if err != nil {
		return "", nil, false
	}
	for _, e := range h.Exts {
		switch e.Type {
		case 0:
			if len(e.Data) >= 5 {
				n := int(e.Data[3])<<8 | int(e.Data[4])
				if 5+n <= len(e.Data) {
					sni = string(e.Data[5 : 5+n])
				}
			}
		case 16:
			b := e.Data
			if len(b) >= 2 {
				b = b[2:]
				for len(b) > 0 && 1+int(b[0]) <= len(b) {
					alpn = append(alpn, string(b[1:1+int(b[0])]))
					b = b[1+int(b[0]):]
				}
			}
		}
	}
	return sni, alpn, true
}
