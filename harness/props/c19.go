package props

import (
	"bytes"
	"context"
	"crypto/tls"
	"errors"
	"fmt"
	"io"
	"net"
	"net/http"
	"net/url"
	"runtime"
	"slices"
	"strings"
	"sync"
	"sync/atomic"
	"time"

	"github.com/c2FmZQ/ech"

	"verifharness/core"
	"verifharness/zoneh"
)

func init() {
	register(core.Campaign{
		Property: "C19",
		Rule: "real http.Client over ech.Transport with a local DoH zone, a recording Dialer.DialFunc that connects to a local TLS (h2/http1.1) test server, and a stub HTTP3Transport: URLs (http/https, default and explicit ports, explicit Host header, " +
			"distinct hosts sharing one address) x HTTPS record sets (0..4 records: priorities incl. alias, ALPN lists over {h3,h2,http/1.1,other}, no-default-alpn, targets, ports, ECH, unique hints) x with/without an HTTP/3 round-tripper " +
			"x request sequences that could reuse connections. Per request, two runs: enumeration (every attempt fails: the list of dialled targets = the filtered record set) and connection (first attempt succeeds: Host, SNI, connection identity at the server, resp.Request). " +
			"Observations checked against the Lean plan (plan-check) and Go predicates: no plaintext, upgrade, SNI = URL host, Host = original authority, no connection shared between origins. Plus a late-dial stream: a dial net/http finishes in the background for a request that was given up, with another origin served meanwhile, is still made for its own origin. distinct = (url shape, record-set shape, h3?, path taken).",
		Gen: genC19,
	})
}

type srvSeen struct {
	host, sni, remote, proto string
}

func genC19(env *core.Env, emit func(core.Case)) {
	r := env.Rng
	// an injected clock, so that cached DNS answers can be made to expire
	var clockMu sync.Mutex
	var clockOff time.Duration
	clockBase := time.Date(2026, 1, 1, 0, 0, 0, 0, time.UTC)
	ech.VerifSetClock(func() time.Time {
		clockMu.Lock()
		defer clockMu.Unlock()
		return clockBase.Add(clockOff)
	})
	defer ech.VerifSetClock(nil)
	pk := getPKI()
	hosts := []string{"a.example", "b.example", "c.example"}
	cert := pk.leaf(0, false, hosts...)
	var mu sync.Mutex
	var seen []srvSeen
	ln, err := net.Listen("tcp", "127.0.0.1:0")
	if err != nil {
		panic(err)
	}
	server := &http.Server{Handler: http.HandlerFunc(func(w http.ResponseWriter, req *http.Request) {
		mu.Lock()
		seen = append(seen, srvSeen{req.Host, req.TLS.ServerName, req.RemoteAddr, req.Proto})
		mu.Unlock()
		fmt.Fprintf(w, "ok %s", req.Host)
	}), TLSConfig: &tls.Config{Certificates: []tls.Certificate{cert}}}
	go server.ServeTLS(ln, "", "")
	defer server.Close()
	zs := zoneh.NewServer(env.Seed + 19)
	defer zs.Close()
	n := env.Pick(250, 4000)
	for i := 0; i < n; i++ {
		// zone: every host resolves to the same address (distinct origins sharing an address)
		u := zoneh.Universe{}
		shapes := map[string]string{}
		zoneRecs := map[string][]*zoneh.HTTPS{} // the service-mode records each host publishes, in the order the server lists them
		for hi, h := range hosts {
			u[zoneh.Key{Name: h, Type: 1}] = zoneh.Resp{Answers: []zoneh.Ans{{Owner: h, Type: 1, TTL: 60, IP: []byte{10, 7, 0, 1}}}}
			u[zoneh.Key{Name: h, Type: 28}] = zoneh.Resp{}
			nrec := r.IntN(5)
			var ans []zoneh.Ans
			shape := ""
			for k := 0; k < nrec; k++ {
				hr := &zoneh.HTTPS{Priority: r.IntN(4)}
				if hr.Priority == 0 && k > 0 {
					hr.Priority = 1 // an alias record only makes sense first
				}
				switch r.IntN(6) {
				case 0:
				case 1:
					hr.ALPN = []string{"h3"}
				case 2:
					hr.ALPN = []string{"h2"}
				case 3:
					hr.ALPN = []string{"h3", "h2"}
				case 4:
					hr.ALPN = []string{"http/1.1"}
				case 5:
					// protocol ids that are not "h3", however close
					hr.ALPN = [][]string{{"spdy/9"}, {"h3-29", "h2"}, {"h3-32"}, {"H3", "h2"}, {"h3x"}, {"h2", "h3-29"}}[(hi+k+nrec)%6]
				}
				hr.NoDef = r.IntN(3) == 0
				hr.V4 = [][]byte{{10, 7, byte(hi + 1), byte(k + 1)}} // unique hint: identifies the record
				if r.IntN(3) == 0 {
					hr.Port = 8443
				}
				if r.IntN(2) == 0 {
					hr.ECH = []byte{byte(hi), byte(k), 1, 2, 3}
				}
				if hr.Priority == 0 {
					hr = &zoneh.HTTPS{Priority: 0, Target: ""} // alias to ".": no service
				}
				zoneRecs[h] = append(zoneRecs[h], hr)
				shape += fmt.Sprintf("%d%s%v|", hr.Priority, strings.Join(hr.ALPN, ","), hr.NoDef)
				ans = append(ans, zoneh.Ans{Owner: h, Type: 65, TTL: 60, HTTPS: hr})
			}
			if len(ans) > 0 {
				u[zoneh.Key{Name: h, Type: 65}] = zoneh.Resp{Answers: ans}
				u[zoneh.Key{Name: "_8443._https." + h, Type: 65}] = zoneh.Resp{Answers: func() []zoneh.Ans {
					c := make([]zoneh.Ans, len(ans))
					for j := range ans {
						c[j] = ans[j]
						c[j].Owner = "_8443._https." + h
					}
					return c
				}()}
			}
			shapes[h] = shape
		}
		zs.Set(u)
		hasH3 := r.IntN(2) == 0
		resolver, err := ech.NewResolver(zs.URL())
		if err != nil {
			panic(err)
		}
		// a short sequence of requests on one Transport (connection reuse across origins?)
		type dcall struct {
			addr, sn string
			ech      []byte
		}
		var dmu sync.Mutex
		var dcalls []dcall
		enumerate := false
		tr := ech.NewTransport()
		trEnum := ech.NewTransport() // separate pool for the enumeration runs
		for _, x := range []*ech.Transport{tr, trEnum} {
			x.Resolver = resolver
			x.TLSConfig = &tls.Config{RootCAs: pk.pool}
			x.Dialer.MaxConcurrency = 1
			x.Dialer.ConcurrencyDelay = 1
		}
		dialFunc := func(ctx context.Context, network, addr string, tc *tls.Config) (*tls.Conn, error) {
			dmu.Lock()
			late := ctx.Err() != nil
			if !late {
				dcalls = append(dcalls, dcall{addr, tc.ServerName, bytes.Clone(tc.EncryptedClientHelloConfigList)})
			}
			en := enumerate
			dmu.Unlock()
			if late {
				return nil, ctx.Err()
			}
			if en {
				return nil, errors.New("scripted: unreachable")
			}
			c2 := tc.Clone()
			c2.EncryptedClientHelloConfigList = nil // the local test server holds no ECH key
			d := tls.Dialer{Config: c2}
			c, err := d.DialContext(ctx, "tcp", ln.Addr().String())
			if err != nil {
				return nil, err
			}
			return c.(*tls.Conn), nil
		}
		tr.Dialer.DialFunc = dialFunc
		trEnum.Dialer.DialFunc = dialFunc
		var h3seen []*http.Request
		if hasH3 {
			trEnum.HTTP3Transport = roundTripFunc(func(req *http.Request) (*http.Response, error) {
				dmu.Lock()
				h3seen = append(h3seen, req)
				dmu.Unlock()
				// what an HTTP/3 round-tripper does next: Dial over UDP with the request's context, which
				// carries the record set Transport selected for this protocol (every attempt fails here)
				qd := &ech.Dialer[*tls.Conn]{MaxConcurrency: 1, ConcurrencyDelay: 1, Timeout: time.Second}
				qd.DialFunc = func(ctx context.Context, network, addr string, tc *tls.Config) (*tls.Conn, error) {
					if ctx.Err() == nil {
						dmu.Lock()
						dcalls = append(dcalls, dcall{addr, tc.ServerName, bytes.Clone(tc.EncryptedClientHelloConfigList)})
						dmu.Unlock()
					}
					return nil, errors.New("scripted: unreachable")
				}
				qd.Dial(req.Context(), "udp", req.URL.Host, &tls.Config{RootCAs: pk.pool})
				return &http.Response{StatusCode: 200, Body: io.NopCloser(strings.NewReader("h3")), Header: http.Header{}, Request: req}, nil
			})
			tr.HTTP3Transport = roundTripFunc(func(req *http.Request) (*http.Response, error) {
				dmu.Lock()
				h3seen = append(h3seen, req)
				dmu.Unlock()
				return &http.Response{StatusCode: 200, Body: io.NopCloser(strings.NewReader("h3")), Header: http.Header{}, Request: req}, nil
			})
		}
		client := &http.Client{Transport: tr}
		clientEnum := &http.Client{Transport: trEnum}
		ops := []core.Op{}
		w := ""
		path := ""
		remoteByOrigin := map[string]string{}
		nreq := 1 + r.IntN(3)
		lastH3URL, lastH3Host := "", ""
		for q := 0; q < nreq; q++ {
			host := hosts[r.IntN(len(hosts))]
			scheme := []string{"https", "https", "http"}[r.IntN(3)]
			portS := []string{"", "", ":443", ":8443", ":80"}[r.IntN(5)]
			if scheme == "http" && portS == ":443" {
				portS = ""
			}
			hostHdr := ""
			emptyHost := r.IntN(4) == 0
			if r.IntN(6) == 0 {
				hostHdr = "front." + host
			}
			rawURL := scheme + "://" + host + portS + "/x"
			// the resolution result as Transport sees it (resolver verified by C14)
			res, rerr := resolver.Resolve(context.Background(), rawURL)
			if rerr != nil {
				continue
			}
			uu, _ := url.Parse(rawURL)
			split := "-"
			if h, p, err := net.SplitHostPort(uu.Host); err == nil {
				split = hs2(h) + "," + hs2(p)
			}
			do := func(enum bool) (obs map[string]string, resp *http.Response, req *http.Request, err error) {
				dmu.Lock()
				enumerate = enum
				dcalls = nil
				h3seen = nil
				dmu.Unlock()
				mu.Lock()
				seen = nil
				mu.Unlock()
				req, _ = http.NewRequest("GET", rawURL, nil)
				if hostHdr != "" {
					req.Host = hostHdr
				} else if emptyHost {
					req.Host = "" // a request built as a literal, or by a reverse proxy: the authority is the URL's
				}
				if enum {
					resp, err = clientEnum.Do(req)
				} else {
					resp, err = client.Do(req)
				}
				if resp != nil {
					io.ReadAll(resp.Body)
					resp.Body.Close()
				}
				obs = map[string]string{"h3": "0", "scheme": "?", "key": "?", "host": "?", "tls": "?", "targets": "?", "plain": "0"}
				dmu.Lock()
				defer dmu.Unlock()
				if len(h3seen) > 0 {
					obs["h3"] = "1"
					obs["scheme"] = hs2(h3seen[0].URL.Scheme)
					obs["key"] = hs2(h3seen[0].URL.Host)
					obs["host"] = hs2(h3seen[0].Host)
				}
				if err != nil && strings.Contains(err.Error(), "plaintext") {
					obs["plain"] = "1"
				}
				if len(dcalls) > 0 {
					obs["tls"] = hs2(dcalls[0].sn)
				}
				return
			}
			// run 1: enumeration
			obsE, _, _, _ := do(true)
			// HTTP/3 is chosen iff the most-preferred usable record - by SvcPriority, whatever order the
			// server listed the records in - offers h3 (decided here from the zone, not from the resolver)
			if zr := zoneRecs[host]; hasH3 && len(zr) > 0 && len(zr) == len(res.HTTPS) && !slices.ContainsFunc(zr, func(h *zoneh.HTTPS) bool { return h.Priority == 0 }) {
				sorted := slices.Clone(zr)
				slices.SortStableFunc(sorted, func(a, b *zoneh.HTTPS) int { return a.Priority - b.Priority })
				wantH3 := false
				for _, h := range sorted {
					if slices.Contains(h.ALPN, "h3") {
						wantH3 = true
						break
					}
					if !h.NoDef || slices.Contains(h.ALPN, "h2") || slices.Contains(h.ALPN, "http/1.1") {
						break
					}
				}
				if (obsE["h3"] == "1") != wantH3 && w == "" {
					w = fmt.Sprintf("%s: HTTP/3 used = %v, but by SvcPriority the most-preferred usable record of %s offers h3 = %v (records as served: %s)", rawURL, obsE["h3"] == "1", host, wantH3, shapes[host])
				}
			}
			if obsE["plain"] == "0" {
				dmu.Lock()
				var tl []string
				for _, c := range dcalls {
					// the address and the ECH config list the attempt was made with
					e := "-"
					if len(c.ech) > 0 {
						e = core.Hex(c.ech)
					}
					tl = append(tl, c.addr+"/"+e)
				}
				dmu.Unlock()
				// compare addresses only: render model targets as addr list too (done in Go below)
				obsE["targets"] = "?"
				want := []string{}
				_ = want
				obsE["dialled"] = strings.Join(tl, ",")
			}
			args := fmt.Sprintf("%s %s %s %s %d %s", hs2(scheme), hs2(uu.Host), split, func() string {
				if hostHdr == "" {
					return "-"
				}
				return hs2(hostHdr)
			}(), b01(hasH3), resultArgs(res))
			ops = append(ops, core.Op{Line: fmt.Sprintf("plan-check %s %s %s %s %s %s %s %s", args, obsE["h3"], obsE["scheme"], obsE["key"], obsE["host"], obsE["tls"], "?", obsE["plain"]), Kind: 'M', Want: "match",
				Note: "enumeration run of " + rawURL})
			// model's target list vs dialled addresses
			ops = append(ops, core.Op{Line: "plan " + args, Kind: 'M', Want: "", Note: "plan (targets compared below)"})
			planIdx := len(ops) - 1
			_ = planIdx
			// run 2: connection
			obsC, resp, req, cerr := do(false)
			mu.Lock()
			sv := append([]srvSeen{}, seen...)
			mu.Unlock()
			if obsC["h3"] == "1" {
				lastH3URL, lastH3Host = rawURL, host
				path += "h3,"
			} else if obsC["plain"] == "1" {
				path += "plain-refused,"
			} else if cerr != nil {
				path += "dial-failed,"
			} else {
				path += "tls,"
			}
			if len(sv) > 0 {
				obsC["host"] = hs2(sv[0].host)
				obsC["tls"] = hs2(sv[0].sni)
				effScheme := scheme
				if len(res.HTTPS) > 0 && scheme == "http" {
					effScheme = "https"
				}
				effPort := portS
				if effPort == "" {
					effPort = map[string]string{"https": ":443", "http": ":80"}[effScheme]
				}
				origin := effScheme + "|" + host + "|" + effPort
				// no pooled connection shared between different origins
				for o, rem := range remoteByOrigin {
					if o != origin && rem == sv[0].remote && w == "" {
						w = fmt.Sprintf("origins %s and %s shared one pooled connection", o, origin)
					}
				}
				remoteByOrigin[origin] = sv[0].remote
				if sv[0].sni != host && w == "" {
					w = fmt.Sprintf("server authenticated as %q for URL host %q", sv[0].sni, host)
				}
				wantHost := uu.Host
				if hostHdr != "" {
					wantHost = hostHdr
				}
				if sv[0].host != wantHost && w == "" {
					w = fmt.Sprintf("Host header %q, original authority %q", sv[0].host, wantHost)
				}
			}
			if resp != nil && resp.Request != req && w == "" {
				w = "response is not bound to the caller's original request"
			}
			if req != nil && req.URL.String() != rawURL && w == "" {
				// the request the response is bound to must still be the one the caller made
				w = fmt.Sprintf("the caller's request was for %s; after RoundTrip its URL reads %s", rawURL, req.URL.String())
			}
			if cerr == nil && scheme == "http" && len(res.HTTPS) == 0 && w == "" {
				w = "an http request without HTTPS records was carried out (plaintext?)"
			}
			ops = append(ops, core.Op{Line: fmt.Sprintf("plan-check %s %s %s %s %s %s %s %s", args, obsC["h3"], obsC["scheme"], obsC["key"], obsC["host"], obsC["tls"], "?", obsC["plain"]), Kind: 'M', Want: "match",
				Note: "connection run of " + rawURL})
			// dialled addresses in the enumeration run == targets of the filtered result (Go-side rendering of the same model output is avoided: compare via a dedicated op)
			if d, ok := obsE["dialled"]; ok {
				ops = append(ops, core.Op{Line: fmt.Sprintf("plan-dialled %s %s", args, func() string {
					if d == "" {
						return "_"
					}
					return hs2(d)
				}()), Kind: 'M', Want: "match", Note: "addresses dialled (all attempts failing), each with its ECH config list == targets of the filtered record set"})
			}
		}
		// the origin changes what it publishes (h3 is withdrawn: one record, h2 only) and the cached answers
		// expire: the next request to an origin that was served over HTTP/3 a moment ago follows the records
		// as they are NOW
		if lastH3URL != "" && !strings.Contains(lastH3URL, ":8443") && !strings.Contains(lastH3URL, ":80") {
			u2 := zoneh.Universe{}
			for k, v := range u {
				u2[k] = v
			}
			u2[zoneh.Key{Name: lastH3Host, Type: 65}] = zoneh.Resp{Answers: []zoneh.Ans{{Owner: lastH3Host, Type: 65, TTL: 60,
				HTTPS: &zoneh.HTTPS{Priority: 1, ALPN: []string{"h2"}, NoDef: true, V4: [][]byte{{10, 7, 9, 9}}}}}}
			zs.Set(u2)
			clockMu.Lock()
			clockOff += 3 * time.Hour
			clockMu.Unlock()
			dmu.Lock()
			h3seen = nil
			dcalls = nil
			enumerate = false
			dmu.Unlock()
			req, _ := http.NewRequest("GET", lastH3URL, nil)
			resp, _ := client.Do(req)
			if resp != nil {
				io.ReadAll(resp.Body)
				resp.Body.Close()
			}
			dmu.Lock()
			if len(h3seen) > 0 && w == "" {
				w = fmt.Sprintf("%s: HTTP/3 used although the origin's records (re-fetched after expiry) no longer offer h3; earlier request to the same origin went over h3", lastH3URL)
			}
			dmu.Unlock()
			zs.Set(u)
			path += "h3-withdrawn,"
		}
		// drop the placeholder plan ops (kept simple: remove ops with empty Want)
		var ops2 []core.Op
		for _, o := range ops {
			if o.Kind == 'M' && o.Want == "" {
				continue
			}
			ops2 = append(ops2, o)
		}
		ops2 = append(ops2, core.Op{Kind: 'X', Note: "never plaintext, SNI = URL host, Host = original authority, no pooled connection shared between origins, response bound to the caller's request", Want: w})
		sig := fmt.Sprintf("h3%v/%s/%s", hasH3, path, shapes[hosts[0]])
		emit(core.Case{Name: fmt.Sprintf("rt/%d", i), Stream: "roundtrip", Ops: ops2, Key: "roundtrip/" + path, Sig: sig,
			Sample: map[string]any{"has_h3": hasH3, "paths": path, "records_a": shapes[hosts[0]], "requests": nreq}})
		env.Count(path)
		tr.HTTPTransport.CloseIdleConnections()
	}
	genC19Late(env, emit, zs, ln.Addr().String(), pk)
}

// genC19Late: a connection that net/http started to dial for origin X reaches the Dialer only after the request
// that asked for it has been given up and a request for another origin Y has been served in between (net/http
// lets such a dial finish in the background and parks the connection under X's key). Whenever it happens, the
// dial made for X is X's: X's address, X's name, X's ECH config list.
func genC19Late(env *core.Env, emit func(core.Case), zs *zoneh.Server, lnAddr string, pk *testPKI) {
	// one P: the scheduling (and any per-P caching inside the library) is then the same on every run
	defer runtime.GOMAXPROCS(runtime.GOMAXPROCS(1))
	hosts := []string{"a.example", "b.example", "c.example"}
	u := zoneh.Universe{}
	for hi, h := range hosts {
		u[zoneh.Key{Name: h, Type: 1}] = zoneh.Resp{Answers: []zoneh.Ans{{Owner: h, Type: 1, TTL: 60, IP: []byte{10, 7, 0, byte(hi + 1)}}}}
		u[zoneh.Key{Name: h, Type: 28}] = zoneh.Resp{}
		u[zoneh.Key{Name: h, Type: 65}] = zoneh.Resp{Answers: []zoneh.Ans{{Owner: h, Type: 65, TTL: 60, HTTPS: &zoneh.HTTPS{Priority: 1, ECH: []byte{byte(hi + 1), 9, 9}}}}}
	}
	zs.Set(u)
	type dcall struct{ addr, sn, ech string }
	want := func(h string) dcall {
		hi := slices.Index(hosts, h)
		return dcall{fmt.Sprintf("10.7.0.%d:443", hi+1), h, core.Hex([]byte{byte(hi + 1), 9, 9})}
	}
	for rep, pair := range [][2]string{{"a.example", "b.example"}, {"c.example", "a.example"}, {"b.example", "c.example"}} {
		x, y := pair[0], pair[1]
		resolver, err := ech.NewResolver(zs.URL())
		if err != nil {
			panic(err)
		}
		tr := ech.NewTransport()
		tr.Resolver = resolver
		tr.TLSConfig = &tls.Config{RootCAs: pk.pool}
		dials := make(chan dcall, 16)
		tr.Dialer.DialFunc = func(ctx context.Context, network, addr string, tc *tls.Config) (*tls.Conn, error) {
			dials <- dcall{addr, tc.ServerName, core.Hex(tc.EncryptedClientHelloConfigList)}
			c2 := tc.Clone()
			c2.EncryptedClientHelloConfigList = nil
			d := tls.Dialer{Config: c2}
			c, err := d.DialContext(ctx, "tcp", lnAddr)
			if err != nil {
				return nil, err
			}
			return c.(*tls.Conn), nil
		}
		entered, release := make(chan struct{}), make(chan struct{})
		var first atomic.Bool
		orig := tr.HTTPTransport.DialTLSContext
		tr.HTTPTransport.DialTLSContext = func(ctx context.Context, network, addr string) (net.Conn, error) {
			if first.CompareAndSwap(false, true) {
				close(entered)
				<-release // a dial goroutine that is slow to get going
			}
			return orig(ctx, network, addr)
		}
		client := &http.Client{Transport: tr}
		get := func(ctx context.Context, url string) (string, error) {
			req, _ := http.NewRequestWithContext(ctx, "GET", url, nil)
			resp, err := client.Do(req)
			if err != nil {
				return "", err
			}
			defer resp.Body.Close()
			b, _ := io.ReadAll(resp.Body)
			return string(b), nil
		}
		w := ""
		note := func(s string) {
			if w == "" {
				w = s
			}
		}
		ctx1, cancel1 := context.WithCancel(context.Background())
		done1 := make(chan error, 1)
		go func() {
			_, err := get(ctx1, "https://"+x+"/one")
			done1 <- err
		}()
		path := "late-dial"
		select {
		case <-entered:
		case <-time.After(5 * time.Second):
			path = "late-dial-not-reached"
		}
		cancel1()
		select {
		case <-done1:
		case <-time.After(5 * time.Second):
			path = "late-dial-cancel-slow" // not this property's business (and this machine may just be busy)
		}
		if path == "late-dial" {
			if body, err := get(context.Background(), "https://"+y+"/two"); err != nil || body != "ok "+y {
				note(fmt.Sprintf("request for %s in between: %q %v", y, body, err))
			}
			select {
			case d := <-dials:
				if d != want(y) {
					note(fmt.Sprintf("dial for origin %s: %+v, want %+v", y, d, want(y)))
				}
			default:
				note("no dial for " + y)
			}
			close(release)
			select {
			case d := <-dials:
				if d != want(x) {
					note(fmt.Sprintf("the connection net/http dialled in the background for origin %s (request given up, a request for %s served meanwhile) was made as %+v, want %+v", x, y, d, want(x)))
				}
			case <-time.After(3 * time.Second):
				path = "late-dial-abandoned" // net/http chose not to finish it: nothing to check
			}
			time.Sleep(50 * time.Millisecond)
			if body, err := get(context.Background(), "https://"+x+"/three"); err != nil || body != "ok "+x {
				note(fmt.Sprintf("next request for %s: %q %v", x, body, err))
			}
		drain:
			for {
				select {
				case d := <-dials:
					if d != want(x) {
						note(fmt.Sprintf("dial for origin %s: %+v, want %+v", x, d, want(x)))
					}
				default:
					break drain
				}
			}
		} else {
			close(release)
		}
		tr.HTTPTransport.CloseIdleConnections()
		emit(core.Case{Name: fmt.Sprintf("late/%d", rep), Stream: "late-dial", Key: "late-dial/" + x, Sig: path + "/" + x,
			Ops:    []core.Op{{Kind: 'X', Note: "a dial that outlives its request is still made for its own origin (address, server name, ECH list)", Want: w}},
			Sample: map[string]any{"paths": path, "x": x, "y": y}})
		env.Count(path)
	}
}

type roundTripFunc func(*http.Request) (*http.Response, error)

func (f roundTripFunc) RoundTrip(r *http.Request) (*http.Response, error) { return f(r) }
