package props

import (
	"bytes"
	"context"
	"fmt"
	"math/rand/v2"

	"github.com/c2FmZQ/ech"

	"verifharness/connh"
	"verifharness/core"
	"verifharness/gen"
)

func init() {
	register(core.Campaign{
		Property: "C07",
		Rule: "client streams = (accepted ECH hello | plain hello) followed by records of types 20/21/22/23 with lengths from {0,1,2,5,100,16383,16384,16385,16400,16401,16640} (16641 as the illegal control); " +
			"EXHAUSTIVE: all 2^11 chunkings of a 12-byte tail, a chunk boundary at every offset of the hello, a transport cut (EOF and error) at EVERY byte offset of a multi-record stream, " +
			"every two-way split offset of a backend flight on the write side; sampled: random chunkings x read-buffer sizes {1,2,5,16,1024,16389,70000}. " +
			"Go-side predicates: delivered == rewritten hello ++ remaining client bytes (prefix up to the cut, then the transport's error); client receives exactly the backend bytes minus at most one incomplete record. " +
			"distinct = (stream kind, accepted?, chunking class, read size, record length class, cut region, outcome).",
		Gen: genC07,
	})
}

var recLens = []int{0, 1, 2, 5, 100, 16383, 16384, 16385, 16400, 16401, 16640}

func lenClass(n int) string {
	switch {
	case n == 0:
		return "0"
	case n <= 16384:
		return "<=2^14"
	case n <= 16640:
		return "<=2^14+256"
	}
	return ">max"
}

// c07Hello returns keys, the client's first record and the record the backend must receive.
func c07Hello(r *rand.Rand, accepted bool) ([]ech.Key, []byte, []byte, func(s *connh.Sess)) {
	if accepted {
		key := gen.NewKey(r, uint8(r.IntN(256)), "public.example", gen.AllSuites)
		o := gen.PlanOpts{NOuterOpaque: 2, NInnerOpaque: 2, MaxExtLen: 30, Padding: 8, SIDLen: 32, RefMask: 3, MarkerPos: 1, InnerName: "inner.example", ALPN: []string{"h2"}, PublicName: "public.example"}
		plan := gen.Plan(r, o)
		sealed := gen.Seal(plan.OuterBase, 1, key, gen.AllSuites[r.IntN(3)], plan.Enc.Body(), nil, 0x0301)
		return echKeys(key), sealed.Rec, plan.Expected(sealed.Outer, 0x0303), func(s *connh.Sess) { s.Register(sealed.Rec) }
	}
	h := gen.BaseHello(r)
	h.Version = 0x0303
	h.Exts = []gen.Ext{gen.SNI("plain.example"), gen.Versions(0x0304), gen.ALPN("h2", "http/1.1"), gen.RandomExt(r, map[uint16]bool{}, 40)}
	rec := h.Record(0x0301)
	want := h.Record(0x0303)
	var keys []ech.Key
	if r.IntN(2) == 0 {
		keys = echKeys(gen.NewKey(r, 9, "public.example", gen.AllSuites))
	}
	return keys, rec, want, func(*connh.Sess) {}
}

func genC07(env *core.Env, emit func(core.Case)) {
	r := env.Rng
	idx := 0
	readSizes := []int{1, 2, 5, 16, 1024, 16389, 70000}
	for rep := 0; rep < 6; rep++ {
		ops, p := interleavedSessions(r, rep%2 == 0)
		if ops == nil {
			continue
		}
		w := ""
		if p != "" {
			w = "Read panicked: " + p
		}
		ops = append(ops, core.Op{Kind: 'X', Note: "two connections read in turns: no panic", Want: w})
		emit(core.Case{Name: fmt.Sprintf("interleaved/%d", rep), Stream: "interleaved", Ops: ops, Key: fmt.Sprintf("interleaved/%v", rep%2 == 0), Sig: fmt.Sprintf("interleaved/%v/%d", rep%2 == 0, rep),
			Sample: map[string]any{"stream": "interleaved", "accepted": rep%2 == 0}})
		env.Count("interleaved")
	}
	// readCase: run one client stream and check the read-side pipe predicate.
	readCase := func(stream string, accepted bool, tail []byte, mkChunks func(all []byte) [][]byte, fin string, sizes []int, sig string, legal bool) {
		idx++
		keys, rec, want, reg := c07Hello(r, accepted)
		s := connh.NewSess(keys)
		reg(s)
		all := gen.Cat(rec, tail)
		res := s.New(mkChunks(all), fin)
		outcome := res.Err
		if res.Err == "-" {
			d := drain(s, sizes, 200000)
			outcome = d.Err
			expect := gen.Cat(want, tail)
			w := ""
			finCls := "io:" + fin
			switch {
			case d.Panicked != "":
				w = "panic: " + d.Panicked
			case d.NoProg:
				w = "Read returned (0, nil)"
			case legal && !bytes.Equal(d.Data, expect):
				w = fmt.Sprintf("delivered %d bytes, want %d (first difference at %d)", len(d.Data), len(expect), firstDiff(d.Data, expect))
			case legal && d.Err != finCls:
				w = fmt.Sprintf("final error %s, want the transport's %s", d.Err, finCls)
			case !legal && !bytes.HasPrefix(expect, d.Data):
				w = "delivered bytes are not a prefix of the client stream"
			}
			s.X("read side: backend receives the (rewritten) hello followed by exactly the client's remaining bytes, then the transport's error", w)
			if accepted != res.Accepted {
				s.X("hello acceptance as constructed", fmt.Sprintf("accepted=%v", res.Accepted))
			}
		} else {
			s.X("NewConn succeeds on a valid first record", "NewConn error "+res.Err)
		}
		emit(core.Case{Name: fmt.Sprintf("%s/%d", stream, idx), Stream: stream, Ops: s.Ops, Key: stream + "/" + sig,
			Sig:    fmt.Sprintf("%s/acc%v/%s/%s", stream, accepted, sig, outcome),
			Sample: map[string]any{"stream": stream, "accepted": accepted, "tail_len": len(tail), "fin": fin, "sig": sig, "outcome": outcome}})
		env.Count(stream + "/" + outcome)
	}
	// 1. every legal record length x record type, whole-stream chunk and random chunking
	for _, accepted := range []bool{true, false} {
		for _, l := range append(recLens, 16641) {
			for _, typ := range []byte{20, 21, 22, 23} {
				if l > 100 && typ != 23 && typ != 22 && !env.Thorough() {
					continue
				}
				payload := gen.RandBytes(r, l)
				if typ == 22 && l > 0 {
					payload[0] = 11 // not a ClientHello
				}
				tail := gen.Cat(gen.Record(typ, 0x0303, payload), gen.Record(23, 0x0303, []byte("after")))
				legal := l <= 16640
				chunkers := []func([]byte) [][]byte{oneChunk, func(b []byte) [][]byte { return randChunks(r, b) }}
				for ci, ck := range chunkers {
					sz := []int{readSizes[r.IntN(len(readSizes))]}
					if l > 1000 && sz[0] < 16 {
						sz[0] = 1024
					}
					readCase("reclen", accepted, tail, ck, "eof", sz, fmt.Sprintf("t%d/%s/c%d", typ, lenClass(l), ci), legal)
				}
			}
		}
	}
	// 2. all chunkings of a 12-byte tail (two tiny records), hello in one chunk
	{
		tail := gen.Cat(gen.Record(20, 0x0303, []byte{1}), gen.Record(23, 0x0303, []byte{7}))
		nbits := len(tail) - 1
		step := uint64(1)
		if !env.Thorough() {
			step = 5
		}
		for _, accepted := range []bool{true, false} {
			for mask := uint64(0); mask < 1<<uint(nbits); mask += step {
				m := mask
				readCase("allchunkings", accepted, tail, func(all []byte) [][]byte {
					hl := len(all) - len(tail)
					return append(oneChunk(all[:hl]), chunkingByMask(all[hl:], m)...)
				}, "eof", []int{[]int{1, 3, 70000}[m%3]}, fmt.Sprintf("pieces%d", len(chunkingByMask(tail, m))), true)
			}
		}
		if env.Thorough() {
			env.Exhaustive("all 2^11 chunkings of a 12-byte two-record tail; a chunk boundary and a transport cut (EOF, error) at every byte offset of the streams used; every two-way split of the backend flight")
		} else {
			env.Exhaustive("a chunk boundary and a transport cut (EOF and error) at every byte offset of the streams used, every two-way split offset of the backend flight (chunkings of the 12-byte tail: every 5th mask)")
		}
	}
	// 3. a chunk boundary at every offset of the hello, and pairs straddling the record header
	for _, accepted := range []bool{true, false} {
		tail := gen.Cat(gen.Record(20, 0x0303, []byte{1}), gen.Record(23, 0x0303, gen.RandBytes(r, 50)))
		_, rec0, _, _ := c07Hello(r, accepted)
		n := len(rec0) + len(tail)
		for off := 1; off < n; off++ {
			o := off
			readCase("boundary", accepted, tail, func(all []byte) [][]byte { return splitAt(all, o, o+1+(o%7)) }, "eof", []int{readSizes[o%len(readSizes)]}, boundaryClass(o, len(rec0)), true)
		}
	}
	// 4. transport cut (EOF / error) at every byte offset after the hello
	for _, accepted := range []bool{true, false} {
		for _, fin := range []string{"eof", "fail"} {
			tail := gen.Cat(gen.Record(20, 0x0303, []byte{1}), gen.Record(22, 0x0303, gen.Cat([]byte{11}, gen.RandBytes(r, 300))), gen.Record(22, 0x0303, nil),
				gen.Record(23, 0x0303, gen.RandBytes(r, 700)), gen.Record(23, 0x0303, gen.RandBytes(r, 100)))
			stepc := env.Pick(3, 1)
			for cut := 0; cut <= len(tail); cut += stepc {
				c := cut
				readCase("cut", accepted, tail[:c], func(all []byte) [][]byte {
					if c%2 == 0 {
						return oneChunk(all)
					}
					return randChunks(r, all)
				}, fin, []int{readSizes[c%len(readSizes)]}, cutClass(c, tail), true)
			}
		}
	}
	// 5. write side: backend flight split at every offset / random splits / record lengths
	writeCase := func(stream string, accepted bool, flight []byte, pieces [][]byte, sig string, legal bool) {
		idx++
		keys, rec, _, reg := c07Hello(r, accepted)
		s := connh.NewSess(keys)
		reg(s)
		res := s.New(oneChunk(rec), "eof")
		outcome := res.Err
		if res.Err == "-" {
			var got []byte
			total := 0
			w := ""
			for _, p := range pieces {
				wr := s.Write(p)
				got = append(got, wr.Out...)
				if wr.Err == "panic" {
					w = "panic: " + wr.Panic
					break
				}
				if wr.Err != "-" {
					outcome = "write:" + wr.Err
					if legal {
						w = "Write failed on a legal record stream: " + wr.Err
					}
					break
				}
				if wr.N != len(p) {
					w = fmt.Sprintf("Write returned %d for %d bytes", wr.N, len(p))
					break
				}
				total += len(p)
				if !bytes.Equal(got, flight[:len(got)]) {
					w = "client received bytes that differ from the backend's"
					break
				}
				// at most one incomplete record withheld
				if wh := flight[len(got):total]; len(wh) > 0 && !incompleteRecord(wh) {
					w = fmt.Sprintf("%d bytes withheld which are not a single incomplete record", len(wh))
					break
				}
			}
			if w == "" && legal && outcome == "-" && !bytes.Equal(got, flight) {
				w = fmt.Sprintf("client received %d of %d bytes after the whole flight was written", len(got), len(flight))
			}
			s.X("write side: client receives exactly the backend's bytes, in order, at most one incomplete record withheld", w)
		}
		emit(core.Case{Name: fmt.Sprintf("%s/%d", stream, idx), Stream: stream, Ops: s.Ops, Key: stream + "/" + sig,
			Sig: fmt.Sprintf("%s/acc%v/%s/%s", stream, accepted, sig, outcome), Sample: map[string]any{"stream": stream, "accepted": accepted, "flight_len": len(flight), "pieces": len(pieces), "sig": sig, "outcome": outcome}})
		env.Count(stream + "/" + outcome)
	}
	for _, accepted := range []bool{true, false} {
		sh := gen.ServerHelloRecord(r, false, gen.RandBytes(r, 32))
		flight := gen.Cat(sh, gen.Record(20, 0x0303, []byte{1}), gen.Record(23, 0x0303, gen.RandBytes(r, 400)), gen.Record(23, 0x0303, gen.RandBytes(r, 90)))
		for off := 1; off < len(flight); off += env.Pick(2, 1) {
			writeCase("wsplit", accepted, flight, splitAt(flight, off), cutClass(off, flight), true)
		}
		for rep := 0; rep < env.Pick(40, 400); rep++ {
			writeCase("wsplit-random", accepted, flight, randChunks(r, flight), "random", true)
		}
		for _, l := range append(recLens, 16641) {
			for _, typ := range []byte{22, 23} {
				payload := gen.RandBytes(r, l)
				if typ == 22 && l > 0 {
					payload[0] = 8
				}
				fl := gen.Cat(sh, gen.Record(typ, 0x0303, payload), gen.Record(23, 0x0303, []byte("tail")))
				writeCase("wreclen", accepted, fl, [][]byte{fl}, fmt.Sprintf("t%d/%s", typ, lenClass(l)), l <= 16640 || !accepted)
				writeCase("wreclen", accepted, fl, randChunks(r, fl), fmt.Sprintf("t%d/%s/chunked", typ, lenClass(l)), l <= 16640 || !accepted)
			}
		}
	}
	// backend flights as other TLS stacks write them: the ServerHello coalesced with the handshake messages
	// that follow it in one record (a TLS 1.2 answer), whole and cut at every offset
	for _, accepted := range []bool{true, false} {
		for _, certLen := range []int{0, 300, 3000} {
			fl := gen.Cat(gen.ServerFlight12Record(r, gen.RandBytes(r, 32), certLen), gen.Record(22, 0x0303, gen.Cat([]byte{12}, gen.LP24(gen.RandBytes(r, 70)))), gen.Record(23, 0x0303, []byte("tail")))
			writeCase("wcoalesced", accepted, fl, [][]byte{fl}, fmt.Sprintf("cert%d", certLen), true)
			writeCase("wcoalesced", accepted, fl, randChunks(r, fl), fmt.Sprintf("cert%d/chunked", certLen), true)
			for off := 1; off < len(fl) && certLen == 0; off += env.Pick(3, 1) {
				writeCase("wcoalesced", accepted, fl, splitAt(fl, off), cutClass(off, fl), true)
			}
		}
	}
	// the backend's HelloRetryRequest is written while the relay's other goroutine is already blocked in
	// Read, and the client answers with its second hello at once (no compatibility change_cipher_spec,
	// RFC 8446 D.4 makes it optional): the pipe must deliver the re-written second hello
	for rep := 0; rep < env.Pick(10, 60); rep++ {
		for _, rc := range retryCases(r) {
			if rc.Kind != "G" {
				continue
			}
			idx++
			s := connh.NewSess(rc.Keys)
			s.Register(rc.First)
			s.Register(rc.Second)
			first := s.New(oneChunk(rc.First), "eof")
			w := ""
			outcome := first.Err
			if first.Err == "-" && first.Accepted {
				s.Read(70000)
				wr, rd := s.WriteWhileReadPending(70000, rc.HRR, [][]byte{rc.Second, gen.Record(23, 0x0303, []byte("data"))}, "eof")
				outcome = rd.Err
				switch {
				case wr.Err != "-" || !bytes.Equal(wr.Out, rc.HRR):
					w = "HelloRetryRequest not forwarded unchanged: " + wr.Err
				case rd.Err != "-":
					w = "second hello refused: " + rd.Err
				case bytes.Equal(rd.Data, rc.Second) || bytes.HasPrefix(rd.Data, rc.Second):
					w = "the second ClientHelloOuter was delivered to the backend as received (not re-written)"
				}
				rest := s.Read(70000)
				if w == "" && string(rest.Data) != string(gen.Record(23, 0x0303, []byte("data"))) {
					w = fmt.Sprintf("bytes after the second hello not delivered unchanged (%d bytes, err %s)", len(rest.Data), rest.Err)
				}
			}
			s.X("Read pending while the HelloRetryRequest is written: second hello re-written, later bytes unchanged", w)
			emit(core.Case{Name: fmt.Sprintf("pending-retry/%d", idx), Stream: "pending-retry", Ops: s.Ops, Key: "pending-retry",
				Sig: fmt.Sprintf("pending-retry/%d/%s", len(rc.Keys), outcome), Sample: map[string]any{"keys": len(rc.Keys), "outcome": outcome}})
			env.Count("pending-retry/" + outcome)
		}
	}
	// the client's transport ends (or fails) inside its SECOND hello, at every offset: what arrived before
	// the cut is delivered, then the transport's own error - an incomplete record is never interpreted
	for _, fin := range []string{"eof", "fail"} {
		var rc retryCase
		for _, c := range retryCases(r) {
			if c.Kind == "G" {
				rc = c
			}
		}
		ccs := gen.Record(20, 0x0303, []byte{1})
		for cut := 0; cut < len(rc.Second); cut += env.Pick(3, 1) {
			idx++
			s := connh.NewSess(rc.Keys)
			s.Register(rc.First)
			s.Register(rc.Second)
			first := s.New(oneChunk(rc.First), "eof")
			w := ""
			outcome := first.Err
			if first.Err == "-" && first.Accepted {
				s.Read(70000)
				s.Write(rc.HRR)
				s.Feed([][]byte{ccs, rc.Second[:cut]}, fin)
				var got []byte
				lastErr := "-"
				size := readSizes[cut%len(readSizes)]
				for i := 0; i < 100000; i++ {
					rd := s.Read(size)
					got = append(got, rd.Data...)
					if rd.Err != "-" {
						lastErr = rd.Err
						break
					}
					if len(rd.Data) == 0 {
						w = "Read returned (0, nil)"
						break
					}
				}
				outcome = lastErr
				want := gen.Cat(ccs, rc.Second[:cut])
				switch {
				case w != "":
				case !bytes.Equal(got, want):
					w = fmt.Sprintf("cut at %d of the second hello: %d bytes delivered, %d arrived before the cut", cut, len(got), len(want))
				case lastErr != "io:"+fin:
					w = fmt.Sprintf("cut at %d of the second hello: Read ends with %s, the transport ended with %s", cut, lastErr, fin)
				}
			}
			s.X("a transport cut inside the retried hello: the bytes before the cut, then the transport's error", w)
			emit(core.Case{Name: fmt.Sprintf("retry-cut/%d", idx), Stream: "retry-cut", Ops: s.Ops, Key: "retry-cut/" + fin,
				Sig: fmt.Sprintf("retry-cut/%s/%s/%s", fin, cutClass(5+cut, rc.Second), outcome), Sample: map[string]any{"cut": cut, "fin": fin, "outcome": outcome}})
			env.Count("retry-cut/" + outcome)
		}
	}
	// a read deadline fires in the middle of a record, the caller moves the deadline and reads on while the
	// rest of the client's bytes arrive: nothing the client sent is misread (the cut falls at every offset
	// of a record that is still being inspected)
	for _, accepted := range []bool{true, false} {
		tail := gen.Cat(gen.Record(22, 0x0303, gen.Cat([]byte{11}, gen.RandBytes(r, 60))), gen.Record(20, 0x0303, []byte{1}), gen.Record(23, 0x0303, gen.RandBytes(r, 40)))
		for cut := 1; cut < len(tail); cut += env.Pick(2, 1) {
			idx++
			keys, rec, _, reg := c07Hello(r, accepted)
			s := connh.NewSess(keys)
			reg(s)
			res := s.New(oneChunk(rec), "eof")
			w := ""
			outcome := res.Err
			if res.Err == "-" {
				s.Read(70000)
				s.Feed([][]byte{tail[:cut]}, "timeout")
				var got []byte
				sawTimeout := false
				for i := 0; i < 50; i++ {
					rd := s.Read(readSizes[(cut+i)%len(readSizes)])
					got = append(got, rd.Data...)
					if rd.Err == "io:timeout" {
						if sawTimeout {
							break
						}
						sawTimeout = true
						s.Feed([][]byte{tail[cut:]}, "eof")
						continue
					}
					if rd.Err != "-" {
						outcome = rd.Err
						if rd.Err != "io:eof" {
							w = fmt.Sprintf("deadline at offset %d of a healthy stream, reading resumed: Read reports %s", cut, rd.Err)
						}
						break
					}
				}
				if w == "" && !bytes.HasPrefix(tail, got) {
					w = fmt.Sprintf("deadline at offset %d: the bytes delivered (%d) are not a prefix of what the client sent", cut, len(got))
				}
			}
			s.X("a read deadline in the middle of a record does not make later reads misinterpret the stream", w)
			emit(core.Case{Name: fmt.Sprintf("timeout-resume/%d", idx), Stream: "timeout-resume", Ops: s.Ops, Key: "timeout-resume",
				Sig: fmt.Sprintf("timeout-resume/acc%v/%s/%s", accepted, cutClass(cut, tail), outcome), Sample: map[string]any{"accepted": accepted, "cut": cut, "outcome": outcome}})
			env.Count("timeout-resume/" + outcome)
		}
	}
	// several connections served by one process, their reads interleaved with small buffers: what one
	// connection delivers must not depend on what the others are doing (buffers are per connection)
	for rep := 0; rep < env.Pick(6, 60); rep++ {
		idx++
		type one struct {
			keys   []ech.Key
			stream []byte
		}
		var cs []one
		nconn := 2 + r.IntN(3)
		for i := 0; i < nconn; i++ {
			keys, rec, _, _ := c07Hello(r, true)
			st := gen.Cat(rec)
			for j := 0; j < 3; j++ {
				st = append(st, gen.Record(22, 0x0303, gen.Cat([]byte{11}, gen.RandBytes(r, 200+r.IntN(400))))...)
			}
			cs = append(cs, one{keys, st})
		}
		size := []int{1, 7, 64}[r.IntN(3)]
		readAll := func(conns []*ech.Conn, interleave bool) [][]byte {
			out := make([][]byte, len(conns))
			done := make([]bool, len(conns))
			left := len(conns)
			for left > 0 {
				for i, c := range conns {
					if done[i] {
						continue
					}
					for {
						buf := make([]byte, size)
						n, err := c.Read(buf)
						out[i] = append(out[i], buf[:n]...)
						if err != nil {
							done[i] = true
							left--
							break
						}
						if interleave {
							break // one small read, then the next connection
						}
					}
				}
			}
			return out
		}
		mk := func() []*ech.Conn {
			var conns []*ech.Conn
			for _, c := range cs {
				conn, err := ech.NewConn(context.Background(), &connh.FakeConn{Chunks: oneChunk(c.stream), Fin: "eof"}, ech.WithKeys(c.keys))
				if err != nil || !conn.ECHAccepted() {
					return nil
				}
				conns = append(conns, conn)
			}
			return conns
		}
		w := ""
		solo, inter := mk(), mk()
		if solo == nil || inter == nil {
			w = "harness: a connection of the interleaving stream was not accepted"
		} else {
			a := readAll(solo, false)
			b := readAll(inter, true)
			for i := range a {
				if !bytes.Equal(a[i], b[i]) && w == "" {
					w = fmt.Sprintf("connection %d of %d delivers different bytes when its %d-byte reads are interleaved with reads on the other connections (%d bytes either way)", i, len(a), size, len(a[i]))
				}
			}
		}
		emit(core.Case{Name: fmt.Sprintf("interleaved/%d", idx), Stream: "interleaved-connections", Key: "interleaved-connections",
			Ops: []core.Op{{Kind: 'X', Note: "a connection's byte stream is independent of other connections in the same process", Want: w}},
			Sig: fmt.Sprintf("interleaved/%d/%d", nconn, size), Sample: map[string]any{"connections": nconn, "read_size": size}})
		env.Count("interleaved-connections")
	}
}

func firstDiff(a, b []byte) int {
	for i := 0; i < len(a) && i < len(b); i++ {
		if a[i] != b[i] {
			return i
		}
	}
	return min(len(a), len(b))
}

func incompleteRecord(b []byte) bool {
	if len(b) < 5 {
		return true
	}
	return len(b) < 5+(int(b[3])<<8|int(b[4]))
}

func boundaryClass(off, helloLen int) string {
	switch {
	case off < 5:
		return "hello-header"
	case off == 5:
		return "after-header"
	case off < helloLen:
		return "hello-body"
	case off == helloLen:
		return "hello-end"
	case off < helloLen+5:
		return "next-header"
	}
	return "later"
}

// interleavedSessions: two connections of one process, set up one after the other and then read in turns with
// buffers smaller than the records. Each connection's bytes are its own: whatever buffers the library reuses
// between connections, the model (one independent pipe per connection) is what each of them must show.
func interleavedSessions(r *rand.Rand, accepted bool) (ops []core.Op, panicked string) {
	var ss [2]*connh.Sess
	for i := range ss {
		keys, rec, _, reg := c07Hello(r, accepted)
		ss[i] = connh.NewSess(keys)
		reg(ss[i])
		tail := gen.Cat(gen.Record(20, 0x0303, []byte{1}), gen.Record(23, 0x0303, gen.RandBytes(r, 6000+r.IntN(9000))), gen.Record(23, 0x0303, gen.RandBytes(r, 1+r.IntN(300))))
		if res := ss[i].New(oneChunk(gen.Cat(rec, tail)), "eof"); res.Err != "-" {
			return nil, ""
		}
	}
	sizes := []int{300, 2048, 5000, 64, 16389}
	done := [2]bool{}
	for k := 0; k < 400 && !(done[0] && done[1]); k++ {
		i := k % 2
		if done[i] {
			continue
		}
		io := ss[i].Read(sizes[(k/2+i)%len(sizes)])
		if io.Err == "panic" {
			panicked = io.Panic
		}
		if io.Err != "-" {
			done[i] = true
		}
	}
	return append(append([]core.Op{}, ss[0].Ops...), ss[1].Ops...), panicked
}

// cutClass classifies an offset within a record stream: header / after-header / body / boundary.
func cutClass(off int, stream []byte) string {
	pos := 0
	for pos < len(stream) {
		if pos+5 > len(stream) {
			break
		}
		l := int(stream[pos+3])<<8 | int(stream[pos+4])
		switch {
		case off == pos:
			return "boundary"
		case off < pos+5:
			return "in-header"
		case off == pos+5:
			return fmt.Sprintf("after-header/t%d/len%s", stream[pos], lenClass(l))
		case off < pos+5+l:
			return fmt.Sprintf("in-body/t%d", stream[pos])
		}
		pos += 5 + l
	}
	return "end"
}
