package props

import "verifharness/core"

// All maps property ids to campaigns.
var All = map[string]core.Campaign{}

func register(c core.Campaign) { All[c.Property] = c }
