package props

import (
	"context"
	"errors"
	"fmt"
	"net"
	"os"
	"runtime"
	"strings"
	"sync"
	"time"

	"github.com/c2FmZQ/ech"

	"verifharness/core"
	"verifharness/gen"
)

func init() {
	register(core.Campaign{
		Property: "C10",
		Rule: "real NewConn on an instrumented net.Conn that records every SetDeadline call and blocks in Read until bytes are supplied or a deadline passes; the four-event orderings of {hello fully available, NewConn returns, context cancelled, watcher goroutine scheduled} " +
			"are forced with the hello pre-buffered or arriving late, the cancellation before / concurrently with / immediately after the return, GOMAXPROCS in {1,2,4,16}, with runtime.Gosched and short sleeps after the return, 400 repetitions per ordering (quick 120). " +
			"Each observed event trace must be accepted by the Lean transition system (ctx-trace op: subset construction over its internal steps) and satisfy the monitors: no SetDeadline after a successful return, no deadline in force at a successful return, prompt failure when cancelled while blocked. " +
			"distinct = (ordering, GOMAXPROCS, observed trace).",
		Gen: genC10,
	})
}

// ctxConn blocks in Read until data or a deadline; records SetDeadline calls.
type ctxConn struct {
	mu        sync.Mutex
	cond      *sync.Cond
	data      []byte
	deadline  time.Time // read deadline
	wdeadline time.Time // write deadline (SetDeadline sets both, as on a real net.Conn)
	events    []string
	closed    bool
	onDrain   func() // called (once, inside Read) when the supplied bytes have all been handed out
	blockW    bool   // Write blocks until a deadline passes or the conn is closed (like net.Pipe with a stalled peer)
	slowDL    bool   // SetDeadline takes a couple of milliseconds to take effect (a busy kernel, a wrapped transport)
	noDL      bool   // a transport without deadline support (an ssh channel, a websocket adapter): Set*Deadline report an error and do nothing
}

func newCtxConn() *ctxConn {
	c := &ctxConn{}
	c.cond = sync.NewCond(&c.mu)
	return c
}

func (c *ctxConn) event(e string) {
	c.events = append(c.events, e)
}

func (c *ctxConn) Supply(b []byte) {
	c.mu.Lock()
	c.data = append(c.data, b...)
	c.event("hello")
	c.cond.Broadcast()
	c.mu.Unlock()
}

func (c *ctxConn) Mark(e string) {
	c.mu.Lock()
	c.event(e)
	c.mu.Unlock()
}

func (c *ctxConn) Read(b []byte) (int, error) {
	c.mu.Lock()
	defer c.mu.Unlock()
	for len(c.data) == 0 {
		if c.closed {
			return 0, net.ErrClosed
		}
		if !c.deadline.IsZero() && !time.Now().Before(c.deadline) {
			return 0, os.ErrDeadlineExceeded
		}
		t := time.AfterFunc(200*time.Microsecond, c.cond.Broadcast)
		c.cond.Wait()
		t.Stop()
	}
	// a passed deadline fails the read even when data is available (like a real net.Conn)
	if !c.deadline.IsZero() && !time.Now().Before(c.deadline) {
		return 0, os.ErrDeadlineExceeded
	}
	n := copy(b, c.data)
	c.data = c.data[n:]
	if len(c.data) == 0 && c.onDrain != nil {
		f := c.onDrain
		c.onDrain = nil
		f()
	}
	return n, nil
}
func (c *ctxConn) Write(b []byte) (int, error) {
	c.mu.Lock()
	defer c.mu.Unlock()
	for {
		if c.closed {
			return 0, net.ErrClosed
		}
		if !c.wdeadline.IsZero() && !time.Now().Before(c.wdeadline) {
			return 0, os.ErrDeadlineExceeded
		}
		if !c.blockW {
			return len(b), nil
		}
		t := time.AfterFunc(200*time.Microsecond, c.cond.Broadcast)
		c.cond.Wait()
		t.Stop()
	}
}
func (c *ctxConn) Close() error {
	c.mu.Lock()
	c.closed = true
	c.cond.Broadcast()
	c.mu.Unlock()
	return nil
}
func (c *ctxConn) LocalAddr() net.Addr  { return &net.TCPAddr{} }
func (c *ctxConn) RemoteAddr() net.Addr { return &net.TCPAddr{} }
func (c *ctxConn) SetDeadline(t time.Time) error {
	c.mu.Lock()
	slow := c.slowDL
	c.mu.Unlock()
	if slow {
		time.Sleep(2 * time.Millisecond)
	}
	c.mu.Lock()
	if !c.noDL {
		c.wdeadline = t
	}
	c.mu.Unlock()
	return c.SetReadDeadline(t)
}
func (c *ctxConn) SetReadDeadline(t time.Time) error {
	c.mu.Lock()
	if c.noDL {
		// the call is recorded (it is what the transition system talks about) but has no effect
		if t.IsZero() {
			c.event("clear")
		} else {
			c.event("fire")
		}
		c.mu.Unlock()
		return errors.New("deadlines are not supported by this transport")
	}
	c.deadline = t
	if t.IsZero() {
		c.event("clear")
	} else {
		c.event("fire")
	}
	c.cond.Broadcast()
	c.mu.Unlock()
	return nil
}
func (c *ctxConn) SetWriteDeadline(t time.Time) error {
	c.mu.Lock()
	c.wdeadline = t
	c.cond.Broadcast()
	c.mu.Unlock()
	return nil
}

func genC10(env *core.Env, emit func(core.Case)) {
	r := env.Rng
	h := gen.BaseHello(r)
	h.Exts = []gen.Ext{gen.SNI("plain.example"), gen.Versions(0x0304)}
	hello := h.Record(0x0301)
	reps := env.Pick(120, 400)
	orderings := []string{"prebuffered-cancel-after-return", "late-hello-cancel-after-return", "cancel-before-hello", "cancel-concurrent-with-hello", "cancel-after-return-then-io", "never-cancelled",
		"cancel-when-hello-fully-read", "cancel-when-hello-fully-read-no-deadlines", "cancel-before-hello-peer-not-reading", "cancel-mid-hello-peer-not-reading",
		"cancel-after-return-then-retry-io"}
	// an accepted ECH hello and its retry, for the ordering that goes through a HelloRetryRequest after the return
	rkey := gen.NewKey(r, 7, "public.example", gen.AllSuites)
	rplan := gen.Plan(r, gen.PlanOpts{NOuterOpaque: 1, NInnerOpaque: 1, MaxExtLen: 16, Padding: 4, SIDLen: 32, RefMask: 1, MarkerPos: 1, InnerName: "inner.example", ALPN: []string{"h2"}, PublicName: "public.example"})
	rs1 := gen.Seal(rplan.OuterBase, 1, rkey, gen.AllSuites[0], rplan.Enc.Body(), nil, 0x0301)
	re2 := *rplan.Enc
	re2.Random = gen.RandBytes(r, 32)
	rs2 := gen.Seal(rplan.OuterBase, 1, rkey, gen.AllSuites[0], re2.Body(), rs1.Sender, 0x0303)
	rhrr := gen.ServerHelloRecord(r, true, rplan.OuterBase.SID)
	defer runtime.GOMAXPROCS(runtime.GOMAXPROCS(0))
	idx := 0
	stuckCount := 0
	seen := map[string]bool{}
	for _, procs := range []int{1, 2, 4, 16} {
		runtime.GOMAXPROCS(procs)
		for _, ord := range orderings {
			if f := os.Getenv("C10_ORD"); f != "" && f != ord {
				continue
			}
			for rep := 0; rep < reps; rep++ {
				idx++
				c := newCtxConn()
				ctx, cancel := context.WithCancel(context.Background())
				withDeadline := rep%2 == 1
				if withDeadline {
					// a context that also carries a (far) deadline: the idiomatic WithTimeout caller
					var cancel2 context.CancelFunc
					ctx, cancel2 = context.WithDeadline(ctx, time.Now().Add(time.Hour))
					defer cancel2()
				}
				var conn *ech.Conn
				var err error
				t0 := time.Now()
				switch ord {
				case "prebuffered-cancel-after-return", "cancel-after-return-then-io", "never-cancelled":
					c.Supply(hello)
				case "cancel-after-return-then-retry-io":
					c.Supply(rs1.Rec)
				case "late-hello-cancel-after-return":
					go func() { time.Sleep(time.Duration(rep%5) * 100 * time.Microsecond); c.Supply(hello) }()
				case "cancel-before-hello":
					go func() { time.Sleep(time.Duration(rep%5) * 100 * time.Microsecond); c.Mark("cancel"); cancel() }()
				case "cancel-concurrent-with-hello":
					go func() { time.Sleep(200 * time.Microsecond); c.Mark("cancel"); cancel() }()
					go func() { time.Sleep(200 * time.Microsecond); c.Supply(hello) }()
				case "cancel-when-hello-fully-read":
					// the context ends at the very moment the last byte of the hello is handed to NewConn:
					// NewConn is still running, the watcher fires while the hello is being processed
					c.slowDL = rep%3 == 0
					c.onDrain = func() { c.event("cancel"); cancel() }
					c.Supply(hello)
				case "cancel-when-hello-fully-read-no-deadlines":
					// the same instant on a transport that cannot be interrupted: NewConn has the whole hello,
					// goes on and succeeds - and the caller gets a connection that still works
					c.noDL = true
					c.onDrain = func() { c.event("cancel"); cancel() }
					c.Supply(hello)
				case "cancel-before-hello-peer-not-reading":
					c.blockW = true
					go func() { time.Sleep(time.Duration(rep%5) * 100 * time.Microsecond); c.Mark("cancel"); cancel() }()
				case "cancel-mid-hello-peer-not-reading":
					c.blockW = true
					c.mu.Lock()
					c.data = append(c.data, hello[:3+rep%40]...)
					c.cond.Broadcast()
					c.mu.Unlock()
					go func() { time.Sleep(time.Duration(1+rep%5) * 100 * time.Microsecond); c.Mark("cancel"); cancel() }()
				}
				stuck := false
				if stuckCount >= 3 && (c.blockW || ord == "cancel-before-hello" || ord == "cancel-concurrent-with-hello") {
					// three runs have already shown NewConn blocking for good: enough evidence, keep the run short
					cancel()
					continue
				}
				// NewConn must always come back: every call runs under a watchdog (the peer never reads what
				// is written to it in the blockW orderings; in the others a context that has ended must end it)
				{
					keys := ech.WithKeys(nil)
					if ord == "cancel-after-return-then-retry-io" {
						keys = ech.WithKeys(echKeys(rkey))
					}
					done := make(chan struct{})
					go func() { conn, err = ech.NewConn(ctx, c, keys); close(done) }()
					select {
					case <-done:
					case <-time.After(2 * time.Second):
						stuck = true
						stuckCount++
						c.Close()
						<-done
					}
				}
				elapsed := time.Since(t0)
				if err == nil {
					c.Mark("ret-ok")
				} else {
					c.Mark("ret-err")
				}
				if ord != "never-cancelled" && ord != "cancel-before-hello" && ord != "cancel-concurrent-with-hello" && ord != "cancel-when-hello-fully-read" && ord != "cancel-when-hello-fully-read-no-deadlines" && !c.blockW {
					c.Mark("cancel")
					cancel()
				}
				// let the watcher run
				for i := 0; i < 3+rep%4; i++ {
					runtime.Gosched()
				}
				time.Sleep(time.Duration(300+100*(rep%3)) * time.Microsecond)
				ioErr := ""
				if err == nil && ord == "cancel-after-return-then-io" {
					// later I/O must not be affected by the cancelled context
					buf := make([]byte, 4096)
					if _, rerr := conn.Read(buf); rerr != nil {
						ioErr = "Read after a successful NewConn failed: " + rerr.Error()
					}
				}
				if err == nil && ord == "cancel-after-return-then-retry-io" {
					// the handshake goes on through a HelloRetryRequest long after the NewConn context ended:
					// the retried hello is read without any involvement of that context
					buf := make([]byte, 70000)
					if !conn.ECHAccepted() {
						ioErr = "harness: the ECH hello of the retry ordering was not accepted"
					} else if _, rerr := conn.Read(buf); rerr != nil {
						ioErr = "Read of the first inner hello failed: " + rerr.Error()
					} else if _, werr := conn.Write(rhrr); werr != nil {
						ioErr = "Write of the HelloRetryRequest failed: " + werr.Error()
					} else {
						c.mu.Lock()
						c.data = append(c.data, rs2.Rec...)
						c.cond.Broadcast()
						c.mu.Unlock()
						if n, rerr := conn.Read(buf); rerr != nil || n == 0 {
							ioErr = fmt.Sprintf("Read of the retried hello after the NewConn context had ended: n=%d err=%v", n, rerr)
						}
					}
					time.Sleep(200 * time.Microsecond)
				}
				cancel()
				c.mu.Lock()
				events := append([]string{}, c.events...)
				dl := c.deadline
				wdl := c.wdeadline
				closedByConn := c.closed && !stuck
				c.mu.Unlock()
				// monitors
				w := ""
				if err == nil && closedByConn {
					w = "NewConn returned successfully, but the transport it returned has been closed on behalf of its context"
				}
				afterOK := false
				for _, e := range events {
					if e == "ret-ok" {
						afterOK = true
					} else if afterOK && e == "fire" {
						w = "SetDeadline(now) was applied to the connection after NewConn had returned successfully"
					}
				}
				if w == "" && err == nil && !dl.IsZero() {
					w = "a deadline set on behalf of the NewConn context is still in force after a successful return"
				}
				if w == "" && err == nil && !wdl.IsZero() {
					w = "a WRITE deadline set on behalf of the NewConn context is still in force after a successful return: every later Write to the client times out"
				}
				if w == "" && err == nil && ord == "cancel-after-return-then-retry-io" {
					afterOK = false
					for _, e := range events {
						if e == "ret-ok" {
							afterOK = true
						} else if afterOK && (e == "fire" || e == "clear") {
							w = "a deadline was set or cleared on the transport on behalf of the NewConn context while the retried hello was read"
						}
					}
				}
				if w == "" && ioErr != "" {
					w = ioErr
				}
				if w == "" && stuck {
					w = "NewConn was still blocked 2 s after its context had ended"
				}
				if w == "" && (ord == "cancel-before-hello" || c.blockW) && (err == nil || elapsed > 2*time.Second) {
					w = fmt.Sprintf("context cancelled while NewConn was blocked: err=%v after %v", err, elapsed)
				}
				trace := strings.Join(events, ",")
				ops := []core.Op{{Line: "ctx-trace " + trace, Kind: 'M', Want: "accept", Note: "observed event trace is a behaviour of the transition system"},
					{Kind: 'X', Note: "the NewConn context has no effect after a successful return; prompt failure when it ends while blocked", Want: w}}
				ord := ord
				if withDeadline {
					ord += "+deadline-ctx"
				}
				sig := fmt.Sprintf("%s/p%d/%s", ord, procs, trace)
				cs := core.Case{Name: fmt.Sprintf("ctx/%d", idx), Stream: ord, Ops: ops, Key: ord, Sig: sig}
				if !seen[sig] {
					seen[sig] = true
					cs.Sample = map[string]any{"ordering": ord, "gomaxprocs": procs, "trace": trace}
				}
				emit(cs)
				env.Count(ord + "/" + connh0(strings.ReplaceAll(trace, ",", ">")))
			}
		}
	}
}
