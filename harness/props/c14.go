package props

import (
	"context"
	"errors"
	"fmt"
	"math/rand/v2"
	"net"
	"net/url"
	"slices"
	"sort"
	"strconv"
	"strings"
	"time"

	"github.com/c2FmZQ/ech"

	"verifharness/core"
	"verifharness/gen"
	"verifharness/zoneh"
)

func init() {
	register(core.Campaign{
		Property: "C14",
		Rule: "random zones served by a local DoH server that logs every query: hosts with HTTPS alias chains (lengths 0..7, loops), service records (priorities, targets in/out of the zone, hints, ECH, ALPN, ports), in-answer CNAME chains, " +
			"NXDOMAIN / SERVFAIL / REFUSED / FORMERR / NOTIMP / rcode 9 / HTTP-level failures, and POISONED extra answers owned by unrelated names (marker addresses 6.6.6.x), " +
			"x every accepted name form (host, host:port, scheme://host[:port]/path) x ports {none,0,80,443,8443,65535, and ports written with leading zeros} x schemes {none,http,https,HTTPS,foo, 300-byte scheme, schemes of 61..64 characters} x names of any length (labels up to 70 bytes, totals up to 300). " +
			"Compared with the Lean model (result, error class, exact query log) and Go-side RFC 9460 predicates. distinct = (name form, scheme class, port class, zone shape, outcome).",
		Gen: genC14,
	})
}

const poisonMark = 6

// c14Stuck counts lookups that never came back
var c14Stuck int

func resolveErrClass(err error) string {
	switch {
	case err == nil:
		return "-"
	case errors.Is(err, ech.ErrInvalidName):
		return "invalidname"
	case errors.Is(err, ech.ErrFormatError):
		return "format"
	case errors.Is(err, ech.ErrServerFailure):
		return "servfail"
	case errors.Is(err, ech.ErrNonExistentDomain):
		return "nxdomain"
	case errors.Is(err, ech.ErrNotImplemented):
		return "notimp"
	case errors.Is(err, ech.ErrQueryRefused):
		return "refused"
	}
	// no identity of its own (a response code without a sentinel error, a transport failure): the
	// message text is not part of the comparison
	return "unnamed"
}

// canonical text of a ResolveResult (HTTPS records ordered by (priority, text), map keys sorted)
func resultText(r ech.ResolveResult) string {
	type kv struct {
		p int
		t string
	}
	var hs []kv
	for _, h := range r.HTTPS {
		hs = append(hs, kv{int(h.Priority), fmt.Sprintf("%d:%s:%s:%s:%d:%s:%s:%s", h.Priority, hs2(h.Target), hexStrs(h.ALPN), b01s(h.NoDefaultALPN), h.Port, ipsText(h.IPv4Hint), ipsText(h.IPv6Hint), echText(h.ECH))})
	}
	sort.SliceStable(hs, func(i, j int) bool { return hs[i].p < hs[j].p || (hs[i].p == hs[j].p && hs[i].t < hs[j].t) })
	var ht []string
	for _, h := range hs {
		ht = append(ht, h.t)
	}
	var ad []string
	for k, v := range r.Additional {
		ad = append(ad, fmt.Sprintf("%s=%s", hs2(k), ipsText(v)))
	}
	sort.Strings(ad)
	return fmt.Sprintf("%d %s %s %s", r.Port, ipsText(r.Address), semi(ht), semi(ad))
}

// parsedArgs mirrors the standard-library preamble of Resolve (url.Parse, SplitHostPort,
// ParseUint, ParseIP, ToLower) and renders what the model takes as data.
func parsedArgs(name string) (args string, scheme, host string, port int) {
	port = 443
	scheme = "https"
	if u, err := url.Parse(name); err == nil && u.Scheme != "" && u.Host != "" {
		scheme = strings.ToLower(u.Scheme)
		if scheme == "http" {
			scheme = "https"
		}
		name = u.Host
	}
	if h, p, err := net.SplitHostPort(name); err == nil {
		if pp, err := strconv.ParseUint(p, 10, 16); err == nil {
			name = h
			if pp > 0 {
				port = int(pp)
			}
		}
	}
	lh := 0
	ip := "-"
	if name == "localhost" {
		lh = 1
	} else if x := net.ParseIP(name); x != nil {
		if v4 := x.To4(); v4 != nil {
			ip = core.Hex(v4)
		} else {
			ip = core.Hex(x)
		}
	}
	return fmt.Sprintf("%s %s %d %d %s", hs2(scheme), hs2(name), port, lh, ip), scheme, name, port
}

type zoneGen struct {
	r     *rand.Rand
	u     zoneh.Universe
	shape map[string]bool
}

func (z *zoneGen) ip4(poison bool) []byte {
	if poison {
		return []byte{poisonMark, poisonMark, poisonMark, byte(z.r.IntN(250))}
	}
	return []byte{10, byte(z.r.IntN(3)), 0, byte(1 + z.r.IntN(200))}
}

func (z *zoneGen) ip6(poison bool) []byte {
	b := gen.RandBytes(z.r, 16)
	b[0] = 0xfd
	if poison {
		b[0], b[1] = poisonMark, poisonMark
	}
	return b
}

// addrs populates A/AAAA for a name, possibly through an in-answer CNAME chain, with poison.
func (z *zoneGen) addrs(name string) {
	r := z.r
	for _, typ := range []int{1, 28} {
		mk := func(owner string, poison bool) zoneh.Ans {
			ip := z.ip4(poison)
			if typ == 28 {
				ip = z.ip6(poison)
			}
			return zoneh.Ans{Owner: owner, Type: typ, TTL: uint32(r.IntN(600)), IP: ip}
		}
		var ans []zoneh.Ans
		k := r.IntN(8)
		if len(name) > 235 && k == 2 {
			k = 3 // derived names would exceed 255 octets
		}
		if k == 3 && r.IntN(2) == 0 && len(name) <= 235 && c14Stuck == 0 {
			// the CNAME records of the answer form a cycle through the asked name (x CNAME x, or a ring): a
			// forwarder that does not look, or a hostile server. One pass over the section, no addresses.
			z.shape["cname-cycle"] = true
			ring := []string{name}
			for i := 0; i < r.IntN(3); i++ {
				ring = append(ring, fmt.Sprintf("ring%d.%s", i, name))
			}
			for i := range ring {
				ans = append(ans, zoneh.Ans{Owner: ring[i], Type: 5, TTL: uint32(5 + r.IntN(60)), Name: ring[(i+1)%len(ring)]})
			}
			if r.IntN(2) == 0 {
				ans = append(ans, mk("elsewhere."+name, false))
			}
			z.u[zoneh.Key{Name: name, Type: typ}] = zoneh.Resp{Answers: ans}
			continue
		}
		switch k {
		case 0: // nothing
			z.u[zoneh.Key{Name: name, Type: typ}] = zoneh.Resp{RCode: 0}
			continue
		case 1:
			z.shape["rcode"] = true
			z.u[zoneh.Key{Name: name, Type: typ}] = zoneh.Resp{RCode: []int{1, 2, 3, 4, 5, 9}[r.IntN(6)]}
			continue
		case 2:
			z.shape["cname"] = true
			c1 := "c1." + name
			ans = append(ans, zoneh.Ans{Owner: name, Type: 5, TTL: 30, Name: c1})
			if r.IntN(2) == 0 {
				c2 := "c2." + name
				ans = append(ans, zoneh.Ans{Owner: c1, Type: 5, TTL: 30, Name: c2})
				c1 = c2
			}
			ans = append(ans, mk(c1, false), mk(c1, false))
		default:
			for i := 0; i <= r.IntN(3); i++ {
				ans = append(ans, mk(name, false))
			}
		}
		if r.IntN(3) == 0 && len(name) <= 235 {
			z.shape["poison"] = true
			// records owned by unrelated names, before and after the genuine ones
			ans = slices.Insert(ans, r.IntN(len(ans)+1), mk("evil.example", true))
			ans = append(ans, mk("other."+name, true))
			if r.IntN(2) == 0 {
				// a CNAME owned by an unrelated name must not redirect the walk either
				ans = slices.Insert(ans, 0, zoneh.Ans{Owner: "evil.example", Type: 5, TTL: 5, Name: "evil2.example"}, mk("evil2.example", true))
			}
		}
		if r.IntN(4) == 0 {
			// records of other types under the very name asked about (a middlebox answering the wrong
			// question, signatures next to the data): only records of the type asked for may be used
			z.shape["wrongtype"] = true
			owner := name
			if len(ans) > 0 {
				owner = ans[len(ans)-1].Owner
			}
			for _, w := range z.wrongType(owner, typ) {
				ans = slices.Insert(ans, r.IntN(len(ans)+1), w)
			}
		}
		z.u[zoneh.Key{Name: name, Type: typ}] = zoneh.Resp{Answers: ans}
	}
}

// wrongType returns well-formed records owned by owner whose type is not typ.
func (z *zoneGen) wrongType(owner string, typ int) []zoneh.Ans {
	r := z.r
	rrsig := gen.Cat(gen.U16(typ), []byte{13, 2}, []byte{0, 0, 1, 44}, []byte{0x70, 0, 0, 0}, []byte{0x60, 0, 0, 0}, gen.U16(4711), []byte{7, 'e', 'x', 'a', 'm', 'p', 'l', 'e', 0}, gen.RandBytes(r, 16))
	all := []zoneh.Ans{
		{Owner: owner, Type: 1, TTL: 60, IP: z.ip4(true)},
		{Owner: owner, Type: 28, TTL: 60, IP: z.ip6(true)},
		{Owner: owner, Type: 65, TTL: 60, HTTPS: &zoneh.HTTPS{Priority: 1, V4: [][]byte{z.ip4(true)}, ECH: []byte("wrongtype")}},
		{Owner: owner, Type: 16, TTL: 60, Raw: gen.LP8([]byte("v=spf1 -all"))},
		{Owner: owner, Type: 46, TTL: 60, Raw: rrsig},
	}
	var out []zoneh.Ans
	for _, a := range all {
		if a.Type != typ && r.IntN(2) == 0 {
			out = append(out, a)
		}
	}
	return out
}

func (z *zoneGen) service(qname string, host string) {
	r := z.r
	n := 1 + r.IntN(4)
	var ans []zoneh.Ans
	for i := 0; i < n; i++ {
		h := &zoneh.HTTPS{Priority: 1 + r.IntN(5)}
		if r.IntN(3) == 0 {
			z.shape["target"] = true
			// a named target - which may be the very host the record is about (zone editors write the
			// owner name out instead of ".")
			// (a target name is looked up, and its addresses are filed, under the spelling the record has)
			h.Target = []string{"svc1.example.net", "svc2.example.net", "unresolvable.example.net", host, "Svc3.Example.NET"}[r.IntN(5)]
			if h.Target == host {
				z.shape["target-self"] = true
			}
			if h.Target != "unresolvable.example.net" && h.Target != host {
				z.addrs(h.Target)
			}
		}
		if r.IntN(2) == 0 {
			h.ALPN = [][]string{{"h2"}, {"h3", "h2"}, {"h2", "http/1.1"}}[r.IntN(3)]
		}
		h.NoDef = r.IntN(4) == 0
		if r.IntN(3) == 0 {
			h.Port = []int{443, 8443, 1}[r.IntN(3)]
		}
		if r.IntN(3) == 0 {
			h.V4 = [][]byte{z.ip4(false)}
		}
		if r.IntN(4) == 0 {
			h.V6 = [][]byte{z.ip6(false)}
		}
		switch r.IntN(4) {
		case 0:
			h.ECH = []byte{}
		case 1, 2:
			h.ECH = gen.RandBytes(r, 10+r.IntN(60))
		}
		ans = append(ans, zoneh.Ans{Owner: qname, Type: 65, TTL: uint32(r.IntN(600)), HTTPS: h})
	}
	if r.IntN(4) == 0 {
		z.shape["poison"] = true
		ans = append(ans, zoneh.Ans{Owner: "evil.example", Type: 65, TTL: 9, HTTPS: &zoneh.HTTPS{Priority: 1, V4: [][]byte{z.ip4(true)}, ECH: []byte("evil")}})
		ans = slices.Insert(ans, 0, zoneh.Ans{Owner: "evil.example", Type: 65, TTL: 9, HTTPS: &zoneh.HTTPS{Priority: 0, Target: "evil-alias.example"}})
	}
	if r.IntN(4) == 0 {
		z.shape["wrongtype"] = true
		for _, w := range z.wrongType(qname, 65) {
			ans = slices.Insert(ans, r.IntN(len(ans)+1), w)
		}
	}
	z.u[zoneh.Key{Name: qname, Type: 65}] = zoneh.Resp{Answers: ans}
}

// https populates the HTTPS chain starting at qname for host.
func (z *zoneGen) https(qname, host string) {
	r := z.r
	switch r.IntN(10) {
	case 0:
		z.shape["nohttps"] = true // NXDOMAIN by default
	case 1:
		z.shape["https-error"] = true
		if r.IntN(3) == 0 {
			z.u[zoneh.Key{Name: qname, Type: 65}] = zoneh.Resp{Fail: true}
		} else {
			z.u[zoneh.Key{Name: qname, Type: 65}] = zoneh.Resp{RCode: []int{1, 2, 4, 5, 9}[r.IntN(5)]}
		}
	case 2, 3, 4:
		z.shape["alias"] = true
		chain := 1 + r.IntN(7)
		cur := qname
		for i := 0; i < chain; i++ {
			next := fmt.Sprintf("alias%d.example.org", i)
			if r.IntN(8) == 0 {
				z.shape["aliasloop"] = true
				next = qname // loop
			}
			if r.IntN(10) == 0 {
				next = "" // alias to "." : no service
			}
			z.u[zoneh.Key{Name: cur, Type: 65}] = zoneh.Resp{Answers: []zoneh.Ans{{Owner: cur, Type: 65, TTL: 60, HTTPS: &zoneh.HTTPS{Priority: 0, Target: next}}}}
			if next == "" || next == qname {
				cur = ""
				break
			}
			cur = next
		}
		if cur != "" {
			if r.IntN(3) != 0 {
				z.service(cur, cur)
			}
			z.addrs(cur)
		}
	default:
		z.shape["service"] = true
		z.service(qname, host)
	}
}

func genC14(env *core.Env, emit func(core.Case)) {
	r := env.Rng
	srv := zoneh.NewServer(env.Seed)
	defer srv.Close()
	var resolvers []*ech.Resolver
	for range 24 {
		rs, err := ech.NewResolver(srv.URL())
		if err != nil {
			panic(err)
		}
		rs.SetCacheSize(0)
		resolvers = append(resolvers, rs)
	}
	n := env.Pick(1500, 25000)
	for i := 0; i < n; i++ {
		resolver := resolvers[i%len(resolvers)]
		// host
		var host string
		hostClass := "normal"
		switch r.IntN(12) {
		case 0:
			hostClass = "longlabel"
			host = dnsLabel(r, 64+r.IntN(7)) + ".example.com"
		case 1:
			hostClass = "longname"
			host = dnsNameN(r, 5) + "." + dnsNameN(r, 5)
			for len(host) <= 255 {
				host += "." + dnsLabel(r, 40)
			}
		case 2:
			hostClass = "ip"
			host = []string{"192.0.2.7", "[2001:db8::1]", "2001:db8::2"}[r.IntN(3)]
		case 3:
			hostClass = "localhost"
			host = "localhost"
		case 4:
			hostClass = "edge255"
			host = dnsNameN(r, 4)
			for len(host) < 245 {
				host += "." + dnsLabel(r, 9)
			}
			host = host[:min(len(host), 250+r.IntN(6))]
			host = strings.TrimSuffix(host, ".")
		default:
			host = dnsNameN(r, 1+r.IntN(3)) + ".example"
		}
		portClass := []string{"none", "0", "80", "443", "8443", "65535", "08443", "0443", "000025"}[r.IntN(9)] // a port may be written with leading zeros
		schemeClass := []string{"none", "none", "http", "https", "HTTPS", "foo", "long", "label-limit"}[r.IntN(8)]
		labelLimit := 61 + r.IntN(4)
		build := func(host string) string {
			input := host
			hp := host
			if portClass != "none" {
				if strings.Contains(host, ":") && !strings.HasPrefix(host, "[") {
					hp = "[" + host + "]"
				}
				hp = hp + ":" + portClass
				input = hp
			}
			switch schemeClass {
			case "none":
			case "long":
				input = strings.Repeat("x", 300) + "://" + hp + "/path"
			case "label-limit":
				// "_"+scheme is one label of the query name: 62 characters fit, 63 and more do not
				input = strings.Repeat("s", labelLimit) + "://" + hp + "/path"
			default:
				input = schemeClass + "://" + hp + "/p?q=1"
			}
			return input
		}
		input := build(host)
		args, scheme, pname, pport := parsedArgs(input)
		if hostClass == "normal" && r.IntN(5) == 0 {
			// the same host written as an absolute name ("www.example.com."): the zone is the same, the name
			// asked on the wire is the same (one trailing dot is not a label). Model and implementation both
			// get the name as written.
			hostClass = "absolute"
			input = build(host + ".")
			args, _, _, _ = parsedArgs(input)
		}
		// zone
		z := &zoneGen{r: r, u: zoneh.Universe{}, shape: map[string]bool{}}
		svcb := pname
		if pport != 80 && pport != 443 {
			svcb = fmt.Sprintf("_%d._%s.%s", pport, scheme, pname)
		} else if scheme != "https" {
			svcb = fmt.Sprintf("_%s.%s", scheme, pname)
		}
		if hostClass == "normal" || hostClass == "absolute" || hostClass == "edge255" {
			z.https(svcb, pname)
			z.addrs(pname)
		}
		// a response echoing a question name of more than 254 characters cannot be decoded by the
		// package (255-octet budget): such lookups fail at the transport level
		for _, nm := range []string{svcb, pname} {
			if len(nm) > 254 {
				for _, t := range []int{1, 28, 65} {
					z.u[zoneh.Key{Name: nm, Type: t}] = zoneh.Resp{Fail: true}
				}
			}
		}
		for k := range z.u {
			if len(k.Name) > 254 {
				z.u[k] = zoneh.Resp{Fail: true}
			}
		}
		srv.Set(z.u)
		srv.TakeLog()
		var res ech.ResolveResult
		var rerr error
		panicked := ""
		func() {
			defer func() {
				if rec := recover(); rec != nil {
					panicked = fmt.Sprint(rec)
				}
			}()
			ctx, cancel := context.WithTimeout(context.Background(), 10*time.Second)
			defer cancel()
			// under a watchdog: a lookup that neither returns nor reacts to its context is reported, and
			// the zone shape that provoked it is not generated again (its goroutine cannot be reclaimed)
			type out struct {
				res ech.ResolveResult
				err error
				pan string
			}
			done := make(chan out, 1)
			go func() {
				var o out
				defer func() {
					if rec := recover(); rec != nil {
						o.pan = fmt.Sprint(rec)
					}
					done <- o
				}()
				o.res, o.err = resolver.Resolve(ctx, input)
			}()
			select {
			case o := <-done:
				res, rerr, panicked = o.res, o.err, o.pan
			case <-time.After(14 * time.Second):
				c14Stuck++
				panicked = "Resolve is still running 4 s after its context's deadline (10 s): it neither returns nor reacts to the context"
			}
		}()
		log := srv.TakeLog()
		var lt []string
		for _, q := range log {
			lt = append(lt, fmt.Sprintf("%s/%d", hs2(q.Name), q.Type))
		}
		logText := "_"
		if len(lt) > 0 {
			logText = strings.Join(lt, ",")
		}
		cls := resolveErrClass(rerr)
		want := fmt.Sprintf("res=%s err=%s log=%s", resultText(res), cls, logText)
		if panicked != "" {
			want = "panic " + panicked
			cls = "panic"
		}
		ops := []core.Op{{Line: fmt.Sprintf("resolve %s %s", args, z.u.Text()), Kind: 'M', Want: want, Note: "Resolver.Resolve(" + core.Hex([]byte(input)) + ")"}}
		// RFC 9460 predicates on the implementation
		w := ""
		switch {
		case panicked != "":
			w = "Resolve panicked: " + panicked
		default:
			// query names valid
			for _, q := range log {
				if len(q.Name) > 255 {
					w = fmt.Sprintf("query name of %d bytes sent", len(q.Name))
				}
				for _, l := range strings.Split(q.Name, ".") {
					if len(l) > 63 {
						w = fmt.Sprintf("query label of %d bytes sent", len(l))
					}
				}
			}
			// first HTTPS query name per RFC 9460 2.3 / 9.1
			if w == "" && len(log) > 0 && log[0].Type == 65 {
				okNames := []string{}
				isHTTP := scheme == "https"
				if isHTTP && (pport == 80 || pport == 443) {
					okNames = []string{pname}
				} else if pport != 80 && pport != 443 {
					okNames = []string{fmt.Sprintf("_%d._%s.%s", pport, scheme, pname)}
				} else {
					okNames = []string{fmt.Sprintf("_%d._%s.%s", pport, scheme, pname), fmt.Sprintf("_%s.%s", scheme, pname)}
				}
				if !slices.Contains(okNames, log[0].Name) {
					w = fmt.Sprintf("first HTTPS query name %q, RFC 9460 allows %q", log[0].Name, okNames)
				}
			}
			// bounded number of queries
			nsvc := 0
			for _, h := range res.HTTPS {
				if h.Priority != 0 && h.Target != "" {
					nsvc++
				}
			}
			if w == "" && len(log) > 4+2*nsvc+2 {
				w = fmt.Sprintf("%d queries for %d service targets (bound %d)", len(log), nsvc, 4+2*nsvc+2)
			}
			// no repeated HTTPS query name (loop protection)
			seen := map[string]bool{}
			seenTwice := map[string]bool{}
			for _, q := range log {
				if q.Type == 65 {
					// (an absolute name aliased back to itself is recognised one step later: the loop set holds the
					// names as written, "x." first and then "x"; the wire name is then seen twice, never more)
					if seen[q.Name] && w == "" && !(hostClass == "absolute" && !seenTwice[q.Name]) {
						w = "HTTPS query repeated for " + q.Name
					}
					if seen[q.Name] {
						seenTwice[q.Name] = true
					}
					seen[q.Name] = true
				}
			}
			// poisoned data never used
			poisoned := func(ip net.IP) bool { return len(ip) >= 3 && ip[0] == poisonMark && ip[1] == poisonMark }
			for _, ip := range res.Address {
				if poisoned(ip) && w == "" {
					w = "address owned by an unrelated name was used: " + ip.String()
				}
			}
			for _, l := range res.Additional {
				for _, ip := range l {
					if poisoned(ip) && w == "" {
						w = "additional address owned by an unrelated name was used: " + ip.String()
					}
				}
			}
			for _, h := range res.HTTPS {
				if string(h.ECH) == "evil" || h.Target == "evil-alias.example" {
					w = "HTTPS record owned by an unrelated name was used"
				}
				for _, ip := range h.IPv4Hint {
					if poisoned(ip) && w == "" {
						w = "hint of an unrelated HTTPS record was used"
					}
				}
			}
			// sorted by priority
			for j := 1; j < len(res.HTTPS); j++ {
				if res.HTTPS[j-1].Priority > res.HTTPS[j].Priority && w == "" {
					w = "service records not ordered by priority"
				}
			}
		}
		// the same question asked again of a resolver with its cache on (the default): within the TTLs the
		// answer - result or documented error - must be the same every time, whatever was remembered
		if panicked == "" && i%4 == 0 {
			crs, cerr := ech.NewResolver(srv.URL())
			if cerr == nil {
				for rep := 0; rep < 3 && w == ""; rep++ {
					func() {
						defer func() {
							if rec := recover(); rec != nil {
								w = fmt.Sprint("repeated Resolve panicked: ", rec)
							}
						}()
						ctx, cancel := context.WithTimeout(context.Background(), 10*time.Second)
						defer cancel()
						res2, err2 := crs.Resolve(ctx, input)
						if c2 := resolveErrClass(err2); c2 != cls {
							w = fmt.Sprintf("Resolve #%d of the same name on a caching resolver: error class %s, the first answer was %s", rep+1, c2, cls)
						} else if cls == "-" && resultText(res2) != resultText(res) {
							w = fmt.Sprintf("Resolve #%d of the same name on a caching resolver returned a different result", rep+1)
						}
					}()
				}
				srv.TakeLog()
			}
		}
		ops = append(ops, core.Op{Kind: 'X', Note: "RFC 9460 conformance: query names, bounded alias chain without repetition, bounded queries, only data owned by the queried name (or its in-answer CNAME chain), priority order, no panic", Want: w})
		var shapes []string
		for k := range z.shape {
			shapes = append(shapes, k)
		}
		sort.Strings(shapes)
		sig := fmt.Sprintf("%s/s-%s/p-%s/%s/%s", hostClass, schemeClass, portClass, strings.Join(shapes, "+"), cls)
		emit(core.Case{Name: fmt.Sprintf("resolve/%d", i), Stream: "resolve", Ops: ops, Key: fmt.Sprintf("%s/s-%s/%s", hostClass, schemeClass, cls), Sig: sig,
			Sample: map[string]any{"input": input[:min(len(input), 80)], "host_class": hostClass, "scheme": schemeClass, "port": portClass, "zone": shapes, "queries": len(log), "outcome": cls}})
		env.Count(hostClass + "/" + cls)
	}
}
