package props

import (
	"bytes"
	"context"
	"fmt"
	"github.com/c2FmZQ/ech"
	"math/rand/v2"
	"sync"
	"sync/atomic"

	"verifharness/connh"
	"verifharness/core"
	"verifharness/gen"
)

func init() {
	register(core.Campaign{
		Property: "C09",
		Rule: "EXHAUSTIVE over ordered key lists of length 1..4 (quick: 1..3) drawn without repetition from a pool of 6 valid keys {target, same id+suites other name, same id+suites same name, same id other suites, two other ids} plus the duplicate lists [T,T],[A,T,T]; " +
			"for every list x hello x {first hello, first hello + HelloRetryRequest + retried hello}: acceptance iff the target key is in the list, and the delivered inner record(s) are byte-identical to those obtained with the target key alone. " +
			"distinct = (list length, target position or absent, which colliding keys precede the target, first/retry, outcome).",
		Gen: genC09,
	})
}

type c09Base struct {
	first, second []byte // delivered records with [T] alone
}

func genC09(env *core.Env, emit func(core.Case)) {
	r := env.Rng
	maxLen := env.Pick(3, 4)
	nHellos := env.Pick(3, 12)
	idx := 0
	for hi := 0; hi < nHellos; hi++ {
		id := uint8(r.IntN(256))
		suite := gen.AllSuites[r.IntN(3)]
		otherSuites := []gen.Suite{}
		for _, s := range gen.AllSuites {
			if s != suite {
				otherSuites = append(otherSuites, s)
			}
		}
		T := gen.NewKey(r, id, "public.example", gen.AllSuites)
		if hi%2 == 1 {
			// the target key as other tools publish it: maximum_name_length 0 (or an operator's 64), maybe a
			// config extension - valid, but not this library's own encoding of the same contents
			var exts []gen.Ext
			if hi%4 == 3 {
				exts = []gen.Ext{{Type: 0x1234, Data: gen.RandBytes(r, 5)}}
			}
			T.Config = gen.EncodeConfigWith(id, 0x20, T.Priv.PublicKey().Bytes(), gen.AllSuites, "public.example", []uint8{0, 64}[hi/2%2], exts)
		}
		pool := []*gen.KeyMat{
			T,
			gen.NewKey(r, id, "other.example", gen.AllSuites),  // A same id, same suites, other public name
			gen.NewKey(r, id, "public.example", gen.AllSuites), // B same id, same suites, same public name
			gen.NewKey(r, id, "public.example", otherSuites),   // C same id, other suites
			gen.NewKey(r, id+1, "public.example", gen.AllSuites),
			gen.NewKey(r, id+7, "third.example", gen.AllSuites),
		}
		// F: the target's key pair under another, re-issued config (same id, other suite list and
		// maximum_name_length); G, H, I: further independent keys with the target's id and suites
		reissued := *T
		reissued.Config = gen.EncodeConfigWith(T.ID, 0x20, T.Priv.PublicKey().Bytes(), append([]gen.Suite{{KDF: 1, AEAD: suite.AEAD}}, otherSuites[:1]...), "public.example", 200, nil)
		pool = append(pool, &reissued,
			gen.NewKey(r, id, "public.example", gen.AllSuites), gen.NewKey(r, id, "public.example", gen.AllSuites), gen.NewKey(r, id, "public.example", gen.AllSuites))
		names := []string{"T", "A", "B", "C", "D", "E", "F", "G", "H", "I"}
		o := gen.PlanOpts{NOuterOpaque: 3, NInnerOpaque: 2, MaxExtLen: 40, Padding: 16, SIDLen: 32, RefMask: uint64(r.IntN(8)), MarkerPos: r.IntN(5),
			InnerName: hostName(r), ALPN: alpnList(r), PublicName: "public.example"}
		plan := gen.Plan(r, o)
		pt := plan.Enc.Body()
		s1 := gen.Seal(plan.OuterBase, 1, T, suite, pt, nil, 0x0301)
		// second hello: same inner names, fresh random, sealed at seq 1 with an empty enc
		plan2 := *plan
		e2 := *plan.Enc
		e2.Random = gen.RandBytes(r, 32)
		plan2.Enc = &e2
		pt2 := e2.Body()
		s2 := gen.Seal(plan.OuterBase, 1, T, suite, pt2, s1.Sender, 0x0303)
		hrr := gen.ServerHelloRecord(r, true, plan.OuterBase.SID)
		ccs := gen.Record(20, 0x0303, []byte{1})

		runList := func(list []int, retry bool) (string, []byte, []byte, *connh.Sess) {
			var ks []*gen.KeyMat
			for _, i := range list {
				ks = append(ks, pool[i])
			}
			s := connh.NewSess(echKeys(ks...))
			s.Register(s1.Rec)
			if retry {
				s.Register(s2.Rec)
			}
			res := s.New(oneChunk(s1.Rec), "eof")
			out := res.Err
			if res.Err != "-" {
				return "abort:" + res.Err, nil, nil, s
			}
			if !res.Accepted {
				out = "passthrough"
			} else {
				out = "accepted"
			}
			d1 := s.Read(70000).Data
			var d2 []byte
			if retry && res.Accepted {
				w := s.Write(hrr)
				if w.Err != "-" {
					return out + "+hrr-write:" + w.Err, d1, nil, s
				}
				s.Feed([][]byte{ccs, s2.Rec}, "eof")
				c := s.Read(70000)
				rr := s.Read(70000)
				if rr.Err != "-" {
					return out + "+retry:" + rr.Err, d1, nil, s
				}
				d2 = append(c.Data, rr.Data...)
				out += "+retried"
			}
			return out, d1, d2, s
		}
		var base [2]c09Base
		for ri, retry := range []bool{false, true} {
			_, d1, d2, _ := runList([]int{0}, retry)
			base[ri] = c09Base{d1, d2}
		}
		do := func(list []int) {
			for ri, retry := range []bool{false, true} {
				idx++
				out, d1, d2, s := runList(list, retry)
				tpos := -1
				before := ""
				for p, i := range list {
					if i == 0 {
						tpos = p
						break
					}
					before += names[i]
				}
				w := ""
				if tpos >= 0 {
					wantOut := "accepted"
					if retry {
						wantOut = "accepted+retried"
					}
					if out != wantOut {
						w = fmt.Sprintf("target key present at position %d but outcome is %s (with the target key alone: %s)", tpos, out, wantOut)
					} else if !bytes.Equal(d1, base[ri].first) || !bytes.Equal(d2, base[ri].second) {
						w = "reconstructed inner hello differs from the one obtained with the target key alone"
					}
					s.X("holding the target key => same acceptance and same inner hello as with the target key alone", w)
				} else {
					if out == "accepted" || out == "accepted+retried" {
						w = "accepted although the target key is not held"
					}
					s.X("not holding the target key => never accepted", w)
					w = ""
					if out != "passthrough" {
						w = "valid non-target keys turned the fall-back into " + out
					}
					s.X("other valid keys never cause an abort", w)
				}
				lname := ""
				for _, i := range list {
					lname += names[i]
				}
				emit(core.Case{Name: fmt.Sprintf("h%d/%s/retry=%v", hi, lname, retry), Stream: "keylists", Ops: s.Ops, Key: fmt.Sprintf("%s/retry=%v", lname, retry),
					Sig:    fmt.Sprintf("len%d/t%d/before=%s/retry=%v/%s", len(list), tpos, before, retry, out),
					Sample: map[string]any{"keys": lname, "retry": retry, "outcome": out}})
				env.Count(out)
			}
		}
		// all ordered lists without repetition
		var rec func(cur []int)
		rec = func(cur []int) {
			if len(cur) > 0 {
				do(append([]int{}, cur...))
			}
			if len(cur) == maxLen {
				return
			}
			for i := 0; i < 6; i++ {
				used := false
				for _, c := range cur {
					if c == i {
						used = true
					}
				}
				if !used {
					rec(append(cur, i))
				}
			}
		}
		rec(nil)
		do([]int{0, 0})
		do([]int{1, 0, 0})
		do([]int{1, 1})
		// the re-issued config of the same key pair next to the target, in both orders
		do([]int{6, 0})
		do([]int{0, 6})
		do([]int{4, 6, 0})
		// many candidates with the target's id and suites, the target last (every one costs a trial decryption)
		do([]int{2, 7, 8, 0})
		do([]int{2, 7, 8, 9, 0})
		do([]int{1, 2, 7, 8, 9, 6, 0})
	}
	// a server handles its connections concurrently: with several held keys under one config id, every
	// hello sealed to any of them is accepted on every goroutine (nothing the trial decryptions of one
	// connection compute is visible to another)
	{
		id := uint8(r.IntN(256))
		kA := gen.NewKey(r, id, "public.example", gen.AllSuites)
		kB := gen.NewKey(r, id, "public.example", gen.AllSuites)
		kC := gen.NewKey(r, id+1, "public.example", gen.AllSuites)
		keys := echKeys(kA, kB, kC)
		type job struct{ rec []byte }
		var jobs []job
		for i := 0; i < env.Pick(240, 2400); i++ {
			o := gen.PlanOpts{NOuterOpaque: 2, NInnerOpaque: 1, MaxExtLen: 20, Padding: 4, SIDLen: 32, RefMask: 1, MarkerPos: 1, InnerName: "inner.example", ALPN: []string{"h2"}, PublicName: "public.example"}
			plan := gen.Plan(r, o)
			target := []*gen.KeyMat{kA, kB, kC}[i%3]
			jobs = append(jobs, job{gen.Seal(plan.OuterBase, 1, target, gen.AllSuites[i%3], plan.Enc.Body(), nil, 0x0301).Rec})
		}
		var rejected, failed atomic.Int64
		var wg sync.WaitGroup
		for g := 0; g < 8; g++ {
			wg.Add(1)
			go func(g int) {
				defer wg.Done()
				defer func() {
					if rec := recover(); rec != nil {
						failed.Add(1)
					}
				}()
				for i := g; i < len(jobs); i += 8 {
					fk := &connh.FakeConn{Chunks: [][]byte{jobs[i].rec}, Fin: "eof"}
					c, err := ech.NewConn(context.Background(), fk, ech.WithKeys(keys))
					if err != nil {
						failed.Add(1)
					} else if !c.ECHAccepted() {
						rejected.Add(1)
					}
				}
			}(g)
		}
		wg.Wait()
		w := ""
		if rejected.Load() > 0 || failed.Load() > 0 {
			w = fmt.Sprintf("%d connections served concurrently with keys [A B C] (A, B under one config id), hellos sealed to held keys: %d not accepted, %d failed", len(jobs), rejected.Load(), failed.Load())
		}
		emit(core.Case{Name: "concurrent/1", Stream: "concurrent", Key: "concurrent",
			Ops: []core.Op{{Kind: 'X', Note: "holding the key => accepted, also when connections are served concurrently", Want: w}},
			Sig: "concurrent", Sample: map[string]any{"connections": len(jobs), "goroutines": 8}})
		env.Count("concurrent")
	}
	env.Exhaustive(fmt.Sprintf("all ordered key lists of length 1..%d without repetition from the 6-key pool, for every generated hello, first and retried", maxLen))
	_ = rand.Int
}
