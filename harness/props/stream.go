package props

import (
	"verifharness/connh"
)

// drain reads from the Conn until an error is returned; read sizes are cycled.
// It reports the delivered bytes, the final error class, and whether a Read returned (0, nil)
// for a non-empty buffer (no progress) or panicked.
type drained struct {
	Data     []byte
	Err      string
	Calls    int
	NoProg   bool
	Panicked string
}

func drain(s *connh.Sess, sizes []int, maxCalls int) drained {
	var d drained
	for i := 0; i < maxCalls; i++ {
		n := sizes[i%len(sizes)]
		r := s.Read(n)
		d.Calls++
		if r.Err == "panic" {
			d.Panicked = r.Panic
			d.Err = "panic"
			return d
		}
		d.Data = append(d.Data, r.Data...)
		if r.Err != "-" {
			d.Err = r.Err
			return d
		}
		if n > 0 && r.N == 0 {
			d.NoProg = true
			d.Err = "no-progress"
			return d
		}
	}
	d.Err = "max-calls"
	return d
}

// splitAt cuts b into pieces at the given sorted offsets.
func splitAt(b []byte, offs ...int) [][]byte {
	var out [][]byte
	prev := 0
	for _, o := range offs {
		if o <= prev || o >= len(b) {
			continue
		}
		out = append(out, b[prev:o])
		prev = o
	}
	if prev < len(b) {
		out = append(out, b[prev:])
	}
	return out
}

// chunkingByMask: bit i set => cut after byte i.
func chunkingByMask(b []byte, mask uint64) [][]byte {
	var offs []int
	for i := 0; i < len(b)-1; i++ {
		if mask&(1<<uint(i)) != 0 {
			offs = append(offs, i+1)
		}
	}
	return splitAt(b, offs...)
}
