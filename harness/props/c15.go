package props

import (
	"fmt"
	"math/rand/v2"
	"net"
	"reflect"
	"strings"

	"github.com/c2FmZQ/ech"
	"github.com/c2FmZQ/ech/dns"

	"verifharness/core"
	"verifharness/gen"
)

func init() {
	register(core.Campaign{
		Property: "C15",
		Rule: "generated ResolveResults: 0..6 HTTPS records (priorities incl. 0, targets from a small name pool present/absent in Additional, ports 0/443/8443, IPv4/IPv6 hints, ALPN lists whose slices have and have not spare capacity " +
			"with a sentinel in the spare slot, ECH nil / empty / bytes, no-default-alpn), address lists (4-byte, 16-byte, IPv4-mapped, duplicates), Additional maps, Port in {0,80,443,8443} x the six networks x EVERY early-termination point. " +
			"Checks: Lean model, Lean TargetsSpec on the implementation's output, prefix property, deep equality of the result (including spare capacity) before and after. distinct = (network, #records, shape flags, #targets, stop point class).",
		Gen: genC15,
	})
}

func ipsText(l []net.IP) string { return hexIPs(l) }

func echText(b []byte) string {
	if b == nil {
		return "nil"
	}
	return core.Hex(b)
}

func resultArgs(r ech.ResolveResult) string {
	var hs []string
	for _, h := range r.HTTPS {
		hs = append(hs, fmt.Sprintf("%d:%s:%s:%s:%d:%s:%s:%s", h.Priority, hs2(h.Target), hexStrs(h.ALPN), b01s(h.NoDefaultALPN), h.Port, ipsText(h.IPv4Hint), ipsText(h.IPv6Hint), echText(h.ECH)))
	}
	var ad []string
	keys := make([]string, 0, len(r.Additional))
	for k := range r.Additional {
		keys = append(keys, k)
	}
	// deterministic order (the model's assoc list lookup does not depend on it: keys are distinct)
	for i := range keys {
		for j := i + 1; j < len(keys); j++ {
			if keys[j] < keys[i] {
				keys[i], keys[j] = keys[j], keys[i]
			}
		}
	}
	for _, k := range keys {
		ad = append(ad, fmt.Sprintf("%s=%s", hs2(k), ipsText(r.Additional[k])))
	}
	return fmt.Sprintf("%d %s %s %s", r.Port, ipsText(r.Address), semi(hs), semi(ad))
}

func hs2(s string) string { return core.Hex([]byte(s)) }

func targetsText(ts []ech.Target) string {
	var l []string
	for _, t := range ts {
		ip := t.Address.Addr().AsSlice()
		l = append(l, fmt.Sprintf("%s@%d/%s/%s", core.Hex(ip), t.Address.Port(), echText(t.ECH), hexStrs(t.ALPN)))
	}
	return semi(l)
}

// alpnWithCap returns a slice of the given protocols whose backing array has `spare` extra slots
// holding a sentinel.
func alpnWithCap(protos []string, spare int) []string {
	if len(protos) == 0 && spare == 0 {
		return nil
	}
	arr := make([]string, len(protos)+spare)
	copy(arr, protos)
	for i := len(protos); i < len(arr); i++ {
		arr[i] = "SENTINEL"
	}
	return arr[:len(protos)]
}

func fullCap(s []string) []string { return s[:cap(s)] }

func genResult(r *rand.Rand) (ech.ResolveResult, string) {
	// target names are map keys as they stand: spelled with capitals they are other keys (the third and the last differ in case only)
	names := []string{"svc1.example", "Svc2.Example", "cdn.example.net", "missing.example", "SVC1.example", "svc2.example"}
	randIP := func() net.IP {
		switch r.IntN(8) {
		case 0:
			return net.IP(gen.RandBytes(r, 16))
		case 1:
			return net.IPv4(10, 0, 0, byte(r.IntN(3))) // 16-byte IPv4-mapped form
		case 2:
			return net.IP(gen.RandBytes(r, 5)) // invalid width
		case 3:
			return net.IP{0xfd, 0, 0, 0, 0, 0, 0, 0, 0, 0, 0, 0, 0, 0, 0, byte(r.IntN(3))}
		}
		return net.IP{10, 0, 0, byte(r.IntN(4))}
	}
	ipList := func(n int) []net.IP {
		var l []net.IP
		for i := 0; i < n; i++ {
			l = append(l, randIP())
		}
		return l
	}
	res := ech.ResolveResult{Port: uint16([]int{0, 80, 443, 8443}[r.IntN(4)])}
	res.Address = ipList(r.IntN(4))
	shape := ""
	if r.IntN(3) != 0 {
		res.Additional = map[string][]net.IP{}
		for _, n := range names[:3] {
			if r.IntN(2) == 0 {
				res.Additional[n] = ipList(r.IntN(3))
			}
		}
	}
	nh := r.IntN(7)
	for i := 0; i < nh; i++ {
		h := dns.HTTPS{Priority: uint16(r.IntN(4))}
		if r.IntN(3) == 0 {
			h.Target = names[r.IntN(len(names))]
			shape += "t"
		}
		protos := [][]string{nil, {"h2"}, {"h3", "h2"}, {"h2", "http/1.1"}, {"h3", "h2", "http/1.1"}}[r.IntN(5)]
		spare := []int{0, 0, 1, 3}[r.IntN(4)]
		h.ALPN = alpnWithCap(protos, spare)
		if spare > 0 {
			shape += "c"
		}
		h.NoDefaultALPN = r.IntN(3) == 0
		h.Port = uint16([]int{0, 0, 443, 8443, 80, 0, 8443, 80}[r.IntN(8)])
		if r.IntN(2) == 0 {
			h.IPv4Hint = []net.IP{{192, 0, 2, byte(r.IntN(3))}}
		}
		if r.IntN(3) == 0 {
			h.IPv6Hint = []net.IP{net.IP(gen.RandBytes(r, 16))}
		}
		switch r.IntN(3) {
		case 0:
			h.ECH = nil
		case 1:
			h.ECH = []byte{}
		default:
			h.ECH = gen.RandBytes(r, 1+r.IntN(40))
		}
		res.HTTPS = append(res.HTTPS, h)
	}
	return res, fmt.Sprintf("h%d/a%d/%s", nh, min(len(res.Address), 2), sortStr(shape))
}

// snapshot renders the result including the spare capacity of every ALPN slice.
func snapshot(r ech.ResolveResult) string {
	var sb strings.Builder
	fmt.Fprintf(&sb, "%d %v %v|", r.Port, r.Address, r.Additional)
	for _, h := range r.HTTPS {
		fmt.Fprintf(&sb, "%d %q %q cap=%q %v %d %v %v %x nil=%v|", h.Priority, h.Target, h.ALPN, fullCap(h.ALPN), h.NoDefaultALPN, h.Port, h.IPv4Hint, h.IPv6Hint, h.ECH, h.ECH == nil)
	}
	return sb.String()
}

func genC15(env *core.Env, emit func(core.Case)) {
	r := env.Rng
	nets := []string{"tcp", "tcp4", "tcp6", "udp", "udp4", "udp6"}
	n := env.Pick(400, 12000)
	idx := 0
	for i := 0; i < n; i++ {
		res, shape := genResult(r)
		args := resultArgs(res)
		for _, network := range nets {
			var full []ech.Target
			before := snapshot(res)
			for t := range res.Targets(network) {
				full = append(full, t)
			}
			afterFull := snapshot(res)
			// the returned sequence is a pure function of the result: ranging over the SAME iter.Seq value
			// again (after an abandoned pass, after a complete pass) yields the same targets again
			{
				idx++
				seq := res.Targets(network)
				w := ""
				stopAt := 0
				if len(full) > 0 {
					stopAt = 1 + r.IntN(len(full))
				}
				cnt := 0
				func() {
					defer func() {
						if rec := recover(); rec != nil {
							w = fmt.Sprintf("abandoning the enumeration after %d targets panicked: %v", stopAt, rec)
						}
					}()
					for range seq {
						cnt++
						if cnt >= stopAt {
							break
						}
					}
				}()
				for pass := 2; pass <= 3 && w == ""; pass++ {
					var again []ech.Target
					func() {
						defer func() {
							if rec := recover(); rec != nil {
								w = fmt.Sprintf("pass %d over the same sequence panicked: %v", pass, rec)
							}
						}()
						for t := range seq {
							again = append(again, t)
						}
					}()
					if w != "" {
						break
					}
					if !reflect.DeepEqual(again, full) && !(len(again) == 0 && len(full) == 0) {
						w = fmt.Sprintf("pass %d over the same sequence yields %d targets (%s), a fresh enumeration yields %d", pass, len(again), targetsText(again), len(full))
					}
				}
				emit(core.Case{Name: fmt.Sprintf("reiterate/%d", idx), Stream: "reiterate", Key: "reiterate/" + shape,
					Ops: []core.Op{{Kind: 'X', Note: "the sequence returned by Targets carries no state from one pass to the next", Want: w}},
					Sig: fmt.Sprintf("reiterate/%s/%s/n%d", network, shape, min(len(full), 4)), Sample: map[string]any{"network": network, "result": args, "targets": len(full), "abandoned_after": stopAt}})
			}
			for k := 0; k <= len(full)+1; k++ {
				idx++
				var got []ech.Target
				cnt := 0
				panicked := ""
				if k > 0 {
					func() {
						defer func() {
							if rec := recover(); rec != nil {
								panicked = fmt.Sprint(rec)
							}
						}()
						for t := range res.Targets(network) {
							got = append(got, t)
							cnt++
							if cnt >= k {
								break
							}
						}
					}()
				}
				out := targetsText(got)
				if panicked != "" {
					out = "panic " + panicked
				}
				ops := []core.Op{{Line: fmt.Sprintf("targets %s %s %d", network, args, k), Kind: 'M', Want: out, Note: "Targets(network), stopped after k"},
					{Line: fmt.Sprintf("targets-spec %s %s %d %s", network, args, k, out), Kind: 'S', Note: "targets == TargetsSpec (declarative rules), k-prefix"}}
				w := ""
				if panicked != "" {
					w = fmt.Sprintf("stopping the enumeration after %d targets panicked: %s", k, panicked)
				} else if k <= len(full) && !reflect.DeepEqual(got, full[:k]) && !(k == 0 && len(got) == 0) {
					w = "stopping after k does not yield the k-prefix of the full enumeration"
				}
				ops = append(ops, core.Op{Kind: 'X', Note: "early termination yields a prefix", Want: w})
				w = ""
				if after := snapshot(res); after != before {
					w = "enumerating targets modified the ResolveResult (backing array of an ALPN slice): before " + before + " after " + after
				} else if afterFull != before {
					w = "enumerating targets modified the ResolveResult"
				}
				ops = append(ops, core.Op{Kind: 'X', Note: "enumerating targets never modifies the result (incl. spare slice capacity)", Want: w})
				stop := "full"
				if k == 0 {
					stop = "zero"
				} else if k < len(full) {
					stop = "early"
				}
				emit(core.Case{Name: fmt.Sprintf("targets/%d", idx), Stream: "targets", Ops: ops, Key: "targets/" + shape,
					Sig: fmt.Sprintf("%s/%s/n%d/%s", network, shape, min(len(full), 4), stop), Sample: map[string]any{"network": network, "result": args, "targets": len(full), "stop_after": k}})
			}
			env.Count(fmt.Sprintf("%s/targets%d", network, min(len(full), 4)))
		}
	}
	_ = rand.Int
}
