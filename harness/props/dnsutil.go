package props

import (
	"bufio"
	"encoding/hex"
	"fmt"
	"io"
	"math/rand/v2"
	"net"
	"os"
	"os/exec"
	"strings"
	"time"

	"github.com/c2FmZQ/ech/dns"

	"verifharness/core"
	"verifharness/gen"
)

func plusList(l []string) string {
	if len(l) == 0 {
		return "_"
	}
	return strings.Join(l, "+")
}

func hexStrs(l []string) string {
	var s []string
	for _, x := range l {
		s = append(s, core.Hex([]byte(x)))
	}
	return plusList(s)
}

func hexIPs(l []net.IP) string {
	var s []string
	for _, x := range l {
		s = append(s, core.Hex([]byte(x)))
	}
	return plusList(s)
}

func hs(s string) string { return core.Hex([]byte(s)) }

func b01s(b bool) string {
	if b {
		return "1"
	}
	return "0"
}

// dnsData prints RR.Data in the canonical text form, tagged by its Go dynamic type.
func dnsData(d any) string {
	switch v := d.(type) {
	case net.IP:
		return "ip:" + core.Hex(v)
	case string:
		return "name:" + hs(v)
	case dns.SOA:
		return fmt.Sprintf("soa:%s:%s:%d:%d:%d:%d:%d", hs(v.MName), hs(v.RName), v.Serial, v.Refresh, v.Retry, v.Expire, v.Minimum)
	case dns.MX:
		return fmt.Sprintf("mx:%d:%s", v.Preference, hs(v.Exchange))
	case dns.TXT:
		return "txt:" + hexStrs(v)
	case dns.LOC:
		return "loc"
	case dns.SRV:
		return fmt.Sprintf("srv:%d:%d:%d:%s", v.Priority, v.Weight, v.Port, hs(v.Target))
	case dns.CERT:
		return fmt.Sprintf("cert:%d:%d:%d:%s", v.Type, v.KeyTag, v.Algorithm, core.Hex(v.Certificate))
	case []dns.Option:
		var s []string
		for _, o := range v {
			s = append(s, fmt.Sprintf("%d=%s", o.Code, core.Hex(o.Data)))
		}
		return "opt:" + plusList(s)
	case dns.DS:
		return fmt.Sprintf("ds:%d:%d:%d:%s", v.KeyTag, v.Algorithm, v.DigestType, core.Hex(v.Digest))
	case dns.RRSIG:
		return fmt.Sprintf("rrsig:%d:%d:%d:%d:%d:%d:%d:%s:%s", v.TypeCovered, v.Algorithm, v.Labels, v.OriginalTTL, v.SignatureExpiration, v.SignatureInception, v.KeyTag, hs(v.SignerName), core.Hex(v.Signature))
	case dns.NSEC:
		return fmt.Sprintf("nsec:%s:%s", hs(v.NextDomainName), core.Hex(v.TypeBitMaps))
	case dns.DNSKEY:
		return fmt.Sprintf("dnskey:%d:%d:%d:%s", v.Flags, v.Protocol, v.Algorithm, core.Hex(v.PublicKey))
	case dns.SVCB:
		var s []string
		for _, p := range v.Params {
			s = append(s, fmt.Sprintf("%d=%s", p.Key, core.Hex(p.Value)))
		}
		return fmt.Sprintf("svcb:%d:%s:%s", v.Priority, hs(v.Target), plusList(s))
	case dns.HTTPS:
		return fmt.Sprintf("https:%d:%s:%s:%s:%d:%s:%s:%s", v.Priority, hs(v.Target), hexStrs(v.ALPN), b01s(v.NoDefaultALPN), v.Port, hexIPs(v.IPv4Hint), hexIPs(v.IPv6Hint), core.Hex(v.ECH))
	case dns.URI:
		return fmt.Sprintf("uri:%d:%d:%s", v.Priority, v.Weight, hs(v.Target))
	case dns.CAA:
		return fmt.Sprintf("caa:%d:%s:%s", v.Flags, hs(v.Tag), hs(v.Value))
	case []byte:
		return "raw:" + core.Hex(v)
	}
	return fmt.Sprintf("unknown-go-type:%T", d)
}

func semi(l []string) string {
	if len(l) == 0 {
		return "_"
	}
	return strings.Join(l, ";")
}

func dnsMsgText(m *dns.Message) string {
	var q, a, b, c []string
	for _, x := range m.Question {
		q = append(q, fmt.Sprintf("%s,%d,%d", hs(x.Name), x.Type, x.Class))
	}
	rr := func(x dns.RR) string {
		return fmt.Sprintf("%s,%d,%d,%d,%s", hs(x.Name), x.Type, x.Class, x.TTL, dnsData(x.Data))
	}
	for _, x := range m.Answer {
		a = append(a, rr(x))
	}
	for _, x := range m.Authority {
		b = append(b, rr(x))
	}
	for _, x := range m.Additional {
		c = append(c, rr(x))
	}
	return fmt.Sprintf("%d,%d,%d,%d,%d,%d,%d,%d %s %s %s %s", m.ID, m.QR, m.OpCode, m.AA, m.TC, m.RD, m.RA, m.RCode, semi(q), semi(a), semi(b), semi(c))
}

// typeMatches: the Go dynamic type of Data is the one implied by the record type.
func typeMatches(typ uint16, d any) bool {
	tag := strings.SplitN(dnsData(d), ":", 2)[0]
	want := map[uint16]string{1: "ip", 28: "ip", 2: "name", 5: "name", 12: "name", 6: "soa", 15: "mx", 16: "txt", 29: "loc", 33: "srv", 37: "cert",
		41: "opt", 43: "ds", 46: "rrsig", 47: "nsec", 48: "dnskey", 64: "svcb", 65: "https", 256: "uri", 257: "caa"}
	if w, ok := want[typ]; ok {
		return tag == w
	}
	return tag == "raw"
}

// DNSChildMain is the body of the decode child process: one hex message per line in, one
// canonical result per line out. It runs in its own process so that a decoder that never returns
// or eats memory can be killed.
func DNSChildMain() {
	in := bufio.NewReaderSize(os.Stdin, 1<<20)
	out := bufio.NewWriter(os.Stdout)
	for {
		line, err := in.ReadString('\n')
		line = strings.TrimSpace(line)
		if line != "" {
			b, _ := hex.DecodeString(strings.TrimPrefix(line, "-"))
			fmt.Fprintln(out, dnsDecodeText(b))
			out.Flush()
		}
		if err != nil {
			return
		}
	}
}

func dnsDecodeText(b []byte) (res string) {
	defer func() {
		if r := recover(); r != nil {
			res = "panic " + fmt.Sprint(r)
		}
	}()
	m, err := dns.DecodeMessage(b)
	if err != nil {
		return "err"
	}
	for _, sec := range [][]dns.RR{m.Answer, m.Authority, m.Additional} {
		for _, rr := range sec {
			if !typeMatches(rr.Type, rr.Data) {
				return fmt.Sprintf("typemismatch type=%d data=%s", rr.Type, dnsData(rr.Data))
			}
		}
	}
	return "ok " + dnsMsgText(m)
}

// dnsDecodeAll decodes all messages in child processes with a per-message watchdog and an
// address-space limit; a message on which the child does not answer within the limit is "hang".
func dnsDecodeAll(msgs [][]byte) []string {
	res := make([]string, len(msgs))
	i := 0
	for i < len(msgs) {
		self, _ := os.Executable()
		cmd := exec.Command("/bin/sh", "-c", "ulimit -v 4000000; exec \"$0\" -dns-child", self)
		stdin, _ := cmd.StdinPipe()
		stdout, _ := cmd.StdoutPipe()
		if err := cmd.Start(); err != nil {
			panic(err)
		}
		rd := bufio.NewReaderSize(stdout, 1<<22)
		lines := make(chan string, 1024)
		go func() {
			for {
				l, err := rd.ReadString('\n')
				if l != "" {
					lines <- strings.TrimRight(l, "\n")
				}
				if err != nil {
					close(lines)
					return
				}
			}
		}()
		go func(from int) {
			w := bufio.NewWriterSize(stdin, 1<<20)
			for j := from; j < len(msgs); j++ {
				if len(msgs[j]) == 0 {
					fmt.Fprintln(w, "-")
				} else {
					fmt.Fprintln(w, hex.EncodeToString(msgs[j]))
				}
			}
			w.Flush()
			stdin.Close()
		}(i)
		stalled := false
		for i < len(msgs) && !stalled {
			select {
			case l, ok := <-lines:
				if !ok {
					// child died (e.g. out of memory) on message i
					res[i] = "oom-or-crash"
					i++
					stalled = true
					break
				}
				res[i] = l
				i++
			case <-time.After(3 * time.Second):
				res[i] = "hang"
				i++
				stalled = true
			}
		}
		cmd.Process.Kill()
		cmd.Wait()
		io.Copy(io.Discard, stdout)
	}
	return res
}

var _ = rand.Int
var _ = gen.U16
