package props

import (
	"bytes"
	"fmt"
	"math/rand/v2"
	"net"
	"reflect"
	"slices"
	"strings"

	"golang.org/x/net/dns/dnsmessage"

	"github.com/c2FmZQ/ech/dns"

	"verifharness/core"
	"verifharness/gen"
)

func init() {
	register(core.Campaign{
		Property: "C13",
		Rule: "streams: header (EXHAUSTIVE 2^5 flag bits x 16 opcodes x 16 rcodes), roundtrip (messages over the encoder's record types A/AAAA/NS/CNAME/PTR/OPT/HTTPS with names of 0..127 labels, all HTTPS parameter combinations, " +
			"sections of 0..4 records: Bytes() vs model, DecodeMessage(Bytes()) == message), dnsmessage-parse (golang.org/x/net/dns/dnsmessage parses Bytes(): header, questions, A/AAAA/NS/CNAME/PTR/OPT bodies agree), " +
			"dnsmessage-build (packets built and COMPRESSED by dnsmessage incl. MX/SOA/TXT/SRV decoded by the package and compared field by field), padding (every question-name length 0..253 x OPT contents: length % 128 == 0, same question), " +
			"rcode (all 16 rcodes x OPT TTL high bytes). distinct = (stream, record types, name shape, outcome).",
		Gen: genC13,
	})
}

func dnsLabel(r *rand.Rand, n int) string {
	b := make([]byte, n)
	for i := range b {
		b[i] = "abcdefghijklmnopqrstuvwxyz0123456789-"[r.IntN(37)]
	}
	return string(b)
}

// dnsNameN returns a name with the given number of labels (total <= 253 bytes).
func dnsNameN(r *rand.Rand, labels int) string {
	if labels == 0 {
		return ""
	}
	maxl := min(63, (253-labels+1)/labels)
	if maxl < 1 {
		maxl = 1
	}
	var ls []string
	for i := 0; i < labels; i++ {
		ls = append(ls, dnsLabel(r, 1+r.IntN(maxl)))
	}
	return strings.Join(ls, ".")
}

func randName(r *rand.Rand) string {
	switch r.IntN(6) {
	case 0:
		return dnsNameN(r, 1)
	case 1:
		return dnsNameN(r, 127)
	case 2:
		return dnsNameN(r, 4+r.IntN(30))
	}
	return dnsNameN(r, 1+r.IntN(4))
}

func eDataText(typ uint16, d any) string {
	switch v := d.(type) {
	case net.IP:
		return "ip:" + core.Hex(v)
	case string:
		return "str:" + hs(v)
	case []dns.Option:
		var s []string
		for _, o := range v {
			s = append(s, fmt.Sprintf("%d=%s", o.Code, core.Hex(o.Data)))
		}
		return "opt:" + plusList(s)
	case dns.HTTPS:
		return fmt.Sprintf("https:%d:%s:%s:%s:%d:%s:%s:%s", v.Priority, hs(v.Target), hexStrs(v.ALPN), b01s(v.NoDefaultALPN), v.Port, hexIPs(v.IPv4Hint), hexIPs(v.IPv6Hint), core.Hex(v.ECH))
	}
	return "other"
}

func eMsgText(m *dns.Message) string {
	var q, a, b, c []string
	for _, x := range m.Question {
		q = append(q, fmt.Sprintf("%s,%d,%d", hs(x.Name), x.Type, x.Class))
	}
	rr := func(x dns.RR) string {
		return fmt.Sprintf("%s,%d,%d,%d,%s", hs(x.Name), x.Type, x.Class, x.TTL, eDataText(x.Type, x.Data))
	}
	for _, x := range m.Answer {
		a = append(a, rr(x))
	}
	for _, x := range m.Authority {
		b = append(b, rr(x))
	}
	for _, x := range m.Additional {
		c = append(c, rr(x))
	}
	return fmt.Sprintf("%d,%d,%d,%d,%d,%d,%d,%d %s %s %s %s", m.ID, m.QR, m.OpCode, m.AA, m.TC, m.RD, m.RA, m.RCode, semi(q), semi(a), semi(b), semi(c))
}

func implBytes(m *dns.Message) (b []byte, res string) {
	defer func() {
		if r := recover(); r != nil {
			res = "panic"
		}
	}()
	b = m.Bytes()
	return b, "ok " + core.Hex(b)
}

// randIP16 is an IPv6 address; a quarter of them are IPv4-mapped (::ffff:a.b.c.d), which are legal
// AAAA / ipv6hint contents and must stay 16 octets on the wire.
func randIP16(r *rand.Rand) net.IP {
	if r.IntN(4) == 0 {
		return net.IP(gen.Cat(make([]byte, 10), []byte{0xff, 0xff}, gen.RandBytes(r, 4)))
	}
	return net.IP(gen.RandBytes(r, 16))
}

func randRR(r *rand.Rand, kind int) dns.RR {
	rr := dns.RR{Name: randName(r), Class: 1, TTL: r.Uint32()}
	if r.IntN(10) == 0 {
		rr.Name = ""
	}
	switch kind {
	case 0:
		rr.Type, rr.Data = 1, net.IP(gen.RandBytes(r, 4))
	case 1:
		rr.Type, rr.Data = 28, randIP16(r)
	case 2:
		rr.Type, rr.Data = []uint16{2, 5, 12}[r.IntN(3)], randName(r)
	case 3:
		var opts []dns.Option
		for i := 0; i < r.IntN(4); i++ {
			opts = append(opts, dns.Option{Code: uint16([]int{8, 10, 12, 15, 65001}[r.IntN(5)]), Data: gen.RandBytes(r, r.IntN(30))})
		}
		if opts == nil {
			opts = []dns.Option{}
		}
		rr.Type, rr.Class, rr.Data = 41, uint16(r.IntN(65536)), opts
		rr.Name = ""
	case 4:
		h := dns.HTTPS{Priority: uint16(r.IntN(5))}
		if r.IntN(2) == 0 {
			h.Target = randName(r)
		}
		if r.IntN(2) == 0 {
			h.ALPN = []string{"h2", "h3", "http/1.1"}[:1+r.IntN(3)]
		}
		h.NoDefaultALPN = r.IntN(2) == 0
		if r.IntN(2) == 0 {
			h.Port = uint16(1 + r.IntN(65535))
		}
		for i := 0; i < r.IntN(3); i++ {
			h.IPv4Hint = append(h.IPv4Hint, net.IP(gen.RandBytes(r, 4)))
		}
		for i := 0; i < r.IntN(3); i++ {
			h.IPv6Hint = append(h.IPv6Hint, randIP16(r))
		}
		if r.IntN(2) == 0 {
			h.ECH = gen.RandBytes(r, 1+r.IntN(100))
		}
		rr.Type, rr.Data = 65, h
	}
	return rr
}

func genC13(env *core.Env, emit func(core.Case)) {
	r := env.Rng
	idx := 0
	roundtrip := func(stream string, m *dns.Message, sig string) {
		idx++
		b, res := implBytes(m)
		ops := []core.Op{{Line: "dns-encode " + eMsgText(m), Kind: 'M', Want: res, Note: "Message.Bytes"}}
		outcome := "ok"
		if res == "panic" {
			outcome = "panic"
			ops = append(ops, core.Op{Kind: 'X', Note: "Bytes() of a well-formed message does not panic", Want: "Message.Bytes panicked"})
		} else {
			dec := dnsDecodeText(b)
			ops = append(ops, core.Op{Line: "dns-decode " + core.Hex(b), Kind: 'M', Want: dec, Note: "DecodeMessage(Bytes())"})
			m2, err := dns.DecodeMessage(b)
			w := ""
			if err != nil {
				w = "own encoding does not decode: " + err.Error()
			} else if !dnsEqual(m, m2) {
				w = "decode(encode(m)) != m: got " + dnsMsgText(m2)
			}
			ops = append(ops, core.Op{Kind: 'X', Note: "decoding the encoded bytes yields the same message", Want: w})
			// independent codec
			if w2, ok := dnsmessageAgrees(b, m); ok || w2 != "" {
				ops = append(ops, core.Op{Kind: 'X', Note: "golang.org/x/net/dns/dnsmessage parses Bytes() to the same header/questions/records", Want: w2})
			}
		}
		emit(core.Case{Name: fmt.Sprintf("%s/%d", stream, idx), Stream: stream, Ops: ops, Key: stream + "/" + sig, Sig: stream + "/" + sig + "/" + outcome,
			Sample: map[string]any{"stream": stream, "what": sig, "outcome": outcome, "encoded_len": len(b)}})
		env.Count(stream + "/" + outcome)
	}
	// responses as compressing servers write them: owner names and names inside RDATA are label runs that
	// end in a pointer, or nothing but a pointer - which may itself lead to a pointer
	for i := 0; i < env.Pick(400, 5000); i++ {
		idx++
		d := &gen.DNSBuilder{}
		nAns, nAuth := 1+r.IntN(4), r.IntN(3)
		d.Header(uint16(r.IntN(65536)), []uint16{0x8180, 0x81a0, 0x8190, 0x81b0, 0x8580, 0x85a0}[r.IntN(6)], 1, nAns, nAuth, 0)
		qlabels := append(gen.RandLabels(r, 3), gen.RandLabel(r))
		d.Question(r, gen.NamePlain, qlabels, 1, 1)
		styles := []gen.NameStyle{gen.NamePtrOnly, gen.NamePtrOnly, gen.NameCompressed, gen.NamePlain}
		for j := 0; j < nAns+nAuth; j++ {
			typ := []int{5, 2, 12, 1, 28}[r.IntN(5)]
			if j >= nAns {
				typ = 2
			}
			rd := func() {
				switch typ {
				case 1:
					d.B = append(d.B, gen.RandBytes(r, 4)...)
				case 28:
					d.B = append(d.B, gen.RandBytes(r, 16)...)
				default:
					d.Name(r, styles[r.IntN(len(styles))], append(gen.RandLabels(r, 2), gen.RandLabel(r)))
				}
			}
			d.RR(r, styles[r.IntN(len(styles))], append(gen.RandLabels(r, 2), gen.RandLabel(r)), typ, 1, uint32(r.IntN(100000)), rd, 0)
		}
		dec := dnsDecodeText(d.B)
		w := ""
		if m, err := dns.DecodeMessage(d.B); err != nil {
			// the independent decoder decides whether the message is well formed
			var p dnsmessage.Parser
			if _, e := p.Start(d.B); e == nil {
				if _, e = p.AllQuestions(); e == nil {
					if _, e = p.AllAnswers(); e == nil {
						if _, e = p.AllAuthorities(); e == nil {
							if _, e = p.AllAdditionals(); e == nil {
								w = "a compressed response that golang.org/x/net/dns/dnsmessage parses does not decode: " + err.Error()
							}
						}
					}
				}
			}
		} else if w2, ok := dnsmessageAgrees(d.B, m); !ok && !strings.Contains(w2, "cannot parse") {
			w = w2
		}
		ops := []core.Op{{Line: "dns-decode " + core.Hex(d.B), Kind: 'M', Want: dec, Note: "DecodeMessage of a compressed response"},
			{Kind: 'X', Note: "names reached through pointers (and pointers to pointers) decode as an independent decoder reads them", Want: w}}
		emit(core.Case{Name: fmt.Sprintf("foreign-compressed/%d", idx), Stream: "foreign-compressed", Ops: ops, Key: "foreign-compressed", Sig: fmt.Sprintf("foreign-compressed/%d/%d/%v", nAns, nAuth, w == ""),
			Sample: map[string]any{"stream": "foreign-compressed", "answers": nAns, "len": len(d.B)}})
		env.Count("foreign-compressed/" + connh0(dec))
	}
	// big answers: hundreds of records, each owner name a pointer to the question name (the 255-pointer
	// budget of RFC-abiding decoders is per NAME, not per message)
	for _, nrec := range []int{255, 256, 300, 700} {
		idx++
		d := &gen.DNSBuilder{}
		d.Header(uint16(r.IntN(65536)), 0x8180, 1, nrec, 0, 0)
		qlabels := append(gen.RandLabels(r, 2), gen.RandLabel(r))
		d.Question(r, gen.NamePlain, qlabels, 1, 1)
		for j := 0; j < nrec; j++ {
			d.RR(r, gen.NamePtrOnly, nil, 1, 1, uint32(r.IntN(3600)), func() { d.B = append(d.B, 10, byte(j>>8), byte(j), 1) }, 0)
		}
		dec := dnsDecodeText(d.B)
		w := ""
		if m, err := dns.DecodeMessage(d.B); err != nil {
			w = fmt.Sprintf("a response with %d answers whose owner names are pointers to the question does not decode: %v", nrec, err)
		} else if len(m.Answer) != nrec {
			w = fmt.Sprintf("%d answers decoded, %d sent", len(m.Answer), nrec)
		}
		ops := []core.Op{{Line: "dns-decode " + core.Hex(d.B), Kind: 'M', Want: dec, Note: "DecodeMessage of a large compressed response"},
			{Kind: 'X', Note: "large responses with compressed owner names decode", Want: w}}
		emit(core.Case{Name: fmt.Sprintf("foreign-large/%d", idx), Stream: "foreign-large", Ops: ops, Key: "foreign-large", Sig: fmt.Sprintf("foreign-large/%d", nrec),
			Sample: map[string]any{"stream": "foreign-large", "answers": nrec, "len": len(d.B)}})
		env.Count("foreign-large/" + connh0(dec))
	}
	// messages without a question (what a compressing encoder writes for a bare record set, an UPDATE or a
	// NOTIFY-like message): the first owner name sits at offset 12 and the later ones point there (c0 0c)
	for _, nrec := range []int{1, 2, 3, 5} {
		for _, section := range []int{0, 1, 2} {
			idx++
			counts := [3]int{}
			counts[section] = nrec
			b := []byte{byte(r.IntN(256)), byte(r.IntN(256)), 0x81, 0x80, 0, 0, 0, byte(counts[0]), 0, byte(counts[1]), 0, byte(counts[2])}
			owner := ""
			for j := 0; j < nrec; j++ {
				if j == 0 {
					for _, l := range []string{string(gen.RandLabel(r)), string(gen.RandLabel(r)), "example"} {
						b = append(b, byte(len(l)))
						b = append(b, l...)
						owner += l + "."
					}
					b = append(b, 0)
				} else {
					b = append(b, 0xc0, 0x0c)
				}
				b = append(b, 0, 1, 0, 1, 0, 0, 0, byte(60+j), 0, 4, 10, 0, byte(section), byte(j))
			}
			owner = strings.TrimSuffix(owner, ".")
			dec := dnsDecodeText(b)
			w := ""
			if m, err := dns.DecodeMessage(b); err != nil {
				w = fmt.Sprintf("a message without a question (%d records, owners compressed against the first) does not decode: %v", nrec, err)
			} else {
				for _, rr := range slices.Concat(m.Answer, m.Authority, m.Additional) {
					if !strings.EqualFold(rr.Name, owner) && w == "" {
						w = fmt.Sprintf("owner decoded as %q, the bytes say %q (pointer to offset 12 in a message without a question)", rr.Name, owner)
					}
				}
				if len(m.Answer)+len(m.Authority)+len(m.Additional) != nrec && w == "" {
					w = fmt.Sprintf("%d records decoded, %d sent", len(m.Answer)+len(m.Authority)+len(m.Additional), nrec)
				}
			}
			ops := []core.Op{{Line: "dns-decode " + core.Hex(b), Kind: 'M', Want: dec, Note: "DecodeMessage of a message without a question"},
				{Kind: 'X', Note: "pointers to offset 12 mean the bytes at offset 12, whatever they belong to", Want: w}}
			emit(core.Case{Name: fmt.Sprintf("no-question/%d", idx), Stream: "no-question", Ops: ops, Key: "no-question", Sig: fmt.Sprintf("no-question/%d/%d", nrec, section),
				Sample: map[string]any{"stream": "no-question", "records": nrec, "section": section, "len": len(b)}})
			env.Count("no-question/" + connh0(dec))
		}
	}
	// the smallest well-formed messages: root questions and records of exactly 11 octets (root owner, no data) -
	// the root priming query with a bare EDNS OPT, a header followed by a bare OPT, runs of empty records
	{
		bareOPT := []byte{0, 0, 41, 0x04, 0xd0, 0, 0, 0, 0, 0, 0}
		empty := []byte{0, 0xff, 0x00, 0, 1, 0, 0, 0, 60, 0, 0}
		rootQ := []byte{0, 0, 2, 0, 1}
		hdr := func(fl byte, qd, an, ns, ar int) []byte {
			return []byte{byte(r.IntN(256)), byte(r.IntN(256)), fl, 0, 0, byte(qd), 0, byte(an), 0, byte(ns), 0, byte(ar)}
		}
		for mi, b := range [][]byte{
			gen.Cat(hdr(1, 1, 0, 0, 1), rootQ, bareOPT),
			gen.Cat(hdr(1, 0, 0, 0, 1), bareOPT),
			gen.Cat(hdr(0x81, 1, 3, 0, 1), rootQ, empty, empty, empty, bareOPT),
			gen.Cat(hdr(0x81, 0, 2, 2, 2), empty, empty, empty, empty, empty, bareOPT),
			gen.Cat(hdr(0x81, 2, 0, 1, 0), rootQ, rootQ, empty),
		} {
			idx++
			dec := dnsDecodeText(b)
			w := ""
			if m, err := dns.DecodeMessage(b); err != nil {
				w = fmt.Sprintf("a well-formed %d-octet message of root questions and 11-octet records does not decode: %v", len(b), err)
			} else if got, want := len(m.Question)*1000000+len(m.Answer)*10000+len(m.Authority)*100+len(m.Additional), int(b[5])*1000000+int(b[7])*10000+int(b[9])*100+int(b[11]); got != want {
				w = fmt.Sprintf("section sizes decoded %d, sent %d", got, want)
			}
			ops := []core.Op{{Line: "dns-decode " + core.Hex(b), Kind: 'M', Want: dec, Note: "DecodeMessage of a minimal message"},
				{Kind: 'X', Note: "the smallest well-formed messages decode", Want: w}}
			emit(core.Case{Name: fmt.Sprintf("minimal/%d", idx), Stream: "minimal", Ops: ops, Key: "minimal", Sig: fmt.Sprintf("minimal/%d", mi),
				Sample: map[string]any{"stream": "minimal", "len": len(b)}})
			env.Count("minimal/" + connh0(dec))
		}
	}
	// HTTPS / SVCB records as other encoders write them: SvcParamKeys in increasing order starting with
	// key 0 (mandatory), keys this package has no field for (dohpath 7, private-use 65000), any target
	for i := 0; i < env.Pick(300, 4000); i++ {
		idx++
		d := &gen.DNSBuilder{}
		d.Header(uint16(r.IntN(65536)), []uint16{0x8180, 0x81a0, 0x8190, 0x81b0}[r.IntN(4)], 1, 1, 0, 0)
		labels := gen.RandLabels(r, 4)
		typ := []int{65, 65, 64}[r.IntN(3)]
		d.Question(r, gen.NameStyle(0), labels, typ, 1)
		d.RR(r, gen.NameStyle(0), labels, typ, 1, uint32(r.IntN(100000)), rdataGen(r, d, typ, false), 0)
		dec := dnsDecodeText(d.B)
		w := ""
		if dec == "err" || strings.HasPrefix(dec, "panic") {
			w = "a well-formed " + fmt.Sprint(typ) + " record with SvcParamKeys in increasing order does not decode: " + dec
		}
		ops := []core.Op{{Line: "dns-decode " + core.Hex(d.B), Kind: 'M', Want: dec, Note: "DecodeMessage of a foreign HTTPS/SVCB record"},
			{Kind: 'X', Note: "records written by other RFC 9460 encoders decode", Want: w}}
		emit(core.Case{Name: fmt.Sprintf("foreign-svcb/%d", idx), Stream: "foreign-svcb", Ops: ops, Key: "foreign-svcb", Sig: fmt.Sprintf("foreign-svcb/%d/%v", typ, w == ""),
			Sample: map[string]any{"stream": "foreign-svcb", "type": typ, "len": len(d.B)}})
		env.Count("foreign-svcb/" + connh0(dec))
	}
	// header: exhaustive
	for fl := 0; fl < 32; fl++ {
		for op := 0; op < 16; op++ {
			for rc := 0; rc < 16; rc++ {
				if !env.Thorough() && (op*16+rc+fl)%3 != 0 && fl != 0 && fl != 31 {
					continue
				}
				m := &dns.Message{ID: uint16(r.IntN(65536)), QR: uint8(fl & 1), AA: uint8(fl >> 1 & 1), TC: uint8(fl >> 2 & 1), RD: uint8(fl >> 3 & 1), RA: uint8(fl >> 4 & 1), OpCode: uint8(op), RCode: uint8(rc),
					Question: []dns.Question{{Name: "example.com", Type: 65, Class: 1}}}
				roundtrip("header", m, fmt.Sprintf("fl%d", fl))
			}
		}
	}
	env.Exhaustive("header stream: all 2^5 flag-bit combinations x 16 opcodes x 16 rcodes (thorough; quick: a third plus the all-0/all-1 flag rows); padding stream: every question-name length 0..253")
	// round trips
	for i := 0; i < env.Pick(1500, 40000); i++ {
		m := &dns.Message{ID: uint16(r.IntN(65536)), RD: uint8(r.IntN(2)), QR: uint8(r.IntN(2))}
		nq := r.IntN(3)
		for j := 0; j < nq; j++ {
			name := randName(r)
			if r.IntN(15) == 0 {
				name = "" // the root
			}
			m.Question = append(m.Question, dns.Question{Name: name, Type: uint16([]int{1, 28, 65, 5}[r.IntN(4)]), Class: 1})
		}
		kinds := ""
		for sec := 0; sec < 3; sec++ {
			for j := 0; j < r.IntN(4); j++ {
				k := r.IntN(5)
				kinds += fmt.Sprint(k)
				rr := randRR(r, k)
				if k != 3 && len(m.Question) > 0 && r.IntN(3) == 0 {
					// an answer is usually about the name that was asked - spelled as the zone has it, which
					// need not be how the query spelled it (0x20 mixed-case queries): the owner is written out
					// as given, byte for byte
					q := m.Question[0].Name
					switch r.IntN(3) {
					case 0:
						rr.Name = q
					case 1:
						rr.Name = strings.ToUpper(q)
					default:
						b := []byte(q)
						for i := range b {
							if i%2 == 0 && b[i] >= 'a' && b[i] <= 'z' {
								b[i] -= 32
							}
						}
						rr.Name = string(b)
					}
				}
				switch sec {
				case 0:
					m.Answer = append(m.Answer, rr)
				case 1:
					m.Authority = append(m.Authority, rr)
				default:
					m.Additional = append(m.Additional, rr)
				}
			}
		}
		roundtrip("roundtrip", m, fmt.Sprintf("q%d/k%s", nq, sortStr(kinds)))
	}
	// names of 0..127 labels in questions and records
	for labels := 0; labels <= 127; labels++ {
		m := &dns.Message{Question: []dns.Question{{Name: dnsNameN(r, labels), Type: 1, Class: 1}},
			Answer: []dns.RR{{Name: dnsNameN(r, labels), Type: 5, Class: 1, TTL: 60, Data: dnsNameN(r, max(labels, 1))}}}
		roundtrip("labels", m, fmt.Sprintf("labels%d", min(labels, 3)))
	}
	// packets built (and compressed) by dnsmessage, decoded by the package
	for i := 0; i < env.Pick(600, 12000); i++ {
		idx++
		b, want, kinds := dnsmessageBuild(r)
		got := dnsDecodeText(b)
		ops := []core.Op{{Line: "dns-decode " + core.Hex(b), Kind: 'M', Want: got, Note: "DecodeMessage of a dnsmessage-built, compressed packet"}}
		w := ""
		if got != "ok "+want {
			w = "package decodes the dnsmessage packet as " + got + " ; dnsmessage's own view: " + want
		}
		ops = append(ops, core.Op{Kind: 'X', Note: "the package decodes name compression and MX/SOA/TXT/SRV/A/AAAA/CNAME/NS/PTR/OPT produced by an independent codec to the same values", Want: w})
		emit(core.Case{Name: fmt.Sprintf("dnsmessage-build/%d", idx), Stream: "dnsmessage-build", Ops: ops, Key: "dnsmessage-build/" + kinds, Sig: "dnsmessage-build/" + kinds,
			Sample: map[string]any{"stream": "dnsmessage-build", "kinds": kinds, "len": len(b)}})
		env.Count("dnsmessage-build")
	}
	// TXT character-strings at the boundaries of their one-octet length prefix, every position (fixed table,
	// nothing drawn: a 255-octet string followed by another one is two strings, RFC 1035 3.3.14)
	for _, lens := range [][]int{{0}, {1}, {254}, {255}, {255, 3}, {3, 255}, {255, 0, 11}, {255, 255}, {254, 3}, {0, 255, 0}, {1, 255, 1, 255}, {255, 255, 255}, {63, 64, 65}} {
		idx++
		b, want := dnsmessageTXT(lens)
		got := dnsDecodeText(b)
		ops := []core.Op{{Line: "dns-decode " + core.Hex(b), Kind: 'M', Want: got, Note: "DecodeMessage of a dnsmessage-built TXT record"}}
		w := ""
		if got != "ok "+want {
			w = "package decodes the dnsmessage TXT packet as " + got + " ; dnsmessage's own view: " + want
		}
		ops = append(ops, core.Op{Kind: 'X', Note: "TXT character-strings of 0 / 1 / 254 / 255 octets in every position decode to the strings an independent codec wrote", Want: w})
		emit(core.Case{Name: fmt.Sprintf("txt-boundary/%d", idx), Stream: "txt-boundary", Ops: ops, Key: fmt.Sprintf("txt-boundary/%v", lens), Sig: fmt.Sprintf("txt-boundary/%d", len(lens)),
			Sample: map[string]any{"stream": "txt-boundary", "lens": fmt.Sprint(lens), "len": len(b)}})
		env.Count("txt-boundary")
	}
	// padding
	for nl := 0; nl <= 253; nl++ {
		for rep := 0; rep < env.Pick(1, 4); rep++ {
			idx++
			name := ""
			if nl > 0 {
				name = dnsName(r.IntN, nl)
			}
			if (nl+rep)%4 == 1 && nl < 253 {
				name += "." // the same name written as an absolute one (the root: ".") - one trailing dot is not a label
			}
			m := &dns.Message{ID: uint16(r.IntN(65536)), RD: 1, Question: []dns.Question{{Name: name, Type: 65, Class: 1}}}
			if (nl+rep)%3 == 0 {
				m.QR, m.RA = 1, 1 // a server pads its responses with the same call
			}
			optKind := r.IntN(4)
			switch optKind {
			case 1:
				m.Additional = []dns.RR{{Type: 41, Class: 1232, Data: []dns.Option{}}}
			case 2:
				m.Additional = []dns.RR{{Type: 41, Class: 4096, Data: []dns.Option{{Code: 12, Data: make([]byte, r.IntN(300))}, {Code: 10, Data: gen.RandBytes(r, 8)}}}}
			case 3:
				m.Additional = []dns.RR{randRR(r, 0), {Type: 41, Class: 4096, Data: []dns.Option{{Code: 15, Data: gen.RandBytes(r, r.IntN(40))}}}}
			}
			before := eMsgText(m)
			var after string
			var b []byte
			func() {
				defer func() {
					if rec := recover(); rec != nil {
						after = "panic"
					}
				}()
				m.AddPadding()
				after = "ok " + eMsgText(m)
				b = m.Bytes()
			}()
			ops := []core.Op{{Line: "dns-pad " + before, Kind: 'M', Want: after, Note: "AddPadding"}}
			w := ""
			if after == "panic" {
				w = "AddPadding panicked"
			} else if len(b)%128 != 0 {
				w = fmt.Sprintf("padded length %d is not a multiple of 128", len(b))
			} else if m2, err := dns.DecodeMessage(b); err != nil {
				w = "padded message does not decode"
			} else if len(m2.Question) != 1 || m2.Question[0].Name != strings.TrimSuffix(name, ".") || m2.Question[0].Type != 65 {
				w = fmt.Sprintf("padded message decodes to question %+v", m2.Question)
			}
			ops = append(ops, core.Op{Kind: 'X', Note: "AddPadding: encoded length is a multiple of 128 and the message still decodes to the same question", Want: w})
			emit(core.Case{Name: fmt.Sprintf("padding/%d", idx), Stream: "padding", Ops: ops, Key: fmt.Sprintf("padding/opt%d", optKind), Sig: fmt.Sprintf("padding/opt%d/mod%d", optKind, nl%128/32),
				Sample: map[string]any{"stream": "padding", "name_len": nl, "opt": optKind, "padded_len": len(b)}})
			env.Count("padding")
		}
	}
	// extended rcode
	for rc := 0; rc < 16; rc++ {
		for _, hi := range []uint32{0, 1, 2, 0x7f, 0xff} {
			for _, withOpt := range []bool{true, false} {
				idx++
				m := dns.Message{RCode: uint8(rc)}
				ttlArg := "-"
				if withOpt {
					ttl := hi<<24 | uint32(r.IntN(1<<24))
					m.Additional = []dns.RR{randRR(r, 0), {Type: 41, TTL: ttl, Data: []dns.Option{}}, {Type: 41, TTL: 0xff000000, Data: []dns.Option{}}}
					ttlArg = fmt.Sprint(ttl)
				}
				got := m.ResponseCode()
				want := uint16(rc)
				if withOpt {
					want |= uint16(hi) << 4
				}
				w := ""
				if got != want {
					w = fmt.Sprintf("ResponseCode() = %d, want %d", got, want)
				}
				emit(core.Case{Name: fmt.Sprintf("rcode/%d", idx), Stream: "rcode", Key: "rcode", Sig: fmt.Sprintf("rcode/%v/%d", withOpt, hi),
					Ops: []core.Op{{Line: fmt.Sprintf("dns-rcode %d %s", rc, ttlArg), Kind: 'M', Want: fmt.Sprint(got)},
						{Kind: 'X', Note: "extended RCODE = low 4 bits | OPT TTL bits 24..31 << 4 (RFC 6891)", Want: w}}})
			}
		}
	}
}

func sortStr(s string) string {
	b := []byte(s)
	for i := range b {
		for j := i + 1; j < len(b); j++ {
			if b[j] < b[i] {
				b[i], b[j] = b[j], b[i]
			}
		}
	}
	// dedupe
	var out []byte
	for i, c := range b {
		if i == 0 || c != b[i-1] {
			out = append(out, c)
		}
	}
	return string(out)
}

// dnsEqual compares a message with its decoded form (nil vs empty slices are equal; names are
// compared after trimming the final dot, as the decoder never yields one).
func dnsEqual(a, b *dns.Message) bool {
	if a.ID != b.ID || a.QR != b.QR || a.OpCode != b.OpCode || a.AA != b.AA || a.TC != b.TC || a.RD != b.RD || a.RA != b.RA || a.RCode != b.RCode {
		return false
	}
	if len(a.Question) != len(b.Question) {
		return false
	}
	for i := range a.Question {
		x, y := a.Question[i], b.Question[i]
		if strings.TrimSuffix(x.Name, ".") != y.Name || x.Type != y.Type || x.Class != y.Class {
			return false
		}
	}
	secs := [][2][]dns.RR{{a.Answer, b.Answer}, {a.Authority, b.Authority}, {a.Additional, b.Additional}}
	for _, s := range secs {
		if len(s[0]) != len(s[1]) {
			return false
		}
		for i := range s[0] {
			x, y := s[0][i], s[1][i]
			if x.Name != y.Name || x.Type != y.Type || x.Class != y.Class || x.TTL != y.TTL {
				return false
			}
			if dnsData(x.Data) != dnsData(y.Data) {
				return false
			}
		}
	}
	return true
}

// dnsmessageAgrees parses b with golang.org/x/net/dns/dnsmessage and compares with m.
func dnsmessageAgrees(b []byte, m *dns.Message) (string, bool) {
	var p dnsmessage.Parser
	h, err := p.Start(b)
	if err != nil {
		return "dnsmessage cannot parse the header: " + err.Error(), false
	}
	if h.ID != m.ID || h.Response != (m.QR&1 == 1) || uint8(h.OpCode) != m.OpCode&0xf || h.Authoritative != (m.AA&1 == 1) || h.Truncated != (m.TC&1 == 1) ||
		h.RecursionDesired != (m.RD&1 == 1) || h.RecursionAvailable != (m.RA&1 == 1) || uint8(h.RCode) != m.RCode&0xf {
		return fmt.Sprintf("dnsmessage header %+v differs", h), false
	}
	qs, err := p.AllQuestions()
	if err != nil {
		// dnsmessage enforces RFC limits the package does not (e.g. names > 255 octets are not generated here)
		return "dnsmessage cannot parse the questions: " + err.Error(), false
	}
	if len(qs) != len(m.Question) {
		return "question count differs", false
	}
	norm := func(s string) string {
		s = strings.TrimSuffix(s, ".")
		return s
	}
	for i, q := range qs {
		if norm(q.Name.String()) != norm(m.Question[i].Name) || uint16(q.Type) != m.Question[i].Type || uint16(q.Class) != m.Question[i].Class {
			return fmt.Sprintf("question %d: dnsmessage %v vs %v", i, q, m.Question[i]), false
		}
	}
	check := func(rs []dnsmessage.Resource, want []dns.RR) string {
		if len(rs) != len(want) {
			return "record count differs"
		}
		for i, x := range rs {
			w := want[i]
			if norm(x.Header.Name.String()) != norm(w.Name) || uint16(x.Header.Type) != w.Type || uint16(x.Header.Class) != w.Class || x.Header.TTL != w.TTL {
				return fmt.Sprintf("record %d header: dnsmessage %v", i, x.Header)
			}
			switch body := x.Body.(type) {
			case *dnsmessage.AResource:
				if !bytes.Equal(body.A[:], w.Data.(net.IP)) {
					return "A differs"
				}
			case *dnsmessage.AAAAResource:
				if !bytes.Equal(body.AAAA[:], w.Data.(net.IP)) {
					return "AAAA differs"
				}
			case *dnsmessage.CNAMEResource:
				if norm(body.CNAME.String()) != norm(w.Data.(string)) {
					return "CNAME differs"
				}
			case *dnsmessage.NSResource:
				if norm(body.NS.String()) != norm(w.Data.(string)) {
					return "NS differs"
				}
			case *dnsmessage.PTRResource:
				if norm(body.PTR.String()) != norm(w.Data.(string)) {
					return "PTR differs"
				}
			case *dnsmessage.OPTResource:
				opts := w.Data.([]dns.Option)
				if len(opts) != len(body.Options) {
					return "OPT option count differs"
				}
				for j, o := range body.Options {
					if o.Code != opts[j].Code || !bytes.Equal(o.Data, opts[j].Data) {
						return "OPT option differs"
					}
				}
			}
		}
		return ""
	}
	an, err := p.AllAnswers()
	if err != nil {
		return "dnsmessage cannot parse the answers: " + err.Error(), false
	}
	if w := check(an, m.Answer); w != "" {
		return "answer: " + w, false
	}
	au, err := p.AllAuthorities()
	if err != nil {
		return "dnsmessage cannot parse the authorities: " + err.Error(), false
	}
	if w := check(au, m.Authority); w != "" {
		return "authority: " + w, false
	}
	ad, err := p.AllAdditionals()
	if err != nil {
		return "dnsmessage cannot parse the additionals: " + err.Error(), false
	}
	if w := check(ad, m.Additional); w != "" {
		return "additional: " + w, false
	}
	return "", true
}

// dnsmessageBuild builds a compressed packet with dnsmessage and returns it with the canonical
// text of what dnsmessage itself says it contains.
func dnsmessageBuild(r *rand.Rand) ([]byte, string, string) {
	short := func(k int) string {
		var ls []string
		for i := 0; i < k; i++ {
			ls = append(ls, dnsLabel(r, 1+r.IntN(12)))
		}
		return strings.Join(ls, ".")
	}
	zone := short(1+r.IntN(3)) + "."
	sub := func() dnsmessage.Name {
		n := zone
		if r.IntN(3) != 0 {
			n = short(1+r.IntN(2)) + "." + zone
		}
		return dnsmessage.MustNewName(n)
	}
	buf := make([]byte, 2, 514)
	bld := dnsmessage.NewBuilder(buf, dnsmessage.Header{ID: uint16(r.IntN(65536)), Response: true, RecursionAvailable: r.IntN(2) == 0, RCode: dnsmessage.RCode(r.IntN(6)),
		// a validating resolver's answers carry AD; CD and AA occur too (RFC 4035 assigned two of the old Z bits)
		AuthenticData: r.IntN(2) == 0, CheckingDisabled: r.IntN(4) == 0, Authoritative: r.IntN(4) == 0, RecursionDesired: r.IntN(2) == 0})
	bld.EnableCompression()
	bld.StartQuestions()
	q := dnsmessage.Question{Name: sub(), Type: dnsmessage.TypeA, Class: dnsmessage.ClassINET}
	bld.Question(q)
	bld.StartAnswers()
	kinds := ""
	n := 1 + r.IntN(5)
	for i := 0; i < n; i++ {
		h := dnsmessage.ResourceHeader{Name: sub(), Class: dnsmessage.ClassINET, TTL: r.Uint32()}
		k := r.IntN(9)
		kinds += fmt.Sprint(k)
		switch k {
		case 0:
			var a [4]byte
			copy(a[:], gen.RandBytes(r, 4))
			bld.AResource(h, dnsmessage.AResource{A: a})
		case 1:
			var a [16]byte
			copy(a[:], gen.RandBytes(r, 16))
			bld.AAAAResource(h, dnsmessage.AAAAResource{AAAA: a})
		case 2:
			bld.CNAMEResource(h, dnsmessage.CNAMEResource{CNAME: sub()})
		case 3:
			bld.NSResource(h, dnsmessage.NSResource{NS: sub()})
		case 4:
			bld.PTRResource(h, dnsmessage.PTRResource{PTR: sub()})
		case 5:
			bld.MXResource(h, dnsmessage.MXResource{Pref: uint16(r.IntN(100)), MX: sub()})
		case 6:
			bld.SOAResource(h, dnsmessage.SOAResource{NS: sub(), MBox: sub(), Serial: r.Uint32(), Refresh: r.Uint32(), Retry: r.Uint32(), Expire: r.Uint32(), MinTTL: r.Uint32()})
		case 7:
			var t []string
			for j := 0; j <= r.IntN(3); j++ {
				t = append(t, dnsLabel(r, r.IntN(40)))
			}
			bld.TXTResource(h, dnsmessage.TXTResource{TXT: t})
		case 8:
			bld.SRVResource(h, dnsmessage.SRVResource{Priority: uint16(r.IntN(10)), Weight: uint16(r.IntN(10)), Port: uint16(r.IntN(65536)), Target: sub()})
		}
	}
	b, err := bld.Finish()
	if err != nil {
		panic(err)
	}
	b = b[2:]
	return b, dnsmessageView(b), sortStr(kinds)
}

// dnsmessageTXT builds a response with one TXT record whose character-strings have exactly the
// given lengths (0..255 each): the boundaries of the one-octet length prefix.
func dnsmessageTXT(lens []int) ([]byte, string) {
	buf := make([]byte, 2, 514)
	bld := dnsmessage.NewBuilder(buf, dnsmessage.Header{ID: 77, Response: true})
	bld.EnableCompression()
	bld.StartQuestions()
	n := dnsmessage.MustNewName("txt.example.")
	bld.Question(dnsmessage.Question{Name: n, Type: dnsmessage.TypeTXT, Class: dnsmessage.ClassINET})
	bld.StartAnswers()
	var t []string
	for i, l := range lens {
		t = append(t, strings.Repeat(string(rune('a'+i%26)), l))
	}
	if err := bld.TXTResource(dnsmessage.ResourceHeader{Name: n, Class: dnsmessage.ClassINET, TTL: 60}, dnsmessage.TXTResource{TXT: t}); err != nil {
		panic(err)
	}
	b, err := bld.Finish()
	if err != nil {
		panic(err)
	}
	b = b[2:]
	return b, dnsmessageView(b)
}

// dnsmessageView is dnsmessage's own view of a packet (questions and answers), in our canonical text.
func dnsmessageView(b []byte) string {
	var p dnsmessage.Parser
	h, _ := p.Start(b)
	qs, _ := p.AllQuestions()
	an, _ := p.AllAnswers()
	tn := func(n dnsmessage.Name) string { return hs(strings.TrimSuffix(n.String(), ".")) }
	var qt, at []string
	for _, x := range qs {
		qt = append(qt, fmt.Sprintf("%s,%d,%d", tn(x.Name), x.Type, x.Class))
	}
	for _, x := range an {
		var d string
		switch v := x.Body.(type) {
		case *dnsmessage.AResource:
			d = "ip:" + core.Hex(v.A[:])
		case *dnsmessage.AAAAResource:
			d = "ip:" + core.Hex(v.AAAA[:])
		case *dnsmessage.CNAMEResource:
			d = "name:" + tn(v.CNAME)
		case *dnsmessage.NSResource:
			d = "name:" + tn(v.NS)
		case *dnsmessage.PTRResource:
			d = "name:" + tn(v.PTR)
		case *dnsmessage.MXResource:
			d = fmt.Sprintf("mx:%d:%s", v.Pref, tn(v.MX))
		case *dnsmessage.SOAResource:
			d = fmt.Sprintf("soa:%s:%s:%d:%d:%d:%d:%d", tn(v.NS), tn(v.MBox), v.Serial, v.Refresh, v.Retry, v.Expire, v.MinTTL)
		case *dnsmessage.TXTResource:
			d = "txt:" + hexStrs(v.TXT)
		case *dnsmessage.SRVResource:
			d = fmt.Sprintf("srv:%d:%d:%d:%s", v.Priority, v.Weight, v.Port, tn(v.Target))
		}
		at = append(at, fmt.Sprintf("%s,%d,%d,%d,%s", tn(x.Header.Name), x.Header.Type, x.Header.Class, x.Header.TTL, d))
	}
	bi := func(b bool) int {
		if b {
			return 1
		}
		return 0
	}
	return fmt.Sprintf("%d,%d,%d,%d,%d,%d,%d,%d %s %s _ _", h.ID, bi(h.Response), h.OpCode, bi(h.Authoritative), bi(h.Truncated), bi(h.RecursionDesired), bi(h.RecursionAvailable), h.RCode, semi(qt), semi(at))
}

var _ = reflect.DeepEqual
