package props

import (
	"bytes"
	"fmt"
	"slices"

	"verifharness/connh"
	"verifharness/core"
	"verifharness/gen"
)

func init() {
	register(core.Campaign{
		Property: "C03",
		Rule: "valid (inner, outer, key, suite) tuples sealed with the standard library's crypto/hpke: for k = 0..K opaque outer extensions EVERY order-preserving subsequence (all 2^k reference masks) x EVERY marker position, " +
			"x paddings {0,1,31,32,255,1000} x outer session-id lengths {0,1,32}, plus large extensions up to the record limit; each goes NewConn -> Read and the delivered record, ServerName and ALPNProtos are checked by the Lean specInner. " +
			"distinct = (#outer opaque, #refs, marker position class, padding class, sid length, size class, outcome).",
		Gen: genC03,
	})
}

func sizeClass(n int) string {
	switch {
	case n < 300:
		return "<300"
	case n < 2000:
		return "<2k"
	case n < 8000:
		return "<8k"
	}
	return ">=8k"
}

func genC03(env *core.Env, emit func(core.Case)) {
	r := env.Rng
	paddings := []int{0, 1, 31, 32, 255, 1000}
	sids := []int{0, 1, 32}
	maxK := env.Pick(5, 8)
	idx := 0
	run := func(stream string, o gen.PlanOpts, suite gen.Suite) {
		idx++
		key := gen.NewKey(r, uint8(r.IntN(256)), o.PublicName, gen.AllSuites)
		plan := gen.Plan(r, o)
		pt := plan.Enc.Body()
		sealed := gen.Seal(plan.OuterBase, r.IntN(len(plan.OuterBase.Exts)+1), key, suite, pt, nil, 0x0301)
		s := connh.NewSess(echKeys(key))
		s.Register(sealed.Rec)
		follow := gen.Record(20, 0x0303, []byte{1})
		stream0 := gen.Cat(sealed.Rec, follow)
		var chunks [][]byte
		if r.IntN(3) == 0 {
			chunks = randChunks(r, stream0)
		} else {
			chunks = oneChunk(stream0)
		}
		res := s.New(chunks, "eof")
		want := plan.Expected(sealed.Outer, 0x0303)
		outcome := res.Err
		if res.Err == "-" && res.Accepted {
			outcome = "accepted"
			rd := s.Read(70000)
			s.S(fmt.Sprintf("c03-spec %s %s %s %s %s", core.Hex(pt), core.Hex(sealed.Rec), core.Hex(rd.Data), core.Hex([]byte(res.SNI)), core.StrHexList(res.ALPN)),
				"first record delivered == specInner(decrypted encoding, outer session id, outer extensions); ServerName/ALPNProtos are those of that hello")
			w := ""
			if !bytes.Equal(rd.Data, want) {
				w = "delivered record differs from the generator's expected ClientHelloInner"
			} else if res.SNI != plan.InnerSNI {
				w = fmt.Sprintf("ServerName %q != inner SNI %q", res.SNI, plan.InnerSNI)
			}
			s.X("delivered record == the ClientHelloInner the generator committed to", w)
			rd2 := s.Read(70000)
			if !bytes.Equal(rd2.Data, follow) {
				s.X("bytes following the hello are delivered unchanged", "following record differs")
			}
		} else {
			s.X("a valid ECH tuple sealed to the only key must be accepted", fmt.Sprintf("not accepted: err=%s accepted=%v", res.Err, res.Accepted))
		}
		mpc := "none"
		if plan.MarkerPos == 0 {
			mpc = "first"
		} else if plan.MarkerPos > 0 && plan.MarkerPos >= len(plan.Enc.Exts)-1 {
			mpc = "last"
		} else if plan.MarkerPos > 0 {
			mpc = "mid"
		}
		emit(core.Case{Name: fmt.Sprintf("%s/%d", stream, idx), Stream: stream, Ops: s.Ops,
			Sig: fmt.Sprintf("%s/k%d/r%d/%s/p%d/s%d/%s/%s", stream, o.NOuterOpaque, len(plan.Refs), mpc, o.Padding, o.SIDLen, sizeClass(len(sealed.Rec)), outcome),
			Sample: map[string]any{"stream": stream, "outer_opaque": o.NOuterOpaque, "refs": plan.Refs, "marker_pos": plan.MarkerPos, "padding": o.Padding,
				"sid_len": o.SIDLen, "record_len": len(sealed.Rec), "aead": suite.AEAD, "outcome": outcome}})
		env.Count(stream + "/" + outcome)
	}
	// exhaustive: all masks x all marker positions
	for k := 0; k <= maxK; k++ {
		for mask := uint64(0); mask < 1<<uint(k); mask++ {
			nin := r.IntN(4)
			base := 3 + nin // SNI, ECHInner, versions (+ALPN below)
			alpn := alpnList(r)
			if len(alpn) > 0 {
				base++
			}
			for mp := -1; mp <= base; mp++ {
				if mp == -1 && mask != 0 {
					continue
				}
				o := gen.PlanOpts{NOuterOpaque: k, NInnerOpaque: nin, MaxExtLen: 60, Padding: paddings[r.IntN(len(paddings))], SIDLen: sids[r.IntN(3)],
					RefMask: mask, MarkerPos: mp, InnerName: innerNameOrNone(r), ALPN: alpn, PublicName: "public.example", RefOuterVersions: r.IntN(5) == 0}
				run("subseq", o, gen.AllSuites[r.IntN(3)])
			}
		}
	}
	env.Exhaustive(fmt.Sprintf("every order-preserving subsequence (all 2^k masks) for k=0..%d shareable outer extensions x every marker position", maxK))
	// padding x sid grid
	for _, p := range paddings {
		for _, sl := range sids {
			for rep := 0; rep < env.Pick(2, 20); rep++ {
				o := gen.PlanOpts{NOuterOpaque: 4, NInnerOpaque: 3, MaxExtLen: 40, Padding: p, SIDLen: sl, RefMask: uint64(r.IntN(16)), MarkerPos: r.IntN(6),
					InnerName: hostName(r), ALPN: alpnList(r), PublicName: "public.example"}
				run("padding", o, gen.AllSuites[r.IntN(3)])
			}
		}
	}
	// encoders that leave a legacy_session_id in the EncodedClientHelloInner (tolerated: the outer one is
	// substituted either way), with long inner extensions, under every debugging configuration
	for rep := 0; rep < env.Pick(40, 400); rep++ {
		o := gen.PlanOpts{NOuterOpaque: 1 + r.IntN(4), NInnerOpaque: 2 + r.IntN(4), MaxExtLen: 300, Padding: r.IntN(32), SIDLen: sids[r.IntN(3)],
			RefMask: uint64(r.IntN(16)), MarkerPos: r.IntN(6), InnerName: hostName(r), ALPN: alpnList(r), PublicName: "public.example", InnerSIDLen: []int{1, 8, 32}[r.IntN(3)]}
		run("inner-sid", o, gen.AllSuites[r.IntN(3)])
	}
	// sizes up to the record limit
	for rep := 0; rep < env.Pick(30, 600); rep++ {
		o := gen.PlanOpts{NOuterOpaque: 1 + r.IntN(6), NInnerOpaque: 1 + r.IntN(20), MaxExtLen: []int{200, 1000, 2500}[r.IntN(3)], Padding: r.IntN(64), SIDLen: 32,
			RefMask: r.Uint64(), MarkerPos: r.IntN(20), InnerName: hostName(r), ALPN: alpnList(r), PublicName: pubName(r)}
		// keep the total under the 16 KiB record limit
		if (o.NOuterOpaque+o.NInnerOpaque)*o.MaxExtLen > 14000 {
			o.MaxExtLen = 14000 / (o.NOuterOpaque + o.NInnerOpaque)
		}
		run("large", o, gen.AllSuites[r.IntN(3)])
	}
	// the names do not drift: after a HelloRetryRequest and an accepted second hello the Conn still reports
	// the server name and the ALPN list of ClientHelloInner, in the client's order
	for rep := 0; rep < env.Pick(12, 60); rep++ {
		for _, rc := range retryCases(r) {
			if rc.Kind != "G" {
				continue
			}
			idx++
			s, first, rd := runRetryCase(rc, 70000)
			w := ""
			switch {
			case first.Err != "-" || !first.Accepted:
				w = "first hello of the retry history not accepted: " + first.Err
			case rd.Err != "-":
				w = "well-formed second hello refused: " + rd.Err
			case s.Conn.ServerName() != rc.SNI || !slices.Equal(s.Conn.ALPNProtos(), rc.ALPN):
				w = fmt.Sprintf("after the retry the Conn reports %q %q, ClientHelloInner says %q %q", s.Conn.ServerName(), s.Conn.ALPNProtos(), rc.SNI, rc.ALPN)
			}
			s.X("after a retried hello the Conn reports the names of ClientHelloInner", w)
			emit(core.Case{Name: fmt.Sprintf("retry-names/%d", idx), Stream: "retry-names", Ops: s.Ops, Key: "retry-names",
				Sig: fmt.Sprintf("retry-names/%d/%v", len(rc.ALPN), rc.CCS), Sample: map[string]any{"alpn": rc.ALPN, "ccs": rc.CCS}})
			env.Count("retry-names")
		}
	}
}

// pubName returns a public name of at most 255 bytes.
func pubName(r interface{ IntN(int) int }) string {
	n := []int{3, 9, 20, 63, 100, 251}[r.IntN(6)]
	return dnsName(r.IntN, n) + ".pub"
}
