package props

import (
	"context"
	"crypto/tls"
	"encoding/json"
	"errors"
	"fmt"
	"github.com/c2FmZQ/ech"
	"os"
	"os/exec"
	"path/filepath"
	"runtime"
	"strings"
	"time"

	"verifharness/core"
)

func init() {
	register(core.Campaign{
		Property: "C18",
		Rule: "the real Dialer.Dial is run in testing/synctest bubbles (virtual clock, real goroutines; harness/c18sim) over every target script up to length 3 (4 thinned / in the thorough tier) from an alphabet of " +
			"{connects after 0/50/150/2000 ms, fails after 0/50/150 ms, hangs until cancelled, entry that fails to resolve, target refused by RequireECH}, MaxConcurrency 1..3 (and 0 = default 3), the caller cancelling never / at 0 / 120 / 1500 ms, " +
			"ConcurrencyDelay 100 ms and Timeout 1 s (and 0 = documented defaults 1 s / 30 s), each repeated (2 quick / 5 thorough) to vary the goroutine interleaving at equal virtual instants. " +
			"M: the observed event sequence (cancel, DialFunc start with live/cancelled context, DialFunc return, connection closed, what Dial returned) must be a behaviour of the Lean transition system after which every goroutine can have finished (dial-trace: subset construction + quiescence). " +
			"X: timed monitors on the same events: live attempts start in target order, paced by ConcurrencyDelay or an earlier failure, at most MaxConcurrency in flight, none longer than Timeout, first success returned at the instant it is established, " +
			"every other established connection closed, the returned one not closed, all errors joined when nothing connects, return at the instant of cancellation, no live-context attempt after the return, no goroutine left behind (synctest deadlock detection). " +
			"distinct = (script, workers, observed trace).",
		Gen: genC18,
	})
}

type c18Case struct {
	Name     string   `json:"name"`
	N        int      `json:"n"`
	Workers  int      `json:"workers"`
	CancelMs int      `json:"cancel_ms"`
	Require  bool     `json:"require"`
	Script   []string `json:"script"`
	Trace    []string `json:"trace"`
	Monitor  string   `json:"monitor"`
	Leak     bool     `json:"leak"`
}

func c18Root() string {
	if r := os.Getenv("VERIF_ROOT"); r != "" {
		return r
	}
	if exe, err := os.Executable(); err == nil {
		if r := filepath.Dir(filepath.Dir(exe)); fileExists(filepath.Join(r, "harness", "c18sim")) {
			return r
		}
	}
	wd, _ := os.Getwd()
	return wd
}

func fileExists(p string) bool { _, err := os.Stat(p); return err == nil }

// c18EarlyExits calls Dial in ways that make it give up before any attempt (a PublicName no ECH config can
// carry) and looks for goroutines of Dial that are still around afterwards.
func c18EarlyExits(emit func(core.Case)) {
	dialGoroutines := func() int {
		buf := make([]byte, 1<<20)
		n := runtime.Stack(buf, true)
		cnt := 0
		for _, g := range strings.Split(string(buf[:n]), "\n\n") {
			if strings.Contains(g, "ech.(*Dialer[") {
				cnt++
			}
		}
		return cnt
	}
	for _, kind := range []string{"public-name-too-long", "public-name-ok", "no-target-of-that-family"} {
		d := &ech.Dialer[*fakeTLS]{MaxConcurrency: 2, ConcurrencyDelay: time.Millisecond, Timeout: time.Second}
		d.DialFunc = func(ctx context.Context, network, a string, tc *tls.Config) (*fakeTLS, error) {
			return nil, errors.New("scripted dial error")
		}
		addr := "10.1.2.3:443,10.1.2.4:443,10.1.2.5:443"
		switch kind {
		case "public-name-too-long":
			d.PublicName = strings.Repeat("a", 300)
		case "public-name-ok":
			d.PublicName = "public.example"
		}
		network := "tcp"
		if kind == "no-target-of-that-family" {
			network = "tcp6" // IPv4 literals only: the outcome is "no address", an error
		}
		before := dialGoroutines()
		errs := 0
		for i := 0; i < 10; i++ {
			if _, err := d.Dial(context.Background(), network, addr, nil); err != nil {
				errs++
			}
		}
		time.Sleep(30 * time.Millisecond)
		after := dialGoroutines()
		w := ""
		if after > before {
			w = fmt.Sprintf("%d calls of Dial (%s) have returned (%d with an error), %d goroutines of Dial are still there", 10, kind, errs, after-before)
		}
		if errs != 10 && w == "" {
			w = fmt.Sprintf("Dial (%s) cannot have produced a connection, but %d of 10 calls returned without an error", kind, 10-errs)
		}
		emit(core.Case{Name: "early-exit/" + kind, Stream: "early-exit", Key: "early-exit/" + kind, Sig: "early-exit/" + kind,
			Ops:    []core.Op{{Kind: 'X', Note: "no goroutine of Dial outlives the call, whichever way the call ends", Want: w}},
			Sample: map[string]any{"kind": kind, "errors": errs}})
	}
}

func genC18(env *core.Env, emit func(core.Case)) {
	c18EarlyExits(emit)
	root := c18Root()
	out := filepath.Join(root, ".build", fmt.Sprintf("c18traces-%d.json", os.Getpid()))
	os.MkdirAll(filepath.Dir(out), 0o755)
	defer os.Remove(out)
	cmd := exec.Command("go1.26.8", "test", "-tags", "verif", "-count=1", "-run", "TestTraces", "./c18sim")
	cmd.Dir = filepath.Join(root, "harness")
	cmd.Env = append(os.Environ(), "C18_OUT="+out, "C18_TIER="+env.Tier, fmt.Sprintf("C18_SEED=%d", env.Seed%1000),
		"GOFLAGS=-mod=mod", "GOPROXY=off", "GOSUMDB=off", "GOTOOLCHAIN=local")
	log, err := cmd.CombinedOutput()
	var cases []c18Case
	if err == nil {
		var b []byte
		if b, err = os.ReadFile(out); err == nil {
			err = json.Unmarshal(b, &cases)
		}
	}
	if err != nil || len(cases) == 0 {
		tail := string(log)
		if len(tail) > 1500 {
			tail = tail[len(tail)-1500:]
		}
		emit(core.Case{Name: "c18sim", Stream: "simulator", Key: "simulator-did-not-run",
			// not a failing input: the tie itself is broken (reported as a correspondence break)
			Ops: []core.Op{{Kind: 'M', Line: "reset", Note: "the synctest simulation of Dialer.Dial builds and runs", Want: fmt.Sprintf("go test ./c18sim failed: %v: %s", err, strings.Join(strings.Fields(tail), " "))}}})
		return
	}
	seen := map[string]bool{}
	for _, c := range cases {
		var sc []string
		for _, s := range c.Script {
			switch {
			case strings.HasPrefix(s, "ok"), strings.HasPrefix(s, "sok"):
				sc = append(sc, "ok")
			case s == "rerr", s == "refuse":
				sc = append(sc, s)
			default:
				sc = append(sc, "fail")
			}
		}
		var tr []string
		for _, t := range c.Trace {
			if strings.HasPrefix(t, "ret-errs") {
				t = strings.ReplaceAll(t, ",", "/")
			}
			tr = append(tr, t)
		}
		trace := strings.Join(tr, ",")
		if trace == "" {
			trace = "-"
		}
		w := c.Workers
		if w <= 0 {
			w = 3
		}
		fam := strings.SplitN(c.Name, "/", 2)[0]
		line := fmt.Sprintf("dial-trace %d %s %s", w, strings.Join(sc, ","), trace)
		mon := c.Monitor
		if mon == "" && c.Leak {
			mon = "goroutines left behind"
		}
		env.Count("family/" + fam)
		env.Count(fmt.Sprintf("workers/%d", c.Workers))
		env.Count(fmt.Sprintf("cancel/%d", c.CancelMs))
		if len(c.Trace) > 0 {
			last := c.Trace[len(c.Trace)-1]
			for _, t := range c.Trace {
				if strings.HasPrefix(t, "ret-") {
					last = t
				}
			}
			env.Count("returned/" + strings.SplitN(last, ":", 2)[0])
		}
		for _, t := range c.Trace {
			if strings.HasPrefix(t, "close:") {
				env.Count("event/surplus-connection-closed")
			}
			if strings.HasPrefix(t, "start:") && strings.HasSuffix(t, ":1") {
				env.Count("event/attempt-started-with-cancelled-context")
			}
		}
		key := line + "|" + mon
		if seen[key] {
			env.Count("repeat-of-an-identical-trace")
			continue
		}
		seen[key] = true
		name := strings.SplitN(c.Name, "#", 2)[0]
		emit(core.Case{
			Name: c.Name, Stream: fam, Key: name, Sig: line,
			Ops: []core.Op{
				{Line: line, Kind: 'M', Want: "accept", Note: "the observed event trace is a behaviour of the Dial transition system and leaves nothing running"},
				{Kind: 'X', Want: mon, Note: "timed C18 monitors (order, pacing, concurrency, timeout, first success, surplus connections closed, joined errors, prompt cancellation, no goroutine left)"},
			},
			Sample: map[string]any{"script": c.Script, "workers": c.Workers, "cancel_ms": c.CancelMs, "trace": c.Trace},
		})
	}
	env.Note(fmt.Sprintf("%d simulated runs, %d distinct (script, workers, trace)", len(cases), len(seen)))
}
