package props

import (
	"fmt"
	"math/rand/v2"
	"slices"

	"github.com/c2FmZQ/ech"

	"verifharness/gen"
)

func echKeys(ks ...*gen.KeyMat) []ech.Key {
	var out []ech.Key
	for _, k := range ks {
		// the retry-config flag says which configs a rejecting server advertises; it has no bearing on
		// which keys open a hello, and deployments mix flagged (current) and unflagged (retired) keys
		out = append(out, ech.Key{Config: k.Config, PrivateKey: k.PrivBytes, SendAsRetry: k.PrivBytes[0]&1 == 0})
	}
	return out
}

// chunkings of a byte stream
func oneChunk(b []byte) [][]byte {
	if len(b) == 0 {
		return nil
	}
	return [][]byte{b}
}

func randChunks(r *rand.Rand, b []byte) [][]byte {
	var out [][]byte
	for len(b) > 0 {
		var n int
		switch r.IntN(6) {
		case 0:
			n = 1
		case 1:
			n = 1 + r.IntN(5)
		case 2:
			n = 5
		case 3:
			n = 1 + r.IntN(64)
		default:
			n = 1 + r.IntN(len(b))
		}
		n = min(n, len(b))
		out = append(out, b[:n])
		b = b[n:]
	}
	return out
}

func fixedChunks(b []byte, n int) [][]byte {
	var out [][]byte
	for len(b) > 0 {
		k := min(n, len(b))
		out = append(out, b[:k])
		b = b[k:]
	}
	return out
}

func hostName(r *rand.Rand) string {
	n := []int{1, 3, 9, 20, 63, 100, 253}[r.IntN(7)]
	if n < 3 {
		return string(rune('a' + r.IntN(26)))
	}
	name := dnsName(r.IntN, n)
	if r.IntN(3) == 0 {
		// host names are case-insensitive but travel as written: WWW.Example.COM is a legal SNI
		b := []byte(name)
		for i := range b {
			if b[i] >= 'a' && b[i] <= 'z' && r.IntN(3) == 0 {
				b[i] -= 32
			}
		}
		name = string(b)
	}
	return name
}

func alpnList(r *rand.Rand) []string {
	switch r.IntN(5) {
	case 0:
		return nil
	case 1:
		return []string{"h2"}
	case 2:
		return []string{"h2", "http/1.1"}
	case 3:
		return []string{"h3", "h2", "http/1.1", "acme-tls/1"}
	}
	var l []string
	for i := 0; i <= r.IntN(6); i++ {
		l = append(l, fmt.Sprintf("p%d-%x", i, gen.RandBytes(r, r.IntN(8))))
	}
	if n := len(l); n%2 == 0 {
		// a GREASE protocol id (RFC 8701) somewhere in the list: an entry like any other
		l = slices.Insert(l, n/2, string([]byte{byte(n)<<4 | 0x0a, byte(n)<<4 | 0x0a}))
	}
	return l
}

// innerNameOrNone: an inner hello usually names a server, but need not (the extension is optional).
func innerNameOrNone(r *rand.Rand) string {
	if r.IntN(6) == 0 {
		return ""
	}
	return hostName(r)
}
