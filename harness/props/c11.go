package props

import (
	"bytes"
	"crypto/ecdh"
	"crypto/rand"
	"fmt"
	"slices"
	"strings"

	"github.com/c2FmZQ/ech"

	"verifharness/core"
)

func init() {
	register(core.Campaign{
		Property: "C11",
		Rule: "streams: bytes (ConfigSpec.Bytes + Config.Spec on generated specs: every id 0..255, every name length 0..300, key lengths, suite lists), " +
			"list (ConfigList/ParseConfigList of 0..8 configs), arbitrary (random bytes, byte mutations and EVERY truncation of valid encodings through Config.Spec and ParseConfigList, panics recovered), " +
			"interop (crypto/tls client and server handshake with the generated config). A case is non-trivial/distinct by its signature: stream + outcome class + (name length bucket, #suites, key length bucket, list size, truncation region).",
		Gen: genC11,
	})
}

func suitesStr(cs []ech.CipherSuite) string {
	var l []int
	for _, c := range cs {
		l = append(l, int(c.KDF), int(c.AEAD))
	}
	return core.NatList(l)
}

func specStr(s ech.ConfigSpec) string {
	return fmt.Sprintf("%d %d %d %s %s %d %s", s.Version, s.ID, s.KEM, core.Hex(s.PublicKey), suitesStr(s.CipherSuites), s.MaximumNameLength, core.Hex(s.PublicName))
}

func implSpec(b []byte) (out string) {
	defer func() {
		if r := recover(); r != nil {
			out = "panic"
		}
	}()
	out, _ = parseTwice(b)
	return out
}

// parseTwice parses b the way callers do: from a buffer of their own, which they go on to reuse, into
// a spec of their own, which they go on to edit - and then parses the same bytes once more. Both
// parses must tell the same story.
func parseTwice(b []byte) (out string, unstable string) {
	buf := bytes.Clone(b)
	s, err := ech.Config(buf).Spec()
	if err != nil {
		return "err", ""
	}
	first := specStr(s)
	for i := range buf {
		buf[i] = 'X'
	}
	for i := range s.PublicKey {
		s.PublicKey[i] = 0xde
	}
	for i := range s.PublicName {
		s.PublicName[i] = 'X'
	}
	for i := range s.CipherSuites {
		s.CipherSuites[i].KDF, s.CipherSuites[i].AEAD = 0xdead, 0xbeef
	}
	s2, err2 := ech.Config(bytes.Clone(b)).Spec()
	switch {
	case err2 != nil:
		unstable = "second parse of the same bytes failed: " + err2.Error()
	case specStr(s2) != first:
		unstable = "second parse of the same bytes gives " + specStr(s2) + ", the first gave " + first
	}
	if unstable != "" {
		return "ok " + first + " (unstable)", unstable
	}
	return "ok " + first, ""
}

func implParseList(b []byte) (out string) {
	defer func() {
		if r := recover(); r != nil {
			out = "panic"
		}
	}()
	l, err := ech.ParseConfigList(b)
	if err != nil {
		return "err"
	}
	var s []string
	for _, c := range l {
		s = append(s, specStr(c))
	}
	return "ok " + strings.Join(s, ";")
}

func bucket(n int) string {
	switch {
	case n == 0:
		return "0"
	case n == 1:
		return "1"
	case n < 32:
		return "<32"
	case n < 240:
		return "<240"
	case n < 256:
		return "<256"
	case n < 65536:
		return "<64k"
	}
	return ">=64k"
}

func genC11(env *core.Env, emit func(core.Case)) {
	rng := env.Rng
	randBytes := func(n int) []byte {
		b := make([]byte, n)
		for i := range b {
			b[i] = byte(rng.IntN(256))
		}
		return b
	}
	mkSpec := func(id, nameLen int) ech.ConfigSpec {
		pkLens := []int{0, 1, 32, 32, 32, 65, 133, 1000}
		ns := rng.IntN(6)
		var cs []ech.CipherSuite
		for i := 0; i < ns; i++ {
			cs = append(cs, ech.CipherSuite{KDF: uint16(rng.IntN(4)), AEAD: uint16(rng.IntN(65536))})
		}
		ver := uint16(0xfe0d)
		if rng.IntN(20) == 0 {
			ver = uint16(rng.IntN(65536))
		}
		kem := uint16(0x20)
		if rng.IntN(4) == 0 {
			kem = uint16(rng.IntN(65536))
		}
		return ech.ConfigSpec{Version: ver, ID: uint8(id), KEM: kem, PublicKey: randBytes(pkLens[rng.IntN(len(pkLens))]),
			CipherSuites: cs, MaximumNameLength: uint8(rng.IntN(256)), PublicName: randBytes(nameLen)}
	}
	var valid [][]byte
	doSpec := func(name string, s ech.ConfigSpec) {
		enc, err := s.Bytes()
		var ops []core.Op
		line := fmt.Sprintf("cfg-bytes %d %d %d %s %s %s", s.Version, s.ID, s.KEM, core.Hex(s.PublicKey), suitesStr(s.CipherSuites), core.Hex(s.PublicName))
		cls := "ok"
		if err != nil {
			cls = "err"
			ops = append(ops, core.Op{Line: line, Kind: 'M', Want: "err", Note: "ConfigSpec.Bytes error"})
			nl := len(s.PublicName)
			if nl >= 1 && nl <= 255 && 11+len(s.PublicKey)+4*len(s.CipherSuites)+nl < 65536 {
				ops = append(ops, core.Op{Kind: 'X', Note: "Bytes must succeed for a name of 1..255 bytes", Want: "Bytes returned error: " + err.Error()})
			}
		} else {
			ops = append(ops, core.Op{Line: line, Kind: 'M', Want: "ok " + core.Hex(enc), Note: "ConfigSpec.Bytes"})
			ops = append(ops, core.Op{Line: "cfg-spec " + core.Hex(enc), Kind: 'M', Want: implSpec(enc), Note: "Config.Spec of the encoding"})
			// property on the implementation: round trip
			want := s
			want.MaximumNameLength = uint8(min(len(s.PublicName)+16, 255))
			got, perr := ech.Config(enc).Spec()
			w := ""
			if perr != nil {
				w = "parse of own encoding failed: " + perr.Error()
			} else if s.Version == 0xfe0d && (got.ID != want.ID || got.KEM != want.KEM || !bytes.Equal(got.PublicKey, want.PublicKey) || !bytes.Equal(got.PublicName, want.PublicName) ||
				got.MaximumNameLength != want.MaximumNameLength || suitesStr(got.CipherSuites) != suitesStr(want.CipherSuites) || got.Version != want.Version) {
				w = "round trip differs: " + specStr(got) + " vs " + specStr(want)
			}
			if s.Version == 0xfe0d || perr == nil {
				ops = append(ops, core.Op{Kind: 'X', Note: "parse(Bytes(spec)) == spec with derived maximum_name_length", Want: w})
			}
			if s.Version == 0xfe0d && len(s.PublicKey) >= 1 && len(s.CipherSuites) >= 1 {
				ops = append(ops, core.Op{Line: "cfg-wf " + core.Hex(enc), Kind: 'S', Note: "draft section 4 grammar accepts the encoding"})
				valid = append(valid, enc)
			}
			if perr == nil {
				_, unstable := parseTwice(enc)
				ops = append(ops, core.Op{Kind: 'X', Note: "Spec() of the same bytes is the same, whatever earlier callers did with their buffer and their spec", Want: unstable})
			}
			// a parsed spec used as a template (key rotation): edit the fields, encode again - the encoding
			// is a function of the fields as they are now, not of where the spec came from
			if perr == nil && s.Version == 0xfe0d && rng.IntN(4) == 0 {
				edited := got
				edited.ID = got.ID + uint8(1+rng.IntN(200))
				edited.PublicKey = randBytes(32)
				edited.PublicName = append([]byte("r."), got.PublicName...)
				if len(edited.PublicName) > 255 {
					edited.PublicName = edited.PublicName[:255]
				}
				enc2, err2 := edited.Bytes()
				line2 := fmt.Sprintf("cfg-bytes %d %d %d %s %s %s", edited.Version, edited.ID, edited.KEM, core.Hex(edited.PublicKey), suitesStr(edited.CipherSuites), core.Hex(edited.PublicName))
				if err2 != nil {
					ops = append(ops, core.Op{Line: line2, Kind: 'M', Want: "err", Note: "Bytes of an edited parsed spec"})
				} else {
					ops = append(ops, core.Op{Line: line2, Kind: 'M', Want: "ok " + core.Hex(enc2), Note: "Bytes of an edited parsed spec"})
					w2 := ""
					if back, e3 := ech.Config(enc2).Spec(); e3 != nil {
						w2 = "the encoding of an edited parsed spec does not parse: " + e3.Error()
					} else if back.ID != edited.ID || !bytes.Equal(back.PublicKey, edited.PublicKey) || !bytes.Equal(back.PublicName, edited.PublicName) {
						w2 = fmt.Sprintf("a parsed spec was edited (id %d, new key, name %q) but Bytes() still encodes id %d, name %q", edited.ID, edited.PublicName, back.ID, back.PublicName)
					}
					ops = append(ops, core.Op{Kind: 'X', Note: "Bytes() encodes the current field values of a spec obtained from Spec()", Want: w2})
				}
			}
		}
		emit(core.Case{Name: name, Stream: "bytes", Ops: ops,
			Sig:    fmt.Sprintf("bytes/%s/n%s/s%d/k%s/v%v", cls, bucket(len(s.PublicName)), len(s.CipherSuites), bucket(len(s.PublicKey)), s.Version == 0xfe0d),
			Sample: map[string]any{"stream": "bytes", "spec": specStr(s), "outcome": cls}})
		env.Count("bytes/" + cls)
	}
	// every id (with random name length), every name length 0..300 (random id)
	for id := 0; id < 256; id++ {
		doSpec(fmt.Sprintf("bytes/id%d", id), mkSpec(id, 1+rng.IntN(255)))
	}
	for nl := 0; nl <= 300; nl++ {
		doSpec(fmt.Sprintf("bytes/name%d", nl), mkSpec(rng.IntN(256), nl))
	}
	if env.Thorough() {
		for id := 0; id < 256; id++ {
			for nl := 1; nl <= 255; nl += 1 + rng.IntN(3) {
				doSpec(fmt.Sprintf("bytes/id%d-name%d", id, nl), mkSpec(id, nl))
			}
		}
		env.Exhaustive("config ids 0..255 x public-name lengths (every id with >= 85 lengths), all name lengths 0..300")
	} else {
		env.Exhaustive("all config ids 0..255 and all public-name lengths 0..300 (each with random other fields)")
	}
	// huge key: builder overflow
	{
		s := mkSpec(1, 10)
		s.PublicKey = randBytes(65536)
		doSpec("bytes/pk65536", s)
		s.PublicKey = randBytes(65535)
		doSpec("bytes/pk65535", s)
	}

	// lists
	nlists := env.Pick(300, 5000)
	for i := 0; i < nlists; i++ {
		n := rng.IntN(9)
		// lists around the 16-bit length limit (65535 bytes of configs fit, 65536 and more do not), and lists
		// whose length prefix happens to read like something else: 0xfe0d (the ECHConfig version), 0x0020
		// (the KEM id), 0xfe0d-4 (a config's own length field when the list holds just that config)
		big := i < 10
		var cfgs []ech.Config
		var raw [][]byte
		for j := 0; j < n && !big; j++ {
			c := valid[rng.IntN(len(valid))]
			cfgs = append(cfgs, c)
			raw = append(raw, c)
		}
		if big {
			target := []int{65535, 65536, 65537, 65800, 2 * 65536, 3*65536 + 11264, 0xfe0d, 0xfe0d - 4, 0xfe0d + 4, 0x0100 + 0x0d}[i]
			total := 0
			for total < target {
				room := target - total
				size := 251 // bytes of this config: 51 + name length
				if room <= 600 {
					size = room
					if room > 306 {
						size = room / 2
					}
				}
				sp := ech.ConfigSpec{Version: 0xfe0d, ID: uint8(rng.IntN(256)), KEM: 0x20, PublicKey: randBytes(32),
					CipherSuites: []ech.CipherSuite{{KDF: 1, AEAD: 1}}, PublicName: []byte(strings.Repeat("a", size-51))}
				c, berr := sp.Bytes()
				if berr != nil || len(c) != size {
					panic(fmt.Sprintf("harness: config size %d, want %d (%v)", len(c), size, berr))
				}
				cfgs = append(cfgs, c)
				raw = append(raw, c)
				total += len(c)
			}
			n = len(cfgs)
			env.Count(fmt.Sprintf("list/total-bytes/%d", total))
		}
		l, err := ech.ConfigList(cfgs)
		var ops []core.Op
		cls := "ok"
		if err != nil {
			cls = "err"
			ops = append(ops, core.Op{Line: "cfglist " + core.HexList(raw), Kind: 'M', Want: "err"})
		} else {
			ops = append(ops, core.Op{Line: "cfglist " + core.HexList(raw), Kind: 'M', Want: "ok " + core.Hex(l), Note: "ConfigList"})
			ops = append(ops, core.Op{Line: "cfglist-parse " + core.Hex(l), Kind: 'M', Want: implParseList(l), Note: "ParseConfigList"})
			ops = append(ops, core.Op{Line: "cfglist-wf " + core.Hex(l), Kind: 'S', Note: "draft section 4 ECHConfigList grammar accepts the list"})
			// round trip on the implementation
			got, perr := ech.ParseConfigList(l)
			w := ""
			if perr != nil || len(got) != n {
				w = fmt.Sprintf("ParseConfigList(ConfigList) failed or wrong size: %v %d", perr, len(got))
			} else {
				for j := range got {
					if implSpec(raw[j]) != "ok "+specStr(got[j]) {
						w = fmt.Sprintf("list element %d differs", j)
					}
				}
			}
			ops = append(ops, core.Op{Kind: 'X', Note: "ParseConfigList(ConfigList(cs)) == map Spec cs", Want: w})
		}
		emit(core.Case{Name: fmt.Sprintf("list/%d", i), Stream: "list", Ops: ops, Sig: fmt.Sprintf("list/%s/%d", cls, n),
			Sample: map[string]any{"stream": "list", "size": n, "outcome": cls}})
		env.Count("list/" + cls)
	}

	// arbitrary bytes, mutations and every truncation
	ntr := env.Pick(6, 60)
	for i := 0; i < ntr; i++ {
		enc := valid[rng.IntN(len(valid))]
		for cut := 0; cut < len(enc); cut++ {
			p := enc[:cut]
			got := implSpec(p)
			ops := []core.Op{{Line: "cfg-spec " + core.Hex(p), Kind: 'M', Want: got, Note: "Config.Spec of a strict prefix"}}
			w := ""
			if got != "err" {
				w = "truncated config accepted or panicked: " + got
			}
			ops = append(ops, core.Op{Kind: 'X', Note: "every strict prefix of a valid config is rejected", Want: w})
			region := "body"
			if cut < 4 {
				region = "header"
			}
			emit(core.Case{Name: fmt.Sprintf("trunc/%d/%d", i, cut), Stream: "truncation", Ops: ops, Sig: "trunc/" + region + "/" + got[:min(3, len(got))],
				Sample: map[string]any{"stream": "truncation", "cut": cut, "of": len(enc)}})
		}
		l, _ := ech.ConfigList([]ech.Config{enc, valid[rng.IntN(len(valid))]})
		for cut := 0; cut < len(l); cut++ {
			p := l[:cut]
			got := implParseList(p)
			ops := []core.Op{{Line: "cfglist-parse " + core.Hex(p), Kind: 'M', Want: got, Note: "ParseConfigList of a strict prefix"}}
			w := ""
			if got != "err" {
				w = "truncated list accepted or panicked: " + got
			}
			ops = append(ops, core.Op{Kind: 'X', Note: "every strict prefix of a valid list is rejected", Want: w})
			emit(core.Case{Name: fmt.Sprintf("trunclist/%d/%d", i, cut), Stream: "truncation", Ops: ops, Sig: "trunclist/" + got[:min(3, len(got))]})
		}
		// trailing junk: no over-read
		junk := randBytes(1 + rng.IntN(20))
		withJunk := append(append([]byte{}, enc...), junk...)
		emit(core.Case{Name: fmt.Sprintf("junk/%d", i), Stream: "arbitrary", Sig: "junk",
			Ops: []core.Op{{Line: "cfg-spec " + core.Hex(withJunk), Kind: 'M', Want: implSpec(withJunk)},
				{Kind: 'X', Note: "bytes after the declared length do not change the parse", Want: func() string {
					if implSpec(withJunk) != implSpec(enc) {
						return "parse changed by trailing junk"
					}
					return ""
				}()}}})
	}
	// a list followed by further bytes - a few, 65535, exactly 65536 (the declared length read modulo
	// 2^16 would match again), 2 * 65536 of well-formed configs: nothing beyond the declared length is
	// ever read as part of the list
	for i := 0; i < 6 && len(valid) > 0; i++ {
		var cfgs []ech.Config
		for j := 0; j < i%3; j++ {
			cfgs = append(cfgs, valid[rng.IntN(len(valid))])
		}
		l, err := ech.ConfigList(cfgs)
		if err != nil {
			continue
		}
		var filler []byte
		for len(filler) < 3*65536 {
			filler = append(filler, valid[rng.IntN(len(valid))]...)
		}
		for _, extra := range []int{1, 65535, 65536, 2 * 65536, 65536 + 70} {
			// make the last filler config end exactly at `extra` where possible: pad with a final config of the right size
			tail := slices.Clone(filler[:extra])
			if extra%65536 == 0 {
				// whole configs of 256 bytes each, so that the extra bytes are themselves a well-formed run
				tail = tail[:0]
				for len(tail) < extra {
					sp := ech.ConfigSpec{Version: 0xfe0d, ID: uint8(rng.IntN(256)), KEM: 0x20, PublicKey: randBytes(32),
						CipherSuites: []ech.CipherSuite{{KDF: 1, AEAD: 1}}, PublicName: []byte(strings.Repeat("b", 256-51))}
					c, berr := sp.Bytes()
					if berr != nil || len(c) != 256 {
						panic(fmt.Sprintf("harness: config size %d, want 256 (%v)", len(c), berr))
					}
					tail = append(tail, c...)
				}
			}
			in := append(slices.Clone(l), tail...)
			got := implParseList(in)
			want := implParseList(l)
			w := ""
			if got != "err" && got != want {
				w = fmt.Sprintf("a list declaring %d bytes followed by %d more bytes parses to %d characters of specs, the list alone to %d: bytes beyond the declared length were read", len(l)-2, extra, len(got), len(want))
			}
			emit(core.Case{Name: fmt.Sprintf("listjunk/%d/%d", i, extra), Stream: "arbitrary", Sig: fmt.Sprintf("listjunk/%d", extra),
				Ops: []core.Op{{Line: "cfglist-parse " + core.Hex(in[:min(len(in), 400)]), Kind: 'M', Want: implParseList(in[:min(len(in), 400)])},
					{Kind: 'X', Note: "ParseConfigList never reads past the declared list length", Want: w}}})
		}
	}
	nmut := env.Pick(3000, 100000)
	for i := 0; i < nmut; i++ {
		var b []byte
		kind := "random"
		if rng.IntN(4) == 0 {
			b = randBytes(rng.IntN(80))
			if len(b) >= 2 && rng.IntN(2) == 0 {
				b[0], b[1] = 0xfe, 0x0d
			}
		} else {
			kind = "mutated"
			b = append([]byte{}, valid[rng.IntN(len(valid))]...)
			for k := 0; k <= rng.IntN(3); k++ {
				switch rng.IntN(3) {
				case 0:
					b[rng.IntN(len(b))] = byte(rng.IntN(256))
				case 1:
					p := rng.IntN(len(b))
					b = append(b[:p], b[p+1:]...)
				case 2:
					p := rng.IntN(len(b))
					b = append(b[:p], append([]byte{byte(rng.IntN(256))}, b[p:]...)...)
				}
				if len(b) == 0 {
					b = []byte{0}
				}
			}
		}
		got := implSpec(b)
		ops := []core.Op{{Line: "cfg-spec " + core.Hex(b), Kind: 'M', Want: got}}
		if got == "panic" {
			ops = append(ops, core.Op{Kind: 'X', Note: "parsing arbitrary bytes never panics", Want: "Config.Spec panicked"})
		}
		wrapped := append([]byte{byte(len(b) >> 8), byte(len(b))}, b...)
		gotl := implParseList(wrapped)
		ops = append(ops, core.Op{Line: "cfglist-parse " + core.Hex(wrapped), Kind: 'M', Want: gotl})
		if gotl == "panic" {
			ops = append(ops, core.Op{Kind: 'X', Note: "parsing arbitrary bytes never panics", Want: "ParseConfigList panicked"})
		}
		emit(core.Case{Name: fmt.Sprintf("arb/%d", i), Stream: "arbitrary", Ops: ops, Sig: "arb/" + kind + "/" + got[:min(3, len(got))] + "/" + gotl[:min(3, len(gotl))],
			Sample: map[string]any{"stream": "arbitrary", "kind": kind, "bytes": core.Hex(b), "outcome": got[:min(3, len(got))]}})
		env.Count("arbitrary/" + got[:min(3, len(got))])
	}

	// interop with crypto/tls (client and server side)
	nint := env.Pick(12, 120)
	for i := 0; i < nint; i++ {
		id := rng.IntN(256)
		nameLen := []int{3, 4, 63, 100, 200, 253}[rng.IntN(6)]
		name := dnsName(rng.IntN, nameLen)
		priv, _ := ecdh.X25519().GenerateKey(rand.Reader)
		suites := []ech.CipherSuite{{KDF: 1, AEAD: uint16(1 + rng.IntN(3))}}
		spec := ech.ConfigSpec{Version: 0xfe0d, ID: uint8(id), KEM: 0x20, PublicKey: priv.PublicKey().Bytes(), CipherSuites: suites, PublicName: []byte(name)}
		w := tlsInterop(spec, priv)
		emit(core.Case{Name: fmt.Sprintf("interop/%d", i), Stream: "interop", Sig: fmt.Sprintf("interop/%d/%d", nameLen, suites[0].AEAD),
			Ops:    []core.Op{{Kind: 'X', Note: "crypto/tls client and server accept the config (full ECH handshake)", Want: w}},
			Sample: map[string]any{"stream": "interop", "id": id, "public_name_len": nameLen, "aead": suites[0].AEAD}})
		env.Count("interop")
	}
}

// dnsName builds a valid DNS host name of exactly n bytes (labels <= 63).
func dnsName(intn func(int) int, n int) string {
	var sb strings.Builder
	lab := 0
	for sb.Len() < n {
		rem := n - sb.Len()
		if lab == 63 || (lab > 0 && rem > 1 && intn(12) == 0) {
			sb.WriteByte('.')
			lab = 0
			continue
		}
		sb.WriteByte(byte('a' + intn(26)))
		lab++
	}
	s := []byte(sb.String())
	if s[len(s)-1] == '.' {
		s[len(s)-1] = 'a'
	}
	// crypto/tls only accepts public names with at least two labels
	if n >= 3 && !strings.Contains(string(s), ".") {
		s[1+intn(n-2)] = '.'
	}
	return string(s)
}
