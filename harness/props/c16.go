package props

import (
	"context"
	"fmt"
	"sort"
	"strings"
	"sync"
	"time"

	"github.com/c2FmZQ/ech"

	"verifharness/core"
	"verifharness/zoneh"
)

func init() {
	register(core.Campaign{
		Property: "C16",
		Rule: "one caching Resolver driven through an injected clock (VerifSetClock) against a local DoH server that logs upstream queries with their time: EXHAUSTIVE histories up to length L (quick 3, thorough 4) plus random longer ones over " +
			"{resolve a, resolve b, resolve c, advance 3s, advance 8s, advance 301s, toggle zone data, toggle upstream failure} where a has A TTLs [0,50], b TTL [5], c answers a CNAME (TTL 10) but no record of the asked type, and HTTPS TTLs 7/0; " +
			"every Resolve compared with the Lean cache model (result, error, upstream queries with times) and with a Go freshness monitor: a lookup answered without an upstream query must be younger than the smallest TTL of the response it came from, " +
			"failures are never cached, expired entries are re-fetched, unexpired ones are not. A second stream runs 2..16 goroutines doing Resolve/Targets on one Resolver (race detector in the thorough tier). distinct = history.",
		Gen: genC16,
	})
	register(core.Campaign{
		Property: "C16R",
		Rule:     "concurrent Resolve / Targets from 2..16 goroutines on one Resolver and on shared results, for the race detector",
		Gen:      genC16R,
	})
}

// c16Zone builds the universe for a zone version (addresses embed the version).
// failing: 0 = healthy, 1 = every request fails in transport, 2 = every request is answered with an
// error response code (SERVFAIL, REFUSED, and codes without a name of their own: YXDOMAIN 6, NOTAUTH 9)
func c16Zone(version int, failing int) zoneh.Universe {
	u := zoneh.Universe{}
	v := byte(version)
	ans := func(owner string, typ int, ttl uint32, last byte) zoneh.Ans {
		if typ == 1 {
			return zoneh.Ans{Owner: owner, Type: 1, TTL: ttl, IP: []byte{10, v, 0, last}}
		}
		return zoneh.Ans{Owner: owner, Type: 28, TTL: ttl, IP: []byte{0xfd, v, 0, 0, 0, 0, 0, 0, 0, 0, 0, 0, 0, 0, 0, last}}
	}
	// a: A TTLs [0, 50]: not cacheable; AAAA TTL [20]
	u[zoneh.Key{Name: "a.example", Type: 1}] = zoneh.Resp{Answers: []zoneh.Ans{ans("a.example", 1, 0, 1), ans("a.example", 1, 50, 2)}}
	u[zoneh.Key{Name: "a.example", Type: 28}] = zoneh.Resp{Answers: []zoneh.Ans{ans("a.example", 28, 20, 1)}}
	u[zoneh.Key{Name: "a.example", Type: 65}] = zoneh.Resp{Answers: []zoneh.Ans{{Owner: "a.example", Type: 65, TTL: 7, HTTPS: &zoneh.HTTPS{Priority: 1, ALPN: []string{"h3", "h2", "http/1.1"}, ECH: []byte{v, 1, 2}}}}}
	// b: A TTL [5]; no AAAA (empty answer: 300 s default); HTTPS TTL 0
	u[zoneh.Key{Name: "b.example", Type: 1}] = zoneh.Resp{Answers: []zoneh.Ans{ans("b.example", 1, 5, 7)}}
	u[zoneh.Key{Name: "b.example", Type: 28}] = zoneh.Resp{}
	u[zoneh.Key{Name: "b.example", Type: 65}] = zoneh.Resp{Answers: []zoneh.Ans{{Owner: "b.example", Type: 65, TTL: 0, HTTPS: &zoneh.HTTPS{Priority: 2, ECH: []byte{v, 9}}}}}
	// c: the answers carry a CNAME (TTL 10) and A records [3, 7] for the CNAME target only on the A
	// lookup; the AAAA lookup returns just the CNAME: records in the response, none of the asked type
	u[zoneh.Key{Name: "c.example", Type: 1}] = zoneh.Resp{Answers: []zoneh.Ans{{Owner: "c.example", Type: 5, TTL: 10, Name: "t.example"}, ans("t.example", 1, 3, 3), ans("t.example", 1, 7, 4)}}
	u[zoneh.Key{Name: "c.example", Type: 28}] = zoneh.Resp{Answers: []zoneh.Ans{{Owner: "c.example", Type: 5, TTL: 10, Name: "t.example"}}}
	// c has no HTTPS record: NXDOMAIN by default
	// d: four HTTPS records served in DEscending priority order (the resolver has to sort them), long TTLs
	u[zoneh.Key{Name: "d.example", Type: 1}] = zoneh.Resp{Answers: []zoneh.Ans{ans("d.example", 1, 60, 9)}}
	u[zoneh.Key{Name: "d.example", Type: 28}] = zoneh.Resp{Answers: []zoneh.Ans{ans("d.example", 28, 60, 9)}}
	u[zoneh.Key{Name: "d.example", Type: 65}] = zoneh.Resp{Answers: []zoneh.Ans{
		{Owner: "d.example", Type: 65, TTL: 60, HTTPS: &zoneh.HTTPS{Priority: 4, ALPN: []string{"h2"}, ECH: []byte{v, 4}}},
		{Owner: "d.example", Type: 65, TTL: 60, HTTPS: &zoneh.HTTPS{Priority: 3, ALPN: []string{"h2"}, Port: 8443, ECH: []byte{v, 3}}},
		{Owner: "d.example", Type: 65, TTL: 60, HTTPS: &zoneh.HTTPS{Priority: 2, ALPN: []string{"h3"}, ECH: []byte{v, 2}}},
		{Owner: "d.example", Type: 65, TTL: 60, HTTPS: &zoneh.HTTPS{Priority: 1, ALPN: []string{"h2", "http/1.1"}, ECH: []byte{v, 1}}},
	}}
	// e: three A records and one AAAA (a cached record slice with room to spare, as append leaves it)
	u[zoneh.Key{Name: "e.example", Type: 1}] = zoneh.Resp{Answers: []zoneh.Ans{ans("e.example", 1, 60, 1), ans("e.example", 1, 60, 2), ans("e.example", 1, 60, 3)}}
	u[zoneh.Key{Name: "e.example", Type: 28}] = zoneh.Resp{Answers: []zoneh.Ans{ans("e.example", 28, 60, 1)}}
	u[zoneh.Key{Name: "e.example", Type: 65}] = zoneh.Resp{Answers: []zoneh.Ans{{Owner: "e.example", Type: 65, TTL: 60, HTTPS: &zoneh.HTTPS{Priority: 1, Target: "e.example", ALPN: []string{"h2"}, ECH: []byte{v, 7}}}}}
	if failing == 1 {
		for k := range u {
			u[k] = zoneh.Resp{Fail: true}
		}
		u[zoneh.Key{Name: "c.example", Type: 65}] = zoneh.Resp{Fail: true}
	}
	if failing == 3 {
		// the HTTPS records have been withdrawn (NXDOMAIN for type 65); addresses are still served
		for k := range u {
			if k.Type == 65 {
				u[k] = zoneh.Resp{RCode: 3}
			}
		}
	}
	if failing == 2 {
		u[zoneh.Key{Name: "c.example", Type: 65}] = zoneh.Resp{}
		for k := range u {
			u[k] = zoneh.Resp{RCode: []int{9, 6, 2, 5}[(len(k.Name)+k.Type+version)%4]}
		}
	}
	return u
}

func minTTLOf(r zoneh.Resp) int64 {
	if len(r.Answers) == 0 {
		return 300
	}
	m := int64(r.Answers[0].TTL)
	for _, a := range r.Answers {
		if int64(a.TTL) < m {
			m = int64(a.TTL)
		}
	}
	return m
}

type c16Clock struct {
	mu  sync.Mutex
	sec int64
	// gate: the next gateN readings of the clock wait for one another (bounded by real time), so that
	// gateN callers which each read the clock once before anything else pass that point together
	gateN  int
	gateCh chan struct{}
}

// arm makes the next n readings of the clock wait until all n have arrived.
func (c *c16Clock) arm(n int) {
	c.mu.Lock()
	c.gateN, c.gateCh = n, make(chan struct{})
	c.mu.Unlock()
}

// the clock does not tick on whole seconds: every reading is x.6 s (expiry arithmetic is exact, not rounded)
var c16Base = time.Date(2026, 1, 1, 0, 0, 0, 600_000_000, time.UTC)

func (c *c16Clock) now() time.Time {
	c.mu.Lock()
	if c.gateN > 0 {
		c.gateN--
		ch := c.gateCh
		if c.gateN == 0 {
			close(ch)
		}
		c.mu.Unlock()
		select {
		case <-ch:
		case <-time.After(300 * time.Millisecond):
		}
		c.mu.Lock()
	}
	defer c.mu.Unlock()
	return c16Base.Add(time.Duration(c.sec) * time.Second)
}

func genC16(env *core.Env, emit func(core.Case)) {
	r := env.Rng
	srv := zoneh.NewServer(env.Seed)
	defer srv.Close()
	clock := &c16Clock{}
	ech.VerifSetClock(clock.now)
	defer ech.VerifSetClock(nil)
	srv.Now = func() int64 { clock.mu.Lock(); defer clock.mu.Unlock(); return clock.sec }
	alphabet := []string{"ra", "rb", "rc", "adv3", "adv8", "adv301", "zone", "fail", "rcode", "nx65"}
	names := map[string]string{"ra": "a.example", "rb": "b.example", "rc": "c.example"}
	histCount := 0
	runHistory := func(hist []string, stream string) {
		resolver, err := ech.NewResolver(srv.URL())
		if err != nil {
			panic(err)
		}
		clock.mu.Lock()
		clock.sec = 1000
		clock.mu.Unlock()
		version, failing := 1, 0
		srv.Set(c16Zone(version, failing))
		srv.TakeLog()
		// every other history is served through an HTTP cache: the responses carry an Age (older than some
		// of the TTLs) and caching directives. What the Resolver may keep, and for how long, is still
		// decided by the record TTLs alone.
		histCount++
		if histCount%2 == 0 {
			srv.SetHeaders(map[string]string{"Age": []string{"7", "1", "400"}[histCount/2%3], "Cache-Control": "max-age=600"})
		} else {
			srv.SetHeaders(nil)
		}
		ops := []core.Op{{Line: "cache-reset", Kind: 'M', Want: "ok"}}
		// freshness monitor: per (name,type) the time and minTTL of the last successful fetch
		type fetched struct {
			at, ttl int64
			ok      bool
		}
		mon := map[zoneh.Key]fetched{}
		w := ""
		outcome := ""
		for _, op := range hist {
			switch op {
			case "adv3", "adv8", "adv301":
				d := map[string]int64{"adv3": 3, "adv8": 8, "adv301": 301}[op]
				clock.mu.Lock()
				clock.sec += d
				clock.mu.Unlock()
			case "zone":
				version = 3 - version
				srv.Set(c16Zone(version, failing))
			case "fail":
				if failing == 1 {
					failing = 0
				} else {
					failing = 1
				}
				srv.Set(c16Zone(version, failing))
			case "nx65":
				if failing == 3 {
					failing = 0
				} else {
					failing = 3
				}
				srv.Set(c16Zone(version, failing))
			case "rcode":
				if failing == 2 {
					failing = 0
				} else {
					failing = 2
				}
				srv.Set(c16Zone(version, failing))
			default:
				name := names[op]
				clock.mu.Lock()
				now := clock.sec
				clock.mu.Unlock()
				u := c16Zone(version, failing)
				res, rerr := resolver.Resolve(context.Background(), name)
				log := srv.TakeLog()
				var lt []string
				upNow := map[zoneh.Key]bool{}
				for _, q := range log {
					lt = append(lt, fmt.Sprintf("%s/%d@%d", hs2(q.Name), q.Type, q.Time))
					upNow[zoneh.Key{Name: q.Name, Type: q.Type}] = true
				}
				up := "_"
				if len(lt) > 0 {
					up = strings.Join(lt, ",")
				}
				cls := resolveErrClass(rerr)
				outcome += op + "=" + cls + fmt.Sprintf("/%dq,", len(log))
				args, _, _, _ := parsedArgs(name)
				ops = append(ops, core.Op{Line: fmt.Sprintf("cache-resolve %s %s %d", args, u.Text(), now), Kind: 'M',
					Want: fmt.Sprintf("res=%s err=%s up=%s", resultText(res), cls, up), Note: "Resolve(" + name + ") at t=" + fmt.Sprint(now)})
				// monitor: the lookups Resolve performs for this name, in order, stopping at the first error
				for _, typ := range []int{65, 1, 28} {
					k := zoneh.Key{Name: name, Type: typ}
					resp, found := u[k]
					if !found {
						resp = zoneh.Resp{RCode: 3}
					}
					f := mon[k]
					if upNow[k] {
						if f.ok && now < f.at+f.ttl && w == "" {
							w = fmt.Sprintf("t=%d: %s/%d re-fetched although cached at t=%d with minTTL %d (not served from the cache within the TTL)", now, name, typ, f.at, f.ttl)
						}
						if resp.Fail || (resp.RCode != 0) {
							mon[k] = fetched{}
							if !(typ == 65 && resp.RCode == 3 && !resp.Fail) {
								break // Resolve returns at the first failing lookup (NXDOMAIN on HTTPS is absence)
							}
						} else {
							mon[k] = fetched{at: now, ttl: minTTLOf(resp), ok: true}
						}
					} else {
						if !f.ok {
							if w == "" && !(typ != 65 && cls != "-") {
								w = fmt.Sprintf("t=%d: %s/%d answered without an upstream query although nothing valid was cached (failure cached, or lookup skipped)", now, name, typ)
							}
						} else if now >= f.at+f.ttl && w == "" {
							w = fmt.Sprintf("t=%d: %s/%d served from the cache although fetched at t=%d with smallest TTL %d (stale by %ds)", now, name, typ, f.at, f.ttl, now-f.at-f.ttl)
						}
					}
					if cls != "-" && !upNow[k] && !f.ok {
						break
					}
				}
			}
		}
		ops = append(ops, core.Op{Kind: 'X', Note: "cache freshness monitor: nothing older than the smallest TTL of its response (0 = not cacheable), failures never cached, re-fetch after expiry, no re-fetch within the TTL", Want: w})
		name := stream + "/" + strings.Join(hist, ",")
		emit(core.Case{Name: name, Stream: stream, Ops: ops, Key: name, Sig: name + "/" + outcome, Sample: map[string]any{"history": hist, "outcome": outcome}})
		env.Count(fmt.Sprintf("%s/len%d", stream, len(hist)))
	}
	L := env.Pick(3, 4)
	var rec func(cur []string)
	rec = func(cur []string) {
		hasResolve := false
		for _, c := range cur {
			if c[0] == 'r' {
				hasResolve = true
			}
		}
		if hasResolve && cur[len(cur)-1][0] == 'r' {
			runHistory(append([]string{}, cur...), "exhaustive")
		}
		if len(cur) == L {
			return
		}
		for _, a := range alphabet {
			rec(append(cur, a))
		}
	}
	rec(nil)
	env.Exhaustive(fmt.Sprintf("all histories of length <= %d over the 10-letter alphabet that end in a resolve", L))
	for i := 0; i < env.Pick(300, 2500); i++ {
		n := 6 + r.IntN(8)
		var h []string
		for j := 0; j < n; j++ {
			if r.IntN(2) == 0 {
				h = append(h, alphabet[r.IntN(3)])
			} else {
				h = append(h, alphabet[r.IntN(len(alphabet))])
			}
		}
		h = append(h, alphabet[r.IntN(3)])
		runHistory(h, "random")
	}
	// time passes DURING a call: the HTTPS lookup of b.example (TTL 0, always upstream) takes three seconds,
	// during which the cached A record of the same name (TTL 5, four seconds old) expires. Each lookup of
	// the call looks at the clock as it is then.
	for rep := 0; rep < 3; rep++ {
		rs, err := ech.NewResolver(srv.URL())
		if err != nil {
			panic(err)
		}
		srv.SetHeaders(nil)
		srv.Set(c16Zone(1, 0))
		srv.TakeLog()
		rs.Resolve(context.Background(), "b.example")
		clock.mu.Lock()
		clock.sec += 4
		clock.mu.Unlock()
		srv.Set(c16Zone(2, 0))
		srv.TakeLog()
		srv.Mu().Lock()
		srv.OnQuery = func(name string, typ int) {
			if typ == 65 {
				clock.mu.Lock()
				clock.sec += 3
				clock.mu.Unlock()
			}
		}
		srv.Mu().Unlock()
		res, rerr := rs.Resolve(context.Background(), "b.example")
		srv.Mu().Lock()
		srv.OnQuery = nil
		srv.Mu().Unlock()
		askedA := false
		for _, q := range srv.TakeLog() {
			if q.Name == "b.example" && q.Type == 1 {
				askedA = true
			}
		}
		w := ""
		switch {
		case rerr != nil:
			w = "Resolve failed: " + rerr.Error()
		case !askedA:
			w = "the A record of b.example (TTL 5) was 7 s old when the call looked it up (the HTTPS lookup before it took 3 s), and was served from the cache"
		case len(res.Address) == 0 || res.Address[0].To4() == nil || res.Address[0].To4()[1] != 2:
			w = fmt.Sprintf("addresses %v are not those of the current zone", res.Address)
		}
		emit(core.Case{Name: fmt.Sprintf("slow-upstream/%d", rep), Stream: "slow-upstream", Key: "slow-upstream", Sig: "slow-upstream",
			Ops:    []core.Op{{Kind: 'X', Note: "an entry that expires while an earlier lookup of the same call is on the wire is not served", Want: w}},
			Sample: map[string]any{"rep": rep}})
		env.Count("slow-upstream")
		srv.Set(c16Zone(1, 0))
	}
	// concurrent use (data races are the race detector's job; here: no panic, consistent results)
	genC16R(env, emit)
}

func genC16R(env *core.Env, emit func(core.Case)) {
	srv := zoneh.NewServer(env.Seed + 1)
	defer srv.Close()
	srv.Set(c16Zone(1, 0))
	for _, workers := range []int{2, 4, 16} {
		resolver, err := ech.NewResolver(srv.URL())
		if err != nil {
			panic(err)
		}
		var wg sync.WaitGroup
		var mu sync.Mutex
		w := ""
		shared, _ := resolver.Resolve(context.Background(), "a.example")
		for g := 0; g < workers; g++ {
			wg.Add(1)
			go func(g int) {
				defer wg.Done()
				defer func() {
					if rec := recover(); rec != nil {
						mu.Lock()
						w = fmt.Sprint("panic under concurrent use: ", rec)
						mu.Unlock()
					}
				}()
				for i := 0; i < 30; i++ {
					// (nx.example does not exist: every lookup for it fails)
					name := []string{"a.example", "b.example", "c.example", "nx.example", "e.example"}[(g+i)%5]
					res, err := resolver.Resolve(context.Background(), name)
					if err != nil {
						continue
					}
					for _, net := range []string{"tcp", "tcp4"} {
						for t := range res.Targets(net) {
							if name == "a.example" && len(t.ALPN) != 4 && t.ECH != nil {
								mu.Lock()
								w = fmt.Sprintf("target of a.example has ALPN %q (want h3,h2,http/1.1,http/1.1)", t.ALPN)
								mu.Unlock()
							}
						}
					}
					for t := range shared.Targets("tcp") {
						_ = t
					}
				}
			}(g)
		}
		wg.Wait()
		// fresh resolvers, all goroutines released at once on a name whose records arrive unsorted:
		// the moments right after a fetch, when several callers hold the same cached answer
		for round := 0; round < 12; round++ {
			rs, err := ech.NewResolver(srv.URL())
			if err != nil {
				panic(err)
			}
			start := make(chan struct{})
			var wg2 sync.WaitGroup
			for g := 0; g < workers; g++ {
				wg2.Add(1)
				go func(g int) {
					defer wg2.Done()
					<-start
					for i := 0; i < 3; i++ {
						name := "d.example"
						if i == 0 && round%2 == 1 {
							// the very first lookups on a new Resolver are for different names, at the same time
							name = []string{"a.example", "b.example", "c.example", "d.example"}[(g+round)%4]
						}
						res, err := rs.Resolve(context.Background(), name)
						if err != nil || name != "d.example" {
							continue
						}
						prio := 0
						for _, h := range res.HTTPS {
							if int(h.Priority) < prio {
								mu.Lock()
								w = fmt.Sprintf("HTTPS records of d.example not in priority order: %d after %d", h.Priority, prio)
								mu.Unlock()
							}
							prio = int(h.Priority)
						}
						for t := range res.Targets("tcp") {
							_ = t
						}
					}
				}(g)
			}
			close(start)
			wg2.Wait()
		}
		// readers served from the cache while another goroutine refreshes the same entry after its expiry
		// (injected clock): the hit path and the refresh path of one cache entry side by side
		{
			clock := &c16Clock{}
			ech.VerifSetClock(clock.now)
			rs, err := ech.NewResolver(srv.URL())
			if err != nil {
				panic(err)
			}
			for round := 0; round < 15; round++ {
				rs.Resolve(context.Background(), "d.example") // fill or refresh
				var wg3 sync.WaitGroup
				stop := make(chan struct{})
				for g := 0; g < workers; g++ {
					wg3.Add(1)
					go func() {
						defer wg3.Done()
						for {
							select {
							case <-stop:
								return
							default:
							}
							if res, err := rs.Resolve(context.Background(), "d.example"); err == nil {
								for t := range res.Targets("tcp") {
									_ = t
								}
							}
						}
					}()
				}
				time.Sleep(300 * time.Microsecond)
				clock.mu.Lock()
				clock.sec += 61 // past every TTL of d.example
				clock.mu.Unlock()
				rs.Resolve(context.Background(), "d.example") // refresh while the readers are running
				time.Sleep(300 * time.Microsecond)
				close(stop)
				wg3.Wait()
			}
			// all goroutines released at once on an entry that is absent or has just expired, after the zone
			// changed: one of them fetches, the others wait for it - and every one of them started after the
			// expiry, so every one must see the new zone version
			rs2, _ := ech.NewResolver(srv.URL())
			clock.mu.Lock()
			t0 := clock.sec
			clock.mu.Unlock()
			var freshOps []core.Op
			for round := 0; round < 12 && rs2 != nil; round++ {
				ver := 1 + round // every round serves its own zone version: an answer names the round it was fetched in
				srv.Set(c16Zone(ver, 0))
				if round > 0 && round%3 != 0 {
					// the entry exists and has expired: every caller reads the clock exactly once (to find
					// that out) before it competes for the refresh; let them all get that far first
					clock.arm(workers)
				}
				startedAt := t0 + 61*int64(round)
				start := make(chan struct{})
				var wg4 sync.WaitGroup
				for g := 0; g < workers; g++ {
					wg4.Add(1)
					go func() {
						defer wg4.Done()
						<-start
						res, err := rs2.Resolve(context.Background(), "d.example")
						if err != nil {
							return
						}
						bad := len(res.Address) == 0 || len(res.HTTPS) == 0
						seen := map[int]bool{}
						for _, h := range res.HTTPS {
							if len(h.ECH) > 0 {
								seen[int(h.ECH[0])] = true
							}
						}
						for _, ip := range res.Address {
							if v4 := ip.To4(); v4 != nil {
								seen[int(v4[1])] = true
							} else if len(ip) == 16 {
								seen[int(ip[1])] = true
							}
						}
						mu.Lock()
						for v := range seen {
							if v != ver {
								bad = true
							}
							// the response this part of the answer came from arrived in round v-1 at the latest at
							// that round's clock reading; all records of d.example have TTL 60
							freshOps = append(freshOps, core.Op{Kind: 'S', Line: fmt.Sprintf("cache-fresh %d %d 60", startedAt, t0+61*int64(v-1)),
								Note: fmt.Sprintf("round %d, %d goroutines: an answer of zone version %d returned to a call started at second %d (C16_concurrent_answer_fresh)", round, workers, v, startedAt)})
						}
						if bad {
							w = fmt.Sprintf("round %d: a lookup started after the entry had expired (zone version %d) returned addresses %v and %d HTTPS records of another version", round, ver, res.Address, len(res.HTTPS))
						}
						mu.Unlock()
					}()
				}
				close(start)
				wg4.Wait()
				clock.mu.Lock()
				clock.sec += 61
				clock.gateN = 0
				clock.mu.Unlock()
			}
			sort.Slice(freshOps, func(i, j int) bool { return freshOps[i].Line < freshOps[j].Line })
			emit(core.Case{Name: fmt.Sprintf("concurrent-fresh/%d", workers), Stream: "concurrent-fresh", Key: "concurrent-fresh", Sig: fmt.Sprintf("concurrent-fresh/%d", workers),
				Ops: freshOps, Sample: map[string]any{"goroutines": workers, "answers": len(freshOps)}})
			env.Count("concurrent-fresh")
			srv.Set(c16Zone(1, 0))
			ech.VerifSetClock(nil)
		}
		emit(core.Case{Name: fmt.Sprintf("concurrent/%d", workers), Stream: "concurrent", Key: "concurrent", Sig: fmt.Sprintf("concurrent/%d", workers),
			Ops:    []core.Op{{Kind: 'X', Note: "concurrent Resolve/Targets on one Resolver and on a shared result: no panic, consistent targets (data races: race detector, thorough tier)", Want: w}},
			Sample: map[string]any{"goroutines": workers}})
		env.Count("concurrent")
	}
}
