package props

import (
	"context"
	"fmt"
	"math/rand/v2"
	"net/http"
	"net/http/httptest"
	"runtime"
	"strconv"
	"sync"
	"time"

	"github.com/c2FmZQ/ech"
	"github.com/c2FmZQ/ech/dns"

	"verifharness/core"
	"verifharness/gen"
)

func init() {
	register(core.Campaign{
		Property: "C12",
		Rule: "byte strings fed to dns.DecodeMessage in a child process with a 3 s watchdog and an address-space limit: grammar-generated messages with every name style (plain, compressed, pointer-only, self pointer, forward pointer, " +
			"pointer cycle through labels, pointer chains up to 40 deep, truncated label, > 255 octets, 64..191-byte label lengths) in owner names and inside RDATA of every record type, lying section counts, RDLENGTH off by +-k, " +
			"messages up to 64 KiB, byte mutations, random bytes, and hand-written pointer-loop witnesses; decode results (canonical message text tagged by Go dynamic type) compared with the Lean model; " +
			"stream owned: well-formed messages whose records (of every type) are owned by the names the resolver asks about; every message that decodes is then served (with a content-length, or chunked without one) by a local DoH server to the real Resolver.Resolve (no panic, returns). distinct = (generator, name styles used, record types, outcome class).",
		Gen: genC12,
	})
}

var dnsTypes = []int{1, 28, 2, 5, 12, 6, 15, 16, 29, 33, 37, 41, 43, 46, 47, 48, 64, 65, 256, 257, 99, 255, 10}

func randStyle(r *rand.Rand, adversarial bool) gen.NameStyle {
	if !adversarial {
		return []gen.NameStyle{gen.NamePlain, gen.NamePlain, gen.NameCompressed, gen.NamePtrOnly}[r.IntN(4)]
	}
	return gen.NameStyle(r.IntN(10))
}

// rdataGen returns a closure writing well-formed (or slightly broken) RDATA of the given type.
func rdataGen(r *rand.Rand, d *gen.DNSBuilder, typ int, adversarial bool) func() {
	name := func() { d.Name(r, randStyle(r, adversarial && r.IntN(3) == 0), gen.RandLabels(r, 4)) }
	u16 := func() { d.B = append(d.B, gen.U16(r.IntN(65536))...) }
	u32 := func() { d.B = append(d.B, gen.RandBytes(r, 4)...) }
	rnd := func(n int) { d.B = append(d.B, gen.RandBytes(r, n)...) }
	return func() {
		switch typ {
		case 1:
			rnd(4)
		case 28:
			rnd(16)
		case 2, 5, 12:
			name()
		case 6:
			name()
			name()
			for i := 0; i < 5; i++ {
				u32()
			}
		case 15:
			u16()
			name()
		case 16:
			for i := 0; i < r.IntN(4); i++ {
				d.B = append(d.B, gen.LP8(gen.RandBytes(r, r.IntN(30)))...)
			}
		case 29:
			rnd(16)
		case 33:
			u16()
			u16()
			u16()
			name()
		case 37:
			u16()
			u16()
			rnd(1 + r.IntN(20))
		case 41:
			for i := 0; i < r.IntN(4); i++ {
				d.B = append(d.B, gen.U16([]int{8, 10, 12, 15, 65001}[r.IntN(5)])...)
				d.B = append(d.B, gen.LP16(gen.RandBytes(r, r.IntN(20)))...)
			}
		case 43:
			u16()
			rnd(2 + r.IntN(32))
		case 46:
			u16()
			rnd(2)
			u32()
			u32()
			u32()
			u16()
			name()
			rnd(r.IntN(64))
		case 47:
			name()
			rnd(r.IntN(10))
		case 48:
			u16()
			rnd(2 + r.IntN(40))
		case 64, 65:
			d.B = append(d.B, gen.U16(r.IntN(4))...)
			if r.IntN(2) == 0 {
				d.B = append(d.B, 0)
			} else {
				name()
			}
			for _, k := range []int{0, 1, 2, 3, 4, 5, 6, 7, 65000} {
				if r.IntN(3) != 0 {
					continue
				}
				var v []byte
				switch k {
				case 1:
					for i := 0; i <= r.IntN(3); i++ {
						v = append(v, gen.LP8([]byte([]string{"h2", "h3", "http/1.1", ""}[r.IntN(4)]))...)
					}
				case 2:
				case 3:
					v = gen.U16(r.IntN(65536))
				case 4:
					v = gen.RandBytes(r, 4*(1+r.IntN(3)))
				case 5:
					v = gen.RandBytes(r, r.IntN(80))
				case 6:
					v = gen.RandBytes(r, 16*(1+r.IntN(2)))
				default:
					v = gen.RandBytes(r, r.IntN(10))
				}
				if adversarial && r.IntN(6) == 0 && len(v) > 0 {
					v = v[:len(v)-1]
				}
				d.B = append(d.B, gen.U16(k)...)
				d.B = append(d.B, gen.LP16(v)...)
			}
		case 256:
			u16()
			u16()
			rnd(r.IntN(30))
		case 257:
			rnd(1)
			d.B = append(d.B, gen.LP8(gen.RandBytes(r, r.IntN(10)))...)
			rnd(r.IntN(20))
		default:
			rnd(r.IntN(40))
		}
	}
}

// genDNSMessage builds one raw message; returns bytes and a signature of what it contains.
// ownedLabels, when set, makes most records of the generated message owned by one of these names
// (the names the resolver-driven part asks about), so that the resolver really consumes them.
var ownedLabels [][][]byte

func genDNSMessage(r *rand.Rand, adversarial bool, maxRR int) ([]byte, string) {
	d := &gen.DNSBuilder{}
	qd := r.IntN(3)
	counts := [3]int{r.IntN(maxRR + 1), r.IntN(3), r.IntN(3)}
	lie := [4]int{}
	if adversarial && r.IntN(5) == 0 {
		lie[r.IntN(4)] = []int{-1, 1, 5, 60000, 65535, 32768}[r.IntN(6)]
		if r.IntN(3) == 0 {
			lie[1+r.IntN(3)] = []int{65535, 32768, 65534}[r.IntN(3)] // a second count near the top as well
		}
	}
	d.Header(uint16(r.IntN(65536)), uint16(r.IntN(65536)), max(0, qd+lie[0]), max(0, counts[0]+lie[1]), max(0, counts[1]+lie[2]), max(0, counts[2]+lie[3]))
	styles := map[gen.NameStyle]bool{}
	types := map[int]bool{}
	for i := 0; i < qd; i++ {
		st := randStyle(r, adversarial && r.IntN(4) == 0)
		styles[st] = true
		d.Question(r, st, gen.RandLabels(r, 5), dnsTypes[r.IntN(len(dnsTypes))], 1)
	}
	for s := 0; s < 3; s++ {
		for i := 0; i < counts[s]; i++ {
			typ := dnsTypes[r.IntN(len(dnsTypes))]
			if s == 2 && r.IntN(2) == 0 {
				typ = 41
			}
			types[typ] = true
			st := randStyle(r, adversarial && r.IntN(4) == 0)
			styles[st] = true
			delta := 0
			if adversarial && r.IntN(8) == 0 {
				delta = []int{-3, -1, 1, 2, 40}[r.IntN(5)]
			}
			labels := gen.RandLabels(r, 4)
			if len(ownedLabels) > 0 && r.IntN(4) != 0 {
				labels = ownedLabels[r.IntN(len(ownedLabels))]
			}
			// records of other classes than IN occur (CH, HS, ANY, the mDNS cache-flush bit): the type still
			// says how the data is laid out
			class := 1
			if typ != 41 && r.IntN(5) == 0 {
				class = []int{3, 4, 255, 0x8001, 254, 0}[r.IntN(6)]
			}
			d.RR(r, st, labels, typ, class, r.Uint32(), rdataGen(r, d, typ, adversarial), delta)
		}
	}
	sig := fmt.Sprintf("styles%d/types%d", len(styles), len(types))
	return d.B, sig
}

func genC12(env *core.Env, emit func(core.Case)) {
	r := env.Rng
	type item struct {
		b      []byte
		stream string
		sig    string
	}
	var items []item
	add := func(stream, sig string, b []byte) { items = append(items, item{b, stream, sig}) }
	// hand-written witnesses: pointer cycles
	add("witness", "label-then-pointer-cycle", []byte{0, 0, 1, 0, 0, 1, 0, 0, 0, 0, 0, 0, 1, 'a', 0xc0, 0x0c})
	// compression pointers aimed exactly at the end of the message (and one past it), in a question name, an
	// owner name and a name inside RDATA
	add("witness", "pointer-to-end/question", []byte{0, 0, 0x81, 0x80, 0, 1, 0, 0, 0, 0, 0, 0, 0xc0, 0x0e})
	add("witness", "pointer-past-end/question", []byte{0, 0, 0x81, 0x80, 0, 1, 0, 0, 0, 0, 0, 0, 0xc0, 0x0f})
	add("witness", "pointer-to-end/label-then-pointer", []byte{0, 0, 0x81, 0x80, 0, 1, 0, 0, 0, 0, 0, 0, 1, 'a', 0xc0, 0x10})
	{
		m := []byte{0, 0, 0x81, 0x80, 0, 1, 0, 1, 0, 0, 0, 0, 1, 'a', 0, 0, 5, 0, 1}
		m = append(m, 0xc0, 0x0c, 0, 5, 0, 1, 0, 0, 0, 60, 0, 2)
		m = append(m, 0xc0, byte(len(m)+2))
		add("witness", "pointer-to-end/rdata", m)
		o := append([]byte{0, 0, 0x81, 0x80, 0, 1, 0, 1, 0, 0, 0, 0, 1, 'a', 0, 0, 1, 0, 1}, 0xc0, 0)
		o[len(o)-1] = byte(len(o))
		add("witness", "pointer-to-end/owner", o)
	}
	add("witness", "self-pointer", []byte{0, 0, 1, 0, 0, 1, 0, 0, 0, 0, 0, 0, 0xc0, 0x0c, 0, 1, 0, 1})
	add("witness", "two-label-cycle", []byte{0, 0, 1, 0, 0, 1, 0, 0, 0, 0, 0, 0, 1, 'a', 1, 'b', 0xc0, 0x0e, 0, 1, 0, 1})
	{ // long backward pointer chain: each pointer points to the previous one
		b := []byte{0, 0, 1, 0, 0, 1, 0, 0, 0, 0, 0, 0, 1, 'a', 0}
		for i := 0; i < 600; i++ {
			prev := len(b) - 2
			if i == 0 {
				prev = 12
			}
			b = append(b, 0xc0|byte(prev>>8), byte(prev))
		}
		// the question name is the last pointer: place a question that starts there
		b2 := append([]byte{}, b...)
		add("witness", "pointer-chain-600", b2)
	}
	// well-formed answers of every record type owned by the very names the resolver asks about
	ownedLabels = [][][]byte{{[]byte("example"), []byte("com")}, {[]byte("_8443"), []byte("_https"), []byte("example"), []byte("com")}}
	for i := 0; i < env.Pick(300, 4000); i++ {
		b, sig := genDNSMessage(r, false, 6)
		add("owned", sig, b)
	}
	ownedLabels = nil
	// negative answers as authoritative servers and validating resolvers write them: no answer record, and
	// an authority section in which the SOA comes after NS records, or after records of a type the package
	// has no decoder for (the RFCs leave the order open)
	for _, qn := range [][][]byte{{[]byte("example"), []byte("com")}, {[]byte("_8443"), []byte("_https"), []byte("example"), []byte("com")}} {
		zone := [][]byte{[]byte("example"), []byte("com")}
		for _, shape := range [][]int{{6}, {2, 6}, {2, 2, 6}, {46, 6}, {47, 6, 46}, {6, 2}, {2}} {
			for _, qtype := range []int{1, 28, 65} {
				d := &gen.DNSBuilder{}
				d.Header(uint16(r.IntN(65536)), 0x8180, 1, 0, len(shape), 0)
				d.Question(r, gen.NamePlain, qn, qtype, 1)
				sig := "auth"
				for _, t := range shape {
					sig += fmt.Sprintf("-%d", t)
					switch t {
					case 2, 6:
						d.RR(r, gen.NamePlain, zone, t, 1, uint32(r.IntN(3600)), rdataGen(r, d, t, false), 0)
					default:
						d.RR(r, gen.NamePlain, zone, t, 1, uint32(r.IntN(3600)), func() { d.B = append(d.B, gen.RandBytes(r, 20+r.IntN(40))...) }, 0)
					}
				}
				add("negative", fmt.Sprintf("%s/q%d", sig, qtype), d.B)
			}
		}
	}
	// answer sections in which the CNAME records of the asked name form a cycle (x CNAME x; a -> b -> a;
	// a longer ring), alone or next to address records: a forwarder that does not look, or a hostile server
	for _, qn := range [][][]byte{{[]byte("example"), []byte("com")}, {[]byte("_8443"), []byte("_https"), []byte("example"), []byte("com")}} {
		for ring := 1; ring <= 4; ring++ {
			for _, qtype := range []int{1, 28, 65} {
				d := &gen.DNSBuilder{}
				extra := ring % 2
				d.Header(uint16(r.IntN(65536)), 0x8180, 1, ring+extra, 0, 0)
				d.Question(r, gen.NamePlain, qn, qtype, 1)
				names := [][][]byte{qn}
				for k := 1; k < ring; k++ {
					names = append(names, [][]byte{[]byte(fmt.Sprintf("hop%d", k)), []byte("example"), []byte("net")})
				}
				for k := 0; k < ring; k++ {
					next := names[(k+1)%ring]
					d.RR(r, gen.NamePlain, names[k], 5, 1, uint32(r.IntN(300)), func() { d.Name(r, gen.NamePlain, next) }, 0)
				}
				if extra == 1 {
					d.RR(r, gen.NamePlain, names[ring-1], 1, 1, 60, func() { d.B = append(d.B, 10, 0, 0, 1) }, 0)
				}
				add("cname-cycle", fmt.Sprintf("ring%d/q%d", ring, qtype), d.B)
			}
		}
	}
	// section counts at the top of their 16-bit range (their sum does not fit 16 bits), on top of a valid response
	for _, cnt := range [][3]int{{1, 0xffff, 0}, {1, 0, 0xffff}, {0x8000, 0x8000, 0}, {0xffff, 1, 1}, {0xffff, 0xffff, 0xffff}, {0x8000, 0x7fff, 1}, {2, 0xfffe, 0}} {
		d := &gen.DNSBuilder{}
		d.Header(uint16(r.IntN(65536)), 0x8180, 1, cnt[0], cnt[1], cnt[2])
		labels := gen.RandLabels(r, 3)
		d.Question(r, gen.NamePlain, labels, 1, 1)
		for i := 0; i < 1+r.IntN(2); i++ {
			d.RR(r, gen.NamePlain, labels, 1, 1, 60, rdataGen(r, d, 1, false), 0)
		}
		add("witness", fmt.Sprintf("counts-%x-%x-%x", cnt[0], cnt[1], cnt[2]), d.B)
	}
	n := env.Pick(3000, 120000)
	for i := 0; i < n; i++ {
		switch r.IntN(8) {
		case 0:
			b, sig := genDNSMessage(r, false, 6)
			add("valid", sig, b)
		case 1, 2, 3:
			b, sig := genDNSMessage(r, true, 6)
			add("adversarial", sig, b)
		case 4:
			b, sig := genDNSMessage(r, r.IntN(2) == 0, 6)
			add("mutated", sig, mutateBytes(r, b))
		case 5:
			add("random", "-", gen.RandBytes(r, r.IntN(200)))
		case 6:
			b, sig := genDNSMessage(r, true, 3)
			add("truncated", sig, b[:r.IntN(len(b)+1)])
		case 7:
			if r.IntN(20) == 0 {
				b, sig := genDNSMessage(r, r.IntN(2) == 0, 2500) // up to ~64 KiB
				if len(b) > 65535 {
					b = b[:65535]
				}
				add("large", sig, b)
			} else {
				b, sig := genDNSMessage(r, true, 20)
				add("adversarial", sig, b)
			}
		}
	}
	msgs := make([][]byte, len(items))
	for i := range items {
		msgs[i] = items[i].b
	}
	t0 := time.Now()
	results := dnsDecodeAll(msgs)
	env.Note(fmt.Sprintf("decoded %d messages in child processes in %.1fs", len(msgs), time.Since(t0).Seconds()))
	// resolver-driven part: a DoH server that serves a chosen body
	var mu sync.Mutex
	var body []byte
	framing := 0 // 0: content-length; 1: chunked (no length the client can see); 2: chunked in two pieces
	srv := httptest.NewUnstartedServer(http.HandlerFunc(func(w http.ResponseWriter, req *http.Request) {
		mu.Lock()
		b := body
		fr := framing
		mu.Unlock()
		w.Header().Set("content-type", "application/dns-message")
		switch fr {
		case 0:
			w.Header().Set("content-length", strconv.Itoa(len(b)))
			w.Write(b)
		case 1:
			w.(http.Flusher).Flush()
			w.Write(b)
		default:
			w.Write(b[:len(b)/2])
			w.(http.Flusher).Flush()
			w.Write(b[len(b)/2:])
		}
	}))
	srv.Config.SetKeepAlivesEnabled(false)
	srv.Start()
	defer srv.Close()
	resolver, err := ech.NewResolver(srv.URL + "/dns-query")
	if err != nil {
		panic(err)
	}
	resolver.SetCacheSize(0)
	nres := 0
	maxRes := env.Pick(400, 6000)
	for i, it := range items {
		res := results[i]
		cls := connh0(res)
		ops := []core.Op{{Line: "dns-decode " + core.Hex(it.b), Kind: 'M', Want: res, Note: "DecodeMessage"}}
		w := ""
		switch cls {
		case "hang":
			w = "DecodeMessage did not return within 3 s"
		case "oom-or-crash":
			w = "DecodeMessage exhausted the address-space limit or crashed the process"
		case "panic":
			w = "DecodeMessage panicked: " + res
		case "typemismatch":
			w = "record data has a Go type not implied by its record type: " + res
		}
		ops = append(ops, core.Op{Kind: 'X', Note: "decoding terminates within bounds, without panicking, with record data typed by record type", Want: w})
		// (the hand-made streams always; the generated ones up to a budget)
		special := it.stream == "owned" || it.stream == "cname-cycle" || it.stream == "negative" || it.stream == "witness"
		if cls == "ok" && (nres < maxRes || (special && nres < 10*maxRes)) && len(it.b) < 20000 {
			nres++
			mu.Lock()
			body = it.b
			framing = []int{0, 0, 1, 2}[nres%4] // half of the responses come without a content-length
			mu.Unlock()
			env.Count(fmt.Sprintf("doh-framing/%d", []int{0, 0, 1, 2}[nres%4]))
			w := ""
			func() {
				defer func() {
					if rec := recover(); rec != nil {
						w = fmt.Sprint("Resolver.Resolve panicked on a decodable DoH response: ", rec)
					}
				}()
				ctx, cancel := context.WithTimeout(context.Background(), 5*time.Second)
				defer cancel()
				// under a watchdog: a lookup that neither returns nor reacts to its context is reported,
				// and no further lookups are made (the goroutine it occupies cannot be reclaimed)
				done := make(chan string, 1)
				go func() {
					defer func() {
						if rec := recover(); rec != nil {
							done <- fmt.Sprint("Resolver.Resolve panicked on a decodable DoH response: ", rec)
						}
					}()
					resolver.Resolve(ctx, []string{"example.com", "example.com:8443", "https://example.com"}[i%3])
					done <- ""
				}()
				select {
				case w = <-done:
					if w == "" && ctx.Err() != nil {
						w = "Resolver.Resolve did not return within 5 s"
					}
				case <-time.After(8 * time.Second):
					w = "Resolver.Resolve is still running 3 s after its context's deadline (5 s): it neither returns nor reacts to the context"
					nres = 10 * maxRes
				}
			}()
			ops = append(ops, core.Op{Kind: 'X', Note: "the resolver consumes any decodable DoH response body without panicking", Want: w})
		}
		emit(core.Case{Name: fmt.Sprintf("%s/%d", it.stream, i), Stream: it.stream, Ops: ops, Key: it.stream + "/" + it.sig + "/" + cls,
			Sig: it.stream + "/" + it.sig + "/" + cls, Sample: map[string]any{"stream": it.stream, "len": len(it.b), "what": it.sig, "outcome": cls}})
		env.Count(it.stream + "/" + cls)
	}
	env.Note(fmt.Sprintf("%d decodable messages driven through Resolver.Resolve via a local DoH server", nres))
	// memory: header counts that promise far more than the message holds. What one DecodeMessage call allocates
	// (least of five measurements, so that other goroutines' allocations do not count) stays within
	// 64 KiB + 1 KiB per input byte (a 2-byte pointer can stand for a 255-byte name, not for more).
	for ci, b := range c12CountWitnesses() {
		least := uint64(1 << 62)
		outcome := "err"
		for rep := 0; rep < 5; rep++ {
			var m0, m1 runtime.MemStats
			runtime.ReadMemStats(&m0)
			func() {
				defer func() {
					if rec := recover(); rec != nil {
						outcome = "panic"
					}
				}()
				if _, err := dns.DecodeMessage(b); err == nil {
					outcome = "ok"
				}
			}()
			runtime.ReadMemStats(&m1)
			least = min(least, m1.TotalAlloc-m0.TotalAlloc)
		}
		w := ""
		if limit := uint64(64<<10 + 1024*len(b)); least > limit {
			w = fmt.Sprintf("decoding a %d-byte message allocates %d bytes (limit used here: %d)", len(b), least, limit)
		}
		if outcome == "panic" {
			w = "DecodeMessage panicked"
		}
		emit(core.Case{Name: fmt.Sprintf("counts/%d", ci), Stream: "counts", Key: fmt.Sprintf("counts/%d", ci), Sig: fmt.Sprintf("counts/%d/%s", ci, outcome),
			Ops:    []core.Op{{Line: "dns-decode " + core.Hex(b), Kind: 'M', Want: dnsDecodeText(b), Note: "DecodeMessage"}, {Kind: 'X', Note: "memory used by one decode is bounded by the input's length, not by what its header promises", Want: w}},
			Sample: map[string]any{"stream": "counts", "len": len(b), "allocated": least, "outcome": outcome}})
		env.Count("counts/" + outcome)
	}
}

// c12CountWitnesses: short messages whose section counts are (near) the maximum.
func c12CountWitnesses() [][]byte {
	var out [][]byte
	for sec := 0; sec < 4; sec++ {
		for _, n := range []int{0xffff, 0x8000, 0x0100} {
			h := []byte{0, 1, 0x81, 0x80, 0, 0, 0, 0, 0, 0, 0, 0}
			h[4+2*sec], h[5+2*sec] = byte(n>>8), byte(n)
			out = append(out, h)
		}
	}
	out = append(out, []byte{0, 1, 0x81, 0x80, 0xff, 0xff, 0xff, 0xff, 0xff, 0xff, 0xff, 0xff})
	// a real one-question one-answer response whose additional count lies
	resp := []byte{0, 1, 0x81, 0x80, 0, 1, 0, 1, 0, 0, 0xff, 0xff, 7, 'e', 'x', 'a', 'm', 'p', 'l', 'e', 3, 'c', 'o', 'm', 0, 0, 1, 0, 1,
		0xc0, 0x0c, 0, 1, 0, 1, 0, 0, 0, 60, 0, 4, 192, 0, 2, 1}
	out = append(out, resp)
	resp2 := append([]byte{}, resp...)
	resp2[6], resp2[7] = 0xff, 0xfe
	out = append(out, resp2)
	return out
}

func connh0(s string) string {
	for i := 0; i < len(s); i++ {
		if s[i] == ' ' {
			return s[:i]
		}
	}
	return s
}
