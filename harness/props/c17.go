package props

import (
	"bytes"
	"context"
	"crypto/tls"
	"errors"
	"fmt"
	"net"
	"net/http"
	"slices"
	"strings"
	"sync"
	"time"

	"github.com/c2FmZQ/ech"

	"verifharness/core"
	"verifharness/gen"
	"verifharness/zoneh"
)

func init() {
	register(core.Campaign{
		Property: "C17",
		Rule: "real Dialer with a recording DialFunc, resolution through a local DoH zone (hosts with HTTPS records carrying ECH on some records only, an empty ech= parameter, aliases, service targets, plain A-only hosts, comma-separated address lists, unresolvable entries) " +
			"x ALL combinations of RequireECH / PublicName / caller ECH list / caller ServerName x per-call outcome scripts over {ok, error, ECH rejection with retry configs, rejection without, repeated rejection}; MaxConcurrency 1 so that the call order is the target order. " +
			"Every DialFunc call (address, ServerName, ECH list) compared with the Lean model; Go-side: RequireECH => list non-nil on every call, caller config deep-equal before/after. distinct = (flags, zone shape, outcome script, #calls).",
		Gen: genC17,
	})
}

type dialCall struct {
	addr string
	sn   string
	ech  []byte
	late bool // started under an already cancelled context (after the outcome was decided)
}

type fakeTLS struct{ addr string }

func genC17(env *core.Env, emit func(core.Case)) {
	r := env.Rng
	srv := zoneh.NewServer(env.Seed + 17)
	defer srv.Close()
	listA := gen.RandBytes(r, 40)
	listB := gen.RandBytes(r, 50)
	callerList := gen.RandBytes(r, 45)
	retry1 := gen.RandBytes(r, 60)
	retry2 := gen.RandBytes(r, 61)
	a4 := func(last byte) zoneh.Ans { return zoneh.Ans{Type: 1, TTL: 60, IP: []byte{10, 9, 0, last}} }
	// zone shapes
	zones := map[string]zoneh.Universe{}
	mk := func(name string, https []zoneh.Ans, addrs ...zoneh.Ans) {
		u := zones["z"]
		for i := range https {
			https[i].Owner = name
			https[i].Type = 65
			https[i].TTL = 60
		}
		if len(https) > 0 {
			u[zoneh.Key{Name: name, Type: 65}] = zoneh.Resp{Answers: https}
		}
		for i := range addrs {
			addrs[i].Owner = name
		}
		u[zoneh.Key{Name: name, Type: 1}] = zoneh.Resp{Answers: addrs}
		u[zoneh.Key{Name: name, Type: 28}] = zoneh.Resp{}
	}
	zones["z"] = zoneh.Universe{}
	mk("plain.example", nil, a4(1), a4(2))
	mk("ech.example", []zoneh.Ans{{HTTPS: &zoneh.HTTPS{Priority: 1, ECH: listA, ALPN: []string{"h2"}}}}, a4(3))
	mk("mixed.example", []zoneh.Ans{{HTTPS: &zoneh.HTTPS{Priority: 1, ECH: listA, V4: nil}}, {HTTPS: &zoneh.HTTPS{Priority: 2, Target: "svc.example", ECH: nil}}, {HTTPS: &zoneh.HTTPS{Priority: 3, Port: 8443, ECH: listB}}}, a4(4), a4(5))
	mk("svc.example", nil, a4(6))
	mk("emptyech.example", []zoneh.Ans{{HTTPS: &zoneh.HTTPS{Priority: 1, ECH: []byte{}}}}, a4(7))
	mk("alias.example", []zoneh.Ans{{HTTPS: &zoneh.HTTPS{Priority: 0, Target: "ech.example"}}}, a4(8))
	srv.Set(zones["z"])
	hosts := []string{"plain.example:443", "ech.example:443", "mixed.example:443", "emptyech.example:443", "alias.example:443", "missing.example:443",
		"plain.example:443,ech.example:443", "missing.example:443,mixed.example:443", "10.9.9.9:443"}
	outcomeScripts := [][]string{{"ok"}, {"err", "ok"}, {"err", "err", "err", "err", "err", "err"}, {"rej:1", "ok"}, {"rej:1", "rej:2", "ok"}, {"rej:-", "ok"}, {"rej:1", "err", "ok"}, {"err", "rej:1", "ok"}, {"rej:1", "rej:2", "rej:1", "ok"}}
	idx := 0
	for _, addr := range hosts {
		for flags := 0; flags < 16; flags++ {
			for si, script := range outcomeScripts {
				if !env.Thorough() && (idx+flags+si)%3 != 0 && si > 1 {
					idx++
					continue
				}
				idx++
				requireECH := flags&1 != 0
				usePN := flags&2 != 0
				callerECH := flags&4 != 0
				callerSN := flags&8 != 0
				resolver, err := ech.NewResolver(srv.URL())
				if err != nil {
					panic(err)
				}
				var mu sync.Mutex
				var calls []dialCall
				si2 := 0
				var cur []string
				won := false // an attempt has succeeded: what the worker still starts before Dial's cancel() lands is a late attempt too
				d := &ech.Dialer[*fakeTLS]{RequireECH: requireECH, Resolver: resolver, MaxConcurrency: 1, ConcurrencyDelay: time.Millisecond, Timeout: 5 * time.Second}
				if usePN {
					d.PublicName = "public.example"
				}
				d.DialFunc = func(ctx context.Context, network, a string, tc *tls.Config) (*fakeTLS, error) {
					mu.Lock()
					defer mu.Unlock()
					if ctx.Err() != nil || won {
						calls = append(calls, dialCall{a, tc.ServerName, tc.EncryptedClientHelloConfigList, true})
						if ctx.Err() != nil {
							return nil, ctx.Err()
						}
						return nil, errors.New("scripted dial error (late attempt)")
					}
					calls = append(calls, dialCall{a, tc.ServerName, tc.EncryptedClientHelloConfigList, false})
					o := "err"
					if si2 < len(cur) {
						o = cur[si2]
					}
					si2++
					switch o {
					case "ok":
						won = true
						return &fakeTLS{a}, nil
					case "rej:1":
						return nil, fmt.Errorf("wrapped: %w", &tls.ECHRejectionError{RetryConfigList: retry1})
					case "rej:2":
						return nil, &tls.ECHRejectionError{RetryConfigList: retry2}
					case "rej:-":
						return nil, &tls.ECHRejectionError{}
					}
					return nil, errors.New("scripted dial error")
				}
				// a Dialer is used for many connections: what one Dial call learnt from a server (a retry list, an
				// error) is not what the next call's HTTPS records say
				rounds := [][]string{script}
				if si%2 == 1 || si == 4 {
					rounds = append(rounds, []string{"ok"}, []string{"err", "ok"})
				}
				for round, cur0 := range rounds {
					mu.Lock()
					cur, calls, si2, won = cur0, nil, 0, false
					mu.Unlock()
					rtag := ""
					if round > 0 {
						rtag = fmt.Sprintf("/again%d", round)
					}
					var tc *tls.Config
					if callerECH || callerSN {
						tc = &tls.Config{NextProtos: [][]string{{"h2"}, {"h3", "h2", "http/1.1"}, {"http/1.1", "h2"}}[(flags+si)%3]}
						if callerECH {
							tc.EncryptedClientHelloConfigList = bytes.Clone(callerList)
						}
						if callerSN {
							tc.ServerName = "caller-sni.example"
						}
					}
					var before string
					if tc != nil {
						before = fmt.Sprintf("%q %x %q", tc.ServerName, tc.EncryptedClientHelloConfigList, tc.NextProtos)
					}
					conn, derr := d.Dial(context.Background(), "tcp", addr, tc)
					// the model's inputs: targets as Dial derives them
					var tt []string
					for _, a := range strings.Split(addr, ",") {
						a = strings.TrimSpace(a)
						host, _, err := net.SplitHostPort(a)
						if err != nil {
							host = a
						}
						res, err := resolver.Resolve(context.Background(), a)
						if err != nil {
							tt = append(tt, fmt.Sprintf("%s,-,nil,1", hs2(host)))
							continue
						}
						for t := range res.Targets("tcp") {
							tt = append(tt, fmt.Sprintf("%s,%s,%s,0", hs2(host), hs2(t.Address.String()), echText(t.ECH)))
						}
					}
					echTok := func(b []byte) string {
						switch {
						case b == nil:
							return "nil"
						case bytes.Equal(b, callerList) || bytes.Equal(b, listA) || bytes.Equal(b, listB) || bytes.Equal(b, retry1) || bytes.Equal(b, retry2) || len(b) == 0:
							return core.Hex(b)
						}
						if specs, err := ech.ParseConfigList(b); err == nil && len(specs) == 1 && string(specs[0].PublicName) == d.PublicName && d.PublicName != "" {
							return "boot"
						}
						return core.Hex(b)
					}
					var ct []string
					w := ""
					mu.Lock()
					callsNow := append([]dialCall{}, calls...)
					mu.Unlock()
					for _, c := range callsNow {
						if !c.late {
							ct = append(ct, fmt.Sprintf("%s,%s,%s", hs2(c.addr), hs2(c.sn), echTok(c.ech)))
						}
						if (bytes.Equal(c.ech, retry1) && !slices.Contains(cur[:min(len(cur), len(callsNow))], "rej:1")) || (bytes.Equal(c.ech, retry2) && !slices.Contains(cur[:min(len(cur), len(callsNow))], "rej:2")) {
							w = "an attempt was made with a retry config list that no server answer of this Dial call contained (" + c.addr + ")"
						}
						if requireECH && c.ech == nil {
							w = "RequireECH is set but DialFunc was called without an ECH config list (" + c.addr + ")"
						}
						if callerSN && c.sn != "caller-sni.example" {
							w = "caller's ServerName replaced by " + c.sn
						}
						if !callerSN {
							ok := false
							for _, a := range strings.Split(addr, ",") {
								h, _, _ := net.SplitHostPort(a)
								if c.sn == h {
									ok = true
								}
							}
							if !ok {
								w = "TLS server name " + c.sn + " is not a host the caller named"
							}
						}
					}
					if tc != nil {
						if after := fmt.Sprintf("%q %x %q", tc.ServerName, tc.EncryptedClientHelloConfigList, tc.NextProtos); after != before {
							w = "the caller's tls.Config was mutated: " + before + " -> " + after
						}
					}
					result := "fail"
					if derr == nil && conn != nil {
						result = hs2(conn.addr)
					}
					cech := "nil"
					if callerECH {
						cech = core.Hex(callerList)
					}
					sn := "-"
					if callerSN {
						sn = hs2("caller-sni.example")
					}
					pn := "-"
					if usePN {
						pn = hs2("public.example")
					}
					var outs []string
					for _, o := range cur {
						switch o {
						case "rej:1":
							outs = append(outs, "rej:"+core.Hex(retry1))
						case "rej:2":
							outs = append(outs, "rej:"+core.Hex(retry2))
						default:
							outs = append(outs, o)
						}
					}
					ops := []core.Op{{Line: fmt.Sprintf("dial-cfg %d %s %s %s %s %s", b01(requireECH), pn, sn, cech, semi(tt), strings.Join(outs, ",")), Kind: 'M',
						Want: fmt.Sprintf("calls=%s result=%s", semi(ct), result), Note: "Dial(" + addr + ")" + rtag},
						{Kind: 'X', Note: "RequireECH => ECH list on every attempt; caller's ServerName/list never replaced; server name is a host the caller named; caller config not mutated", Want: w}}
					sig := fmt.Sprintf("%s/f%d/s%d/c%d/%s", addr, flags, si, len(calls), result[:min(4, len(result))])
					emit(core.Case{Name: fmt.Sprintf("dial/%d%s", idx, rtag), Stream: "dialcfg" + rtag, Ops: ops, Key: fmt.Sprintf("%s/f%d/s%d%s", addr, flags, si, rtag), Sig: sig + rtag,
						Sample: map[string]any{"addr": addr, "require_ech": requireECH, "public_name": usePN, "caller_ech": callerECH, "caller_sni": callerSN, "script": cur, "round": round, "calls": len(calls), "result": result != "fail"}})
					env.Count(fmt.Sprintf("calls%d", min(len(calls), 4)))
				}
			}
		}
	}
	// the same Dialer reached through ech.Transport (which hands it an already resolved, filtered result):
	// the list used for an address is still the one of the HTTPS record that produced the address
	for _, requireECH := range []bool{false, true} {
		for _, host := range []string{"ech.example", "mixed.example", "plain.example", "emptyech.example"} {
			idx++
			resolver, err := ech.NewResolver(srv.URL())
			if err != nil {
				panic(err)
			}
			type tcall struct {
				addr string
				sn   string
				ech  []byte
			}
			var mu sync.Mutex
			var calls []tcall
			tr := ech.NewTransport()
			tr.Resolver = resolver
			if host == "mixed.example" || host == "plain.example" {
				// the application installs a Dialer of its own (the field is exported for that) instead of
				// adjusting the one NewTransport put there
				tr.Dialer = &ech.Dialer[*tls.Conn]{}
			}
			tr.Dialer.RequireECH = requireECH
			tr.Dialer.MaxConcurrency = 1
			tr.Dialer.ConcurrencyDelay = time.Millisecond
			tr.Dialer.DialFunc = func(ctx context.Context, network, a string, tc *tls.Config) (*tls.Conn, error) {
				mu.Lock()
				calls = append(calls, tcall{a, tc.ServerName, bytes.Clone(tc.EncryptedClientHelloConfigList)})
				mu.Unlock()
				return nil, errors.New("scripted dial error")
			}
			req, _ := http.NewRequest("GET", "https://"+host+"/", nil)
			if requireECH {
				// a Host header of the caller's choosing (domain fronting, a reverse proxy): it is what is sent
				// as the authority, not what is dialled or authenticated
				req.Host = "front.example"
			}
			resp, rerr := tr.RoundTrip(req)
			if resp != nil {
				resp.Body.Close()
			}
			// which list belongs to which address (the zone above)
			want := map[string][]byte{"10.9.0.3:443": listA, "10.9.0.4:443": listA, "10.9.0.5:443": listA, "10.9.0.4:8443": listB, "10.9.0.5:8443": listB}
			w := ""
			var ct []string
			for _, c := range calls {
				ct = append(ct, fmt.Sprintf("%s/%x", c.addr, c.ech))
				if l, ok := want[c.addr]; ok && !bytes.Equal(c.ech, l) && w == "" {
					w = fmt.Sprintf("attempt to %s made with ECH config list %x, the HTTPS record that produced the address has %x", c.addr, c.ech, l)
				}
				if requireECH && len(c.ech) == 0 && c.ech == nil && w == "" {
					w = "RequireECH is set but DialFunc was called without an ECH config list (" + c.addr + ")"
				}
				if c.sn != host && w == "" {
					w = "TLS server name " + c.sn + " is not the URL's host " + host
				}
			}
			if host == "plain.example" && requireECH && len(calls) > 0 && w == "" {
				w = fmt.Sprintf("RequireECH is set on the Transport's Dialer, %s publishes no ECH config, and yet %d attempts were made", host, len(calls))
			}
			if (host == "ech.example" || host == "mixed.example") && len(calls) == 0 && w == "" {
				w = fmt.Sprintf("no attempt was made for %s (error: %v)", host, rerr)
			}
			emit(core.Case{Name: fmt.Sprintf("via-transport/%d", idx), Stream: "via-transport", Key: fmt.Sprintf("via-transport/%s/%v", host, requireECH),
				Sig:    fmt.Sprintf("via-transport/%s/%v/%d", host, requireECH, len(calls)),
				Ops:    []core.Op{{Kind: 'X', Note: "through Transport: the ECH list of an attempt is the one of the HTTPS record that produced its address; RequireECH respected; server name = URL host", Want: w}},
				Sample: map[string]any{"host": host, "require_ech": requireECH, "calls": ct}})
			env.Count("via-transport")
		}
	}
	env.Exhaustive("all 16 combinations of RequireECH / PublicName / caller list / caller ServerName for every address form and zone shape (outcome scripts: all in the thorough tier, a third in the quick tier)")
}

func b01(b bool) int {
	if b {
		return 1
	}
	return 0
}
