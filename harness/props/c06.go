package props

import (
	"bytes"
	"fmt"
	"math/rand/v2"
	"slices"

	"github.com/c2FmZQ/ech"

	"verifharness/connh"
	"verifharness/core"
	"verifharness/gen"
)

func init() {
	register(core.Campaign{
		Property: "C06",
		Rule: "EXHAUSTIVE enumeration of all histories up to length L (quick 3, thorough 4) over the alphabet {client: good second hello, second hello without ECH / wrong config id / wrong suite / non-empty enc / corrupted payload / inner SNI changed / inner ALPN changed, " +
			"change_cipher_spec, other handshake message, application data; backend: ServerHello, HelloRetryRequest, change_cipher_spec, application data} after an accepted first hello and after a passed-through one. " +
			"Every Read result, error class, alert and close is compared with the model and with a Go reference monitor of the C06 rules. distinct = (first hello kind, event sequence).",
		Gen: genC06,
	})
}

type c06ctx struct {
	keys   []ech.Key
	first  []byte            // first hello record
	want1  []byte            // what the backend must receive for it
	second map[string][]byte // client hello2 variants sealed under this context
	inner2 map[string][]byte // expected reconstructed record for the acceptable variants
}

func genC06(env *core.Env, emit func(core.Case)) {
	r := env.Rng
	L := env.Pick(3, 4)
	key := gen.NewKey(r, 0x42, "public.example", gen.AllSuites)
	suite := gen.AllSuites[r.IntN(3)]
	o := gen.PlanOpts{NOuterOpaque: 2, NInnerOpaque: 1, MaxExtLen: 20, Padding: 4, SIDLen: 32, RefMask: 3, MarkerPos: 1, InnerName: "inner.example", ALPN: []string{"h2", "http/1.1"}, PublicName: "public.example"}
	plan := gen.Plan(r, o)
	// three sender contexts: G (good + derived ill-formed ones), M (inner SNI changed), A (inner ALPN changed)
	mk := func(kind string) *c06ctx {
		c := &c06ctx{keys: echKeys(key), second: map[string][]byte{}, inner2: map[string][]byte{}}
		s1 := gen.Seal(plan.OuterBase, 1, key, suite, plan.Enc.Body(), nil, 0x0301)
		c.first = s1.Rec
		c.want1 = plan.Expected(s1.Outer, 0x0303)
		p2 := *plan
		e2 := *plan.Enc
		e2.Random = gen.RandBytes(r, 32)
		e2.Exts = slices.Clone(e2.Exts)
		switch kind {
		case "M":
			for i, e := range e2.Exts {
				if e.Type == 0 {
					e2.Exts[i] = gen.SNI("changed.example")
				}
			}
		case "A":
			for i, e := range e2.Exts {
				if e.Type == 16 {
					e2.Exts[i] = gen.ALPN("h2")
				}
			}
		}
		p2.Enc = &e2
		base2 := plan.OuterBase
		switch kind {
		case "P": // the retried outer hello no longer names the config's public name
			b := *plan.OuterBase
			b.Exts = slices.Clone(b.Exts)
			for i, e := range b.Exts {
				if e.Type == 0 {
					b.Exts[i] = gen.SNI("elsewhere.example")
				}
			}
			base2 = &b
		case "V": // the retried outer hello no longer offers TLS 1.3
			b := *plan.OuterBase
			b.Exts = slices.Clone(b.Exts)
			for i, e := range b.Exts {
				if e.Type == 43 {
					b.Exts[i] = gen.Versions(0x0303, 0x0302)
				}
			}
			base2 = &b
		}
		s2 := gen.Seal(base2, 1, key, suite, e2.Body(), s1.Sender, 0x0303)
		c.second[kind] = s2.Rec
		c.inner2[kind] = p2.Expected(s2.Outer, 0x0303)
		if kind == "G" {
			edit := func(f func(e *gen.ECHOuter)) []byte {
				h, _, _ := gen.ParseRecord(s2.Rec)
				e, i := gen.FindECH(h)
				f(e)
				h.Exts[i] = gen.Ext{Type: 0xfe0d, Data: e.Data()}
				return h.Record(0x0303)
			}
			c.second["I"] = edit(func(e *gen.ECHOuter) { e.ConfigID++ })
			c.second["S"] = edit(func(e *gen.ECHOuter) { e.AEAD = e.AEAD%3 + 1 })
			c.second["E"] = edit(func(e *gen.ECHOuter) { e.Enc = gen.RandBytes(r, 32) })
			c.second["B"] = edit(func(e *gen.ECHOuter) { e.Payload = slices.Clone(e.Payload); e.Payload[len(e.Payload)/2] ^= 0x40 })
			h, _, _ := gen.ParseRecord(s2.Rec)
			_, i := gen.FindECH(h)
			h.Exts = slices.Delete(h.Exts, i, i+1)
			c.second["N"] = h.Record(0x0303)
		}
		return c
	}
	ctxG, ctxM, ctxA := mk("G"), mk("M"), mk("A")
	ctxP, ctxV := mk("P"), mk("V")
	plainHello := func() *c06ctx {
		h := gen.BaseHello(r)
		h.Version = 0x0303
		h.Exts = []gen.Ext{gen.SNI("plain.example"), gen.Versions(0x0304), gen.ALPN("h2")}
		rec := h.Record(0x0301)
		return &c06ctx{keys: echKeys(key), first: rec, want1: h.Record(0x0303)}
	}()
	clientEv := []string{"G", "N", "I", "S", "E", "B", "M", "A", "P", "V", "c", "h", "d"}
	backendEv := []string{"SH", "HRR", "ccs", "data"}
	all := append(slices.Clone(clientEv), backendEv...)
	classOf := map[string]string{"N": "missing", "I": "illegal", "S": "illegal", "E": "illegal", "B": "decrypt", "M": "illegal", "A": "illegal", "P": "illegal", "V": "illegal"}
	sid := plan.OuterBase.SID
	backendRec := map[string][]byte{"SH": gen.ServerHelloRecord(r, false, sid), "HRR": gen.ServerHelloRecord(r, true, sid),
		"ccs": gen.Record(20, 0x0303, []byte{1}), "data": gen.Record(23, 0x0303, gen.RandBytes(r, 40))}
	clientPlain := map[string][]byte{"c": gen.Record(20, 0x0303, []byte{1}), "h": gen.Record(22, 0x0303, gen.Cat([]byte{11}, gen.RandBytes(r, 30))), "d": gen.Record(23, 0x0303, gen.RandBytes(r, 50))}

	runHistory := func(hist []string, accepted bool) {
		ctx := ctxG
		if !accepted {
			ctx = plainHello
		} else {
			for _, e := range hist {
				if e == "M" {
					ctx = ctxM
					break
				}
				if e == "A" {
					ctx = ctxA
					break
				}
				if e == "P" {
					ctx = ctxP
					break
				}
				if e == "V" {
					ctx = ctxV
					break
				}
				if e == "G" || e == "B" {
					break
				}
			}
		}
		recOf := func(e string) ([]byte, *c06ctx) {
			if b, ok := clientPlain[e]; ok {
				return b, nil
			}
			switch e {
			case "M":
				return ctxM.second["M"], ctxM
			case "A":
				return ctxA.second["A"], ctxA
			case "P":
				return ctxP.second["P"], ctxP
			case "V":
				return ctxV.second["V"], ctxV
			}
			return ctxG.second[e], ctxG
		}
		s := connh.NewSess(ctx.keys)
		if accepted {
			s.Register(ctx.first)
			for _, e := range hist {
				if b, c := recOf(e); c != nil && (e == "G" || e == "B" || e == "M" || e == "A" || e == "P" || e == "V") {
					_ = c
					s.Register(b)
				}
			}
		}
		res := s.New(oneChunk(ctx.first), "eof")
		w := ""
		if res.Err != "-" || res.Accepted != accepted {
			w = fmt.Sprintf("first hello: err=%s accepted=%v", res.Err, res.Accepted)
		}
		first := s.Read(70000)
		if w == "" && !bytes.Equal(first.Data, ctx.want1) {
			w = "first hello not delivered as expected"
		}
		// reference monitor of the C06 rules
		armed, readInspect, writeInspect := false, accepted, accepted
		dead := false
		outcome := ""
		var preRead *connh.IORes // result of a Read that was pending while the previous backend record was written
		pendingMode := r.IntN(2) == 0
		duringMode := r.IntN(2) == 0 // the client answers while the Write is still in progress
		for hi, e := range hist {
			if dead {
				break
			}
			if slices.Contains(backendEv, e) {
				rec := backendRec[e]
				var wr connh.IORes
				if pendingMode && hi+1 < len(hist) && !slices.Contains(backendEv, hist[hi+1]) {
					// the relay's other goroutine is already blocked in Read when this record is written
					nrec, _ := recOf(hist[hi+1])
					var rd connh.IORes
					if duringMode {
						wr, rd = s.WriteAnsweredDuring(70000, rec, [][]byte{nrec}, "eof")
						env.Count("client-answers-during-backend-write/" + e)
					} else {
						wr, rd = s.WriteWhileReadPending(70000, rec, [][]byte{nrec}, "eof")
						env.Count("read-pending-during-backend-write/" + e)
					}
					preRead = &rd
				} else {
					wr = s.Write(rec)
				}
				if w == "" && (wr.Err != "-" || !bytes.Equal(wr.Out, rec)) {
					w = fmt.Sprintf("backend record %s not forwarded unchanged (err=%s)", e, wr.Err)
				}
				if writeInspect {
					switch e {
					case "data":
						writeInspect = false
					case "HRR":
						armed = true
						writeInspect = false
					}
				}
				outcome += e + ","
				continue
			}
			rec, rctx := recOf(e)
			var rd connh.IORes
			if preRead != nil {
				rd = *preRead
				preRead = nil
			} else {
				s.Feed([][]byte{rec}, "eof")
				rd = s.Read(70000)
			}
			isHello2 := rctx != nil
			switch {
			case readInspect && isHello2 && armed:
				readInspect = false
				cls := classOf[e]
				if (e == "G" || e == "B" || e == "M" || e == "A" || e == "P") && rctx != ctx { // V is refused before any decryption
					cls = "decrypt"
				}
				if cls == "" { // acceptable second hello
					if w == "" && (rd.Err != "-" || !bytes.Equal(rd.Data, rctx.inner2[e])) {
						w = fmt.Sprintf("retried hello %s not replaced by its reconstructed inner hello (err=%s)", e, rd.Err)
					}
					outcome += e + "=replaced,"
				} else {
					wantAlert := []byte{0x15, 3, 3, 0, 2, 2, alertOf[cls]}
					if w == "" && (rd.Err != cls || len(rd.Data) != 0) {
						w = fmt.Sprintf("retried hello %s: error %s (data %d bytes), want %s", e, rd.Err, len(rd.Data), cls)
					} else if w == "" && (!bytes.Equal(rd.Out, wantAlert) || !rd.Closed) {
						w = fmt.Sprintf("retried hello %s: client received %x closed=%v, want alert %x and close", e, rd.Out, rd.Closed, wantAlert)
					}
					outcome += e + "=" + cls + ","
					dead = true
				}
			default:
				if readInspect && e == "d" {
					readInspect = false
				}
				if w == "" && (rd.Err != "-" || !bytes.Equal(rd.Data, rec)) {
					w = fmt.Sprintf("client record %s must be delivered unchanged (armed=%v inspect=%v) but got err=%s, %d bytes", e, armed, readInspect, rd.Err, len(rd.Data))
				}
				outcome += e + ","
			}
		}
		s.X("C06 monitor: only a HelloRetryRequest re-arms ECH processing; retry rules and alerts; at most one retry; identity after application data", w)
		name := fmt.Sprintf("acc%v/%v", accepted, hist)
		emit(core.Case{Name: name, Stream: fmt.Sprintf("histories-acc%v", accepted), Ops: s.Ops, Key: name, Sig: name + "/" + outcome,
			Sample: map[string]any{"first_hello_accepted": accepted, "history": hist, "outcome": outcome}})
		env.Count(fmt.Sprintf("len%d", len(hist)))
	}
	var rec func(cur []string)
	rec = func(cur []string) {
		runHistory(slices.Clone(cur), true)
		if len(cur) <= 2 || env.Thorough() && len(cur) <= 3 {
			runHistory(slices.Clone(cur), false)
		}
		if len(cur) == L {
			return
		}
		for _, e := range all {
			rec(append(cur, e))
		}
	}
	rec(nil)
	env.Exhaustive(fmt.Sprintf("all histories of length <= %d over a 15-letter alphabet after an accepted first hello (and <= %d after a passed-through one)", L, min(L, 3)))
	// the retry rules again with what real deployments add: several held keys sharing the config id
	// (another public name first), and the client's compatibility change_cipher_spec before its second hello
	idx := 0
	for rep := 0; rep < env.Pick(6, 60); rep++ {
		for _, rc := range retryCases(r) {
			idx++
			s, first, rd := runRetryCase(rc, 70000)
			w := ""
			switch {
			case first.Err != "-" || !first.Accepted:
				w = "first hello of the retry history not accepted: " + first.Err
			case rc.Class == "" && (rd.Err != "-" || len(rd.Data) == 0):
				w = fmt.Sprintf("well-formed retried hello not replaced by its inner hello: err=%s, %d bytes (%d keys, ccs=%v)", rd.Err, len(rd.Data), len(rc.Keys), rc.CCS)
			case rc.Class != "" && rd.Err != rc.Class:
				w = fmt.Sprintf("retried hello %s: error class %s, want %s (%d keys, ccs=%v)", rc.Kind, rd.Err, rc.Class, len(rc.Keys), rc.CCS)
			case rc.Class != "" && len(rd.Data) != 0:
				w = "bytes of an ill-formed retried hello were delivered to the backend"
			}
			s.X("retry rules with several same-id keys / with the compatibility change_cipher_spec", w)
			emit(core.Case{Name: fmt.Sprintf("retrycase-%s/%d", rc.Kind, idx), Stream: "retry-cases", Ops: s.Ops, Key: "retrycase-" + rc.Kind,
				Sig: fmt.Sprintf("retrycase-%s/keys%d/ccs%v/%s", rc.Kind, len(rc.Keys), rc.CCS, rd.Err), Sample: map[string]any{"kind": rc.Kind, "keys": len(rc.Keys), "ccs": rc.CCS, "outcome": rd.Err}})
			env.Count(fmt.Sprintf("retry-cases/keys%d/ccs%v", len(rc.Keys), rc.CCS))
		}
	}
}

// retryCase is one "hello, HelloRetryRequest, second hello" history with an ill-formed (or, kind G,
// well-formed) second hello; used by the C04 and C08 campaigns as well.
type retryCase struct {
	Kind   string // G good | P outer SNI changed | V outer without TLS 1.3 | N no ECH ext | I config id | S suite | E enc | B corrupted payload | M inner SNI | A inner ALPN
	Class  string // "" (accepted) | illegal | missing | decrypt
	Keys   []ech.Key
	First  []byte
	HRR    []byte
	Second []byte
	CCS    bool   // the client sends its compatibility change_cipher_spec before the second hello (RFC 8446 D.4)
	SNI    string // server name and ALPN list of the first inner hello
	ALPN   []string
	Mode   string // seq: the relay writes the HelloRetryRequest, then reads | pending: its Read is already blocked when the HRR is written | during: the client answers while the HRR's Write is still in progress
	Split  int    // seq only: the HRR reaches Write in two pieces cut here (0: whole)
}

func retryCases(r *rand.Rand) []retryCase {
	key := gen.NewKey(r, uint8(r.IntN(256)), "public.example", gen.AllSuites)
	suite := gen.AllSuites[r.IntN(3)]
	// the inner ALPN list in the client's order of preference, which need not be any sorted order
	alpn := [][]string{{"h2", "http/1.1"}, {"http/1.1", "h2"}, {"spdy/3", "h2", "acme-tls/1"}, {"h3", "h2", "http/1.1"}}[r.IntN(4)]
	o := gen.PlanOpts{NOuterOpaque: 2, NInnerOpaque: 1, MaxExtLen: 20, Padding: 4, SIDLen: 32, RefMask: uint64(r.IntN(4)), MarkerPos: r.IntN(3), InnerName: "inner.example", ALPN: alpn, PublicName: "public.example", RefOuterALPN: r.IntN(2) == 0}
	plan := gen.Plan(r, o)
	hrr := gen.ServerHelloRecord(r, true, plan.OuterBase.SID)
	var out []retryCase
	classOf := map[string]string{"G": "", "P": "illegal", "V": "illegal", "N": "missing", "I": "illegal", "S": "illegal", "E": "illegal", "ES": "illegal", "B": "decrypt", "M": "illegal", "A": "illegal", "R": "illegal", "C": "illegal", "K": "", "Q": "illegal", "Z": "illegal", "NV": "missing", "X": ""}
	// R: the same ALPN protocols in another order; C: the inner server name in another letter case;
	// K: a well-formed second hello whose extension list legally differs from the first (RFC 8446 4.1.2:
	// a cookie is added, early_data goes, padding changes, key_share is replaced)
	// Q / Z: the second ClientHelloOuter has no server_name extension / an empty host name
	// NV: no ECH extension and no TLS 1.3 either (a client falling back to a legacy hello): still the
	// missing extension is what is wrong with it; X: a well-formed second hello whose OUTER extensions the
	// inner one refers to have changed (new key_share): the second outer hello is the one that counts
	// ES: the second hello repeats the FIRST hello's enc (a stack that copies the extension and refreshes the
	// payload), everything else authentic, the AAD covering that enc
	for _, kind := range []string{"G", "P", "V", "N", "I", "S", "E", "B", "M", "A", "R", "C", "K", "Q", "Z", "NV", "X", "ES"} {
		s1 := gen.Seal(plan.OuterBase, 1, key, suite, plan.Enc.Body(), nil, 0x0301)
		e2 := *plan.Enc
		e2.Random = gen.RandBytes(r, 32)
		e2.Exts = slices.Clone(e2.Exts)
		base2 := *plan.OuterBase
		base2.Exts = slices.Clone(base2.Exts)
		switch kind {
		case "M":
			for i, e := range e2.Exts {
				if e.Type == 0 {
					e2.Exts[i] = gen.SNI("changed.example")
				}
			}
		case "A", "R":
			// the inner ALPN list changes - in the inner hello itself, or, when it is carried by reference,
			// in the outer extension the reference resolves to
			repl := gen.ALPN("h2")
			if kind == "R" {
				rev := slices.Clone(alpn)
				slices.Reverse(rev)
				repl = gen.ALPN(rev...)
			}
			own := false
			for i, e := range e2.Exts {
				if e.Type == 16 {
					e2.Exts[i] = repl
					own = true
				}
			}
			if !own {
				for i, e := range base2.Exts {
					if e.Type == 16 {
						base2.Exts[i] = repl
					}
				}
			}
		case "C":
			for i, e := range e2.Exts {
				if e.Type == 0 {
					e2.Exts[i] = gen.SNI("INNER.example")
				}
			}
		case "K":
			e2.Exts = append(e2.Exts, gen.Ext{Type: 44, Data: gen.LP16(gen.RandBytes(r, 8+r.IntN(40)))}, gen.Ext{Type: 21, Data: make([]byte, r.IntN(30))})
		case "P":
			for i, e := range base2.Exts {
				if e.Type == 0 {
					base2.Exts[i] = gen.SNI("elsewhere.example")
				}
			}
		case "V":
			for i, e := range base2.Exts {
				if e.Type == 43 {
					base2.Exts[i] = gen.Versions(0x0303, 0x0302)
				}
			}
		case "NV":
			for i, e := range base2.Exts {
				if e.Type == 43 {
					base2.Exts[i] = gen.Versions(0x0303, 0x0302)
				}
			}
		case "X":
			for i, e := range base2.Exts {
				if e.Type != 0 && e.Type != 16 && e.Type != 43 && e.Type != 0xfe0d {
					base2.Exts[i] = gen.Ext{Type: e.Type, Data: gen.RandBytes(r, len(e.Data)+r.IntN(5))}
				}
			}
			base2.SID = gen.RandBytes(r, len(base2.SID))
		case "Q":
			base2.Exts = slices.DeleteFunc(base2.Exts, func(e gen.Ext) bool { return e.Type == 0 })
		case "Z":
			for i, e := range base2.Exts {
				if e.Type == 0 {
					base2.Exts[i] = gen.SNI("")
				}
			}
		}
		s2 := gen.Seal(&base2, 1, key, suite, e2.Body(), s1.Sender, 0x0303)
		second := s2.Rec
		if kind == "ES" {
			second = gen.SealRepeatingEnc(&base2, 1, key, suite, e2.Body(), s1.Sender, s1.Enc, 0x0303).Rec
		}
		edit := func(f func(e *gen.ECHOuter)) []byte {
			h, _, _ := gen.ParseRecord(s2.Rec)
			e, i := gen.FindECH(h)
			f(e)
			h.Exts[i] = gen.Ext{Type: 0xfe0d, Data: e.Data()}
			return h.Record(0x0303)
		}
		switch kind {
		case "I":
			second = edit(func(e *gen.ECHOuter) { e.ConfigID++ })
		case "S":
			second = edit(func(e *gen.ECHOuter) { e.AEAD = e.AEAD%3 + 1 })
		case "E":
			second = edit(func(e *gen.ECHOuter) { e.Enc = gen.RandBytes(r, 32) })
		case "B":
			second = edit(func(e *gen.ECHOuter) { e.Payload = slices.Clone(e.Payload); e.Payload[len(e.Payload)/2] ^= 0x40 })
		case "N", "NV":
			h, _, _ := gen.ParseRecord(s2.Rec)
			_, i := gen.FindECH(h)
			h.Exts = slices.Delete(h.Exts, i, i+1)
			second = h.Record(0x0303)
		}
		keys := echKeys(key)
		if r.IntN(2) == 0 {
			// another deployment's key under the same one-byte id (other public name), listed first
			keys = echKeys(gen.NewKey(r, key.ID, "elsewhere-public.example", gen.AllSuites), key)
		}
		rc := retryCase{Kind: kind, Class: classOf[kind], Keys: keys, First: s1.Rec, HRR: hrr, Second: second, CCS: r.IntN(2) == 0, SNI: "inner.example", ALPN: alpn,
			Mode: []string{"seq", "seq", "pending", "during"}[r.IntN(4)]}
		if rc.Mode == "seq" && r.IntN(3) == 0 {
			rc.Split = 1 + r.IntN(len(hrr)-1)
		}
		out = append(out, rc)
	}
	return out
}

// runRetryCase drives one retryCase through a session and reports what happened to the second hello.
func runRetryCase(rc retryCase, readSize int) (s *connh.Sess, first connh.NewRes, rd connh.IORes) {
	s = connh.NewSess(rc.Keys)
	s.Register(rc.First)
	s.Register(rc.Second)
	first = s.New(oneChunk(rc.First), "eof")
	if first.Err != "-" || !first.Accepted {
		return
	}
	s.Read(70000)
	s.Names()
	var chunks [][]byte
	if rc.CCS {
		chunks = append(chunks, gen.Record(20, 0x0303, []byte{1}))
	}
	chunks = append(chunks, rc.Second)
	switch rc.Mode {
	case "pending", "during":
		// two goroutines, as in a relay: the client's answer meets a Read that was already waiting
		// (pending), or arrives while the Write of the HelloRetryRequest has not returned yet (during)
		var rd0 connh.IORes
		if rc.Mode == "pending" {
			_, rd0 = s.WriteWhileReadPending(70000, rc.HRR, chunks, "eof")
		} else {
			_, rd0 = s.WriteAnsweredDuring(70000, rc.HRR, chunks, "eof")
		}
		if !rc.CCS {
			rd = rd0
			s.Names()
			return
		}
	default:
		if rc.Split > 0 && rc.Split < len(rc.HRR) {
			s.Write(rc.HRR[:rc.Split])
			s.Write(rc.HRR[rc.Split:])
		} else {
			s.Write(rc.HRR)
		}
		s.Feed(chunks, "eof")
		if rc.CCS {
			s.Read(70000) // the change_cipher_spec record
		}
	}
	rd = s.Read(readSize)
	s.Names() // what the Conn reports does not drift with the retry
	return
}
