package props

import (
	"context"
	"fmt"
	"io"
	"math/rand/v2"
	"net"
	"os"
	"runtime"
	"slices"
	"sync"
	"time"

	"github.com/c2FmZQ/ech"

	"verifharness/connh"
	"verifharness/core"
	"verifharness/gen"
)

func init() {
	register(core.Campaign{
		Property: "C08",
		Rule: "adversarial byte streams on both sides, with and without keys: structural hello mutations (duplicate ECH extension in every pair of positions, bytes after the ECH payload, lying lengths, zero-length records of every type, " +
			"oversized lengths), byte-level mutations (flip / insert / delete / truncate) of valid hellos and of backend flights, random bytes, each drained to the first error with several read sizes; " +
			"a stall at EVERY byte offset of the first record under a context deadline (real time, 40 ms); per-case heap growth sampled. " +
			"Predicates: no panic, no (0,nil) Read, every call returns, NewConn returns by the deadline, heap growth below 4 MiB per connection. distinct = (mutator, with keys?, outcome class).",
		Gen: genC08,
	})
}

func mutateBytes(r *rand.Rand, b []byte) []byte {
	b = slices.Clone(b)
	for k := 0; k <= r.IntN(4); k++ {
		if len(b) == 0 {
			return []byte{byte(r.IntN(256))}
		}
		p := r.IntN(len(b))
		switch r.IntN(5) {
		case 0:
			b[p] ^= 1 << uint(r.IntN(8))
		case 1:
			b[p] = byte(r.IntN(256))
		case 2:
			b = slices.Delete(b, p, min(len(b), p+1+r.IntN(4)))
		case 3:
			b = slices.Insert(b, p, gen.RandBytes(r, 1+r.IntN(4))...)
		case 4:
			b = b[:p]
		}
	}
	return b
}

func genC08(env *core.Env, emit func(core.Case)) {
	r := env.Rng
	idx := 0
	key := gen.NewKey(r, 5, "public.example", gen.AllSuites)
	validTuple := func() (*gen.InnerPlan, *gen.Sealed) {
		o := gen.PlanOpts{NOuterOpaque: 3, NInnerOpaque: 2, MaxExtLen: 30, Padding: 8, SIDLen: 32, RefMask: uint64(r.IntN(8)), MarkerPos: r.IntN(4), InnerName: "inner.example", ALPN: []string{"h2"}, PublicName: "public.example"}
		plan := gen.Plan(r, o)
		return plan, gen.Seal(plan.OuterBase, r.IntN(4), key, gen.AllSuites[r.IntN(3)], plan.Enc.Body(), nil, 0x0301)
	}
	// run one adversarial case: client stream + backend writes
	run := func(mut string, withKeys bool, client []byte, chunks [][]byte, backend [][]byte) {
		idx++
		var keys []ech.Key
		if withKeys {
			keys = echKeys(key)
		}
		s := connh.NewSess(keys)
		// register every ECH-bearing record prefix we can parse (first record only)
		if len(client) >= 5 {
			l := int(client[3])<<8 | int(client[4])
			if 5+l <= len(client) {
				s.Register(client[:5+l])
			}
		}
		var m0, m1 runtime.MemStats
		runtime.ReadMemStats(&m0)
		res := s.New(chunks, "eof")
		outcome := "new:" + res.Err
		w := ""
		if res.Err == "panic" {
			w = "NewConn panicked: " + res.Panic
		} else if res.Err == "-" {
			for _, b := range backend {
				wr := s.Write(b)
				if wr.Err == "panic" {
					w = "Write panicked: " + wr.Panic
					break
				}
				if wr.Err != "-" {
					outcome += "/write:" + wr.Err
					break
				}
			}
			if w == "" {
				d := drain(s, []int{[]int{1, 7, 4096, 70000}[r.IntN(4)]}, 300000)
				outcome += "/read:" + d.Err
				if d.Panicked != "" {
					w = "Read panicked: " + d.Panicked
				} else if d.NoProg {
					w = "Read returned (0, nil): no progress"
				} else if d.Err == "max-calls" {
					w = "Read never reached the end of the finite input"
				}
			}
		}
		runtime.ReadMemStats(&m1)
		s.X("no panic, no spinning: every call returns data or an error", w)
		emit(core.Case{Name: fmt.Sprintf("%s/%d", mut, idx), Stream: mut, Ops: s.Ops, Key: mut + "/" + outcome,
			Sig: fmt.Sprintf("%s/keys%v/%s", mut, withKeys, outcome), Sample: map[string]any{"mutator": mut, "keys": withKeys, "client_len": len(client), "outcome": outcome}})
		env.Count(mut + "/" + connh.Short(outcome))
	}
	backendFlight := func() [][]byte {
		sh := gen.ServerHelloRecord(r, r.IntN(3) == 0, gen.RandBytes(r, 32))
		fl := gen.Cat(sh, gen.Record(20, 0x0303, []byte{1}), gen.Record(23, 0x0303, gen.RandBytes(r, 60)))
		switch r.IntN(5) {
		case 0:
			return randChunks(r, fl)
		case 1:
			return randChunks(r, mutateBytes(r, fl))
		case 2:
			return [][]byte{gen.Record(22, 0x0303, nil), fl}
		case 3:
			return [][]byte{gen.Record(22, 0x0303, []byte{2}), gen.Record(22, 0x0303, []byte{2, 0, 0, 50}), fl}
		}
		return [][]byte{fl}
	}
	reps := env.Pick(1, 12)
	for rep := 0; rep < reps; rep++ {
		// duplicate ECH extension at every pair of positions (first shorter / longer than the second's payload)
		{
			_, sealed := validTuple()
			h := sealed.Outer
			n := len(h.Exts)
			for i := 0; i <= n; i++ {
				for _, variant := range []int{0, 1, 2} {
					h2 := *h
					var dup gen.Ext
					switch variant {
					case 0:
						dup = gen.Ext{Type: 0xfe0d, Data: gen.ECHOuter{KDF: 1, AEAD: 1, ConfigID: 5, Enc: nil, Payload: []byte{1}}.Data()} // short
					case 1:
						dup = gen.Ext{Type: 0xfe0d, Data: gen.ECHOuter{KDF: 1, AEAD: 1, ConfigID: 5, Enc: gen.RandBytes(r, 32), Payload: gen.RandBytes(r, 600)}.Data()}
					default:
						dup = gen.ECHInner()
					}
					h2.Exts = slices.Insert(slices.Clone(h.Exts), i, dup)
					rec := h2.Record(0x0301)
					run("dupECH", true, rec, oneChunk(rec), backendFlight())
					if i%3 == 0 {
						run("dupECH", false, rec, oneChunk(rec), backendFlight())
					}
				}
			}
		}
		// bytes after the ECH payload inside the extension
		{
			_, sealed := validTuple()
			h := *sealed.Outer
			h.Exts = slices.Clone(h.Exts)
			h.Exts[sealed.ECHIndex].Data = gen.Cat(h.Exts[sealed.ECHIndex].Data, gen.RandBytes(r, 1+r.IntN(40)))
			rec := h.Record(0x0301)
			run("echTrailing", true, rec, oneChunk(rec), backendFlight())
		}
		// zero-length / tiny records of every type, first and later
		for _, typ := range []byte{20, 21, 22, 23, 0, 99} {
			for _, l := range []int{0, 1, 3, 4} {
				rec := gen.Record(typ, 0x0303, gen.RandBytes(r, l))
				run("tinyFirst", rep%2 == 0, rec, oneChunk(rec), nil)
				_, sealed := validTuple()
				st := gen.Cat(sealed.Rec, rec, gen.Record(23, 0x0303, []byte("x")))
				run("tinyLater", true, st, randChunks(r, st), backendFlight())
			}
		}
		// oversize lengths
		for _, l := range []int{16641, 20000, 65535} {
			hdr := []byte{22, 3, 1, byte(l >> 8), byte(l)}
			st := gen.Cat(hdr, gen.RandBytes(r, 100))
			run("oversize", true, st, oneChunk(st), nil)
		}
	}
	// byte-level mutations of valid hellos and streams
	nmut := env.Pick(1500, 60000)
	for i := 0; i < nmut; i++ {
		_, sealed := validTuple()
		var client []byte
		mut := "bytemut"
		switch r.IntN(6) {
		case 0:
			client = gen.RandBytes(r, r.IntN(400))
			mut = "random"
		case 1:
			// mutate inside the hello but keep the record header consistent
			msg := mutateBytes(r, sealed.Outer.Msg())
			client = gen.Record(22, 0x0301, msg)
			mut = "msgmut"
		case 2:
			// mutate the extension block and rebuild all outer lengths
			h := *sealed.Outer
			h.Exts = slices.Clone(h.Exts)
			j := r.IntN(len(h.Exts))
			h.Exts[j].Data = mutateBytes(r, h.Exts[j].Data)
			client = h.Record(0x0301)
			mut = "extmut"
		default:
			client = mutateBytes(r, gen.Cat(sealed.Rec, gen.Record(20, 0x0303, []byte{1}), gen.Record(23, 0x0303, gen.RandBytes(r, 30))))
		}
		var chunks [][]byte
		if r.IntN(2) == 0 {
			chunks = oneChunk(client)
		} else {
			chunks = randChunks(r, client)
		}
		run(mut, r.IntN(4) != 0, client, chunks, backendFlight())
	}
	// every extension of a valid hello in every odd shape (fixed table, nothing drawn): empty, one byte short,
	// one byte long, a single byte, an odd-length list of 16-bit values, a list whose length prefix is odd
	{
		_, sealed := validTuple()
		for j := range sealed.Outer.Exts {
			d := sealed.Outer.Exts[j].Data
			shapes := [][]byte{nil, {0}, {3, 3, 4, 0}, {2, 3, 4, 0}, {0, 3, 3, 4, 0}, gen.Cat(d, []byte{0})}
			if len(d) > 0 {
				shapes = append(shapes, d[:len(d)-1], d[:1])
			}
			for _, sh := range shapes {
				for _, typ := range []uint16{sealed.Outer.Exts[j].Type, 43, 0, 16, 0xfe0d, 0xfd00} {
					h := *sealed.Outer
					h.Exts = slices.Clone(h.Exts)
					h.Exts[j] = gen.Ext{Type: typ, Data: sh}
					client := h.Record(0x0301)
					run("extshape", true, client, oneChunk(client), nil)
				}
			}
		}
	}
	// a key list in which one entry's ECHConfig does not decode (another draft version, a truncated config),
	// before and after a good key: hellos that no key opens, hellos the good key opens, hellos without ECH
	{
		_, sealed := validTuple()
		good := echKeys(key)[0]
		bad1 := ech.Key{Config: slices.Clone(good.Config), PrivateKey: good.PrivateKey}
		bad1.Config[1] = 0x0a // version 0xfe0a
		bad2 := ech.Key{Config: good.Config[:len(good.Config)-3], PrivateKey: good.PrivateKey}
		unknown := *sealed.Outer
		unknown.Exts = slices.Clone(unknown.Exts)
		if _, i := gen.FindECH(&unknown); i >= 0 {
			unknown.Exts[i] = gen.Ext{Type: 0xfe0d, Data: gen.ECHOuter{KDF: 1, AEAD: 1, ConfigID: 200, Enc: gen.RandBytes(r, 32), Payload: gen.RandBytes(r, 100)}.Data()}
		}
		for _, keys := range [][]ech.Key{{bad1, good}, {good, bad1}, {bad2, good}, {good, bad2}, {bad1}, {bad1, bad2, good}, {good, bad1, bad2}} {
			for _, client := range [][]byte{sealed.Rec, unknown.Record(0x0301), gen.Cat(sealed.Rec, gen.Record(23, 0x0303, []byte{1, 2, 3}))} {
				idx++
				s := connh.NewSess(keys)
				s.Register(sealed.Rec)
				res := s.New(oneChunk(client), "eof")
				w := ""
				if res.Err == "panic" {
					w = "NewConn panicked: " + res.Panic
				} else if res.Err == "-" {
					if d := drain(s, []int{4096}, 1000); d.Panicked != "" {
						w = "Read panicked: " + d.Panicked
					}
				}
				s.X("a key whose config does not decode is skipped: no panic whatever the hello", w)
				emit(core.Case{Name: fmt.Sprintf("badkey/%d", idx), Stream: "badkey", Ops: s.Ops, Key: "badkey/" + res.Err, Sig: "badkey/" + res.Err,
					Sample: map[string]any{"stream": "badkey", "keys": len(keys), "outcome": res.Err}})
				env.Count("badkey/" + connh.Short(res.Err))
			}
		}
	}
	// a ServerHello / HelloRetryRequest cut at every byte offset (lengths re-framed), and a TLS 1.2 style
	// ServerHello without an extensions field, written to an accepted Conn
	{
		_, sealed := validTuple()
		for _, hrr := range []bool{false, true} {
			sh := gen.ServerHelloRecord(r, hrr, sealed.Outer.SID)
			body := sh[9:] // after record header (5) and handshake header (4)
			for cut := 0; cut <= len(body); cut++ {
				if !env.Thorough() && cut%2 == 1 && cut < len(body)-4 {
					continue
				}
				msg := gen.Cat([]byte{2}, gen.U24(cut), body[:cut])
				rec := gen.Record(22, 0x0303, msg)
				run("shTruncated", true, sealed.Rec, oneChunk(sealed.Rec), [][]byte{rec, gen.Record(23, 0x0303, gen.RandBytes(r, 20))})
			}
		}
	}
	// ECH extension fields at their extremes on a FIRST hello: empty enc (legal only on a retry), empty
	// payload, one-byte enc, with a config id and suite the server holds and with unknown ones
	for rep := 0; rep < env.Pick(2, 10); rep++ {
		_, sealed := validTuple()
		for vi := 0; vi < 6; vi++ {
			h, _, _ := gen.ParseRecord(sealed.Rec)
			e, i := gen.FindECH(h)
			switch vi {
			case 0:
				e.Enc = nil
			case 1:
				e.Enc = nil
				e.ConfigID++
			case 2:
				e.Payload = nil
			case 3:
				e.Enc = e.Enc[:1]
			case 4:
				e.Enc = nil
				e.Payload = nil
			case 5:
				e.Enc = nil
				e.AEAD = e.AEAD%3 + 1
			}
			h.Exts[i] = gen.Ext{Type: 0xfe0d, Data: e.Data()}
			rec := h.Record(0x0301)
			run("echFieldExtremes", true, rec, oneChunk(rec), backendFlight())
			run("echFieldExtremes", false, rec, oneChunk(rec), backendFlight())
		}
	}
	// ... and a payload as long as a record allows: readRecord accepts record bodies up to 2^14 + 256, so
	// the ECH payload of a hello can exceed 2^14 bytes (garbage here; it is the sizes that matter)
	for rep := 0; rep < env.Pick(2, 8); rep++ {
		_, sealed := validTuple()
		h, _, _ := gen.ParseRecord(sealed.Rec)
		e, i := gen.FindECH(h)
		base := len(h.Record(0x0301)) - len(e.Payload)
		for _, total := range []int{5 + 16384, 5 + 16385, 5 + 16500, 5 + 16640, 5 + 16641} {
			if total-base < 1 {
				continue
			}
			e.Payload = gen.RandBytes(r, total-base)
			h.Exts[i] = gen.Ext{Type: 0xfe0d, Data: e.Data()}
			rec := h.Record(0x0301)
			run("echPayloadAtRecordLimit", true, rec, oneChunk(rec), backendFlight())
			run("echPayloadAtRecordLimit", true, rec, randChunks(r, rec), backendFlight())
		}
	}
	// an authentic payload under an outer hello whose server_name is missing, empty, or spelled otherwise
	for rep := 0; rep < env.Pick(3, 20); rep++ {
		for variant := 0; variant < 5; variant++ {
			// (sealed to the campaign's key, whose public name is public.example)
			o := gen.PlanOpts{NOuterOpaque: 2, NInnerOpaque: 1, MaxExtLen: 20, Padding: 4, SIDLen: 32, RefMask: 1, MarkerPos: 1, InnerName: "inner.example", ALPN: []string{"h2"}, PublicName: "public.example"}
			plan := gen.Plan(r, o)
			ob := *plan.OuterBase
			ob.Exts = slices.Clone(ob.Exts)
			switch variant {
			case 0:
				ob.Exts = slices.DeleteFunc(ob.Exts, func(e gen.Ext) bool { return e.Type == 0 })
			default:
				for i, e := range ob.Exts {
					if e.Type == 0 {
						ob.Exts[i] = gen.SNI([]string{"", "public.example.", "PUBLIC.EXAMPLE", "."}[variant-1])
					}
				}
			}
			sealed := gen.Seal(&ob, r.IntN(len(ob.Exts)+1), key, gen.AllSuites[r.IntN(3)], plan.Enc.Body(), nil, 0x0301)
			run("outerSNIShapes", true, sealed.Rec, oneChunk(sealed.Rec), backendFlight())
		}
	}
	// retried hellos of every kind (well-formed and ill-formed), drained with several read sizes
	for rep := 0; rep < env.Pick(2, 12); rep++ {
		for _, rc := range retryCases(r) {
			idx++
			s, first, rd := runRetryCase(rc, []int{1, 5, 512, 70000}[r.IntN(4)])
			outcome := first.Err + "/" + rd.Err
			w := ""
			if first.Err == "panic" || rd.Err == "panic" {
				w = "panic: " + first.Panic + rd.Panic
			}
			s.X("no call panics on a retried hello of kind "+rc.Kind, w)
			emit(core.Case{Name: fmt.Sprintf("retry-%s/%d", rc.Kind, idx), Stream: "retry", Ops: s.Ops, Key: "retry-" + rc.Kind + "/" + outcome,
				Sig: "retry-" + rc.Kind + "/" + outcome, Sample: map[string]any{"mutator": "retry-" + rc.Kind, "outcome": outcome}})
			env.Count("retry/" + rd.Err)
		}
	}
	// every interesting value of a record header's length field, in both directions, with a body shorter than,
	// equal to (where that is possible) or longer than announced: 16-bit arithmetic on the length must not wrap
	for _, accepted := range []bool{true, false} {
		for _, dir := range []string{"read", "write"} {
			idx++
			keys, rec, _, reg := c07Hello(r, accepted)
			w := ""
			var ops []core.Op
			lens := []int{0, 1, 4, 16384, 16385, 16640, 16641, 0x7ffb, 0x7fff, 0x8000, 0xfff0}
			for l := 0xfff6; l <= 0xffff; l++ {
				lens = append(lens, l)
			}
			for _, l := range lens {
				for _, ct := range []byte{22, 23, 21} {
					for _, have := range []int{0, 1, 7, l} {
						if have > 17000 || w != "" {
							continue
						}
						s := connh.NewSess(keys)
						reg(s)
						if res := s.New(oneChunk(rec), "eof"); res.Err != "-" {
							continue
						}
						data := gen.Cat([]byte{ct, 3, 3, byte(l >> 8), byte(l)}, gen.RandBytes(r, have))
						if ct == 22 && have > 4 {
							data[5], data[6], data[7], data[8] = 2, 0, 0, byte(min(have-4, 255))
						}
						var io connh.IORes
						if dir == "read" {
							s.Read(70000)
							s.Feed([][]byte{data}, "eof")
							io = s.Read(70000)
						} else {
							io = s.Write(data)
						}
						if io.Err == "panic" {
							w = fmt.Sprintf("%s panics on a record header of content type %d announcing %d bytes, followed by %d: %s", dir, ct, l, have, io.Panic)
						}
						ops = append(ops, s.Ops...)
					}
				}
			}
			ops = append(ops, core.Op{Kind: 'X', Note: "no length field makes Read or Write panic", Want: w})
			emit(core.Case{Name: fmt.Sprintf("lengthsweep-%s/%d", dir, idx), Stream: "lengthsweep", Ops: ops, Key: "lengthsweep-" + dir,
				Sig: fmt.Sprintf("lengthsweep-%s/acc%v", dir, accepted), Sample: map[string]any{"mutator": "lengthsweep-" + dir, "accepted": accepted}})
			env.Count("lengthsweep/" + dir)
		}
	}
	// every value of the first byte of a record's body and every content type, in both directions, while
	// the Conn still inspects records (ECH accepted) and after: the peers choose these bytes
	for _, accepted := range []bool{true, false} {
		for _, dir := range []string{"read", "write"} {
			idx++
			keys, rec, _, reg := c07Hello(r, accepted)
			_ = keys
			w := ""
			var ops []core.Op
			for t := 0; t < 256 && w == ""; t++ {
				for _, ct := range []byte{22, byte(t)} {
					s := connh.NewSess(keys)
					reg(s)
					if res := s.New(oneChunk(rec), "eof"); res.Err != "-" {
						continue
					}
					body := gen.Cat([]byte{byte(t)}, gen.LP24(gen.RandBytes(r, r.IntN(40))))
					if ct != 22 {
						body = gen.RandBytes(r, 1+r.IntN(8))
					}
					var io connh.IORes
					if dir == "read" {
						s.Read(70000)
						s.Feed([][]byte{gen.Record(ct, 0x0303, body), gen.Record(23, 0x0303, []byte("x"))}, "eof")
						io = s.Read(70000)
					} else {
						io = s.Write(gen.Cat(gen.Record(ct, 0x0303, body), gen.Record(23, 0x0303, []byte("x"))))
					}
					if io.Err == "panic" {
						w = fmt.Sprintf("%s panics on a record of content type %d whose body starts with byte %d: %s", dir, ct, t, io.Panic)
					}
					ops = append(ops, s.Ops...)
				}
			}
			ops = append(ops, core.Op{Kind: 'X', Note: "no record type / handshake message type makes Read or Write panic", Want: w})
			emit(core.Case{Name: fmt.Sprintf("bytesweep-%s/%d", dir, idx), Stream: "bytesweep", Ops: ops, Key: "bytesweep-" + dir,
				Sig: fmt.Sprintf("bytesweep-%s/acc%v", dir, accepted), Sample: map[string]any{"mutator": "bytesweep-" + dir, "accepted": accepted}})
			env.Count("bytesweep/" + dir)
		}
	}
	// a backend whose writes never end on a record boundary (each carries the tail of one record and the
	// first byte of the next), for megabytes: what the Conn holds stays within one record
	for _, accepted := range []bool{true, false} {
		idx++
		keys, rec, _, _ := c07Hello(r, accepted)
		sink := &discardConn{in: rec}
		w := ""
		conn, err := ech.NewConn(context.Background(), sink, ech.WithKeys(keys))
		if err != nil {
			w = "NewConn failed: " + err.Error()
		} else {
			var stream []byte
			stream = append(stream, gen.ServerHelloRecord(r, false, gen.RandBytes(r, 32))...)
			stream = append(stream, gen.Record(20, 0x0303, []byte{1})...)
			body := gen.RandBytes(r, 16000)
			for len(stream) < 6<<20 {
				stream = append(stream, gen.Record(23, 0x0303, body)...)
			}
			runtime.GC()
			var m0, m1 runtime.MemStats
			runtime.ReadMemStats(&m0)
			// cut points: one byte into each record
			pos := 0
			next := 0
			for pos < len(stream) {
				n := 5 + (int(stream[next+3])<<8 | int(stream[next+4]))
				end := min(next+n+1, len(stream)) // through the first byte of the following record
				if _, werr := conn.Write(stream[pos:end]); werr != nil {
					w = "Write failed on a legal record stream: " + werr.Error()
					break
				}
				pos = end
				next += n
				if next >= len(stream) {
					break
				}
			}
			runtime.GC()
			runtime.ReadMemStats(&m1)
			runtime.KeepAlive(stream) // (alive at both measurements: what is compared is what the Conn holds)
			if grown := int64(m1.HeapAlloc) - int64(m0.HeapAlloc); w == "" && grown > 1<<20 {
				w = fmt.Sprintf("after %d MB written in writes that never end on a record boundary the Conn still holds %d KB more than before", len(stream)>>20, grown>>10)
			}
			if w == "" && sink.out != int64(len(stream))-int64(len(stream)-pos) && sink.out < int64(pos)-16700 {
				w = fmt.Sprintf("%d bytes written, only %d forwarded", pos, sink.out)
			}
			runtime.KeepAlive(conn)
		}
		emit(core.Case{Name: fmt.Sprintf("write-balloon/%d", idx), Stream: "write-balloon", Key: "write-balloon",
			Ops: []core.Op{{Kind: 'X', Note: "write side holds at most one incomplete record, however the backend's writes are cut", Want: w}},
			Sig: fmt.Sprintf("write-balloon/acc%v", accepted), Sample: map[string]any{"mutator": "write-balloon", "accepted": accepted}})
		env.Count("write-balloon")
	}
	// stall at every byte offset of the first record under a deadline; heap growth
	{
		_, sealed := validTuple()
		rec := sealed.Rec
		type sr struct {
			off     int
			err     string
			elapsed time.Duration
		}
		results := make([]sr, len(rec)+1)
		var wg sync.WaitGroup
		sem := make(chan struct{}, 64)
		for off := 0; off <= len(rec); off++ {
			wg.Add(1)
			sem <- struct{}{}
			go func(off int) {
				defer wg.Done()
				defer func() { <-sem }()
				sc := newStallConn(rec[:off])
				ctx, cancel := context.WithTimeout(context.Background(), 40*time.Millisecond)
				defer cancel()
				t0 := time.Now()
				// under a watchdog: a NewConn that does not come back at all is closed from outside after 3 s
				// (and reported through its elapsed time); if even that does not end it, it is given up
				done := make(chan error, 1)
				go func() {
					_, err := ech.NewConn(ctx, sc, ech.WithKeys(echKeys(key)))
					done <- err
				}()
				select {
				case err := <-done:
					results[off] = sr{off, connh.ErrClass(err), time.Since(t0)}
				case <-time.After(3 * time.Second):
					sc.Close()
					select {
					case err := <-done:
						results[off] = sr{off, connh.ErrClass(err), time.Since(t0)}
					case <-time.After(2 * time.Second):
						results[off] = sr{off, "never-returned", time.Since(t0)}
					}
				}
			}(off)
		}
		wg.Wait()
		for _, x := range results {
			idx++
			w := ""
			if x.off < len(rec) {
				if x.err != "io:timeout" {
					w = fmt.Sprintf("stall at offset %d: NewConn returned %s instead of failing on the deadline", x.off, x.err)
				} else if x.elapsed > 2*time.Second {
					w = fmt.Sprintf("stall at offset %d: NewConn returned after %v (deadline 40ms)", x.off, x.elapsed)
				}
			} else if x.err != "-" {
				w = "complete hello not accepted: " + x.err
			}
			emit(core.Case{Name: fmt.Sprintf("stall/%d", x.off), Stream: "stall", Key: "stall",
				Ops: []core.Op{{Kind: 'X', Note: "NewConn returns no later than its context's deadline when the client stalls mid-record", Want: w}},
				Sig: fmt.Sprintf("stall/%s/%s", boundaryClass(x.off, len(rec)), x.err), Sample: map[string]any{"mutator": "stall", "offset": x.off, "outcome": x.err, "elapsed_ms": x.elapsed.Milliseconds()}})
			env.Count("stall/" + x.err)
		}
	}
	// amplification: an (authentically sealed) inner hello must not make NewConn build or hold much more
	// than the record that carried it, however its ech_outer_extensions list is written
	{
		bigT := uint16(0xffa0)
		otherT := uint16(0xffa1)
		for vi, refs := range [][]uint16{
			{bigT},                                // control: one reference, accepted
			repeatU16([]uint16{bigT}, 127),        // the same large extension 127 times
			repeatU16([]uint16{bigT, otherT}, 60), // two extensions alternating
			repeatU16([]uint16{otherT, bigT, bigT}, 40),
		} {
			idx++
			outer := gen.BaseHello(r)
			outer.Version = 0x0303
			outer.SID = gen.RandBytes(r, 32)
			outer.Exts = []gen.Ext{gen.SNI("public.example"), gen.Versions(0x0304, 0x0303), {Type: bigT, Data: gen.RandBytes(r, 14000)}, {Type: otherT, Data: gen.RandBytes(r, 40)}}
			inner := gen.BaseHello(r)
			inner.Version = 0x0303
			inner.SID = nil
			inner.Exts = []gen.Ext{gen.SNI("inner.example"), gen.ECHInner(), gen.Versions(0x0304), gen.OuterExtensions(refs...)}
			sealed := gen.Seal(outer, 2, key, gen.AllSuites[0], inner.Body(), nil, 0x0301)
			var m0, m1 runtime.MemStats
			runtime.GC()
			runtime.ReadMemStats(&m0)
			fc := &connh.FakeConn{Chunks: oneChunk(sealed.Rec), Fin: "eof"}
			c, err := ech.NewConn(context.Background(), fc, ech.WithKeys(echKeys(key)))
			runtime.ReadMemStats(&m1)
			alloc := m1.TotalAlloc - m0.TotalAlloc
			w := ""
			if vi == 0 && (err != nil || c == nil || !c.ECHAccepted()) {
				w = fmt.Sprintf("control hello with one large referenced extension not accepted: %v", err)
			}
			// the record is about 14.5 KB; building the inner hello, its record and the AAD stays well below 1 MiB
			if alloc > 1<<20 {
				w = fmt.Sprintf("NewConn allocated %d bytes for a %d-byte record whose ech_outer_extensions lists %d references (err=%v)", alloc, len(sealed.Rec), len(refs), err)
			}
			emit(core.Case{Name: fmt.Sprintf("amplify/%d", vi), Stream: "amplify", Key: "amplify",
				Ops: []core.Op{{Kind: 'X', Note: "memory used for one hello is bounded by a small multiple of the maximum record size", Want: w}},
				Sig: fmt.Sprintf("amplify/%d/%s", vi, connh.ErrClass(err)), Sample: map[string]any{"mutator": "amplify", "references": len(refs), "allocated": alloc, "outcome": connh.ErrClass(err)}})
			env.Count("amplify/" + connh.ErrClass(err))
		}
	}
	// memory: a connection holds at most a small multiple of the maximum record size
	{
		_, sealed := validTuple()
		big := gen.Cat(sealed.Rec)
		for i := 0; i < 40; i++ {
			big = append(big, gen.Record(22, 0x0303, gen.Cat([]byte{11}, gen.RandBytes(r, 16000)))...)
		}
		var m0, m1 runtime.MemStats
		runtime.GC()
		runtime.ReadMemStats(&m0)
		fc := &connh.FakeConn{Chunks: fixedChunks(big, 1000), Fin: "eof"}
		c, err := ech.NewConn(context.Background(), fc, ech.WithKeys(echKeys(key)))
		w := ""
		var maxHeap uint64
		if err != nil {
			w = "NewConn: " + err.Error()
		} else {
			buf := make([]byte, 100)
			for {
				_, err := c.Read(buf)
				runtime.ReadMemStats(&m1)
				if m1.HeapAlloc > m0.HeapAlloc && m1.HeapAlloc-m0.HeapAlloc > maxHeap {
					maxHeap = m1.HeapAlloc - m0.HeapAlloc
				}
				if err != nil {
					break
				}
			}
			// the stream itself (640 KB) is held by the fake transport; the Conn may add a few records
			if maxHeap > uint64(len(big))+4<<20 {
				w = fmt.Sprintf("heap grew by %d bytes while reading a %d byte stream with a 100-byte buffer", maxHeap, len(big))
			}
		}
		emit(core.Case{Name: "heap/1", Stream: "heap", Key: "heap", Ops: []core.Op{{Kind: 'X', Note: "a Conn holds at most a small multiple of the maximum record size", Want: w}},
			Sig: "heap", Sample: map[string]any{"mutator": "heap", "max_heap_growth": maxHeap}})
		env.Note(fmt.Sprintf("heap growth while draining a %d-byte stream through 100-byte reads: %d bytes", len(big), maxHeap))
	}
}

// stallConn delivers a prefix and then blocks until the deadline set on it passes.
type stallConn struct {
	mu       sync.Mutex
	data     []byte
	deadline chan struct{} // read deadline passed
	wdl      chan struct{} // write deadline passed
	once     sync.Once
	closed   chan struct{}
}

func newStallConn(prefix []byte) *stallConn {
	return &stallConn{data: slices.Clone(prefix), deadline: make(chan struct{}), wdl: make(chan struct{}), closed: make(chan struct{})}
}

func (c *stallConn) Read(b []byte) (int, error) {
	c.mu.Lock()
	if len(c.data) > 0 {
		n := copy(b, c.data)
		c.data = c.data[n:]
		c.mu.Unlock()
		return n, nil
	}
	d := c.deadline
	c.mu.Unlock()
	select {
	case <-d:
		return 0, os.ErrDeadlineExceeded
	case <-c.closed:
		return 0, net.ErrClosed
	case <-time.After(5 * time.Second):
		return 0, connh.ErrScripted
	}
}

// Write blocks like a synchronous pipe whose peer has stopped reading: until a deadline in force
// has passed, the conn is closed, or (after 5 s) the harness gives up.
func (c *stallConn) Write(b []byte) (int, error) {
	c.mu.Lock()
	d := c.wdl
	c.mu.Unlock()
	select {
	case <-d:
		return 0, os.ErrDeadlineExceeded
	case <-c.closed:
		return 0, net.ErrClosed
	case <-time.After(5 * time.Second):
		return 0, connh.ErrScripted
	}
}
func (c *stallConn) Close() error {
	c.once.Do(func() { close(c.closed) })
	return nil
}
func (c *stallConn) LocalAddr() net.Addr  { return &net.TCPAddr{} }
func (c *stallConn) RemoteAddr() net.Addr { return &net.TCPAddr{} }
func setDl(ch *chan struct{}, t time.Time) {
	passed := false
	select {
	case <-*ch:
		passed = true
	default:
	}
	if t.IsZero() {
		if passed {
			*ch = make(chan struct{}) // deadline cleared: I/O blocks again
		}
	} else if !t.After(time.Now().Add(time.Millisecond)) && !passed {
		close(*ch)
	}
}
func (c *stallConn) SetDeadline(t time.Time) error {
	c.mu.Lock()
	defer c.mu.Unlock()
	setDl(&c.deadline, t)
	setDl(&c.wdl, t)
	return nil
}
func (c *stallConn) SetReadDeadline(t time.Time) error {
	c.mu.Lock()
	defer c.mu.Unlock()
	setDl(&c.deadline, t)
	return nil
}
func (c *stallConn) SetWriteDeadline(t time.Time) error {
	c.mu.Lock()
	defer c.mu.Unlock()
	setDl(&c.wdl, t)
	return nil
}

func repeatU16(pat []uint16, n int) []uint16 {
	var out []uint16
	for i := 0; i < n; i++ {
		out = append(out, pat...)
	}
	return out
}

// discardConn hands out one buffer of client bytes, then EOF; what is written to it is counted and dropped.
type discardConn struct {
	in  []byte
	out int64
}

func (d *discardConn) Read(b []byte) (int, error) {
	if len(d.in) == 0 {
		return 0, io.EOF
	}
	n := copy(b, d.in)
	d.in = d.in[n:]
	return n, nil
}
func (d *discardConn) Write(b []byte) (int, error)        { d.out += int64(len(b)); return len(b), nil }
func (d *discardConn) Close() error                       { return nil }
func (d *discardConn) LocalAddr() net.Addr                { return &net.TCPAddr{} }
func (d *discardConn) RemoteAddr() net.Addr               { return &net.TCPAddr{} }
func (d *discardConn) SetDeadline(t time.Time) error      { return nil }
func (d *discardConn) SetReadDeadline(t time.Time) error  { return nil }
func (d *discardConn) SetWriteDeadline(t time.Time) error { return nil }
