package props

import (
	"bytes"
	"context"
	"crypto/tls"
	"errors"
	"fmt"
	"io"
	"math/rand/v2"
	"net"
	"slices"
	"strings"
	"time"

	"github.com/c2FmZQ/ech"

	"verifharness/connh"
	"verifharness/core"
	"verifharness/gen"
)

func init() {
	register(core.Campaign{
		Property: "C05",
		Rule: "foreign-encoded ClientHellos the package's own marshaller never produces: arbitrary extension types / order / contents (GREASE, empty data, up to 16 KiB), legacy versions 0x0300..0x0304, supported_versions lists TLS1.0-1.3 (+GREASE), " +
			"session ids 0..32, with no ECH / GREASE ECH / ECH naming a held config id but undecryptable / ECH for TLS<1.3, x key sets {none, unrelated id, same id} x following record streams both ways. " +
			"Lean spec op c05-spec (byte identity up to record-header version; independent sniOf/alpnOf); Go-side: crypto/tls server's ClientHelloInfo on the forwarded bytes equals Conn.ServerName/ALPNProtos. " +
			"distinct = (ech kind, key set, tls13?, size class, #exts bucket, tls-accepts?, outcome).",
		Gen: genC05,
	})
}

// tlsView feeds a ClientHello record to a crypto/tls server and returns what it extracts.
func tlsView(rec []byte) (sni string, alpn []string, ok bool) {
	c1, c2 := net.Pipe()
	defer c1.Close()
	defer c2.Close()
	stop := errors.New("stop")
	srv := tls.Server(c2, &tls.Config{GetConfigForClient: func(chi *tls.ClientHelloInfo) (*tls.Config, error) {
		sni, alpn, ok = chi.ServerName, chi.SupportedProtos, true
		return nil, stop
	}})
	go func() {
		c1.SetDeadline(time.Now().Add(2 * time.Second))
		c1.Write(rec)
		buf := make([]byte, 1024)
		for {
			if _, err := c1.Read(buf); err != nil {
				return
			}
		}
	}()
	c2.SetDeadline(time.Now().Add(2 * time.Second))
	srv.Handshake()
	return
}

func foreignHello(r *rand.Rand, echKind string, key *gen.KeyMat, tls13 bool, big bool) *gen.Hello {
	h := gen.BaseHello(r)
	used := map[uint16]bool{}
	var exts []gen.Ext
	if r.IntN(8) != 0 {
		name := hostName(r)
		if len(name) == 253 && name[0] < 'n' && !big {
			// the server_name field carries up to 65535 octets; what a DNS name may be is not this layer's business
			name += "." + strings.Repeat("x", 13+int(name[1]-'a')*40)
		}
		exts = append(exts, gen.SNI(name))
	}
	if a := alpnList(r); len(a) > 0 {
		exts = append(exts, gen.ALPN(a...))
	}
	var vs []uint16
	for i := 0; i <= r.IntN(4); i++ {
		vs = append(vs, []uint16{0x0301, 0x0302, 0x0303, 0x0a0a, 0x7f1c}[r.IntN(5)])
	}
	if tls13 {
		vs = slices.Insert(vs, r.IntN(len(vs)+1), 0x0304)
	} else {
		vs = slices.DeleteFunc(vs, func(v uint16) bool { return v >= 0x0304 })
	}
	if tls13 || r.IntN(2) == 0 {
		exts = append(exts, gen.Versions(vs...))
	}
	n := r.IntN(12)
	for i := 0; i < n; i++ {
		exts = append(exts, gen.RandomExt(r, used, 80))
	}
	if big {
		exts = append(exts, gen.Ext{Type: 0xff77, Data: gen.RandBytes(r, 2000+r.IntN(13000))})
	}
	if !used[21] && r.IntN(4) == 0 {
		// an RFC 7685 padding extension: zeros as the RFC says, or whatever a sloppy client left there
		pad := make([]byte, r.IntN(80))
		if r.IntN(2) == 0 {
			pad = gen.RandBytes(r, 1+r.IntN(80))
		}
		exts = append(exts, gen.Ext{Type: 21, Data: pad})
		used[21] = true
	}
	switch echKind {
	case "grease":
		// (enc is opaque<0..2^16-1>: an empty one is well formed, and means nothing on a first hello)
		// (an empty enc under the id of a HELD key is a different matter: that hello is ill-formed, C04)
		gid := uint8(r.IntN(256))
		for gid == key.ID || gid == key.ID+1 || gid == 200 || gid == 201 {
			gid = uint8(r.IntN(256))
		}
		exts = append(exts, gen.Ext{Type: 0xfe0d, Data: gen.ECHOuter{KDF: 1, AEAD: 1, ConfigID: gid, Enc: gen.RandBytes(r, []int{32, 32, 32, 0}[r.IntN(4)]), Payload: gen.RandBytes(r, 100+r.IntN(200))}.Data()})
	case "sameid":
		exts = append(exts, gen.Ext{Type: 0xfe0d, Data: gen.ECHOuter{KDF: 1, AEAD: uint16(1 + r.IntN(3)), ConfigID: key.ID, Enc: gen.RandBytes(r, 32), Payload: gen.RandBytes(r, 100+r.IntN(200))}.Data()})
	case "badenc":
		// names a held key's id and an offered suite, but enc is not a usable X25519 share: a stale config
		// of another KEM under the same id (65-byte P-256 point), a truncated one, a low-order point
		enc := [][]byte{gen.RandBytes(r, 65), gen.RandBytes(r, 16), make([]byte, 32), gen.RandBytes(r, 31), gen.RandBytes(r, 33), {1}}[r.IntN(6)]
		exts = append(exts, gen.Ext{Type: 0xfe0d, Data: gen.ECHOuter{KDF: 1, AEAD: uint16(1 + r.IntN(3)), ConfigID: key.ID, Enc: enc, Payload: gen.RandBytes(r, 100+r.IntN(200))}.Data()})
	case "othersuite":
		exts = append(exts, gen.Ext{Type: 0xfe0d, Data: gen.ECHOuter{KDF: uint16(2 + r.IntN(3)), AEAD: uint16(4 + r.IntN(30)), ConfigID: key.ID, Enc: gen.RandBytes(r, 32), Payload: gen.RandBytes(r, 50)}.Data()})
	}
	r.Shuffle(len(exts), func(i, j int) { exts[i], exts[j] = exts[j], exts[i] })
	h.Exts = exts
	if !tls13 && echKind == "none" {
		switch r.IntN(6) {
		case 0:
			h.Exts = nil // extensions field present, length 0
		case 1:
			h.Exts = nil
			h.NoExtField = true // pre-TLS-1.3 hello without an extensions field
		}
	}
	return h
}

func genC05(env *core.Env, emit func(core.Case)) {
	r := env.Rng
	for rep := 0; rep < 6; rep++ {
		// two pass-through connections set up one after the other, then read in turns
		ops, p := interleavedSessions(r, false)
		if ops == nil {
			continue
		}
		w := ""
		if p != "" {
			w = "Read panicked: " + p
		}
		ops = append(ops, core.Op{Kind: 'X', Note: "two connections read in turns: no panic", Want: w})
		emit(core.Case{Name: fmt.Sprintf("interleaved/%d", rep), Stream: "interleaved", Ops: ops, Key: "interleaved", Sig: fmt.Sprintf("interleaved/%d", rep),
			Sample: map[string]any{"stream": "interleaved"}})
		env.Count("interleaved")
	}
	key := gen.NewKey(r, 77, "public.example", gen.AllSuites)
	other := gen.NewKey(r, 78, "public.example", gen.AllSuites)
	n := env.Pick(2500, 60000)
	for i := 0; i < n; i++ {
		echKind := []string{"none", "none", "grease", "sameid", "othersuite", "badenc"}[r.IntN(6)]
		keyset := []string{"none", "unrelated", "sameid", "unusable"}[r.IntN(4)]
		tls13 := r.IntN(4) != 0
		big := r.IntN(12) == 0
		h := foreignHello(r, echKind, key, tls13, big)
		recVer := []uint16{0x0301, 0x0303, 0x0300, 0x0304}[r.IntN(4)]
		if big && r.IntN(2) == 0 {
			// the largest hellos one record can carry: fragment length 2^14 - {0..5}
			want := 16384 - r.IntN(6)
			for j := range h.Exts {
				if h.Exts[j].Type == 0xff77 {
					cur := len(h.Record(recVer)) - 5
					if nl := len(h.Exts[j].Data) + want - cur; nl >= 0 {
						h.Exts[j].Data = gen.RandBytes(r, nl)
					}
				}
			}
			env.Count(fmt.Sprintf("hello-fragment-length/%d", len(h.Record(recVer))-5))
		}
		rec := h.Record(recVer)
		var keys []ech.Key
		switch keyset {
		case "unrelated":
			keys = echKeys(other)
		case "sameid":
			keys = echKeys(key, other)
		case "unusable":
			// a key list shared with another TLS stack: one entry is for a KEM this package cannot load
			// (P-256), one has a private key of the wrong length. They open nothing and disturb nothing.
			// (under config ids no hello of this campaign names: a broken key that a hello does select is the
			// operator's error, and fatal)
			p256 := gen.EncodeConfigWith(200, 0x0010, gen.RandBytes(r, 65), gen.AllSuites, "public.example", 30, nil)
			short := gen.EncodeConfigWith(201, 0x20, gen.RandBytes(r, 32), gen.AllSuites, "public.example", 30, nil)
			keys = append(echKeys(other), ech.Key{Config: p256, PrivateKey: gen.RandBytes(r, 32)}, ech.Key{Config: short, PrivateKey: gen.RandBytes(r, 31)})
			if r.IntN(2) == 0 {
				keys = append([]ech.Key{keys[1]}, keys...)
			}
		}
		s := connh.NewSess(keys)
		s.Register(rec)
		follow := gen.Cat(gen.Record(20, 0x0303, []byte{1}), gen.Record(23, 0x0303, gen.RandBytes(r, 1+r.IntN(300))), gen.RandBytes(r, r.IntN(40)))
		all := gen.Cat(rec, follow)
		var chunks [][]byte
		if r.IntN(3) == 0 {
			chunks = randChunks(r, all)
		} else {
			chunks = oneChunk(all)
		}
		res := s.New(chunks, "eof")
		outcome := res.Err
		tlsOK := false
		if res.Err == "-" && !res.Accepted {
			outcome = "passthrough"
			s.Names() // ... and what the Conn reports stays what the hello says, whatever the caller did with an earlier answer
			d := drain(s, []int{[]int{3, 512, 70000}[r.IntN(3)]}, 100000)
			if len(d.Data) >= len(rec) {
				del := d.Data[:len(rec)]
				s.S(fmt.Sprintf("c05-spec %s %s %s %s", core.Hex(rec), core.Hex(del), core.Hex([]byte(res.SNI)), core.StrHexList(res.ALPN)),
					"forwarded ClientHello == client's bytes (record-header version aside); ServerName/ALPNProtos == independent reading of those bytes")
				w := ""
				if !bytes.Equal(d.Data[len(rec):], follow) {
					w = "bytes after the hello were changed"
				}
				s.X("every later client byte is forwarded unchanged", w)
				if sni, alpn, ok := tlsView(del); ok {
					tlsOK = true
					w = ""
					if sni != res.SNI {
						w = fmt.Sprintf("crypto/tls sees SNI %q, Conn.ServerName() = %q", sni, res.SNI)
					} else if !slices.Equal(alpn, res.ALPN) {
						w = fmt.Sprintf("crypto/tls sees ALPN %q, Conn.ALPNProtos() = %q", alpn, res.ALPN)
					}
					s.X("ServerName/ALPNProtos equal what crypto/tls extracts from the forwarded bytes", w)
				}
			} else {
				s.X("the hello is forwarded", fmt.Sprintf("only %d bytes delivered (err %s)", len(d.Data), d.Err))
			}
			// a relay that forwards with io.Copy (which uses WriteTo / ReadFrom when a Conn offers them)
			// moves the same bytes as one that calls Read and Write itself
			if i%4 == 0 {
				cp := make([][]byte, len(chunks))
				for j := range chunks {
					cp[j] = bytes.Clone(chunks[j])
				}
				fk := &connh.FakeConn{Chunks: cp, Fin: "eof"}
				w := ""
				if c2, err := ech.NewConn(context.Background(), fk, ech.WithKeys(keys)); err != nil {
					w = "second NewConn on the same bytes failed: " + err.Error()
				} else {
					var fwd bytes.Buffer
					if _, err := io.Copy(&fwd, c2); err != nil {
						w = "io.Copy from the Conn failed: " + err.Error()
					} else if !bytes.Equal(fwd.Bytes(), d.Data) {
						w = fmt.Sprintf("io.Copy from the Conn forwarded %d bytes, a Read loop %d: first difference at %d", fwd.Len(), len(d.Data), firstDiff(fwd.Bytes(), d.Data))
					}
					resp := gen.Cat(gen.ServerHelloRecord(r, false, h.SID), gen.Record(23, 0x0303, gen.RandBytes(r, 5000+r.IntN(3000))))
					if _, err := io.Copy(c2, bytes.NewReader(resp)); err != nil && w == "" {
						w = "io.Copy to the Conn failed: " + err.Error()
					} else if w == "" && !bytes.Equal(fk.Out, resp) {
						w = fmt.Sprintf("io.Copy to the Conn delivered %d of %d backend bytes unchanged", firstDiff(fk.Out, resp), len(resp))
					}
				}
				s.X("forwarding with io.Copy moves the same bytes as Read / Write loops", w)
			}
			back := gen.Cat(gen.ServerHelloRecord(r, false, h.SID), gen.RandBytes(r, r.IntN(60)))
			var got []byte
			for _, p := range randChunks(r, back) {
				wr := s.Write(p)
				got = append(got, wr.Out...)
			}
			w := ""
			if !bytes.Equal(got, back) {
				w = "backend bytes were changed or withheld on a passthrough connection"
			}
			s.X("every backend byte is forwarded unchanged", w)
		} else {
			s.X("a syntactically valid hello that is not accepted is passed through, not aborted", fmt.Sprintf("err=%s accepted=%v", res.Err, res.Accepted))
		}
		emit(core.Case{Name: fmt.Sprintf("hello/%d", i), Stream: "foreign", Ops: s.Ops,
			Sig:    fmt.Sprintf("%s/keys-%s/tls13-%v/%s/e%d/tls%v/%s", echKind, keyset, tls13, sizeClass(len(rec)), min(len(h.Exts)/4, 3), tlsOK, outcome),
			Sample: map[string]any{"ech": echKind, "keys": keyset, "tls13": tls13, "record_len": len(rec), "exts": len(h.Exts), "crypto_tls_parsed": tlsOK, "outcome": outcome}})
		env.Count(outcome)
		if tlsOK {
			env.Count("crypto/tls-parsed")
		}
	}
}
