package props

import (
	"crypto/ecdh"
	"crypto/ecdsa"
	"crypto/elliptic"
	"crypto/rand"
	"crypto/tls"
	"crypto/x509"
	"crypto/x509/pkix"
	"fmt"
	"math/big"
	"net"
	"sync"
	"time"

	"github.com/c2FmZQ/ech"
)

type testPKI struct {
	caCert *x509.Certificate
	caKey  *ecdsa.PrivateKey
	pool   *x509.CertPool
}

var (
	pkiOnce sync.Once
	pki     *testPKI
)

func getPKI() *testPKI {
	pkiOnce.Do(func() {
		k, _ := ecdsa.GenerateKey(elliptic.P256(), rand.Reader)
		tmpl := &x509.Certificate{SerialNumber: big.NewInt(1), Subject: pkix.Name{CommonName: "verif test ca"},
			NotBefore: time.Now().Add(-time.Hour), NotAfter: time.Now().Add(240 * time.Hour), IsCA: true, BasicConstraintsValid: true,
			KeyUsage: x509.KeyUsageCertSign | x509.KeyUsageDigitalSignature}
		der, err := x509.CreateCertificate(rand.Reader, tmpl, tmpl, &k.PublicKey, k)
		if err != nil {
			panic(err)
		}
		c, _ := x509.ParseCertificate(der)
		p := x509.NewCertPool()
		p.AddCert(c)
		pki = &testPKI{caCert: c, caKey: k, pool: p}
	})
	return pki
}

var serial int64 = 100

// leaf issues a certificate for names; padTo > 0 pads the certificate with an extension so
// that the DER is about padTo bytes (to build large chains).
func (p *testPKI) leaf(padTo int, client bool, names ...string) tls.Certificate {
	k, _ := ecdsa.GenerateKey(elliptic.P256(), rand.Reader)
	serial++
	tmpl := &x509.Certificate{SerialNumber: big.NewInt(serial), Subject: pkix.Name{CommonName: names[0]}, DNSNames: names,
		NotBefore: time.Now().Add(-time.Hour), NotAfter: time.Now().Add(240 * time.Hour),
		KeyUsage: x509.KeyUsageDigitalSignature, ExtKeyUsage: []x509.ExtKeyUsage{x509.ExtKeyUsageServerAuth, x509.ExtKeyUsageClientAuth}}
	if padTo > 0 {
		tmpl.ExtraExtensions = []pkix.Extension{{Id: []int{1, 3, 6, 1, 4, 1, 55555, 1}, Value: make([]byte, padTo)}}
	}
	der, err := x509.CreateCertificate(rand.Reader, tmpl, p.caCert, &k.PublicKey, p.caKey)
	if err != nil {
		panic(err)
	}
	return tls.Certificate{Certificate: [][]byte{der}, PrivateKey: k}
}

// tlsInterop runs a full crypto/tls ECH handshake with the config produced by the package
// under test for spec: the client gets ConfigList([Bytes(spec)]), the server gets the config
// as EncryptedClientHelloKeys. Returns "" when both sides report ECH accepted.
func tlsInterop(spec ech.ConfigSpec, priv *ecdh.PrivateKey) string {
	cfg, err := spec.Bytes()
	if err != nil {
		return "Bytes: " + err.Error()
	}
	list, err := ech.ConfigList([]ech.Config{cfg})
	if err != nil {
		return "ConfigList: " + err.Error()
	}
	p := getPKI()
	cert := p.leaf(0, false, "inner.example", string(spec.PublicName))
	cc, sc := net.Pipe()
	defer cc.Close()
	defer sc.Close()
	cc.SetDeadline(time.Now().Add(10 * time.Second))
	sc.SetDeadline(time.Now().Add(10 * time.Second))
	srv := tls.Server(sc, &tls.Config{Certificates: []tls.Certificate{cert},
		EncryptedClientHelloKeys: []tls.EncryptedClientHelloKey{{Config: cfg, PrivateKey: priv.Bytes(), SendAsRetry: true}}})
	cli := tls.Client(cc, &tls.Config{ServerName: "inner.example", RootCAs: p.pool, EncryptedClientHelloConfigList: list})
	errc := make(chan error, 1)
	go func() { errc <- srv.Handshake() }()
	if err := cli.Handshake(); err != nil {
		return "client handshake: " + err.Error()
	}
	if err := <-errc; err != nil {
		return "server handshake: " + err.Error()
	}
	if !cli.ConnectionState().ECHAccepted {
		return "client: ECH not accepted"
	}
	if !srv.ConnectionState().ECHAccepted {
		return "server: ECH not accepted"
	}
	if sn := srv.ConnectionState().ServerName; sn != "inner.example" {
		return fmt.Sprintf("server saw SNI %q", sn)
	}
	return ""
}
