package props

import (
	"bytes"
	"fmt"
	"math/rand/v2"
	"slices"

	"verifharness/connh"
	"verifharness/core"
	"verifharness/gen"
)

func init() {
	register(core.Campaign{
		Property: "C04",
		Rule: "rule-violation mutators applied to generated valid ECH tuples (sealed with crypto/hpke after the mutation where the rule concerns the authentic payload): " +
			"outerHasEOE at EVERY outer extension position, typeInnerWithKeys, unknownEchType (every type byte 2..255), sniNotPublicName, innerLacksInnerEch, innerNoTls13, " +
			"paddingNonZero at every padding offset (sampled when > 64), eoeMalformed, eoeOutOfOrder, eoeRepeated, eoeAbsentFromOuter, eoeNamesEchTypes, eoeTwice (every pair of positions), pairs of rules, " +
			"and EVERY record-level truncation of a valid hello. For each: error class in the rule's classes, exact alert bytes on the client side, transport closed. distinct = (rule(s), position class, outcome class).",
		Gen: genC04,
	})
}

var alertOf = map[string]byte{"unexpected": 10, "illegal": 47, "decode": 50, "decrypt": 51, "missing": 109}

// abortChecks adds the C04 effect predicates for a NewConn result.
func abortChecks(s *connh.Sess, res connh.NewRes, rule string, classes []string) {
	w := ""
	if !slices.Contains(classes, res.Err) {
		w = fmt.Sprintf("rule %s: error class %s not in %v (accepted=%v)", rule, res.Err, classes, res.Accepted)
	}
	s.X("rule "+rule+": NewConn returns the matching error class", w)
	w = ""
	if code, ok := alertOf[res.Err]; ok {
		want := []byte{0x15, 3, 3, 0, 2, 2, code}
		if !bytes.Equal(res.Out, want) {
			w = fmt.Sprintf("client received %x, want fatal alert %x", res.Out, want)
		} else if !res.Closed {
			w = "alert sent but the client connection was not closed (no end of stream)"
		}
	} else if res.Err != "-" {
		w = ""
	}
	s.X("rule "+rule+": client receives the corresponding fatal alert followed by end of stream", w)
}

type c04Tuple struct {
	plan *gen.InnerPlan
	key  *gen.KeyMat
}

func genC04(env *core.Env, emit func(core.Case)) {
	r := env.Rng
	idx := 0
	mkPlan := func() (*gen.InnerPlan, *gen.KeyMat) {
		o := gen.PlanOpts{NOuterOpaque: 2 + r.IntN(5), NInnerOpaque: r.IntN(5), MaxExtLen: 50, Padding: []int{0, 1, 7, 31, 32, 100}[r.IntN(6)], SIDLen: []int{0, 32}[r.IntN(2)],
			RefMask: r.Uint64() | 3, MarkerPos: r.IntN(8), InnerName: hostName(r), ALPN: alpnList(r), PublicName: "public.example"}
		return gen.Plan(r, o), gen.NewKey(r, uint8(r.IntN(256)), "public.example", gen.AllSuites)
	}
	// run seals plan (as mutated) and checks the abort
	run := func(rule, pos string, classes []string, plan *gen.InnerPlan, key *gen.KeyMat, withKeys bool, post func(rec []byte) []byte) {
		idx++
		pt := plan.Enc.Body()
		sealed := gen.Seal(plan.OuterBase, r.IntN(len(plan.OuterBase.Exts)+1), key, gen.AllSuites[r.IntN(3)], pt, nil, 0x0301)
		rec := sealed.Rec
		if post != nil {
			rec = post(rec)
		}
		var s *connh.Sess
		if withKeys {
			s = connh.NewSess(echKeys(key))
		} else {
			s = connh.NewSess(nil)
		}
		s.Register(rec)
		var chunks [][]byte
		if r.IntN(4) == 0 {
			chunks = randChunks(r, rec)
		} else {
			chunks = oneChunk(rec)
		}
		res := s.New(chunks, "eof")
		abortChecks(s, res, rule, classes)
		emit(core.Case{Name: fmt.Sprintf("%s/%d", rule, idx), Stream: rule, Ops: s.Ops, Key: rule + "/" + res.Err,
			Sig:    fmt.Sprintf("%s/%s/%s/keys%v", rule, pos, res.Err, withKeys),
			Sample: map[string]any{"rule": rule, "position": pos, "outcome": res.Err, "alert": fmt.Sprintf("%x", res.Out), "closed": res.Closed}})
		env.Count(rule + "/" + res.Err)
	}
	posClass := func(i, n int) string {
		switch {
		case i == 0:
			return "first"
		case i >= n-1:
			return "last"
		}
		return "mid"
	}
	reps := env.Pick(3, 40)
	for rep := 0; rep < reps; rep++ {
		// R1 outerHasEOE at every position (with and without keys)
		{
			plan, key := mkPlan()
			n := len(plan.OuterBase.Exts)
			for i := 0; i <= n; i++ {
				p2 := *plan
				ob := *plan.OuterBase
				ob.Exts = slices.Insert(slices.Clone(plan.OuterBase.Exts), i, gen.OuterExtensions(uint16(r.IntN(100))))
				p2.OuterBase = &ob
				run("outerHasEOE", posClass(i, n+1), []string{"illegal"}, &p2, key, rep%2 == 0 || i%2 == 0, nil)
			}
		}
		// R2 typeInnerWithKeys: the outer carries an ECH extension of type inner
		{
			plan, key := mkPlan()
			run("typeInnerWithKeys", "-", []string{"illegal"}, plan, key, true, func(rec []byte) []byte {
				h, _, _ := gen.ParseRecord(rec)
				_, i := gen.FindECH(h)
				h.Exts[i] = gen.ECHInner()
				return h.Record(0x0301)
			})
		}
		// R2b the same rule when the outer hello does not even offer TLS 1.3 (no supported_versions, or
		// only older versions): with keys configured an outer "type inner" extension is still fatal
		{
			plan, key := mkPlan()
			variant := rep % 3
			run("typeInnerWithKeys", fmt.Sprintf("no-tls13-%d", variant), []string{"illegal"}, plan, key, true, func(rec []byte) []byte {
				h, _, _ := gen.ParseRecord(rec)
				_, i := gen.FindECH(h)
				h.Exts[i] = gen.ECHInner()
				for j := 0; j < len(h.Exts); j++ {
					if h.Exts[j].Type == 43 {
						switch variant {
						case 0:
							h.Exts = slices.Delete(h.Exts, j, j+1)
							j--
						case 1:
							h.Exts[j] = gen.Versions(0x0303, 0x0302)
						default:
							h.Exts[j] = gen.Versions()
						}
					}
				}
				return h.Record(0x0301)
			})
		}
		// the rules that apply to a retried hello (hello, HelloRetryRequest, second hello): same alerts
		for _, rc := range retryCases(r) {
			if rc.Class == "" {
				continue
			}
			idx++
			s, first, rd := runRetryCase(rc, 70000)
			w := ""
			if first.Err != "-" || !first.Accepted {
				w = "first hello of the retry history not accepted: " + first.Err
			} else if rd.Err != rc.Class {
				w = fmt.Sprintf("retried hello %s: error class %s, want %s (%d bytes delivered)", rc.Kind, rd.Err, rc.Class, len(rd.Data))
			} else if want := []byte{0x15, 3, 3, 0, 2, 2, alertOf[rc.Class]}; !bytes.Equal(rd.Out, want) {
				w = fmt.Sprintf("retried hello %s: client received %x, want fatal alert %x", rc.Kind, rd.Out, want)
			} else if !rd.Closed {
				w = "alert sent but the client connection was not closed"
			} else if len(rd.Data) != 0 {
				w = "bytes of an ill-formed retried hello were delivered to the backend"
			}
			s.X("retried hello "+rc.Kind+": aborted with the mandated alert, nothing forwarded", w)
			emit(core.Case{Name: fmt.Sprintf("retry-%s/%d", rc.Kind, idx), Stream: "retry-rules", Ops: s.Ops, Key: "retry-" + rc.Kind + "/" + rd.Err,
				Sig: fmt.Sprintf("retry-%s/%s", rc.Kind, rd.Err), Sample: map[string]any{"rule": "retry-" + rc.Kind, "outcome": rd.Err, "alert": fmt.Sprintf("%x", rd.Out), "closed": rd.Closed}})
			env.Count("retry-" + rc.Kind + "/" + rd.Err)
		}
		// R0: what arrives first is not a handshake record, is longer than a record may be, or is not a
		// ClientHello: the same alert-and-close discipline applies before anything has been parsed
		for variant := 0; variant < 5; variant++ {
			plan, key := mkPlan()
			v := variant
			classes := [][]string{{"unexpected"}, {"unexpected"}, {"unexpected"}, {"decode"}, {"unexpected", "decode"}}[v]
			run("firstRecordMalformed", fmt.Sprintf("v%d", v), classes, plan, key, rep%2 == 0, func(rec []byte) []byte {
				switch v {
				case 0:
					return gen.Record(23, 0x0303, rec[5:]) // application_data first
				case 1:
					return gen.Record(20, 0x0303, []byte{1}) // change_cipher_spec first
				case 2:
					return gen.Record(21, 0x0303, []byte{1, 0}) // an alert first
				case 3:
					return gen.Cat([]byte{22, 3, 1, 0x41, 0x01}, rec[5:]) // a record length over 2^14+256
				default:
					b := slices.Clone(rec)
					b[5] = 2 // a ServerHello where the ClientHello should be
					return b
				}
			})
		}
		// R4 sniNotPublicName: another name, a near miss, another spelling of the same name, an empty
		// host name, no server_name extension at all
		for variant := 0; variant < 6; variant++ {
			plan, key := mkPlan()
			ob := *plan.OuterBase
			ob.Exts = slices.Clone(ob.Exts)
			for i, e := range ob.Exts {
				if e.Type == 0 {
					switch variant {
					case 0:
						ob.Exts[i] = gen.SNI("other.example")
					case 1:
						ob.Exts[i] = gen.SNI("public.exampl")
					case 2:
						ob.Exts[i] = gen.SNI("public.example.")
					case 3:
						ob.Exts[i] = gen.SNI("PUBLIC.example")
					case 4:
						ob.Exts[i] = gen.SNI("")
					default:
						ob.Exts = slices.Delete(ob.Exts, i, i+1) // no SNI at all
					}
					break
				}
			}
			plan.OuterBase = &ob
			run("sniNotPublicName", fmt.Sprintf("v%d", variant), []string{"illegal"}, plan, key, true, nil)
		}
		// R5 innerLacksInnerEch
		{
			plan, key := mkPlan()
			for i, e := range plan.Enc.Exts {
				if e.Type == 0xfe0d {
					if r.IntN(2) == 0 {
						plan.Enc.Exts = slices.Delete(plan.Enc.Exts, i, i+1)
					} else {
						plan.Enc.Exts[i] = gen.Ext{Type: 0xfe0d, Data: gen.ECHOuter{KDF: 1, AEAD: 1, Payload: []byte{1}}.Data()}
					}
					break
				}
			}
			run("innerLacksInnerEch", "-", []string{"illegal"}, plan, key, true, nil)
		}
		// R6 innerNoTls13
		{
			plan, key := mkPlan()
			for i, e := range plan.Enc.Exts {
				if e.Type == 43 {
					switch r.IntN(3) {
					case 0:
						plan.Enc.Exts = slices.Delete(plan.Enc.Exts, i, i+1)
					case 1:
						plan.Enc.Exts[i] = gen.Versions(0x0303, 0x0302)
					default:
						plan.Enc.Exts[i] = gen.Versions()
					}
					break
				}
			}
			run("innerNoTls13", "-", []string{"illegal"}, plan, key, true, nil)
		}
		// R7 paddingNonZero at every offset
		{
			plan, key := mkPlan()
			pl := []int{1, 2, 31, 32, 33, 200}[r.IntN(6)]
			step := 1
			if pl > 64 && !env.Thorough() {
				step = 17
			}
			for off := 0; off < pl; off += step {
				p2 := *plan
				e2 := *plan.Enc
				e2.Trail = make([]byte, pl)
				e2.Trail[off] = byte(1 + r.IntN(255))
				p2.Enc = &e2
				run("paddingNonZero", posClass(off, pl), []string{"illegal"}, &p2, key, true, nil)
			}
			// several non-zero padding bytes whose sum, xor or count hides them from an arithmetic test
			for _, pad := range [][]byte{{0x80, 0x80}, {0xff, 0x01}, {0x40, 0x40, 0x40, 0x40}, bytes.Repeat([]byte{1}, 256), {0x55, 0x55}, {0, 0xaa, 0, 0xaa, 0}, bytes.Repeat([]byte{0xff}, 32)} {
				p2 := *plan
				e2 := *plan.Enc
				e2.Trail = pad
				p2.Enc = &e2
				run("paddingNonZero", "several", []string{"illegal"}, &p2, key, true, nil)
			}
		}
		// R8..R13 malformed ech_outer_extensions
		eoe := func(rule string, classes []string, f func(refs []uint16, outerTypes []uint16) gen.Ext) {
			plan, key := mkPlan()
			if plan.MarkerPos < 0 {
				return
			}
			var ot []uint16
			for _, e := range plan.OuterBase.Exts {
				ot = append(ot, e.Type)
			}
			plan.Enc.Exts[plan.MarkerPos] = f(plan.Refs, ot)
			run(rule, posClass(plan.MarkerPos, len(plan.Enc.Exts)), classes, plan, key, true, nil)
		}
		for variant := 0; variant < 3; variant++ {
			eoe("eoeMalformed", []string{"decode"}, func(refs, ot []uint16) gen.Ext {
				good := gen.OuterExtensions(refs...).Data
				switch variant {
				case 0:
					return gen.Ext{Type: 0xfd00, Data: nil}
				case 1:
					return gen.Ext{Type: 0xfd00, Data: good[:len(good)-1]} // length byte larger than the data
				default:
					d := gen.Cat([]byte{byte(len(good))}, good[1:], []byte{7}) // odd number of bytes
					return gen.Ext{Type: 0xfd00, Data: d}
				}
			})
		}
		eoe("eoeOutOfOrder", []string{"illegal"}, func(refs, ot []uint16) gen.Ext {
			if len(refs) < 2 {
				return gen.OuterExtensions(0xfe0d)
			}
			i := r.IntN(len(refs) - 1)
			refs = slices.Clone(refs)
			refs[i], refs[i+1] = refs[i+1], refs[i]
			return gen.OuterExtensions(refs...)
		})
		eoe("eoeRepeated", []string{"illegal"}, func(refs, ot []uint16) gen.Ext {
			if len(refs) < 1 {
				return gen.OuterExtensions(0xfd00)
			}
			i := r.IntN(len(refs))
			return gen.OuterExtensions(slices.Insert(slices.Clone(refs), i, refs[i])...)
		})
		eoe("eoeAbsentFromOuter", []string{"illegal"}, func(refs, ot []uint16) gen.Ext {
			t := uint16(0x7777)
			for slices.Contains(ot, t) {
				t++
			}
			return gen.OuterExtensions(slices.Insert(slices.Clone(refs), r.IntN(len(refs)+1), t)...)
		})
		eoe("eoeNamesEchTypes", []string{"illegal"}, func(refs, ot []uint16) gen.Ext {
			t := []uint16{0xfe0d, 0xfd00}[r.IntN(2)]
			return gen.OuterExtensions(slices.Insert(slices.Clone(refs), r.IntN(len(refs)+1), t)...)
		})
		// R13 eoeTwice at every pair of positions
		{
			plan, key := mkPlan()
			base := slices.DeleteFunc(slices.Clone(plan.Enc.Exts), func(e gen.Ext) bool { return e.Type == 0xfd00 })
			n := len(base)
			for i := 0; i <= n; i++ {
				j := i + r.IntN(n-i+1)
				p2 := *plan
				e2 := *plan.Enc
				second := gen.OuterExtensions()
				if len(plan.Refs) > 0 && r.IntN(2) == 0 {
					second = gen.OuterExtensions(plan.Refs[len(plan.Refs)-1])
				}
				l := slices.Insert(slices.Clone(base), i, gen.OuterExtensions(plan.Refs...))
				l = slices.Insert(l, j+1, second)
				e2.Exts = l
				p2.Enc = &e2
				run("eoeTwice", posClass(i, n+1), []string{"illegal"}, &p2, key, true, nil)
			}
		}
		// pairs of rules: non-zero padding + missing inner ech ; outer EOE + bad SNI
		{
			plan, key := mkPlan()
			plan.Enc.Trail = []byte{0, 0, 9}
			plan.Enc.Exts = slices.DeleteFunc(plan.Enc.Exts, func(e gen.Ext) bool { return e.Type == 0xfe0d })
			run("paddingNonZero+innerLacksInnerEch", "-", []string{"illegal"}, plan, key, true, nil)
			plan, key = mkPlan()
			plan.OuterBase.Exts = append(plan.OuterBase.Exts, gen.OuterExtensions(1))
			for i, e := range plan.OuterBase.Exts {
				if e.Type == 0 {
					plan.OuterBase.Exts[i] = gen.SNI("x.example")
				}
			}
			run("outerHasEOE+sniNotPublicName", "-", []string{"illegal"}, plan, key, true, nil)
			plan, key = mkPlan()
			if plan.MarkerPos >= 0 {
				plan.Enc.Exts[plan.MarkerPos] = gen.Ext{Type: 0xfd00, Data: []byte{3, 0, 5}}
				plan.Enc.Trail = []byte{1}
				run("eoeMalformed+paddingNonZero", "-", []string{"decode", "illegal"}, plan, key, true, nil)
			}
		}
	}
	// R3 unknownEchType: every type byte 2..255, with and without keys
	{
		plan, key := mkPlan()
		for t := 2; t < 256; t++ {
			if !env.Thorough() && t > 8 && t%16 != 0 && t != 255 {
				continue
			}
			tt := byte(t)
			run("unknownEchType", fmt.Sprintf("t%d", min(t, 3)), []string{"illegal"}, plan, key, t%2 == 0, func(rec []byte) []byte {
				h, _, _ := gen.ParseRecord(rec)
				_, i := gen.FindECH(h)
				h.Exts[i].Data = slices.Clone(h.Exts[i].Data)
				h.Exts[i].Data[0] = tt
				return h.Record(0x0301)
			})
		}
	}
	// every record-level truncation of valid hellos
	for rep := 0; rep < env.Pick(2, 12); rep++ {
		plan, key := mkPlan()
		pt := plan.Enc.Body()
		sealed := gen.Seal(plan.OuterBase, r.IntN(len(plan.OuterBase.Exts)+1), key, gen.AllSuites[r.IntN(3)], pt, nil, 0x0301)
		msg := sealed.Outer.Msg()
		for cut := 0; cut < len(msg); cut++ {
			idx++
			rec := gen.Record(22, 0x0301, msg[:cut])
			s := connh.NewSess(echKeys(key))
			res := s.New(oneChunk(rec), "eof")
			abortChecks(s, res, "truncation", []string{"decode"})
			region := "ext"
			if cut < 4 {
				region = "hdr"
			} else if cut < 4+34 {
				region = "fixed"
			}
			emit(core.Case{Name: fmt.Sprintf("truncation/%d", idx), Stream: "truncation", Ops: s.Ops, Key: "truncation/" + res.Err,
				Sig: fmt.Sprintf("truncation/%s/%s", region, res.Err), Sample: map[string]any{"rule": "truncation", "cut": cut, "of": len(msg), "outcome": res.Err}})
			env.Count("truncation/" + res.Err)
		}
		// truncations inside the EncodedClientHelloInner (sealed after truncation)
		for cut := 0; cut < len(pt)-len(plan.Enc.Trail); cut += 1 + r.IntN(env.Pick(9, 2)) {
			idx++
			tr := pt[:cut]
			sealed := gen.Seal(plan.OuterBase, 0, key, gen.AllSuites[r.IntN(3)], tr, nil, 0x0301)
			s := connh.NewSess(echKeys(key))
			s.Register(sealed.Rec)
			res := s.New(oneChunk(sealed.Rec), "eof")
			abortChecks(s, res, "innerTruncation", []string{"decode", "illegal"})
			emit(core.Case{Name: fmt.Sprintf("innerTruncation/%d", idx), Stream: "innerTruncation", Ops: s.Ops, Key: "innerTruncation/" + res.Err,
				Sig: fmt.Sprintf("innerTruncation/%s/%v", res.Err, cut < 40)})
			env.Count("innerTruncation/" + res.Err)
		}
	}
	_ = rand.Int
}
