// echdiff runs one property campaign: generates cases, runs the real implementation, pipes the
// ops to the Lean driver, compares, and writes a result file.
package main

import (
	"flag"
	"io"
	"log"
	"fmt"
	"os"
	"strings"

	"verifharness/core"
	"verifharness/props"
)

func main() {
	prop := flag.String("prop", "", "property id")
	tier := flag.String("tier", "quick", "quick|thorough")
	seed := flag.Uint64("seed", 1, "PRNG seed")
	drv := flag.String("drv", "", "path to echdrv")
	out := flag.String("out", "", "result json")
	replay := flag.String("replay", "", "replay file (op lines)")
	only := flag.String("only", "", "run only the case with this name (replay)")
	dnsChild := flag.Bool("dns-child", false, "internal: DNS decode child process")
	flag.Parse()
	log.SetOutput(io.Discard)
	if *dnsChild {
		props.DNSChildMain()
		return
	}
	c, ok := props.All[*prop]
	if !ok {
		fmt.Fprintf(os.Stderr, "unknown property %q\n", *prop)
		os.Exit(2)
	}
	var rp []string
	if *replay != "" {
		b, err := os.ReadFile(*replay)
		if err != nil {
			fmt.Fprintln(os.Stderr, err)
			os.Exit(2)
		}
		for _, l := range strings.Split(string(b), "\n") {
			if l = strings.TrimSpace(l); l != "" {
				rp = append(rp, l)
			}
		}
	}
	res, err := core.Run(c, *tier, *seed, *drv, *out, rp, *only)
	if err != nil {
		fmt.Fprintln(os.Stderr, "harness error:", err)
		os.Exit(3)
	}
	fmt.Printf("%s %s seed=%d cases=%d ops=%d distinct=%d spec_failures=%d corr_failures=%d wall=%.1fs\n",
		*prop, *tier, *seed, res.Evaluations, res.OpsRun, res.Distinct, res.SpecFail, res.CorrFail, res.WallS)
}
