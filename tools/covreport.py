#!/usr/bin/env python3
"""Summarise a Go cover profile for /repo: per file statement coverage and the uncovered blocks.
usage: covreport.py <profile> [--blocks]"""
import sys,re,collections
prof=sys.argv[1]; blocks='--blocks' in sys.argv
tot=collections.Counter(); cov=collections.Counter(); unc=collections.defaultdict(list)
seen={}
for l in open(prof):
    m=re.match(r'(\S+):(\d+)\.(\d+),(\d+)\.(\d+) (\d+) (\d+)',l)
    if not m: continue
    f=m.group(1)
    if not f.startswith('github.com/c2FmZQ/ech'): continue
    key=(f,m.group(2),m.group(3),m.group(4),m.group(5))
    n=int(m.group(6)); c=int(m.group(7))
    seen[key]=(n,max(c,seen.get(key,(0,0))[1]))
for (f,a,b,c2,d),(n,c) in seen.items():
    tot[f]+=n
    if c>0: cov[f]+=n
    else: unc[f].append((int(a),int(c2),n))
T=sum(tot.values()); C=sum(cov.values())
for f in sorted(tot):
    print(f"{f.replace('github.com/c2FmZQ/ech/',''):40s} {cov[f]:5d}/{tot[f]:5d} {100*cov[f]/max(1,tot[f]):5.1f}%")
print(f"{'TOTAL':40s} {C:5d}/{T:5d} {100*C/max(1,T):5.1f}%")
if blocks:
    for f in sorted(unc):
        rs=sorted(unc[f])
        print(f"\n{f}: uncovered blocks (lines): "+' '.join(f"{a}-{b}" if a!=b else str(a) for a,b,n in rs))
