#!/bin/bash
# tools/parstress.sh <tier> <seeds...>: all 20 checks side by side (CPU contention), per seed; lists any alarm.
# The unchanged tree must stay silent however loaded the machine is.
cd /verif; tier=$1; shift
for s in "$@"; do
  mkdir -p .build/par/$tier-$s
  for p in C01 C02 C03 C04 C05 C06 C07 C08 C09 C10 C11 C12 C13 C14 C15 C16 C17 C18 C19 C20; do
    VERIF_SEED=$s ./check $p $tier > .build/par/$tier-$s/$p.txt 2>&1 &
  done
  wait
  for f in .build/par/$tier-$s/*.txt; do
    if grep -q "^VIOLATION" $f; then echo "ALARM seed=$s $(basename $f .txt): $(grep '^VIOLATION' $f | head -1)"; cp replays/$(basename $f .txt)-$tier-$s.txt .build/par/$tier-$s/ 2>/dev/null; fi
  done
  echo "seed $s done: $(cat .build/par/$tier-$s/*.txt | grep -c 'obligations') checks"
done
