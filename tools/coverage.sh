#!/bin/bash
# Statement coverage of /repo reached by the correspondence campaigns (quick tier by default).
# Not part of any verdict: it shows which parts of the code the tie between model and code exercises.
#   tools/coverage.sh [tier] [props...]     -> .build/cov/<ID>.txt, .build/cov/SUMMARY.txt
set -e
cd "$(dirname "$0")/.."
export GOFLAGS=-mod=mod GOPROXY=off GOSUMDB=off GOTOOLCHAIN=local
TIER=${1:-quick}; shift || true
PROPS=${@:-C01 C02 C03 C04 C05 C06 C07 C08 C09 C10 C11 C12 C13 C14 C15 C16 C17 C18 C19 C20}
PKGS=verifharness/...,github.com/c2FmZQ/ech,github.com/c2FmZQ/ech/dns,github.com/c2FmZQ/ech/publish,github.com/c2FmZQ/ech/internal/hpke
mkdir -p .build/cov
(cd harness && go1.26.8 build -tags verif -cover -coverpkg=$PKGS -o ../.build/echdiff-cover ./cmd/echdiff)
for p in $PROPS; do
  rm -rf .build/cov/$p.d; mkdir -p .build/cov/$p.d
  if [ $p = C18 ]; then
    (cd harness && C18_OUT=/dev/null C18_TIER=$TIER go1.26.8 test -tags verif -count=1 -cover -coverpkg=$PKGS -run TestTraces ./c18sim -args -test.gocoverdir=$PWD/../.build/cov/$p.d >/dev/null 2>&1 || true)
  else
    GOCOVERDIR=.build/cov/$p.d .build/echdiff-cover -prop $p -tier $TIER -seed 1 -drv lean/.lake/build/bin/echdrv -out .build/cov/$p.json >/dev/null 2>&1 || true
  fi
  go1.26.8 tool covdata textfmt -i=.build/cov/$p.d -o .build/cov/$p.prof 2>/dev/null || true
  grep -v "^verifharness" .build/cov/$p.prof > .build/cov/$p-ech.prof 2>/dev/null || true
  python3 tools/covreport.py .build/cov/$p.prof > .build/cov/$p.txt 2>/dev/null || true
  echo "$p $(grep TOTAL .build/cov/$p.txt)"
done | tee .build/cov/SUMMARY.txt
# union over all campaigns: what no campaign reaches
dirs=$(ls -d .build/cov/C*.d | tr '\n' ',' | sed 's/,$//')
rm -rf .build/cov/ALL.d; mkdir -p .build/cov/ALL.d
go1.26.8 tool covdata merge -i=$dirs -o .build/cov/ALL.d
go1.26.8 tool covdata textfmt -i=.build/cov/ALL.d -o .build/cov/ALL.prof
grep -v "^verifharness" .build/cov/ALL.prof > .build/cov/ALL-ech.prof
python3 tools/covreport.py .build/cov/ALL.prof --blocks > .build/cov/ALL.txt
echo "union of all campaigns: $(grep TOTAL .build/cov/ALL.txt)" | tee -a .build/cov/SUMMARY.txt
