#!/bin/bash
# Runs every behaviour-preserving change under benign/ against the quick checks of the properties
# anchored in the files it touches (benign/<id>/checks.txt); writes benign/RESULTS.txt.
cd /verif
: > benign/RESULTS.txt
for d in benign/*/; do
  tools/benigncheck.sh $d quick $(cat $d/checks.txt) 2>&1 | tee -a benign/RESULTS.txt
done
git -C /repo status --short
