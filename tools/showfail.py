#!/usr/bin/env python3
import json, sys
r = json.load(open(sys.argv[1] if len(sys.argv) > 1 else '/verif/.build/r.json'))
print(r['distribution']); print(r.get('notes'))
seen = set()
for f in (r['failures'] or []):
    k = (f['kind'], f['stream'], (f.get('impl') or '')[:30], (f.get('model') or '')[:12])
    if k in seen: continue
    seen.add(k)
    print(f['kind'], f['case'], f['key'][:60], (f.get('note') or '')[:40], '\n   M:', (f.get('model') or '')[:300], '\n   I:', (f.get('impl') or '')[:300], '\n   op:', f['op'][:120])
