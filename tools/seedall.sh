#!/bin/bash
# Runs every seeded change against the quick check of its own property (and extra checks given in
# seeded/<id>/also.txt), writes seeded/RESULTS.txt. /repo is restored after each.
cd /verif
: > seeded/RESULTS.txt
for d in seeded/C*mut*; do
  extra=""; [ -f $d/also.txt ] && extra=$(cat $d/also.txt)
  prop=$(python3 -c "import json; print(json.load(open('$d/meta.json'))['property'])")
  tools/seedcheck.sh $d quick $prop $extra 2>&1 | tee -a seeded/RESULTS.txt
done
git -C /repo status --short
