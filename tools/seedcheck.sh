#!/bin/bash
# tools/seedcheck.sh <seeded-dir> [tier] [props...]  — apply a seeded change to /repo, run the checks, undo it.
d=$(realpath $1); tier=${2:-quick}; shift; shift
prop=$(python3 -c "import json,sys; print(json.load(open('$d/meta.json'))['property'])")
props=${@:-$prop}
cd /verif
git -C /repo diff --quiet || { echo "/repo is dirty, refusing"; exit 2; }
git -C /repo apply $d/patch.diff || exit 2
for p in $props; do
  out=$(./check $p $tier 2>&1 | grep -E "^VIOLATION|^KNOWN|obligations|harness" | cut -c1-260)
  v=$(echo "$out" | grep -c "^VIOLATION")
  echo "$(basename $(dirname $d))/$(basename $d) check=$p tier=$tier caught=$v :: $(echo "$out" | grep "^VIOLATION" | head -1) $(echo "$out" | grep obligations | sed 's/.*discharged, //')"
  [ $v -gt 0 ] && cp replays/$p-$tier-${VERIF_SEED:-1}.txt $d/replay-$p-$tier.txt 2>/dev/null
done
git -C /repo checkout -- .
