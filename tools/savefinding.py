#!/usr/bin/env python3
"""savefinding.py <Dn> <result.json> <stream-or-note-substring> : store the first matching spec failure as findings/<Dn>.json"""
import json, sys
d, res, pat = sys.argv[1:4]
r = json.load(open(res))
for f in r.get("failures") or []:
    if f["kind"] == "spec" and (pat in f["stream"] or pat in (f.get("note") or "") or pat in f["case"]):
        f["property"] = r["property"]; f["tier"] = r["tier"]; f["seed"] = r["seed"]
        json.dump(f, open(f"/verif/findings/{d}.json", "w"), indent=1)
        print("saved", d, f["case"], f.get("note"), (f.get("impl") or f.get("model"))[:200])
        break
else:
    print("no match"); sys.exit(1)
