#!/usr/bin/env python3
# tools/mkseedround.py <round-dir e.g. /tmp/seed8> <directions.txt>: writes <round-dir>/out/<Cxx>/{property.json,TASK.md}
# for every property (prompt = tools/seedprompt.md + the regressions already held for that property + this
# round's directions) and creates one detached worktree of /repo per property under <round-dir>/<Cxx>.
import json, glob, os, subprocess, sys
rd, directions = sys.argv[1].rstrip('/'), open(sys.argv[2]).read().strip()
props = {}
for l in open('/verif/properties.jsonl'):
    p = json.loads(l); props[p['id']] = p
tmpl = open('/verif/tools/seedprompt.md').read()
for pid, p in props.items():
    out = f'{rd}/out/{pid}'; os.makedirs(out, exist_ok=True)
    json.dump(p, open(out + '/property.json', 'w'), indent=1)
    taken = []
    for m in sorted(glob.glob(f'/verif/seeded/{pid}-*mut*/meta.json')):
        mm = json.load(open(m)); taken.append('- ' + ' '.join(mm.get('summary', '').split())[:200])
    t = tmpl.replace('/tmp/seed/', rd + '/').replace('WORKTREE', f'{rd}/{pid}').replace('OUTDIR', out)
    t = t.replace('Use: `export GOFLAGS=-mod=mod GOPROXY=off GOSUMDB=off` before go commands.', 'Before go commands run: `export PATH=/root/go/pkg/mod/golang.org/toolchain@v0.0.1-go1.24.0.linux-amd64/bin:$PATH GOFLAGS=-mod=mod GOPROXY=off GOSUMDB=off GOTOOLCHAIN=local`.')
    t += '\nADDITIONAL INSTRUCTIONS FOR THIS ROUND. Earlier rounds already produced the following regressions for this property; do NOT repeat them or close variants of them:\n' + '\n'.join(taken) + '\n\n' + directions + '\n'
    open(out + '/TASK.md', 'w').write(t)
    if not os.path.isdir(f'{rd}/{pid}'):
        subprocess.run(['git', '-C', '/repo', 'worktree', 'add', '--detach', f'{rd}/{pid}', 'HEAD', '-q'], check=True)
print(len(props), 'tasks under', rd + '/out')
