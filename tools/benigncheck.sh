#!/bin/bash
# tools/benigncheck.sh <dir-with-patch.diff> [tier] props...  — apply a behaviour-preserving change to /repo,
# run the checks, undo it. The checks are expected to stay silent; prints one line per check.
d=$(realpath $1); tier=${2:-quick}; shift; shift
cd /verif
git -C /repo diff --quiet || { echo "/repo is dirty, refusing"; exit 2; }
git -C /repo apply $d/patch.diff || { echo "$(basename $d) NOAPPLY"; exit 2; }
for p in "$@"; do
  out=$(./check $p $tier 2>&1 | grep -E "^VIOLATION|^KNOWN|obligations|harness" | cut -c1-300)
  v=$(echo "$out" | grep -c "^VIOLATION")
  echo "$(basename $d) check=$p tier=$tier alarm=$v :: $(echo "$out" | grep "^VIOLATION" | head -1) $(echo "$out" | grep obligations | sed 's/.*discharged, //')"
  [ $v -gt 0 ] && cp replays/$p-$tier-${VERIF_SEED:-1}.txt $d/alarm-$p-$tier.txt 2>/dev/null
done
git -C /repo checkout -- .
