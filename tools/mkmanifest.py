#!/usr/bin/env python3
"""Regenerates /verif/MANIFEST.json from the table below (kept valid at all times)."""
import json, os
ROOT = os.path.dirname(os.path.dirname(os.path.abspath(__file__)))

# id -> (level text, level note, technique, design_ref)
CLAIMED = {
 "C01": ("PARTIAL proof. Lean theorems (C01_first_flight, C01_stale, C01_names) over the Conn model show that for every chunking and every read-buffer size the backend reads the reconstructed inner hello (or, when ECH is not accepted, the re-marshalled outer hello) followed by exactly the client's remaining bytes, and that the reported names are those of that hello; the HelloRetryRequest path is carried by the C06 theorems. That crypto/tls then completes the handshake, resumes, and authenticates retry configs is NOT modelled: it is observed by a real-stack campaign (crypto/tls client -> NewConn -> keyless crypto/tls backend / public-name server) whose recorded Conn.Read/Write traces are replayed op by op through the Lean model.",
         "Lean kernel + propext/Quot.sound/Classical.choice; hand-written model tied to the Go code by the differential correspondence check; ideal HPKE (a payload opens iff that exact seal exists; table filled with crypto/hpke); crypto/tls, X.509 and the TLS key schedule are observed, not modelled.",
         "Lean 4 proof (pipe invariants over op lists) + differential replay of real crypto/tls handshakes through the model", "5/C01"),
 "C02": ("Lean theorems over the key loop with an ideal HPKE, for all hellos, key lists and HPKE worlds: acceptance implies a seal made to a held key whose config id and suite the client named, under info = \"tls ech\\0\"||config, the hello's enc, sequence number 0 (1 and the stored context for a retry), with the AAD of exactly this hello and exactly this payload (C02_accept_sound, C02_retry_sound); no such seal => never accepted (C02_no_seal_no_accept); NewConn has exactly three outcome shapes (C02_clean_fallback). The ideal-HPKE table is validated against the real AEAD by the campaign: every single-bit flip of the outer body of sample hellos, wrong key/info/suite/id substitutions, every truncation of enc and payload.",
         "Lean kernel + propext/Quot.sound/Classical.choice; hand-written model tied to the Go code by the differential correspondence check; HPKE/X25519/HKDF/AEAD replaced by the ideal-HPKE hypothesis (standard symbolic reading of AEAD unforgeability), validated empirically against crypto/hpke and the package's own AEAD on every generated case.",
         "Lean 4 proof (decision logic over an ideal HPKE) + differential correspondence", "5/C02"),
 "C03": ("Lean theorems: the Appendix-B substitution loop returns exactly the referenced outer extensions in outer order, the references being in order / unrepeated / present / not ECH types (C03_expand_characterisation, C03_expand_sublist); the marker is replaced in place and nothing else moves (C03_expand_in_place); the reconstructed hello takes version/random/suites/compression from the decrypted encoding and the session id from the outer hello (C03_reconstruct_fields); its record is byte-exactly the canonical encoding of those fields (C03_marshal_exact); reported names are the inner hello's. Tie: every order-preserving subsequence x marker position for up to 8 shared extensions, padding and session-id grids, sizes to the record limit, each checked by the independent byte-level specInner evaluated in Lean on the implementation's output.",
         "Lean kernel + propext/Quot.sound/Classical.choice; hand-written model tied to the Go code by the differential correspondence check; the byte-level specification specInner is evaluated on implementation outputs (not yet proved equal to the model for all inputs).",
         "Lean 4 proof (refinement of the substitution loop to a declarative filter) + executable spec on impl outputs", "5/C03"),
 "C04": ("Lean theorems: every failing NewConn writes exactly the fatal alert of the returned class, closes the transport and buffers nothing (C04_abort_effects); rule lemmas for ech_outer_extensions in the outer hello, ECH type inner with keys, unknown ECH type (any position), outer SNI != public name; errors propagate unchanged through the extension fold (C04_ext_error_propagates); an accepted inner hello satisfies every inner rule - parses, carries the inner-type ECH extension, zero padding, TLS 1.3, well-formed references (C04_accepted_inner_obeys_rules, with C03_expand_characterisation for the reference rules). Tie: every rule at every applicable position, rule pairs, every record-level truncation, truncations of the sealed inner encoding.",
         "Lean kernel + propext/Quot.sound/Classical.choice; hand-written model tied to the Go code by the differential correspondence check; ideal HPKE for the authentic-payload rules.",
         "Lean 4 proof (decision table + effect lemma) + differential correspondence with rule mutators", "5/C04"),
 "C05": ("Lean theorems: for ANY buffer the parser accepts, re-marshalling yields exactly the ClientHello structure that was read - the input minus the bytes after the extensions and after the message, the only bytes the parser ignores (C05_passthrough_bytes, from the parse/marshal round-trip lemma); canonical hellos are forwarded verbatim up to the record-header version (C05_passthrough_canonical); decision lemmas for when a hello is passed through (no ECH / no keys / no TLS 1.3 / no matching key) and the resulting connection state (C05_passthrough_conn). Tie: foreign-encoded hellos x key sets x following streams; independent sniOf/alpnOf evaluated in Lean and crypto/tls's ClientHelloInfo compared on the forwarded bytes.",
         "Lean kernel + propext/Quot.sound/Classical.choice; hand-written model tied to the Go code by the differential correspondence check; agreement of ServerName/ALPN with an independent stack is checked on generated hellos (Lean sniOf/alpnOf and crypto/tls), not proved.",
         "Lean 4 proof (parser/marshaller round trip) + differential correspondence", "5/C05"),
 "C06": ("Lean theorems over arbitrary interleavings of Read / Write / arriving data: the Conn invariant holds in every reachable state (C06_inv_all_reachable: retry>=1 only on accepted connections whose write side stopped inspecting; HPKE sequence number 1 after NewConn, 2 only once the read side is in passthrough; no HPKE state without an inner hello); only a ServerHello with the HelloRetryRequest random moves the retry counter (C06_only_hrr_rearms); a hello met with retry != 1 is never decrypted; at most one retry; each 7.1.1 rule with its alert class; an acceptable retried hello is replaced by its reconstructed inner hello with unchanged names. Tie: EXHAUSTIVE histories up to length 3 (quick) / 4 (thorough) over a 15-letter alphabet, against the model and an independent Go reference monitor.",
         "Lean kernel + propext/Quot.sound/Classical.choice; hand-written model tied to the Go code by the differential correspondence check; ideal HPKE; goroutine interleaving of Read and Write modelled as an arbitrary op list (each call atomic).",
         "Lean 4 proof (invariant by induction over op lists) + exhaustive bounded history enumeration as correspondence", "5/C06"),
 "C07": ("Lean theorems for every chunking, buffer size, split and cut (the transport is an arbitrary chunk list; statements mention only its concatenation): any sequence of Reads is a lossless in-order pipe (C07_read_pipe, C07_chunking_independent); bytes before a cut are delivered before the transport's error (C07_cut_inspecting, C07_cut_passthrough); every successful Write sequence leaves the client with the whole concatenation minus at most one incomplete record and reports len(b) (C07_write_pipe, C07_write_pipe_run). The record limit in the model is the code's (2^14+256). Tie: all 2^11 chunkings of a tail, a boundary and an EOF/error cut at every offset, every two-way write split, all record lengths 0..16640 and the illegal 16641.",
         "Lean kernel + propext/Quot.sound/Classical.choice; hand-written model tied to the Go code by the differential correspondence check; the single rewritten record of a retry is excluded from the pipe statement (covered by C06).",
         "Lean 4 proof (pipe invariant by induction over op lists / fuel) + differential correspondence", "5/C07"),
 "C08": ("PARTIAL proof. The model carries every Go index/slice/nil-dereference as an explicit panic outcome; Lean proves no panic in NewConn, Write, Read and in every run of any interleaving (C08_no_panic_*), progress of Read (never (0,nil)), and buffer bounds on both sides (C08_read_bound, C08_write_bound). Heap growth, wall-clock and the deadline behaviour under a stalling client are runtime facts: observed (stall at every byte offset under a 40 ms deadline; heap delta while draining 640 KB), not proved.",
         "Lean kernel + propext/Quot.sound/Classical.choice; hand-written model tied to the Go code by the differential correspondence check; runtime memory and time are observed; NewConn-by-deadline relies on the transport honouring SetDeadline (see C10).",
         "Lean 4 proof (totality of a panic-explicit model, invariants) + mutation streams as correspondence", "5/C08"),
 "C09": ("Lean theorems over the key loop with an ideal HPKE: if every other key yields 'continue', any list containing the target at any position, with repetitions, behaves exactly like the target alone (C09_superset); a valid key the hello was not sealed to always continues, whatever its id/suites/name (first hello), and only the key that opened the first hello is tried on a retry; with no seal under any held key, never accepted (C09_converse). Tie: EXHAUSTIVE ordered key lists of length 1..3 (quick) / 1..4 (thorough) from a 6-key pool with colliding ids, first and retried hellos.",
         "Lean kernel + propext/Quot.sound/Classical.choice; hand-written model tied to the Go code by the differential correspondence check; ideal HPKE; valid keys = private key parses for its KEM.",
         "Lean 4 proof (list induction over the key loop, ideal HPKE) + exhaustive key-list enumeration as correspondence", "5/C09"),
 "C12": ("Lean theorems over a total model of the decoder: name decoding stops by itself within 511 iterations whatever the pointers (any fuel >= 511 gives the same answer: C12_name_bounded), decoded names have at most 255 octets, record data has the Go dynamic type implied by the record type (C12_types), a decoded message with q questions and r records needs at least 12+5q+11r bytes so lying counts cannot amplify work (C12_cost), and the resolver's type assertions cannot fail on any decoded message (C12_resolver_safe). Wall-clock and heap are observed in a child process with a watchdog; each decodable message is also driven through the real Resolver.Resolve via a local DoH server.",
         "Lean kernel + propext/Quot.sound/Classical.choice; hand-written model tied to the Go code by the differential correspondence check; LOC records (floating point) are opaque in the model; time and memory are observed, the theorem bounds loop iterations.",
         "Lean 4 proof (fuel-independence / measure argument, typed decoder) + differential correspondence on adversarial messages", "5/C12"),
 "C13": ("PARTIAL proof. Lean theorems: the name codec round trip for well-formed labels at any position of any message (C13_name_roundtrip), the header flag-word round trip for all field values in range, the AddPadding length law (encoded length % 128 = 0 whenever AddPadding and the encoder succeed: C13_padding) and the extended-RCODE law. The whole-message round trip for every encoder record type and the two-way agreement with golang.org/x/net/dns/dnsmessage (incl. compression produced by the other side, MX/SOA/TXT/SRV) are carried by the campaign: exhaustive over all 8192 header combinations and all question-name lengths 0..253, names of 0..127 labels, random HTTPS parameter sets and EDNS options.",
         "Lean kernel + propext/Quot.sound/Classical.choice; hand-written model tied to the Go code by the differential correspondence check; whole-message round trip and agreement with the independent codec are checked on generated messages, not proved.",
         "Lean 4 proof (name codec round trip, padding arithmetic) + differential correspondence incl. an independent DNS codec", "5/C13"),
 "C14": ("Lean theorems over the model of Resolve / resolveOneNoCache for every universe of DNS data: the HTTPS query name has the RFC 9460 form (C14_qnames), over-long host or constructed names are refused before any query (C14_invalid_name), every datum used comes from a record of the asked type whose owner is the queried name or reached from it by the CNAME records preceding it in that answer - unrelated owners are never used (C14_owner), the alias walk asks at most 4 HTTPS questions, never the same name twice (C14_alias), target lookups are bounded by two per service target (C14_targets_bounded), records are a priority-sorted permutation (C14_sorted), response codes 1..5 map to the documented errors and NXDOMAIN on the HTTPS lookup is absence. Tie: random zones with alias chains/loops, in-answer CNAME chains, poisoned extra answers, error codes, all name forms/ports/schemes/lengths, through the real Resolver and a logging local DoH server (exact query log compared).",
         "Lean kernel + propext/Quot.sound/Classical.choice; hand-written model tied to the Go code by the differential correspondence check; url.Parse / net.SplitHostPort / strconv.ParseUint / net.ParseIP / strings.ToLower results are computed by the Go standard library and passed to the model as data; sort.Slice is modelled as a stable insertion sort (what Go does for <= 12 elements).",
         "Lean 4 proof (function over an arbitrary DNS universe, list inductions) + differential correspondence with exact query logs", "5/C14"),
 "C15": ("Lean theorems: the iterator equals the declarative TargetsSpec (C15_refines: service records in order, own addresses / port with 80->443 upgrade / ECH / ALPN (+http/1.1), family restriction, first occurrence of each address/port, plain addresses only when no record produced a target), no duplicate address/port pairs, family restriction, alias-mode records ignored, every target carries its own record's data (C15_own_record), early termination yields a prefix, and - on the Go-slice model - appending after slices.Clip never writes into the record's backing array (C15_no_writes). Tie: generated results x 6 networks x every stop point, with ALPN slices with spare capacity and a sentinel; TargetsSpec evaluated in Lean on the implementation's output.",
         "Lean kernel + propext/Quot.sound/Classical.choice; hand-written model tied to the Go code by the differential correspondence check; Go slice semantics (append in place when len < cap) as encoded in goAppend/goClip; netip address identity = byte identity.",
         "Lean 4 proof (refinement of the iterator to a declarative spec) + differential correspondence", "5/C15"),
 "C16": ("PARTIAL proof. Lean theorems over the cache model with an arbitrary clock and universe per step: every answer is either fetched during the call or a stored result younger than the smallest TTL of the response it came from (C16_fresh), zero-TTL and expired entries are always re-fetched, unexpired entries are served without an upstream query, failures are never stored, and the invariant is preserved by every critical section, hence by every interleaving of lookups by any number of goroutines with clock advances, zone changes, upstream failures and evictions (C16_atomic). Data-race freedom is a Go memory-model fact: observed with the race detector in the thorough tier (plus C15_no_writes), not proved. Tie: exhaustive histories over {resolve a/b/c, advance 3/8/301 s, zone toggle, failure toggle} through the real Resolver with an injected clock, compared with the model (results and upstream queries with times) and an independent Go freshness monitor.",
         "Lean kernel + propext/Quot.sound/Classical.choice; hand-written model tied to the Go code by the differential correspondence check; hook VerifSetClock (build tag verif); the 2Q eviction policy is abstracted as 'may forget any entry'; each lock-protected section is one atomic step; data races observed with -race.",
         "Lean 4 proof (invariant over histories / interleavings) + exhaustive bounded history enumeration as correspondence + race detector", "5/C16"),
 "C11": ("Lean 4 theorems over the model of config.go (round trip with arbitrary trailing bytes, list round trip, "
         "exact definedness condition of Bytes, rejection of every strict prefix, no over-read, well-formedness against an "
         "independent transcription of the draft section 4 grammar), for all ids / names / suites / keys; the model is tied "
         "to the code by a differential check that is exhaustive over ids 0..255 and name lengths 0..300 and runs every "
         "truncation, and crypto/tls client+server acceptance is observed by real handshakes.",
         "Lean kernel + propext/Quot.sound/Classical.choice; hand-written model tied to the Go code by the differential correspondence check; key generation abstracted; crypto/tls acceptance observed, not proved.",
         "Lean 4 proof (codec round-trip / inversion lemmas) + differential correspondence model<->Go", "5/C11"),
}
PENDING_REASON = "check not built yet in this round (work in progress; see DESIGN.md section 5 for the planned theorem and tie)"

def main():
    props = [json.loads(l) for l in open(os.path.join(ROOT, "properties.jsonl"))]
    checks, na = [], []
    for p in props:
        pid = p["id"]
        if pid in CLAIMED:
            text, note, tech, ref = CLAIMED[pid]
            checks.append({
                "property_id": pid,
                "quick_cmd": f"./check {pid} quick",
                "thorough_cmd": f"./check {pid} thorough",
                "evidence_file": f"/verif/evidence/{pid}.json",
                "replay_cmd_template": f"./check {pid} --replay {{path}}",
                "engine": "lean-model+go-diff",
                "level_claimed": {"category": "proof", "text": text, "design_ref": ref},
                "level_note": note,
                "technique": tech,
            })
        else:
            na.append({"property_id": pid, "reason": PENDING_REASON})
    hooks_commits = []
    hc = os.path.join(ROOT, "HOOK_COMMITS.txt")
    if os.path.exists(hc):
        hooks_commits = [l.split()[0] for l in open(hc) if l.strip()]
    m = {
        "version": 1,
        "setup_cmd": "./check --setup",
        "hooks": {
            "guard": "verif",
            "enable": "go1.26.8 build -tags verif (GOFLAGS=-mod=mod GOPROXY=off GOSUMDB=off GOTOOLCHAIN=local); harness module replaces github.com/c2FmZQ/ech => /repo",
            "baseline_off_cmd": "for m in . publish quic; do (cd /repo/$m && go test -vet=off -count=1 -timeout 25m ./...) || exit 1; done",
            "source_commits": hooks_commits,
            "add_only": True,
        },
        "engines": [{
            "name": "lean-model+go-diff", "path": "/verif/check",
            "serves_properties": sorted(CLAIMED),
            "kind_free_text": "Lean 4 model + theorems (lean/), core-only driver echdrv, Go differential harness (harness/) calling the real public API in-process; python orchestrator ./check",
        }],
        "checks": checks,
        "not_applicable": na,
        "notes": "Every check: (1) lake build of the property's theorem file + #print axioms audit + statement lock + forbidden-token scan, (2) correspondence model vs implementation, (3) executable specification predicates evaluated on the implementation's outputs. See DESIGN.md.",
    }
    json.dump(m, open(os.path.join(ROOT, "MANIFEST.json"), "w"), indent=1)
    print("MANIFEST: %d checks, %d not_applicable" % (len(checks), len(na)))

if __name__ == "__main__":
    main()
