#!/usr/bin/env python3
"""Regenerates /verif/MANIFEST.json from the table below (kept valid at all times)."""
import json, os
ROOT = os.path.dirname(os.path.dirname(os.path.abspath(__file__)))

# id -> (level text, level note, technique, design_ref)
CLAIMED = {
 "C11": ("Lean 4 theorems over the model of config.go (round trip with arbitrary trailing bytes, list round trip, "
         "exact definedness condition of Bytes, rejection of every strict prefix, no over-read, well-formedness against an "
         "independent transcription of the draft section 4 grammar), for all ids / names / suites / keys; the model is tied "
         "to the code by a differential check that is exhaustive over ids 0..255 and name lengths 0..300 and runs every "
         "truncation, and crypto/tls client+server acceptance is observed by real handshakes.",
         "Lean kernel + propext/Quot.sound/Classical.choice; hand-written model tied by differential testing; key generation abstracted; crypto/tls acceptance observed, not proved.",
         "Lean 4 proof (codec round-trip / inversion lemmas) + differential correspondence model<->Go", "5/C11"),
}
PENDING_REASON = "check not built yet in this round (work in progress; see DESIGN.md section 5 for the planned theorem and tie)"

def main():
    props = [json.loads(l) for l in open(os.path.join(ROOT, "properties.jsonl"))]
    checks, na = [], []
    for p in props:
        pid = p["id"]
        if pid in CLAIMED:
            text, note, tech, ref = CLAIMED[pid]
            checks.append({
                "property_id": pid,
                "quick_cmd": f"./check {pid} quick",
                "thorough_cmd": f"./check {pid} thorough",
                "evidence_file": f"/verif/evidence/{pid}.json",
                "replay_cmd_template": f"./check {pid} --replay {{path}}",
                "engine": "lean-model+go-diff",
                "level_claimed": {"category": "proof", "text": text, "design_ref": ref},
                "level_note": note,
                "technique": tech,
            })
        else:
            na.append({"property_id": pid, "reason": PENDING_REASON})
    hooks_commits = []
    hc = os.path.join(ROOT, "HOOK_COMMITS.txt")
    if os.path.exists(hc):
        hooks_commits = [l.split()[0] for l in open(hc) if l.strip()]
    m = {
        "version": 1,
        "setup_cmd": "./check --setup",
        "hooks": {
            "guard": "verif",
            "enable": "go1.26.8 build -tags verif (GOFLAGS=-mod=mod GOPROXY=off GOSUMDB=off GOTOOLCHAIN=local); harness module replaces github.com/c2FmZQ/ech => /repo",
            "baseline_off_cmd": "for m in . publish quic; do (cd /repo/$m && go test -vet=off -count=1 -timeout 25m ./...) || exit 1; done",
            "source_commits": hooks_commits,
            "add_only": True,
        },
        "engines": [{
            "name": "lean-model+go-diff", "path": "/verif/check",
            "serves_properties": sorted(CLAIMED),
            "kind_free_text": "Lean 4 model + theorems (lean/), core-only driver echdrv, Go differential harness (harness/) calling the real public API in-process; python orchestrator ./check",
        }],
        "checks": checks,
        "not_applicable": na,
        "notes": "Every check: (1) lake build of the property's theorem file + #print axioms audit + statement lock + forbidden-token scan, (2) correspondence model vs implementation, (3) executable specification predicates evaluated on the implementation's outputs. See DESIGN.md.",
    }
    json.dump(m, open(os.path.join(ROOT, "MANIFEST.json"), "w"), indent=1)
    print("MANIFEST: %d checks, %d not_applicable" % (len(checks), len(na)))

if __name__ == "__main__":
    main()
