#!/bin/bash
# tools/seedintake.sh <round-dir> <worktree-root> <prefix> <Cxx>  — verify the two changes of one agent, copy to seeded/, run own-property quick check
rd=$1; wt=$2; pre=$3; p=$4
for m in mut1 mut2; do
  src=$rd/out/$p/$m
  [ -f $src/patch.diff ] || { echo "$p/$m: no patch"; continue; }
  v=$(tools/seedverify.sh $src $wt/$p 2>&1 | tail -1)
  echo "$p/$m verify: $v"
  case "$v" in *"build=1 suite=1 demo_clean_passes=1 demo_mut_fails=1"*) ;; *) echo "  NOT CONFIRMED"; continue;; esac
  d=seeded/$p-$pre$m; mkdir -p $d
  cp $src/patch.diff $src/meta.json $src/demo_output.txt $d/ 2>/dev/null; cp $src/demo*_test.go $d/ 2>/dev/null
  tools/seedcheck.sh $d quick
done
