#!/bin/bash
# tools/seedverify.sh <srcdir> <scratch-worktree>
# Confirms a seeded change: applies cleanly, builds, baseline suite passes, demo fails with it and passes without.
# srcdir has patch.diff, meta.json, demo_test.go (or demo/). Prints a one-line verdict; exit 0 if all confirmed.
src=$1; wt=$2
export PATH=/root/go/pkg/mod/golang.org/toolchain@v0.0.1-go1.24.0.linux-amd64/bin:$PATH
export GOFLAGS=-mod=mod GOPROXY=off GOSUMDB=off GOTOOLCHAIN=local
cd $wt || exit 2
git checkout -q -- . && git clean -fdq
git apply --check $src/patch.diff || { echo "NOAPPLY"; exit 1; }
# where does the demo go?
demo=$(ls $src/demo_test.go $src/demo*_test.go 2>/dev/null | head -1)
pkgdir=$(python3 - "$src/meta.json" <<'PY'
import json,sys,re
m=json.load(open(sys.argv[1])); d=m.get('demo','')
# guess package dir from demo text
for cand in ['publish','dns','quic','internal/hpke','testutil']:
    if re.search(r'(/|\b)'+cand+r'(/|\b)', d) and ('root' not in d.lower() or cand in d.split('root')[0]):
        print(cand); break
else: print('.')
PY
)
pkgline=$(head -20 "$demo" | grep -m1 '^package ')
case "$pkgline" in
  "package dns"*) pkgdir=dns;;
  "package publish"*) pkgdir=publish;;
  "package ech"*) pkgdir=.;;
esac
run_demo() { cp "$demo" $wt/$pkgdir/zz_seed_demo_test.go; (cd $wt/$pkgdir && timeout 600 go test -vet=off -count=1 -run 'Demo|Mut|C[0-9][0-9]' . 2>&1 | tail -5); rc=${PIPESTATUS[0]}; rm -f $wt/$pkgdir/zz_seed_demo_test.go; return $rc; }
out_clean=$(run_demo); rc_clean=$?
echo "$out_clean" | grep -q "^ok" && clean_ok=1 || clean_ok=0
git apply $src/patch.diff
build_ok=1; for m in . publish quic; do (cd $m && go build ./... ) >/dev/null 2>&1 || build_ok=0; done
suite_ok=1; for m in . publish quic; do (cd $m && go test -vet=off -count=1 ./... ) >/tmp/seedverify-suite.log 2>&1 || suite_ok=0; done
out_mut=$(run_demo)
echo "$out_mut" | grep -q "^FAIL\|--- FAIL\|panic" && mut_fails=1 || mut_fails=0
git checkout -q -- . && git clean -fdq
echo "pkg=$pkgdir build=$build_ok suite=$suite_ok demo_clean_passes=$clean_ok demo_mut_fails=$mut_fails"
[ $build_ok = 1 ] && [ $suite_ok = 1 ] && [ $clean_ok = 1 ] && [ $mut_fails = 1 ]
