/-
  Model of the context handling of NewConn (/repo/ech.go): main goroutine, watcher goroutine and
  environment as a labelled transition system. `select` picks any ready case; the Go scheduler is an
  arbitrary interleaving of the atomic steps below; the unbuffered `exited` channel is a rendezvous.
-/
namespace Ctx

inductive MainPc
  | reading        -- blocked in readRecord
  | processing     -- record read, parsing / decrypting
  | joinOk         -- deferred: close(done) executed, waiting on <-exited, err == nil
  | joinErr        -- same, err != nil
  | clearing       -- watcher reported it fired and err == nil: about to SetDeadline(time.Time{})
  | returning (ok : Bool)
  | returned (ok : Bool)
deriving DecidableEq, Repr

inductive WPc
  | notStarted | selecting
  | firing         -- picked <-ctx.Done(): about to SetDeadline(time.Now())
  | sendTrue       -- blocked on exited <- true
  | sendFalse      -- picked <-done: blocked on exited <- false
  | exited
deriving DecidableEq, Repr

structure St where
  main : MainPc
  w : WPc
  helloAvail : Bool
  ctxDone : Bool
  doneClosed : Bool
  deadlineSet : Bool    -- a deadline set on behalf of ctx is in force
  badEvent : Bool       -- SetDeadline(now) happened after a successful return
deriving DecidableEq, Repr

def init : St := ⟨.reading, .notStarted, false, false, false, false, false⟩

inductive Label
  | helloArrives | ctxCancel                 -- environment
  | mainReadOk | mainReadErr                 -- blocking read completes / fails on the deadline
  | mainProcessOk | mainProcessErr           -- handleClientHello succeeds / fails; then close(done)
  | recvExited                               -- rendezvous on `exited`
  | mainClear                                -- SetDeadline(time.Time{})
  | mainReturn
  | wStart | wPickDone | wPickCtx | wFire
deriving DecidableEq, Repr

def step (s : St) : Label → Option St
  | .helloArrives => if s.helloAvail then none else some { s with helloAvail := true }
  | .ctxCancel => if s.ctxDone then none else some { s with ctxDone := true }
  | .mainReadOk =>
    if s.main = .reading ∧ s.helloAvail ∧ ¬ s.deadlineSet then some { s with main := .processing } else none
  | .mainReadErr =>
    if s.main = .reading ∧ s.deadlineSet then some { s with main := .joinErr, doneClosed := true } else none
  | .mainProcessOk => if s.main = .processing then some { s with main := .joinOk, doneClosed := true } else none
  | .mainProcessErr => if s.main = .processing then some { s with main := .joinErr, doneClosed := true } else none
  | .recvExited =>
    match s.main, s.w with
    | .joinOk, .sendTrue => some { s with main := .clearing, w := .exited }
    | .joinOk, .sendFalse => some { s with main := .returning true, w := .exited }
    | .joinErr, .sendTrue => some { s with main := .returning false, w := .exited }
    | .joinErr, .sendFalse => some { s with main := .returning false, w := .exited }
    | _, _ => none
  | .mainClear => if s.main = .clearing then some { s with main := .returning true, deadlineSet := false } else none
  | .mainReturn =>
    match s.main with
    | .returning ok => some { s with main := .returned ok }
    | _ => none
  | .wStart => if s.w = .notStarted then some { s with w := .selecting } else none
  | .wPickDone => if s.w = .selecting ∧ s.doneClosed then some { s with w := .sendFalse } else none
  | .wPickCtx => if s.w = .selecting ∧ s.ctxDone then some { s with w := .firing } else none
  | .wFire =>
    if s.w = .firing then
      some { s with w := .sendTrue, deadlineSet := true, badEvent := s.badEvent || (s.main == .returned true) }
    else none

def run : St → List Label → Option St
  | s, [] => some s
  | s, l :: ls => match step s l with
    | none => none
    | some s' => run s' ls

/-! ### observable events and trace acceptance (used by the correspondence check) -/

inductive Obs | hello | cancel | fire | clear | retOk | retErr
deriving DecidableEq, Repr

def internal : List Label := [.mainReadOk, .mainReadErr, .mainProcessOk, .mainProcessErr, .recvExited, .wStart, .wPickDone, .wPickCtx]

/-- the labelled steps that produce an observable event -/
def obsSteps (s : St) : Obs → List St
  | .hello => (step s .helloArrives).toList
  | .cancel => (step s .ctxCancel).toList
  | .fire => (step s .wFire).toList
  | .clear => (step s .mainClear).toList
  | .retOk => match s.main with
    | .returning true => (step s .mainReturn).toList
    | _ => []
  | .retErr => match s.main with
    | .returning false => (step s .mainReturn).toList
    | _ => []

/-- closure under internal steps; the state space is tiny, `fuel` rounds suffice -/
def closure : Nat → List St → List St
  | 0, ss => ss
  | fuel+1, ss =>
    let next := ss.flatMap fun s => internal.filterMap (step s)
    let new := next.filter (fun t => ¬ ss.contains t)
    if new.isEmpty then ss else closure fuel (ss ++ new.eraseDups)

/-- does the transition system exhibit this sequence of observable events? -/
def accepts (trace : List Obs) : Bool :=
  let final := trace.foldl (fun ss o => closure 12 ((ss.flatMap fun s => obsSteps s o).eraseDups)) (closure 12 [init])
  ¬ final.isEmpty

end Ctx
