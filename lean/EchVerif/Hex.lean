import EchVerif.Wire
/- Hex / token helpers for the line protocol (driver only; nothing here is part of a model). -/
namespace Hex

def hexVal (c : Char) : Option Nat :=
  if '0' ≤ c ∧ c ≤ '9' then some (c.toNat - '0'.toNat)
  else if 'a' ≤ c ∧ c ≤ 'f' then some (c.toNat - 'a'.toNat + 10)
  else none

def unhexGo : List Char → List UInt8 → Option (List UInt8)
  | [], acc => some acc.reverse
  | a :: b :: rest, acc =>
    match hexVal a, hexVal b with
    | some x, some y => unhexGo rest (UInt8.ofNat (x * 16 + y) :: acc)
    | _, _ => none
  | _, _ => none

/-- `-` is the empty byte string -/
def unhex (s : String) : Option Bytes :=
  if s = "-" then some [] else unhexGo s.toList []

def digit (n : Nat) : Char :=
  if n < 10 then Char.ofNat (n + 48) else Char.ofNat (n + 87)

def hex (b : Bytes) : String :=
  if b.isEmpty then "-" else
  String.ofList (b.foldr (fun x acc => digit (x.toNat / 16) :: digit (x.toNat % 16) :: acc) [])

/-- comma separated list of hex strings; `_` is the empty list -/
def unhexList (s : String) : Option (List Bytes) :=
  if s = "_" then some [] else (s.splitOn ",").mapM unhex

def hexList (l : List Bytes) : String :=
  if l.isEmpty then "_" else ",".intercalate (l.map hex)

def natList (s : String) : Option (List Nat) :=
  if s = "_" then some [] else (s.splitOn ",").mapM String.toNat?

def showNatList (l : List Nat) : String :=
  if l.isEmpty then "_" else ",".intercalate (l.map toString)

end Hex
