import EchVerif.Lemmas.KeyLoop
import EchVerif.Lemmas.AadRefine
/-
  C02 — ECH is accepted only for an authentic payload bound to the exact outer hello.
  HPKE is ideal (section 6 of DESIGN.md): `H.seals` lists the seals that exist; the theorems quantify
  over every such world, so "authentic" means "this exact seal was performed".
-/
open Wire TLS
namespace ECH

/-- Whenever the key loop opens a payload on a FIRST hello (no stored context), the world contains
    a seal made to a held key whose config id and cipher suite the client named, under the info
    string "tls ech\0" ‖ config, the hello's encapsulated key, sequence number 0, with the
    ClientHelloOuterAAD of exactly this hello as associated data and exactly this payload as
    ciphertext; and the outer SNI is that config's public name. -/
theorem C02_accept_sound (H : Hpke) (st : St) (h : Hello) (ech : EchExt) (pt : Bytes) (c : Ctx) (cfgb : Bytes)
    (hfirst : st.ctx = none) (hk : keyLoop H st h ech st.keys = .opened pt c cfgb) :
    ∃ k ∈ st.keys, ∃ cfg aad, configSpec k.config = some cfg ∧ cfg.id = ech.configId ∧
      (∃ cs ∈ cfg.suites, cs.kdf = ech.kdf ∧ cs.aead = ech.aead) ∧
      h.marshalAAD = .ok aad ∧ cfg.publicName = h.d.serverName ∧
      (∃ s ∈ H.seals, s.priv = k.priv ∧ s.kem = cfg.kem ∧ s.kdf = ech.kdf ∧ s.aead = ech.aead ∧
         s.info = "tls ech\x00".toUTF8.toList ++ k.config ∧ s.enc = ech.enc ∧ s.seq = 0 ∧
         s.aad = aad ∧ s.ct = ech.payload ∧ s.pt = pt) ∧
      c.seq = 1 ∧ cfgb = k.config := by
  obtain ⟨pre, k, post, hks, _, hto⟩ := keyLoop_opened H st h ech st.keys pt c cfgb hk
  obtain ⟨cfg, c0, aad, hcfg, hid, hsu, _, hcand, haad, hopen, hpn, hc, hcb⟩ := tryKey_opened H st h ech k pt c cfgb hto
  obtain ⟨hc0, _, _, _⟩ := candCtx_fresh H st ech k cfg c0 hfirst hcand
  obtain ⟨s, hs, s1, s2, s3, s4, s5, s6, s7, s8, s9, s10⟩ := open_some H c0 aad ech.payload pt hopen
  subst hc0
  refine ⟨k, by simp [hks], cfg, aad, hcfg, hid, ?_, haad, hpn, ⟨s, hs, s1, s2, s3, s4, s5, s6, s7, s8, s9, s10⟩, by simp [hc], hcb⟩
  rw [List.any_eq_true] at hsu
  obtain ⟨cs, hcs, hh⟩ := hsu
  exact ⟨cs, hcs, by simpa using hh⟩

/-- Retried hello: the payload opens only under the context stored by the first acceptance, at the
    next sequence number, and only for the key that opened the first hello. -/
theorem C02_retry_sound (H : Hpke) (st : St) (h : Hello) (ech : EchExt) (pt : Bytes) (c c0 : Ctx) (cfgb : Bytes)
    (hctx : st.ctx = some c0) (hk : keyLoop H st h ech st.keys = .opened pt c cfgb) :
    ∃ aad, h.marshalAAD = .ok aad ∧ cfgb = st.ctxConfig ∧ c = { c0 with seq := c0.seq + 1 } ∧
      ∃ s ∈ H.seals, s.priv = c0.priv ∧ s.kem = c0.kem ∧ s.kdf = c0.kdf ∧ s.aead = c0.aead ∧
        s.info = c0.info ∧ s.enc = c0.enc ∧ s.seq = c0.seq ∧ s.aad = aad ∧ s.ct = ech.payload ∧ s.pt = pt := by
  obtain ⟨pre, k, post, hks, _, hto⟩ := keyLoop_opened H st h ech st.keys pt c cfgb hk
  obtain ⟨cfg, c1, aad, hcfg, hid, hsu, hskip, hcand, haad, hopen, hpn, hc, hcb⟩ := tryKey_opened H st h ech k pt c cfgb hto
  have hc1 : c1 = c0 := by
    have := candCtx_stored H st ech k cfg c0 hctx
    rw [this] at hcand
    simpa using hcand.symm
  subst hc1
  have hcfgeq : st.ctxConfig = k.config := by
    by_cases he : st.ctxConfig = k.config
    · exact he
    · exact absurd ⟨by simp [hctx], he⟩ hskip
  exact ⟨aad, haad, by rw [hcb, hcfgeq], hc, open_some H c1 aad ech.payload pt hopen⟩

/-- Converse: if no seal in the world was made to any held key for exactly this AAD and payload,
    the hello is never accepted — whatever else it contains. (Every bit of the ClientHelloOuter body
    is either in the AAD or in the payload; see C02_aad_covers_body.) -/
theorem C02_no_seal_no_accept (H : Hpke) (st : St) (h : Hello) (ech : EchExt)
    (hno : ∀ aad, h.marshalAAD = .ok aad → ∀ s ∈ H.seals, ¬ (s.aad = aad ∧ s.ct = ech.payload)) :
    ∀ pt c cfgb, keyLoop H st h ech st.keys ≠ .opened pt c cfgb := by
  intro pt c cfgb hk
  obtain ⟨pre, k, post, hks, _, hto⟩ := keyLoop_opened H st h ech st.keys pt c cfgb hk
  obtain ⟨cfg, c1, aad, _, _, _, _, _, haad, hopen, _⟩ := tryKey_opened H st h ech k pt c cfgb hto
  obtain ⟨s, hs, _, _, _, _, _, _, _, s8, s9, _⟩ := open_some H c1 aad ech.payload pt hopen
  exact hno aad haad s hs ⟨s8, s9⟩

/-- The three outcome shapes of NewConn: abort (error, alert, nothing buffered — C04), or a usable
    connection that is either accepted (inner hello buffered) or transparent fall-back (outer hello
    buffered, both directions in passthrough). There is no fourth shape. -/
theorem C02_clean_fallback (H : Hpke) (keys : List Key) (t : Tr) :
    (newConn H keys t).err.isSome ∨
    ((newConn H keys t).err = none ∧ (newConn H keys t).st.accepted = true ∧
       ∃ i, (newConn H keys t).st.inner = some i ∧ i.marshal = .ok (newConn H keys t).st.readBuf) ∨
    ((newConn H keys t).err = none ∧ (newConn H keys t).st.accepted = false ∧
       (newConn H keys t).st.readPT = true ∧ (newConn H keys t).st.writePT = true) := by
  unfold newConn
  split
  · left; simp [failNew]
  · split
    · left; simp [failNew]
    · split
      · left; simp [failNew]
      · rename_i outer inner st1 hh
        split
        · left; simp [failNew]
        · rename_i buf hm
          right
          cases inner with
          | some i => left; simp [St.accepted, afterHello, firstMarshal] at hm ⊢; exact hm
          | none => right; simp [St.accepted, afterHello]

/-- **ClientHelloOuterAAD refines the draft-level specification.** For every buffer the model parses
    as a ClientHello carrying an outer (type 0) ECH extension, the associated data the model feeds to
    HPKE (`marshalAAD`, i.e. `marshal(aad=true)[9:]` in the code) is exactly `Spec.aadSpec` of the
    ClientHello body as it came off the wire — the structure with the payload field of the ECH
    extension replaced by zeros of the same length (draft 5.2), computed on bytes by a definition
    written independently of client_hello.go. Hence the seals of C02_accept_sound / C02_retry_sound
    are bound to every byte of the outer hello other than the payload. -/
theorem C02_aad_refines_spec (buf : Bytes) (h : Hello) (e : EchExt) (a : Bytes)
    (hp : parseClientHello buf = .ok h) (he : h.d.ech = some e) (ht : e.typ = 0) (ha : h.marshalAAD = .ok a) :
    ∃ msg trail, buf = u8 1 ++ (u24 msg.length ++ msg) ++ trail ∧ Spec.aadSpec msg = some a := by
  obtain ⟨body, after, trail, hbuf, _, hmb0, hbody, hrnd, _, hpe, _, hno⟩ := parseClientHello_inv _ h hp
  have hne : h.noExt = false := by
    cases hn : h.noExt with
    | false => rfl
    | true =>
      exfalso
      have hex := (hno hn).1
      rw [hex] at hpe
      simp only [parseExtensions, parseExtensionsFrom, Except.ok.injEq] at hpe
      rw [← hpe] at he
      simp at he
  refine ⟨body ++ after, trail, hbuf, ?_⟩
  obtain ⟨s1, s2, s3, s4, _, hb0⟩ := marshalBody_inv h body hne hmb0
  have hfields := fields_body h.legacyVersion h.random h.sessionId h.cipherSuites h.compression (encExts h.exts) after hrnd s1 s2 s3 s4
  rw [← hb0] at hfields
  have hr0 := TLS.parseClientHello_exts_range _ h hp
  have hie := extsOf_parseExts _ _ (parseExts_encExts h.exts hr0)
  -- the model's AAD
  simp only [Hello.marshalAAD] at ha
  split at ha
  · simp at ha
  · rename_i m hm
    split at ha
    · simp at ha
    · simp only [Except.ok.injEq] at ha
      obtain ⟨b2, hmb2, hrec⟩ := marshalRecA_inv true h m hm
      simp only [marshalBody, he] at hmb2
      split at hmb2
      · simp at hmb2
      · rename_i eb hput
        split at hmb2
        · rename_i sid cs comp ex h1 h2 h3 h4
          simp only [Except.ok.injEq, hne, Bool.false_eq_true, if_false] at hmb2
          obtain ⟨_, rfl⟩ := lp8_inv h1
          obtain ⟨_, rfl⟩ := lp16_inv h2
          obtain ⟨_, rfl⟩ := lp8_inv h3
          obtain ⟨_, rfl⟩ := lp16_inv h4
          have hech : ∀ x ∈ h.exts, x.typ = 0xfe0d → ∃ y, parseEchExt x.data = .ok y ∧ y.typ = 0 ∧ y.payload.length = e.payload.length := by
            intro x hx hxt
            obtain ⟨y, hy, hdy⟩ := parseExtensionsFrom_ech_parse {} h.d h.exts hpe rfl x hx hxt
            rw [he] at hdy
            simp only [Option.some.injEq] at hdy
            subst hdy
            exact ⟨e, hy, ht, rfl⟩
          have heb := putExts_aad e.payload.length h.exts eb hech hput
          simp only [Spec.aadSpec, hfields, hie]
          subst hrec
          subst hmb2
          rw [← heb, ← ha]
          simp [u8, u16, u24, List.append_assoc]
        · simp at hmb2

end ECH
