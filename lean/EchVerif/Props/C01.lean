import EchVerif.Lemmas.Pipe
import EchVerif.Lemmas.NoPanic
/-
  C01 — split-mode ECH handshake completes end to end and routes on the inner hello.
  What is provable about the Conn (the premise TLS needs): each side sees exactly the bytes the
  handshake requires. That crypto/tls then completes, resumes and authenticates retry configs is
  observed on the real stack by the campaign (see DESIGN.md, "partial").
-/
open Wire TLS
namespace ECH

/-- the retry counter of a fresh connection is 0 -/
theorem newConn_retry (H : Hpke) (keys : List Key) (t : Tr) (hok : (newConn H keys t).err = none) :
    (newConn H keys t).st.retry = 0 ∧ (newConn H keys t).st.writeBuf = [] ∧ (newConn H keys t).st.readErr = none := by
  obtain ⟨record, t1, outer, inner, st1, buf, _, _, hh, _, hr⟩ := newConn_ok H keys t _ rfl hok
  rw [hr]
  obtain ⟨_, _, _, hproc, _⟩ := handle_inv H _ st1 record false outer inner hh
  rcases process_frame H _ st1 outer false inner hproc with ⟨_, e⟩ | ⟨_, _, _, _, _, _, e, _⟩ <;>
    (rw [e]; simp [afterHello])

/-- First flight, ECH accepted, any chunking of the client's bytes, any read-buffer sizes: the
    backend reads the marshalled reconstructed inner hello (C03 says what that is) followed by
    exactly the client's bytes after its first record; nothing is sent to the client by reading. -/
theorem C01_first_flight (H : Hpke) (keys : List Key) (t : Tr) (ns : List Nat)
    (hok : (newConn H keys t).err = none) (hacc : (newConn H keys t).st.accepted = true) :
    ∃ inner record t1, (newConn H keys t).st.inner = some inner ∧ readRecord t = (record, none, t1) ∧
      record ++ t1.stream = t.stream ∧
      inner.marshal = .ok (newConn H keys t).st.readBuf ∧
      (readsRun H (newConn H keys t).st (newConn H keys t).tr ns).1.flatten ++
        (readsRun H (newConn H keys t).st (newConn H keys t).tr ns).2.1.readBuf ++
        (readsRun H (newConn H keys t).st (newConn H keys t).tr ns).2.2.stream
        = (newConn H keys t).st.readBuf ++ t1.stream ∧
      (readsRun H (newConn H keys t).st (newConn H keys t).tr ns).2.2.out = t.out := by
  have hretry := (newConn_retry H keys t hok).1
  have hpipe := readsRun_pipe H ns (newConn H keys t).st (newConn H keys t).tr (Or.inl (by omega))
  obtain ⟨record, t1, outer, inner, st1, buf, hrr, _, hh, hm, hr⟩ := newConn_ok H keys t _ rfl hok
  have hspec := readRecord_spec t
  rw [hrr] at hspec
  simp only at hspec
  cases hi : inner with
  | none =>
    rw [hr] at hacc
    simp [St.accepted, afterHello, hi] at hacc
  | some i =>
    subst hi
    have htr : (newConn H keys t).tr = t1 := by rw [hr]
    have hrb : (newConn H keys t).st.readBuf = buf := by rw [hr]
    have hin : (newConn H keys t).st.inner = some i := by rw [hr]; simp [afterHello]
    refine ⟨i, record, t1, hin, hrr, hspec.1, ?_, ?_, ?_⟩
    · rw [hrb]; simpa [firstMarshal] using hm
    · rw [hpipe.1, htr]
    · rw [hpipe.2, htr, hspec.2.2.1]

/-- Stale or absent ECH (not accepted): the public-name server reads the client's hello
    re-marshalled (C05: byte-identical for canonical hellos) followed by exactly the client's
    remaining bytes, and every byte it writes reaches the client unchanged and immediately. -/
theorem C01_stale (H : Hpke) (keys : List Key) (t : Tr) (ns : List Nat) (b : Bytes)
    (hok : (newConn H keys t).err = none) (hna : (newConn H keys t).st.accepted = false) :
    ∃ outer record t1, readRecord t = (record, none, t1) ∧
      parseClientHello (record.drop 5) = .ok outer ∧
      outer.marshal = .ok (newConn H keys t).st.readBuf ∧
      (readsRun H (newConn H keys t).st (newConn H keys t).tr ns).1.flatten ++
        (readsRun H (newConn H keys t).st (newConn H keys t).tr ns).2.1.readBuf ++
        (readsRun H (newConn H keys t).st (newConn H keys t).tr ns).2.2.stream
        = (newConn H keys t).st.readBuf ++ t1.stream ∧
      (t.closed = false →
        (connWrite (newConn H keys t).st (newConn H keys t).tr b).tr.out = t.out ++ b ∧
        (connWrite (newConn H keys t).st (newConn H keys t).tr b).st.writeBuf = []) := by
  have hretry := (newConn_retry H keys t hok).1
  have hpipe := readsRun_pipe H ns (newConn H keys t).st (newConn H keys t).tr (Or.inl (by omega))
  obtain ⟨record, t1, outer, inner, st1, buf, hrr, _, hh, hm, hr⟩ := newConn_ok H keys t _ rfl hok
  have hspec := readRecord_spec t
  rw [hrr] at hspec
  simp only at hspec
  obtain ⟨hpo, _, _, hproc, _⟩ := handle_inv H _ st1 record false outer inner hh
  cases hi : inner with
  | some i =>
    rw [hr] at hna
    simp [St.accepted, afterHello, hi] at hna
  | none =>
    subst hi
    have hst1 := process_none H _ st1 outer false hproc
    have htr : (newConn H keys t).tr = t1 := by rw [hr]
    refine ⟨outer, record, t1, hrr, hpo, ?_, ?_, ?_⟩
    · rw [hr]; simpa [firstMarshal] using hm
    · rw [hpipe.1, htr]
    · intro hopen
      have hcl : t1.closed = false := by rw [hspec.2.2.2.1, hopen]
      rw [hr]
      subst hst1
      simp only [afterHello, connWrite]
      simp [Tr.write, hcl, hspec.2.2.1]

/-- The names reported by the Conn are those of the hello the backend receives: the inner hello's
    when ECH is accepted, the outer hello's otherwise. -/
theorem C01_names (H : Hpke) (keys : List Key) (t : Tr) :
    (∀ i, (newConn H keys t).st.inner = some i →
        (newConn H keys t).st.serverName = i.d.serverName ∧ (newConn H keys t).st.alpn = i.d.alpn) ∧
    ((newConn H keys t).st.inner = none → ∀ o, (newConn H keys t).st.outer = some o →
        (newConn H keys t).st.serverName = o.d.serverName ∧ (newConn H keys t).st.alpn = o.d.alpn) := by
  refine ⟨fun i hi => by simp [St.serverName, St.alpn, hi], fun hn o ho => by simp [St.serverName, St.alpn, hn, ho]⟩

end ECH
