import EchVerif.Lemmas.Conn
import EchVerif.Lemmas.Transport
/-
  C04 — illegal or malformed Encrypted Client Hellos are aborted with the mandated alert.
-/
open Wire TLS
namespace ECH

/-- Effects of every failing NewConn: the client receives exactly the fatal alert record of the
    returned error class (10/47/50/51/109, else 40) after whatever was written before, the transport
    is closed (end of stream), and nothing is buffered for a backend. -/
theorem C04_abort_effects (H : Hpke) (keys : List Key) (t : Tr) (e : Err) (r : NewResult)
    (hr : newConn H keys t = r) (he : r.err = some e) (hopen : t.closed = false) :
    r.tr.out = t.out ++ alertRecord e ∧ r.tr.closed = true ∧ r.st.readBuf = [] := by
  have hrr := readRecord_spec t
  unfold newConn at hr
  rcases hrec : readRecord t with ⟨rec, oe, t1⟩
  rw [hrec] at hrr hr
  simp only at hrr
  obtain ⟨_, _, hout, hcl, _⟩ := hrr
  have hw : ∀ x, (alertRaw x t1).out = t.out ++ alertRecord x ∧ (alertRaw x t1).closed = true := by
    intro x
    have := (write_spec (alertRecord x) t1).1 (by rw [hcl, hopen])
    simp [alertRaw, this, Tr.close, hout]
  cases oe with
  | some e' =>
    simp only at hr
    subst hr
    simp only [failNew, Option.some.injEq] at he
    subst he
    simp [failNew, hw]
  | none =>
    simp only at hr
    split at hr
    · subst hr
      simp only [failNew, Option.some.injEq] at he
      subst he
      simp [failNew, hw]
    · split at hr
      · subst hr
        simp only [failNew, Option.some.injEq] at he
        subst he
        simp [failNew, hw]
      · rename_i outer inner st1 hh
        split at hr
        · subst hr
          simp only [failNew, Option.some.injEq] at he
          subst he
          obtain ⟨_, _, _, hproc, _⟩ := handle_inv H _ st1 rec false outer inner hh
          have hrb : st1.readBuf = [] := by
            rcases process_frame H _ st1 outer false inner hproc with ⟨_, h1⟩ | ⟨_, _, _, _, _, _, h2, _⟩
            · rw [h1]
            · rw [h2]
          simp [failNew, hw, afterHello, hrb]
        · subst hr
          simp at he

/-- draft 5.1: ech_outer_extensions in ClientHelloOuter ⇒ illegal_parameter, before any decryption -/
theorem C04_rule_outerHasEOE (H : Hpke) (st : St) (record : Bytes) (r : Bool) (outer : Hello)
    (hp : parseClientHello (record.drop 5) = .ok outer) (hv : outer.d.hasEOE = true) :
    handle H st record r = .error .illegal := by
  unfold handle
  simp [hp, hv]

/-- draft 7: ECH type `inner` sent to a server that has keys ⇒ illegal_parameter -/
theorem C04_rule_typeInnerWithKeys (H : Hpke) (st : St) (record : Bytes) (r : Bool) (outer : Hello)
    (hp : parseClientHello (record.drop 5) = .ok outer) (hk : st.keys ≠ [])
    (hv : (outer.d.ech.map (·.typ)) = some 1) :
    handle H st record r = .error .illegal := by
  unfold handle
  simp only [hp]
  split
  · rfl
  · have : ¬ st.keys.isEmpty = true := by simpa using hk
    simp [this, hv]

/-- draft 7: an ECHClientHello.type other than outer(0)/inner(1) ⇒ illegal_parameter, at whatever
    position the extension sits and whatever follows the type byte -/
theorem C04_rule_unknownEchType (d : Derived) (e : Ext) (ty : Nat) (rest : Bytes)
    (ht : e.typ = 0xfe0d) (hr : readU8 e.data = some (ty, rest)) (hty : ty > 1) :
    extStep d e = .error .illegal := by
  unfold extStep
  simp only [ht]
  simp only [show (0xfe0d : Nat) ≠ 0 by decide, show (0xfe0d : Nat) ≠ 16 by decide,
    show (0xfe0d : Nat) ≠ 43 by decide, show (0xfe0d : Nat) ≠ 0xfd00 by decide, if_false, if_true]
  split
  · rfl
  · simp [parseEchExt, hr, hty]

/-- an error in any extension aborts the whole hello with that error: errors propagate through the
    extension fold, the ClientHello parser and handleClientHello unchanged -/
theorem C04_ext_error_propagates (d : Derived) (pre post : List Ext) (e : Ext) (x : Err) (d' : Derived)
    (hpre : parseExtensionsFrom d pre = .ok d') (he : extStep d' e = .error x) :
    parseExtensionsFrom d (pre ++ e :: post) = .error x := by
  induction pre generalizing d with
  | nil =>
    simp only [parseExtensionsFrom, Except.ok.injEq] at hpre
    subst hpre
    simp [parseExtensionsFrom, he]
  | cons p ps ih =>
    simp only [parseExtensionsFrom] at hpre
    split at hpre
    · simp at hpre
    · rename_i d1 h1
      simp only [List.cons_append, parseExtensionsFrom, h1]
      exact ih d1 hpre

/-- draft 7.1: the outer SNI must be the config's public name once the payload opens under it -/
theorem C04_rule_sniNotPublicName (H : Hpke) (st : St) (h : Hello) (ech : EchExt) (k : Key)
    (cfg : ConfigSpec) (c : Ctx) (aad pt : Bytes)
    (hcfg : configSpec k.config = some cfg)
    (hm : ¬ (cfg.id ≠ ech.configId ∨ ¬ cfg.suites.any (fun s => s.kdf = ech.kdf ∧ s.aead = ech.aead)))
    (hs : ¬ (st.ctx.isSome ∧ st.ctxConfig ≠ k.config))
    (hc : candCtx H st ech k cfg = .ok c) (ha : h.marshalAAD = .ok aad)
    (ho : H.open c aad ech.payload = some pt) (hn : cfg.publicName ≠ h.d.serverName) :
    tryKey H st h ech k = .fail .illegal := by
  unfold tryKey
  simp only [hcfg, hm, hs, if_false, hc, ha, ho, hn, ne_eq, not_false_eq_true, if_true]

/-- Everything an accepted inner hello satisfies (contrapositive: an authentic payload violating any
    of these is never accepted): its EncodedClientHelloInner parses, carries the inner-type ECH
    extension, its padding is all zero, the reconstructed hello offers TLS 1.3, and the
    outer-extension references expanded without error. -/
theorem C04_accepted_inner_obeys_rules (outer inner : Hello) (pt : Bytes)
    (h : decodeInner outer pt = .ok inner) :
    ∃ h0 body after,
      parseClientHello (u8 1 ++ (u24 pt.length ++ pt)) = .ok h0 ∧
      pt = body ++ after ∧ allZero after = true ∧
      (h0.d.ech.map (·.typ)) = some 1 ∧
      expandExts outer.exts h0.exts false = .ok inner.exts ∧
      parseExtensions inner.exts = .ok inner.d ∧ inner.d.tls13 = true := by
  unfold decodeInner at h
  split at h
  · simp at h
  · rename_i m hm
    simp only [lp24] at hm
    split at hm
    · rename_i hl
      simp only [Option.some.injEq] at hm
      subst hm
      split at h
      · simp at h
      · rename_i h0 hp
        split at h
        · simp at h
        · rename_i hty
          split at h
          · simp at h
          · rename_i newExt hx
            split at h
            · simp at h
            · rename_i d hd
              split at h
              · simp at h
              · rename_i htls
                simp only [Except.ok.injEq] at h
                subst h
                obtain ⟨body, after, trail, hbuf, hl2, _, _, _, _, _, hz, _⟩ := parseClientHello_inv _ h0 hp
                have hty' : (h0.d.ech.map (·.typ)) = some 1 := by simpa using hty
                obtain ⟨hza, _⟩ := hz hty'
                have hbuf' : u8 1 ++ (u24 pt.length ++ pt) =
                    u8 1 ++ (u24 (body ++ after).length ++ ((body ++ after) ++ trail)) := by
                  rw [hbuf]; simp only [List.append_assoc]
                have hcut := List.append_cancel_left hbuf'
                obtain ⟨hu, hpt⟩ := List.append_inj hcut (by simp [u24])
                have hn := u24_inj hl hl2 hu
                have htr : trail = [] := by
                  have := congrArg List.length hpt
                  rw [List.length_append, hn] at this
                  exact List.length_eq_zero_iff.mp (by omega)
                subst htr
                exact ⟨h0, body, after, hp, by simpa using hpt, hza, hty', hx, hd, by simpa using htls⟩
    · simp at hm

end ECH
