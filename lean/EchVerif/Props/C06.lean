import EchVerif.Lemmas.Inv
/-
  C06 — only a HelloRetryRequest re-arms ECH processing, under the retry rules.
-/
open Wire TLS
namespace ECH

/-- The invariant holds in every state reachable from a successful NewConn by ANY interleaving of
    Read, Write and arriving client data. (retry ≥ 1 only on accepted connections whose write side
    has stopped inspecting; the HPKE sequence number is 1 after NewConn and 2 only once the read
    side is in passthrough; connections without an inner hello hold no HPKE context.) -/
theorem C06_inv_all_reachable (H : Hpke) (keys : List Key) (t : Tr) (ops : List Op)
    (hok : (newConn H keys t).err = none) :
    Inv (runOps H ⟨(newConn H keys t).st, (newConn H keys t).tr⟩ ops).1.st := by
  have key : ∀ (ops : List Op) (s : Sys), Inv s.st → Inv (runOps H s ops).1.st := by
    intro ops
    induction ops with
    | nil => intro s h; exact h
    | cons op ops ih =>
      intro s h
      simp only [runOps]
      apply ih
      cases op with
      | read n => exact inv_read H s.st s.tr n h
      | write b => exact inv_write s.st s.tr b h
      | feed cs => exact h
  exact key ops _ (inv_newConn H keys t hok)

/-- The retry counter moves only when a written record is a ServerHello whose random is the
    HelloRetryRequest magic value. -/
theorem C06_only_hrr_rearms (fuel blen : Nat) (st : St) (t : Tr)
    (h : (writeLoop fuel blen st t).st.retry ≠ st.retry) :
    ∃ record, record.head? = some 22 ∧ msgTypeOf record = some 2 ∧
      parseServerHello (record.drop 5) = .ok true := by
  induction fuel generalizing st t with
  | zero => simp [writeLoop] at h
  | succ n ih =>
    simp only [writeLoop] at h
    split at h
    · simp at h
    · split at h
      · simp at h
      · split at h
        · simp at h
        · split at h
          · simp at h
          · rename_i st1 hi
            rcases inspectWrite_spec st st1 _ hi with e | e | ⟨e, h1, h2, h3⟩
            · subst e
              split at h
              · simp at h
              · exact ih _ _ h
            · subst e
              split at h
              · simp at h
              · exact ih _ _ h
            · exact ⟨_, h1, h2, h3⟩

/-- A ClientHello met while the retry counter is not 1 (no HelloRetryRequest was written, or the
    write side was never inspected) is never decrypted: the HPKE state is untouched. -/
theorem C06_no_hrr_no_decrypt (H : Hpke) (st : St) (t : Tr) (n : Nat) (hr : st.retry ≠ 1) :
    (connRead H st t n).st.ctx = st.ctx ∧ (connRead H st t n).st.inner = st.inner := by
  unfold connRead
  split
  · split
    · exact ⟨(deliver_frame _ _ _).2.2.2.2.1, (deliver_frame _ _ _).2.2.1⟩
    · split
      · exact ⟨(deliver_frame _ _ _).2.2.2.2.1, (deliver_frame _ _ _).2.2.1⟩
      · split
        · rename_i hh
          simp only [isRetryHello, Bool.decide_and, Bool.and_eq_true, decide_eq_true_eq] at hh
          exact absurd hh.2.2.2 hr
        · exact ⟨(deliver_frame _ _ _).2.2.2.2.1, (deliver_frame _ _ _).2.2.1⟩
  · exact ⟨(deliver_frame _ _ _).2.2.2.2.1, (deliver_frame _ _ _).2.2.1⟩

/-- At most one retry: once the read side is in passthrough — which processing a retried hello,
    successfully or not, and an application-data record both cause — no record is ever interpreted
    again: the HPKE context never changes and the read side stays in passthrough. -/
theorem C06_at_most_one_retry (H : Hpke) (st : St) (t : Tr) (n : Nat) (hpt : st.readPT = true) :
    (connRead H st t n).st.ctx = st.ctx ∧ (connRead H st t n).st.readPT = true ∧
    (connRead H st t n).tr.out = t.out := by
  unfold connRead
  simp only [hpt, not_true_eq_false, false_and, if_false]
  refine ⟨(deliver_frame _ _ _).2.2.2.2.1, by rw [(deliver_frame _ _ _).2.2.2.2.2.1, hpt], ?_⟩
  unfold deliver
  split
  · rfl
  · split
    · rfl
    · simp only
      exact (read1_spec n t).2.2.2.1

/-- processing a retried hello always leaves the read side in passthrough -/
theorem C06_retry_sets_passthrough (H : Hpke) (n : Nat) (st : St) (t : Tr) (r : Bytes) :
    (readRetry H n st t r).st.readPT = true := by
  unfold readRetry
  split
  · simp only [alertViaConn]
  · rename_i o inner st2 hh
    obtain ⟨_, _, _, hproc, _⟩ := handle_inv H _ st2 r true o inner hh
    have h2 : st2.readPT = true := by
      rcases process_frame H _ st2 o true inner hproc with ⟨_, e⟩ | ⟨_, _, _, _, _, _, e, _⟩ <;> rw [e]
    cases inner with
    | none => exact h2
    | some i =>
      simp only
      split <;> (rw [(deliver_frame _ _ _).2.2.2.2.2.1]; exact h2)

/-- 7.1.1 retry rules, each with its alert class: -/
theorem C06_retry_missing (H : Hpke) (st : St) (h : Hello) (he : h.d.ech = none) :
    process H st h true = .error .missing := by
  simp [process, retryPre, he]

theorem C06_retry_mismatch (H : Hpke) (st : St) (h : Hello) (e o : EchExt) (oh : Hello)
    (he : h.d.ech = some e) (ho : st.outer = some oh) (hoe : oh.d.ech = some o)
    (hm : o.configId ≠ e.configId ∨ o.kdf ≠ e.kdf ∨ o.aead ≠ e.aead ∨ e.enc.length > 0) :
    process H st h true = .error .illegal := by
  simp only [process, retryPre, he, ho, Option.bind_some, hoe, if_true]
  rw [if_pos hm]

theorem C06_retry_decrypt (H : Hpke) (st : St) (h : Hello) (e : EchExt)
    (hpre : retryPre st h = .ok ()) (he : h.d.ech = some e) (ht : h.d.tls13 = true) (hk : st.keys ≠ [])
    (hl : keyLoop H st h e st.keys = .next) :
    process H st h true = .error .decrypt := by
  have hk' : st.keys.isEmpty = false := by cases hks : st.keys <;> simp_all
  simp [process, hpre, processCore, he, ht, hk', hl]

theorem C06_retry_names (st : St) (i ci : Hello) (hci : st.inner = some ci)
    (hm : ci.d.serverName ≠ i.d.serverName ∨ ci.d.alpn ≠ i.d.alpn) :
    retryCheck st (some i) = .error .illegal := by
  simp only [retryCheck, hci]
  rw [if_pos]
  rcases hm with h | h
  · exact Or.inr (Or.inl h)
  · exact Or.inr (Or.inr h)

/-- a retried hello that passes every rule is replaced by the marshalling of its reconstructed
    inner hello (whose names equal the first inner hello's) -/
theorem C06_retry_replaced (H : Hpke) (n : Nat) (st : St) (t : Tr) (r : Bytes) (o i : Hello) (st2 : St) (buf : Bytes)
    (hh : handle H { st with readPT := true } r true = .ok (o, some i, st2)) (hm : i.marshal = .ok buf) :
    (readRetry H n st t r).data = buf.take n ∧
    ∃ ci, st.inner = some ci ∧ ci.d.serverName = i.d.serverName ∧ ci.d.alpn = i.d.alpn := by
  obtain ⟨_, _, _, _, hrc⟩ := handle_inv H _ st2 r true o (some i) hh
  have hrc' := hrc rfl
  refine ⟨?_, ?_⟩
  · unfold readRetry
    simp only [hh, hm]
    unfold deliver
    have hb : buf ≠ [] := by
      have := marshalRec_length false i buf hm
      intro hb; subst hb; simp at this
    simp [hb]
  · unfold retryCheck at hrc'
    cases hci : st.inner with
    | none => simp [hci] at hrc'
    | some ci =>
      simp only [hci] at hrc'
      split at hrc'
      · simp at hrc'
      · rename_i hcond
        simp only [not_or, Decidable.not_not] at hcond
        exact ⟨ci, rfl, hcond.2.1, hcond.2.2⟩

end ECH
