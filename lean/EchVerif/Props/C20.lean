import EchVerif.Publish
/-
  C20 — PublishECH changes exactly the ech parameter of exactly the requested records.
-/
namespace Publish

theorem splitSp_ne_nil (s : Bytes) : splitSp s ≠ [] := by
  induction s with
  | nil => simp [splitSp]
  | cons c cs ih =>
    simp only [splitSp]
    split
    · simp
    · split <;> simp

theorem splitSp_nospace (t : Bytes) (h : (32 : UInt8) ∉ t) : splitSp t = [t] := by
  induction t with
  | nil => rfl
  | cons c cs ih =>
    have hc : c ≠ 32 := fun e => h (by simp [e])
    have hcs : (32 : UInt8) ∉ cs := fun e => h (by simp [e])
    simp [splitSp, hc, ih hcs]

theorem splitSp_append (t rest : Bytes) (h : (32 : UInt8) ∉ t) :
    splitSp (t ++ 32 :: rest) = t :: splitSp rest := by
  induction t with
  | nil => simp [splitSp]
  | cons c cs ih =>
    have hc : c ≠ 32 := fun e => h (by simp [e])
    have hcs : (32 : UInt8) ∉ cs := fun e => h (by simp [e])
    simp [splitSp, hc, ih hcs]

/-- tokens produced by splitting never contain a space -/
theorem splitSp_tokens (s : Bytes) : ∀ t ∈ splitSp s, (32 : UInt8) ∉ t := by
  induction s with
  | nil => simp [splitSp]
  | cons c cs ih =>
    simp only [splitSp]
    split
    · intro t ht
      simp at ht
      rcases ht with rfl | ht
      · simp
      · exact ih t ht
    · rename_i hc
      split
      · rename_i t ts heq
        intro x hx
        simp at hx
        rcases hx with rfl | hx
        · have := ih t (by simp [heq])
          simp
          exact ⟨fun e => hc e.symm, this⟩
        · exact ih x (by simp [heq, hx])
      · intro x hx
        simp at hx
        subst hx
        simp
        exact fun e => hc e.symm

theorem split_join (l : List Bytes) (hne : l ≠ []) (h : ∀ t ∈ l, (32 : UInt8) ∉ t) : splitSp (joinSp l) = l := by
  induction l with
  | nil => exact absurd rfl hne
  | cons t ts ih =>
    cases ts with
    | nil => simp [joinSp, splitSp_nospace t (h t (by simp))]
    | cons t2 ts2 =>
      simp only [joinSp]
      rw [List.append_assoc, List.singleton_append, splitSp_append t _ (h t (by simp))]
      rw [ih (by simp) (fun x hx => h x (by simp [hx]))]

/-- The rewrite law: when PublishECH updates a record, the stored parameter string tokenises (on
    single spaces) to the old tokens minus every `ech=…` token, in their original order, followed
    by exactly one `ech="<new>"` — all other service parameters preserved, in order. -/
theorem C20_rewrite (value new v' : Bytes) (hn : (32 : UInt8) ∉ new) (h : rewrite value new = some v') :
    splitSp v' = (splitSp value).filter (fun t => ¬ isEch t) ++ [echToken new] := by
  unfold rewrite at h
  split at h
  · simp at h
  · simp only [Option.some.injEq] at h
    subst h
    apply split_join
    · simp
    · intro t ht
      simp only [List.mem_append, List.mem_filter, List.mem_singleton] at ht
      rcases ht with ⟨ht, _⟩ | ht
      · exact splitSp_tokens value t ht
      · subst ht
        simp only [echToken, echPrefix]
        intro hm
        simp at hm
        exact hn hm

/-- … so the result holds exactly one ech entry, and it carries the new value. -/
theorem C20_one_ech (value new v' : Bytes) (hn : (32 : UInt8) ∉ new) (h : rewrite value new = some v') :
    (splitSp v').filter isEch = [echToken new] := by
  rw [C20_rewrite value new v' hn h, List.filter_append]
  have h1 : ((splitSp value).filter (fun t => ¬ isEch t)).filter isEch = [] := by
    rw [List.filter_filter]
    apply List.filter_eq_nil_iff.mpr
    intro a _
    simp
  have h2 : isEch (echToken new) = true := by
    simp [isEch, echToken, echPrefix]
  simp [h1, h2]

theorem trimQuotes_quoted (new : Bytes) (h1 : new.head? ≠ some 34) (h2 : new.getLast? ≠ some 34) (hne : new ≠ []) :
    trimQuotes ([34] ++ new ++ [34]) = new := by
  unfold trimQuotes
  cases new with
  | nil => exact absurd rfl hne
  | cons a as =>
    have ha : a ≠ 34 := by simpa using h1
    have ha' : (a == (34 : UInt8)) = false := by simpa using ha
    have hd : List.dropWhile (fun x => x == (34 : UInt8)) ([34] ++ (a :: as) ++ [34]) = a :: as ++ [34] := by
      simp [List.dropWhile, ha']
    rw [hd]
    have hrev : (a :: as ++ [34]).reverse = 34 :: (a :: as).reverse := by simp
    rw [hrev]
    have hl : (a :: as).reverse.head? ≠ some 34 := by
      rw [List.head?_reverse]; exact h2
    cases hr : (a :: as).reverse with
    | nil => simp at hr
    | cons b bs =>
      have hb : b ≠ 34 := by rw [hr] at hl; simpa using hl
      simp only [List.dropWhile, beq_self_eq_true, ↓reduceIte]
      have : (b == (34 : UInt8)) = false := by simpa using hb
      simp only [this]
      rw [← hr]; simp

/-- Idempotence: publishing the same list again is a no-op — no write when the published value is
    already current. (`new` is standard base64: no spaces, no quotes.) -/
theorem C20_idempotent (value new v' : Bytes) (hn : (32 : UInt8) ∉ new) (hq1 : new.head? ≠ some 34)
    (hq2 : new.getLast? ≠ some 34) (hne : new ≠ []) (h : rewrite value new = some v') :
    rewrite v' new = none := by
  have hone := C20_one_ech value new v' hn h
  have hold : oldEch (splitSp v') = new := by
    unfold oldEch
    rw [hone]
    simp only [List.getLast?_singleton]
    have : (echToken new).drop 4 = [34] ++ new ++ [34] := by simp [echToken, echPrefix]
    rw [this, trimQuotes_quoted new hq1 hq2 hne]
  unfold rewrite
  rw [hold]
  simp

theorem oldEch_rewrite (value new v' : Bytes) (hn : (32 : UInt8) ∉ new) (hq1 : new.head? ≠ some 34)
    (hq2 : new.getLast? ≠ some 34) (hne : new ≠ []) (h : rewrite value new = some v') :
    oldEch (splitSp v') = new := by
  have hone := C20_one_ech value new v' hn h
  unfold oldEch
  rw [hone]
  simp only [List.getLast?_singleton]
  have : (echToken new).drop 4 = [34] ++ new ++ [34] := by simp [echToken, echPrefix]
  rw [this, trimQuotes_quoted new hq1 hq2 hne]

theorem publishSeq_snoc (value : Bytes) (ns : List Bytes) (n : Bytes) :
    publishSeq value (ns ++ [n]) = publishOne (publishSeq value ns) n := by
  induction ns generalizing value with
  | nil => rfl
  | cons a as ih => simp only [List.cons_append, publishSeq]; exact ih _

theorem publishOne_others (value new : Bytes) (hn : (32 : UInt8) ∉ new) :
    (splitSp (publishOne value new)).filter (fun t => ¬ isEch t) =
      (splitSp value).filter (fun t => ¬ isEch t) := by
  unfold publishOne
  split
  · rename_i v hv
    rw [C20_rewrite value new v hn hv, List.filter_append, List.filter_filter]
    have h2 : isEch (echToken new) = true := by simp [isEch, echToken, echPrefix]
    simp [h2]
  · rfl

/-- History, frame part: after any sequence of publishes with changing config lists (some of them
    no-ops because the value was current), the stored value still holds every other service
    parameter of the original value, in the original order. -/
theorem C20_history_others (value : Bytes) (news : List Bytes) (hn : ∀ n ∈ news, (32 : UInt8) ∉ n) :
    (splitSp (publishSeq value news)).filter (fun t => ¬ isEch t) =
      (splitSp value).filter (fun t => ¬ isEch t) := by
  induction news generalizing value with
  | nil => rfl
  | cons n ns ih =>
    simp only [publishSeq]
    rw [ih _ (fun x hx => hn x (by simp [hx])), publishOne_others value n (hn n (by simp))]

/-- History, effect part: whatever was published before, after the last publish the record's ech
    value is the last config list published (standard base64: non-empty, no space, no quote). -/
theorem C20_history_last (value : Bytes) (ns : List Bytes) (n : Bytes) (hn : (32 : UInt8) ∉ n)
    (hq1 : n.head? ≠ some 34) (hq2 : n.getLast? ≠ some 34) (hne : n ≠ []) :
    oldEch (splitSp (publishSeq value (ns ++ [n]))) = n := by
  rw [publishSeq_snoc]
  unfold publishOne
  split
  · rename_i v hv
    exact oldEch_rewrite _ n v hn hq1 hq2 hne hv
  · rename_i hv
    unfold rewrite at hv
    split at hv
    · rename_i he; exact he.symm
    · simp at hv

/-- … and a further publish of that same list writes nothing. -/
theorem C20_history_then_current (value : Bytes) (ns : List Bytes) (n : Bytes) (hn : (32 : UInt8) ∉ n)
    (hq1 : n.head? ≠ some 34) (hq2 : n.getLast? ≠ some 34) (hne : n ≠ []) :
    rewrite (publishSeq value (ns ++ [n])) n = none := by
  unfold rewrite
  rw [C20_history_last value ns n hn hq1 hq2 hne]
  simp

/-- Exactly one result per requested record, in request order. -/
theorem C20_results (f : Faults) (new : Bytes) (ts : List Tgt) (s : PState) (c : CallSt) :
    (publishLoop f new ts s c).1.length = ts.length := by
  induction ts generalizing s c with
  | nil => rfl
  | cons t ts ih =>
    simp only [publishLoop]
    split
    · simp [ih]
    · simp [ih]

/-- Frame, one target: a PATCH is issued only for a record found under the requested (zone, name),
    only when its ech value differs from the new one, and the PATCHed value is the rewrite of the
    value the publisher holds for it; a record whose value is current (or that is missing) causes no
    request at all. -/
theorem C20_frame (f : Faults) (new : Bytes) (s : PState) (c : CallSt) (t : Tgt) :
    ((oneTarget f new s c t).2.1.patches = s.patches ∧ (oneTarget f new s c t).2.1.zones = s.zones) ∨
    (∃ r v, lookupRec c.data t = some r ∧ rewrite r.value new = some v ∧ (oneTarget f new s c t).1 = .updated ∧
      (oneTarget f new s c t).2.1.patches = s.patches ++ [(r.id, v)] ∧
      (oneTarget f new s c t).2.1.zones = applyPatch s.zones r.id v) := by
  unfold oneTarget
  split
  · left; exact ⟨rfl, rfl⟩
  · rename_i r hr
    split
    · left; exact ⟨rfl, rfl⟩
    · rename_i v hv
      split
      · left; exact ⟨rfl, rfl⟩
      · right; exact ⟨r, v, hr, hv, rfl, rfl, rfl⟩

/-- a PATCH touches only the record with that id, and only its value -/
theorem C20_patch_local (zones : List Zone) (rid v : Bytes) :
    (applyPatch zones rid v).map (·.name) = zones.map (·.name) ∧
    ∀ z ∈ applyPatch zones rid v, ∀ r ∈ z.recs, r.id ≠ rid →
      ∃ z0 ∈ zones, r ∈ z0.recs := by
  refine ⟨by simp [applyPatch, Function.comp_def], ?_⟩
  intro z hz r hr hne
  simp only [applyPatch, List.mem_map] at hz
  obtain ⟨z0, hz0, rfl⟩ := hz
  simp only [List.mem_map] at hr
  obtain ⟨r0, hr0, hre⟩ := hr
  split at hre
  · rename_i hid
    subst hre
    simp at hne
    exact absurd hid hne
  · subst hre
    exact ⟨z0, hz0, hr0⟩

/-- non-vacuity: a concrete parameter string is rewritten -/
example : (rewrite [97, 108, 112, 110, 61, 104, 50] [81, 85, 74, 68]).isSome = true := by decide

end Publish
