import EchVerif.Dial.Config
/-
  C17 — Dial never weakens the caller's ECH or server-name requirements.
-/
namespace Dial

/-- every call of `dialOne` keeps the server name and never drops the ECH list -/
theorem dialOne_calls (addr : Bytes) (cfg : Cfg) (outs : List Outcome) :
    ∀ c ∈ (dialOne addr cfg outs).1, c.addr = addr ∧ c.cfg.serverName = cfg.serverName ∧
      (cfg.ech ≠ none → c.cfg.ech ≠ none) := by
  intro c hc
  unfold dialOne at hc
  split at hc
  · simp at hc; subst hc; simp
  · simp at hc; subst hc; simp
  · simp at hc; subst hc; simp
  · split at hc
    · simp at hc; subst hc; simp
    · split at hc <;> (simp at hc; rcases hc with rfl | rfl <;> simp)

/-- With RequireECH no connection attempt is ever made with a config that lacks an ECH list —
    for every resolution result, caller config, PublicName setting and outcome script. -/
theorem C17_require (d : Dialer) (caller : Cfg) (ts : List Target) (outs : List Outcome)
    (hr : d.requireECH = true) : ∀ c ∈ (dialSeq d caller ts outs).1, c.cfg.ech ≠ none := by
  induction ts generalizing outs with
  | nil => simp [dialSeq]
  | cons t ts ih =>
    simp only [dialSeq]
    split
    · exact ih outs
    · split
      · exact ih outs
      · rename_i cfg hcfg
        have hne : cfg.ech ≠ none := by
          unfold attemptCfg at hcfg
          simp only [hr, true_and] at hcfg
          split at hcfg
          · simp at hcfg
          · rename_i hn
            simp only [Option.some.injEq] at hcfg
            rw [← hcfg]; exact hn
        have h1 := dialOne_calls t.addr cfg outs
        split
        · rename_i calls _ heq
          intro c hc
          have := h1 c (by rw [heq]; exact hc)
          exact this.2.2 hne
        · rename_i calls rest heq
          intro c hc
          simp only [List.mem_append] at hc
          rcases hc with hc | hc
          · exact (h1 c (by rw [heq]; exact hc)).2.2 hne
          · exact ih rest c hc

/-- The config of the FIRST attempt to an address: a caller-supplied list or ServerName is never
    replaced; otherwise the list is the one of the HTTPS record that produced the address (else the
    PublicName bootstrap list, else none) and the server name is the host the caller named. -/
theorem C17_caller_wins (d : Dialer) (caller : Cfg) (t : Target) (cfg : Cfg)
    (h : attemptCfg d caller t = some cfg) :
    (caller.serverName ≠ [] → cfg.serverName = caller.serverName) ∧
    (caller.serverName = [] → cfg.serverName = t.host) ∧
    (∀ l, caller.ech = some l → cfg.ech = some l) ∧
    (caller.ech = none → ∀ b, t.ech = some b → cfg.ech = some (.bytes b)) ∧
    (caller.ech = none → t.ech = none → d.publicName ≠ [] → cfg.ech = some .boot) ∧
    (caller.ech = none → t.ech = none → d.publicName = [] → cfg.ech = none) := by
  unfold attemptCfg at h
  split at h
  · simp at h
  · simp only [Option.some.injEq] at h
    subst h
    have hsn : (baseCfg d caller).serverName = caller.serverName := by
      unfold baseCfg; split <;> rfl
    refine ⟨?_, ?_, ?_, ?_, ?_, ?_⟩
    · intro hn; simp [attemptSN, hsn, hn]
    · intro hn; simp [attemptSN, hsn, hn]
    · intro l hl
      simp only [attemptECH, hl]
      unfold baseCfg
      simp [hl]
    · intro hn b hb; simp [attemptECH, hn, hb]
    · intro hn ht hp
      simp only [attemptECH, hn, ht]
      unfold baseCfg
      simp [hn, hp]
    · intro hn ht hp
      simp only [attemptECH, hn, ht]
      unfold baseCfg
      simp [hn, hp]

/-- An ECH rejection carrying retry configs triggers exactly one more call, to the same address,
    with exactly those configs; whatever that second call returns is final (a second rejection is
    returned, not retried). A rejection without retry configs is final at once. -/
theorem C17_retry_once (addr : Bytes) (cfg : Cfg) (retry : Bytes) (o : Outcome) (rest : List Outcome) :
    (retry ≠ [] → (dialOne addr cfg (.reject retry :: o :: rest)).1 =
        [⟨addr, cfg⟩, ⟨addr, { cfg with ech := some (.bytes retry) }⟩] ∧
      (dialOne addr cfg (.reject retry :: o :: rest)).2.1 = decide (o = .ok) ∧
      (dialOne addr cfg (.reject retry :: o :: rest)).2.2 = rest) ∧
    (retry = [] → dialOne addr cfg (.reject retry :: o :: rest) = ([⟨addr, cfg⟩], false, o :: rest)) := by
  refine ⟨fun hr => ?_, fun hr => ?_⟩
  · simp only [dialOne, hr, if_false]
    cases o <;> simp
  · simp [dialOne, hr]

/-- The caller's configuration is a value the model never writes: attempts work on copies. (The
    aliasing of `tls.Config.Clone` is observed at run time by the campaign.) -/
theorem C17_no_mutation (d : Dialer) (caller : Cfg) (ts : List Target) (outs : List Outcome) :
    ∀ c ∈ (dialSeq d caller ts outs).1, caller.serverName ≠ [] → c.cfg.serverName = caller.serverName := by
  induction ts generalizing outs with
  | nil => simp [dialSeq]
  | cons t ts ih =>
    simp only [dialSeq]
    split
    · exact ih outs
    · split
      · exact ih outs
      · rename_i cfg hcfg
        have hsn := (C17_caller_wins d caller t cfg hcfg).1
        have h1 := dialOne_calls t.addr cfg outs
        split
        · rename_i calls _ heq
          intro c hc hn
          rw [(h1 c (by rw [heq]; exact hc)).2.1, hsn hn]
        · rename_i calls rest heq
          intro c hc hn
          simp only [List.mem_append] at hc
          rcases hc with hc | hc
          · rw [(h1 c (by rw [heq]; exact hc)).2.1, hsn hn]
          · exact ih rest c hc hn

/-- non-vacuity: RequireECH with no list anywhere refuses the attempt instead of dialling without ECH -/
example : attemptCfg ⟨true, []⟩ ⟨[], none⟩ ⟨[104], [1], none, false⟩ = none := by decide

end Dial
