import EchVerif.Resolve.Resolve
/-
  C16 — the resolver cache never serves stale answers and is safe under concurrency.
  `lookupCached` is one lock-protected critical section of `resolveOne` taken as an atomic step;
  the environment (clock advances, zone changes, upstream failures) chooses `now` and the universe
  `U` freely before every step. Data-race freedom itself is a Go memory-model fact (race detector).
-/
namespace Resolve

/-- cache invariant: every entry expires exactly `ttl` seconds after the fetch it came from, where
    `ttl` is the smallest TTL of that response, and there is at most one entry per (name, type) -/
structure CInv (c : CState) : Prop where
  expiry : ∀ e ∈ c.entries, e.expiry = e.fetchedAt + e.ttl
  past : ∀ e ∈ c.entries, e.fetchedAt ≤ c.now

theorem find_some (c : CState) (name : Bytes) (typ : Nat) (e : CEntry) (h : c.find name typ = some e) :
    e ∈ c.entries ∧ e.name = name ∧ e.typ = typ := by
  unfold CState.find at h
  have hm := List.mem_of_find?_eq_some h
  have hp := List.find?_some h
  simp only [decide_eq_true_eq] at hp
  exact ⟨hm, hp.1, hp.2⟩

/-- Freshness, one lookup: an answer is either fetched from upstream during this very call (and
    computed from that response), or it is the stored result of an earlier fetch whose response had
    smallest TTL `ttl`, with  now < fetchedAt + ttl  — never older than the smallest TTL of the
    response it came from — and then no upstream query is made. -/
theorem C16_fresh (U : Universe) (c : CState) (name : Bytes) (typ : Nat) (ds : List AData) (c' : CState)
    (hi : CInv c) (h : lookupCached U c name typ = (.ok ds, c')) :
    (∃ ttl, resolveOneNC U name typ = .ok (ds, ttl) ∧ c'.upstream = c.upstream ++ [(name, typ, c.now)]) ∨
    (∃ e ∈ c.entries, e.name = name ∧ e.typ = typ ∧ ds = e.res ∧ c.now < e.fetchedAt + e.ttl ∧
       c'.upstream = c.upstream) := by
  unfold lookupCached at h
  split at h
  · rename_i e he
    obtain ⟨hm, hn, ht⟩ := find_some c name typ e he
    split at h
    · rename_i hlt
      simp only [Prod.mk.injEq, Except.ok.injEq] at h
      right
      exact ⟨e, hm, hn, ht, h.1.symm, by rw [← hi.expiry e hm]; exact hlt, by rw [← h.2]⟩
    · split at h
      · simp at h
      · rename_i ds' ttl hr
        simp only [Prod.mk.injEq, Except.ok.injEq] at h
        left
        exact ⟨ttl, by rw [hr, h.1], by rw [← h.2]⟩
  · split at h
    · simp at h
    · rename_i ds' ttl hr
      simp only [Prod.mk.injEq, Except.ok.injEq] at h
      left
      exact ⟨ttl, by rw [hr, h.1], by rw [← h.2]⟩

/-- A zero TTL is never served from the cache, and an expired entry is always re-fetched: if the
    stored entry's expiry is not in the future, the lookup goes upstream. -/
theorem C16_expired_refetched (U : Universe) (c : CState) (name : Bytes) (typ : Nat)
    (hexp : ∀ e, c.find name typ = some e → e.expiry ≤ c.now) :
    (lookupCached U c name typ).2.upstream = c.upstream ++ [(name, typ, c.now)] := by
  unfold lookupCached
  split
  · rename_i e he
    have := hexp e he
    rw [if_neg (by omega)]
    split <;> rfl
  · split <;> rfl

/-- Within the TTL a repeated lookup is served from the cache: no upstream query, same answer. -/
theorem C16_hit_no_upstream (U : Universe) (c : CState) (name : Bytes) (typ : Nat) (e : CEntry)
    (hf : c.find name typ = some e) (hlt : c.now < e.expiry) :
    lookupCached U c name typ = (.ok e.res, c) := by
  unfold lookupCached
  simp only [hf, hlt, if_true]

/-- Failures are never cached: after a failing lookup there is no entry for that key. -/
theorem C16_errors_not_cached (U : Universe) (c c' : CState) (name : Bytes) (typ : Nat) (err : RErr)
    (h : lookupCached U c name typ = (.error err, c')) : c'.find name typ = none := by
  unfold lookupCached at h
  split at h
  · rename_i e he
    split at h
    · simp at h
    · split at h
      · simp only [Prod.mk.injEq] at h
        rw [← h.2]
        unfold CState.find CState.without
        rw [List.find?_eq_none]
        intro x hx
        simp only [List.mem_filter] at hx
        have := hx.2
        simp only [decide_not, Bool.not_eq_eq_eq_not, Bool.not_true, decide_eq_false_iff_not] at this
        simpa using this
      · simp at h
  · rename_i hn
    split at h
    · simp only [Prod.mk.injEq] at h
      rw [← h.2]
      exact hn
    · simp at h

/-- Each critical section preserves the cache invariant. -/
theorem C16_step_inv (U : Universe) (c : CState) (name : Bytes) (typ : Nat) (hi : CInv c) :
    CInv (lookupCached U c name typ).2 ∧ (lookupCached U c name typ).2.now = c.now := by
  have hw : ∀ e ∈ c.without name typ, e ∈ c.entries := by
    intro e he
    unfold CState.without at he
    exact (List.mem_filter.mp he).1
  unfold lookupCached
  split
  · split
    · exact ⟨hi, rfl⟩
    · split
      · refine ⟨⟨fun e he => hi.expiry e (hw e he), fun e he => hi.past e (hw e he)⟩, rfl⟩
      · refine ⟨⟨?_, ?_⟩, rfl⟩
        · intro e he
          simp only [List.mem_append, List.mem_singleton] at he
          rcases he with he | he
          · exact hi.expiry e (hw e he)
          · subst he; rfl
        · intro e he
          simp only [List.mem_append, List.mem_singleton] at he
          rcases he with he | he
          · exact hi.past e (hw e he)
          · subst he; exact Nat.le_refl _
  · split
    · exact ⟨⟨hi.expiry, hi.past⟩, rfl⟩
    · refine ⟨⟨?_, ?_⟩, rfl⟩
      · intro e he
        simp only [List.mem_append, List.mem_singleton] at he
        rcases he with he | he
        · exact hi.expiry e he
        · subst he; rfl
      · intro e he
        simp only [List.mem_append, List.mem_singleton] at he
        rcases he with he | he
        · exact hi.past e he
        · subst he; exact Nat.le_refl _

/-- environment / goroutine steps on the shared cache -/
inductive CStep
  | lookup (U : Universe) (name : Bytes) (typ : Nat)   -- one critical section of resolveOne, by any goroutine
  | advance (d : Nat)                                   -- the clock moves forward
  | forget (name : Bytes) (typ : Nat)                   -- the 2Q cache evicts an entry

def cstep (c : CState) : CStep → CState
  | .lookup U name typ => (lookupCached U c name typ).2
  | .advance d => { c with now := c.now + d }
  | .forget name typ => { c with entries := c.without name typ }

/-- The invariant holds after ANY interleaving of lookups by any number of goroutines, clock
    advances, zone changes (each lookup carries its own universe), upstream failures (universes
    answering `fail`) and cache evictions — so C16_fresh applies to every lookup of every history. -/
theorem C16_atomic (steps : List CStep) (c : CState) (hi : CInv c) : CInv (steps.foldl cstep c) := by
  induction steps generalizing c with
  | nil => exact hi
  | cons s ss ih =>
    simp only [List.foldl_cons]
    apply ih
    cases s with
    | lookup U name typ => exact (C16_step_inv U c name typ hi).1
    | advance d =>
      exact ⟨hi.expiry, fun e he => Nat.le_trans (hi.past e he) (Nat.le_add_right _ _)⟩
    | forget name typ =>
      have hw : ∀ e ∈ c.without name typ, e ∈ c.entries := by
        intro e he
        unfold CState.without at he
        exact (List.mem_filter.mp he).1
      exact ⟨fun e he => hi.expiry e (hw e he), fun e he => hi.past e (hw e he)⟩

/-- the empty cache satisfies the invariant (non-vacuity of `hi`) -/
example : CInv {} := ⟨fun _ h => by simp at h, fun _ h => by simp at h⟩

/-- the TTL the cache uses is the smallest TTL of the answer section (all records, not only those
    of the asked type), 300 only for an empty section -/
theorem C16_min_ttl (as : List Ans) : (as = [] → minTTL as = 300) ∧ (∀ a ∈ as, minTTL as ≤ a.ttl) := by
  refine ⟨fun h => by subst h; rfl, ?_⟩
  induction as with
  | nil => intro a ha; simp at ha
  | cons x xs ih =>
    intro a ha
    cases xs with
    | nil => simp at ha; subst ha; simp [minTTL]
    | cons y ys =>
      simp only [minTTL]
      simp only [List.mem_cons] at ha
      rcases ha with rfl | ha
      · exact Nat.min_le_left _ _
      · exact Nat.le_trans (Nat.min_le_right _ _) (ih a (by simpa using ha))

end Resolve
