import EchVerif.Resolve.Resolve
import EchVerif.Lemmas.CacheLts
/-
  C16 — the resolver cache never serves stale answers and is safe under concurrency.
  `lookupCached` is one lock-protected critical section of `resolveOne` taken as an atomic step;
  the environment (clock advances, zone changes, upstream failures) chooses `now` and the universe
  `U` freely before every step. Data-race freedom itself is a Go memory-model fact (race detector).
-/
namespace Resolve

/-- cache invariant: every entry expires exactly `ttl` seconds after the fetch it came from, where
    `ttl` is the smallest TTL of that response, and there is at most one entry per (name, type) -/
structure CInv (c : CState) : Prop where
  expiry : ∀ e ∈ c.entries, e.expiry = e.fetchedAt + e.ttl
  past : ∀ e ∈ c.entries, e.fetchedAt ≤ c.now

theorem find_some (c : CState) (name : Bytes) (typ : Nat) (e : CEntry) (h : c.find name typ = some e) :
    e ∈ c.entries ∧ e.name = name ∧ e.typ = typ := by
  unfold CState.find at h
  have hm := List.mem_of_find?_eq_some h
  have hp := List.find?_some h
  simp only [decide_eq_true_eq] at hp
  exact ⟨hm, hp.1, hp.2⟩

/-- Freshness, one lookup: an answer is either fetched from upstream during this very call (and
    computed from that response), or it is the stored result of an earlier fetch whose response had
    smallest TTL `ttl`, with  now < fetchedAt + ttl  — never older than the smallest TTL of the
    response it came from — and then no upstream query is made. -/
theorem C16_fresh (U : Universe) (c : CState) (name : Bytes) (typ : Nat) (ds : List AData) (c' : CState)
    (hi : CInv c) (h : lookupCached U c name typ = (.ok ds, c')) :
    (∃ ttl, resolveOneNC U name typ = .ok (ds, ttl) ∧ c'.upstream = c.upstream ++ [(name, typ, c.now)]) ∨
    (∃ e ∈ c.entries, e.name = name ∧ e.typ = typ ∧ ds = e.res ∧ c.now < e.fetchedAt + e.ttl ∧
       c'.upstream = c.upstream) := by
  unfold lookupCached at h
  split at h
  · rename_i e he
    obtain ⟨hm, hn, ht⟩ := find_some c name typ e he
    split at h
    · rename_i hlt
      simp only [Prod.mk.injEq, Except.ok.injEq] at h
      right
      exact ⟨e, hm, hn, ht, h.1.symm, by rw [← hi.expiry e hm]; exact hlt, by rw [← h.2]⟩
    · split at h
      · simp at h
      · rename_i ds' ttl hr
        simp only [Prod.mk.injEq, Except.ok.injEq] at h
        left
        exact ⟨ttl, by rw [hr, h.1], by rw [← h.2]⟩
  · split at h
    · simp at h
    · rename_i ds' ttl hr
      simp only [Prod.mk.injEq, Except.ok.injEq] at h
      left
      exact ⟨ttl, by rw [hr, h.1], by rw [← h.2]⟩

/-- A zero TTL is never served from the cache, and an expired entry is always re-fetched: if the
    stored entry's expiry is not in the future, the lookup goes upstream. -/
theorem C16_expired_refetched (U : Universe) (c : CState) (name : Bytes) (typ : Nat)
    (hexp : ∀ e, c.find name typ = some e → e.expiry ≤ c.now) :
    (lookupCached U c name typ).2.upstream = c.upstream ++ [(name, typ, c.now)] := by
  unfold lookupCached
  split
  · rename_i e he
    have := hexp e he
    rw [if_neg (by omega)]
    split <;> rfl
  · split <;> rfl

/-- Within the TTL a repeated lookup is served from the cache: no upstream query, same answer. -/
theorem C16_hit_no_upstream (U : Universe) (c : CState) (name : Bytes) (typ : Nat) (e : CEntry)
    (hf : c.find name typ = some e) (hlt : c.now < e.expiry) :
    lookupCached U c name typ = (.ok e.res, c) := by
  unfold lookupCached
  simp only [hf, hlt, if_true]

/-- Failures are never cached: after a failing lookup there is no entry for that key. -/
theorem C16_errors_not_cached (U : Universe) (c c' : CState) (name : Bytes) (typ : Nat) (err : RErr)
    (h : lookupCached U c name typ = (.error err, c')) : c'.find name typ = none := by
  unfold lookupCached at h
  split at h
  · rename_i e he
    split at h
    · simp at h
    · split at h
      · simp only [Prod.mk.injEq] at h
        rw [← h.2]
        unfold CState.find CState.without
        rw [List.find?_eq_none]
        intro x hx
        simp only [List.mem_filter] at hx
        have := hx.2
        simp only [decide_not, Bool.not_eq_eq_eq_not, Bool.not_true, decide_eq_false_iff_not] at this
        simpa using this
      · simp at h
  · rename_i hn
    split at h
    · simp only [Prod.mk.injEq] at h
      rw [← h.2]
      exact hn
    · simp at h

/-- Each critical section preserves the cache invariant. -/
theorem C16_step_inv (U : Universe) (c : CState) (name : Bytes) (typ : Nat) (hi : CInv c) :
    CInv (lookupCached U c name typ).2 ∧ (lookupCached U c name typ).2.now = c.now := by
  have hw : ∀ e ∈ c.without name typ, e ∈ c.entries := by
    intro e he
    unfold CState.without at he
    exact (List.mem_filter.mp he).1
  unfold lookupCached
  split
  · split
    · exact ⟨hi, rfl⟩
    · split
      · refine ⟨⟨fun e he => hi.expiry e (hw e he), fun e he => hi.past e (hw e he)⟩, rfl⟩
      · refine ⟨⟨?_, ?_⟩, rfl⟩
        · intro e he
          simp only [List.mem_append, List.mem_singleton] at he
          rcases he with he | he
          · exact hi.expiry e (hw e he)
          · subst he; rfl
        · intro e he
          simp only [List.mem_append, List.mem_singleton] at he
          rcases he with he | he
          · exact hi.past e (hw e he)
          · subst he; exact Nat.le_refl _
  · split
    · exact ⟨⟨hi.expiry, hi.past⟩, rfl⟩
    · refine ⟨⟨?_, ?_⟩, rfl⟩
      · intro e he
        simp only [List.mem_append, List.mem_singleton] at he
        rcases he with he | he
        · exact hi.expiry e he
        · subst he; rfl
      · intro e he
        simp only [List.mem_append, List.mem_singleton] at he
        rcases he with he | he
        · exact hi.past e he
        · subst he; exact Nat.le_refl _

/-- environment / goroutine steps on the shared cache -/
inductive CStep
  | lookup (U : Universe) (name : Bytes) (typ : Nat)   -- one critical section of resolveOne, by any goroutine
  | advance (d : Nat)                                   -- the clock moves forward
  | forget (name : Bytes) (typ : Nat)                   -- the 2Q cache evicts an entry

def cstep (c : CState) : CStep → CState
  | .lookup U name typ => (lookupCached U c name typ).2
  | .advance d => { c with now := c.now + d }
  | .forget name typ => { c with entries := c.without name typ }

/-- The invariant holds after ANY interleaving of lookups by any number of goroutines, clock
    advances, zone changes (each lookup carries its own universe), upstream failures (universes
    answering `fail`) and cache evictions — so C16_fresh applies to every lookup of every history. -/
theorem C16_atomic (steps : List CStep) (c : CState) (hi : CInv c) : CInv (steps.foldl cstep c) := by
  induction steps generalizing c with
  | nil => exact hi
  | cons s ss ih =>
    simp only [List.foldl_cons]
    apply ih
    cases s with
    | lookup U name typ => exact (C16_step_inv U c name typ hi).1
    | advance d =>
      exact ⟨hi.expiry, fun e he => Nat.le_trans (hi.past e he) (Nat.le_add_right _ _)⟩
    | forget name typ =>
      have hw : ∀ e ∈ c.without name typ, e ∈ c.entries := by
        intro e he
        unfold CState.without at he
        exact (List.mem_filter.mp he).1
      exact ⟨fun e he => hi.expiry e (hw e he), fun e he => hi.past e (hw e he)⟩

/-- the empty cache satisfies the invariant (non-vacuity of `hi`) -/
example : CInv {} := ⟨fun _ h => by simp at h, fun _ h => by simp at h⟩

/-- the TTL the cache uses is the smallest TTL of the answer section (all records, not only those
    of the asked type), 300 only for an empty section -/
theorem C16_min_ttl (as : List Ans) : (as = [] → minTTL as = 300) ∧ (∀ a ∈ as, minTTL as ≤ a.ttl) := by
  refine ⟨fun h => by subst h; rfl, ?_⟩
  induction as with
  | nil => intro a ha; simp at ha
  | cons x xs ih =>
    intro a ha
    cases xs with
    | nil => simp at ha; subst ha; simp [minTTL]
    | cons y ys =>
      simp only [minTTL]
      simp only [List.mem_cons] at ha
      rcases ha with rfl | ha
      · exact Nat.min_le_left _ _
      · exact Nat.le_trans (Nat.min_le_right _ _) (ih a (by simpa using ha))

end Resolve

/-! ## the cache under real interleavings: the fine-grained model of `resolveOne` -/
namespace CacheLts

/-- Freshness under every interleaving of any number of goroutines, clock advances, evictions and
    upstream answers: an answer returned by `resolveOne` came from an upstream response `f`, and at an
    instant τ inside this very call either `f` had just been received by this goroutine, or `f` was
    still within its smallest TTL. -/
theorem C16_concurrent_fresh (ls : List Label) (s : St) (h : run false init ls = some s)
    (t : Nat) (r : Option Fetch) (τ : Nat) (own : Bool) (hd : (s.ths t).pc = .done r τ own) :
    ∃ f, r = some f ∧ (s.ths t).startedAt ≤ τ ∧ τ ≤ s.now ∧
      (own = true → f.rcvd = τ) ∧ (own = false → f.rcvd ≤ τ ∧ τ < f.rcvd + f.ttl) := by
  have hi := (run_inv ls init s inv_init h).ths t
  unfold ThOk at hi
  rw [hd] at hi
  obtain ⟨_, h1, h2, f, h3, h4, h5⟩ := hi
  exact ⟨f, h3, h1, h2, h4, h5⟩

/-- The same, as seen from outside a call (this is the predicate the harness evaluates on every
    answer of the concurrent campaign): the answer's response arrived during the call, or the call
    began while that response was within its TTL. -/
theorem C16_concurrent_answer_fresh (ls : List Label) (s : St) (h : run false init ls = some s)
    (t : Nat) (r : Option Fetch) (τ : Nat) (own : Bool) (hd : (s.ths t).pc = .done r τ own) :
    ∃ f, r = some f ∧ answerFresh (s.ths t).startedAt f = true := by
  obtain ⟨f, h1, h2, _, h4, h5⟩ := C16_concurrent_fresh ls s h t r τ own hd
  refine ⟨f, h1, ?_⟩
  unfold answerFresh
  cases own with
  | true => have := h4 rfl; simp only [Bool.or_eq_true, decide_eq_true_eq]; left; omega
  | false => have := h5 rfl; simp only [Bool.or_eq_true, decide_eq_true_eq]; right; omega

/-- One of them fetches, the others wait: two goroutines are never both inside the critical
    section of the same entry, so at most one upstream query per entry is in flight. -/
theorem C16_one_fetch_per_entry (ls : List Label) (s : St) (h : run false init ls = some s) (t1 t2 o : Nat)
    (h1 : (s.ths t1).pc.inCS o) (h2 : (s.ths t2).pc.inCS o) : t1 = t2 := by
  have hi := run_inv ls init s inv_init h
  have key : ∀ t, (s.ths t).pc.inCS o → (s.objs o).holder = some t := by
    intro t ht
    have := hi.ths t
    unfold ThOk at this
    cases hpc : (s.ths t).pc <;> rw [hpc] at ht this <;> simp only [Pc.inCS] at ht
    · subst ht; exact this.2
    · subst ht; exact this.2.1
  have a1 := key t1 h1
  have a2 := key t2 h2
  rw [a1] at a2
  exact Option.some.inj a2

/-- An upstream query is in flight only for an entry that is absent or has expired. -/
theorem C16_upstream_only_when_expired (ls : List Label) (s : St) (h : run false init ls = some s) (t o : Nat)
    (hf : (s.ths t).pc = .fetching o) :
    (s.objs o).exp = none ∨ ∃ e, (s.objs o).exp = some e ∧ e ≤ s.now := by
  have := (run_inv ls init s inv_init h).ths t
  unfold ThOk at this
  rw [hf] at this
  have hfr := this.2.2
  unfold fresh at hfr
  split at hfr
  · rename_i e he
    right
    exact ⟨e, he, by simpa using hfr⟩
  · rename_i he
    left; exact he

/-- A failed upstream query leaves nothing behind: the key is unmapped, the lock is free, and the
    entry object still holds what it held (an expired or empty pair, never the failure). -/
theorem C16_failure_unmaps (s s' : St) (t : Nat) (h : step false s (.fetchErr t) = some s') :
    s'.cur = none ∧ (s'.ths t).pc = .failed ∧
    ∃ o, (s.ths t).pc = .fetching o ∧ (s'.objs o).holder = none ∧
      (s'.objs o).exp = (s.objs o).exp ∧ (s'.objs o).res = (s.objs o).res := by
  simp only [step] at h
  split at h
  · rename_i o hpc
    simp only [Option.some.injEq] at h
    subst h
    exact ⟨rfl, by simp, o, hpc, by simp, by simp, by simp⟩
  · simp at h

/-- An entry added after a miss is a new, empty `cacheValue`: nobody holds it, it has no expiry,
    and the goroutine that added it will go upstream. -/
theorem C16_added_entry_is_empty (ls : List Label) (s s' : St) (h : run false init ls = some s) (t : Nat)
    (hs : step false s (.add t) = some s') :
    ∃ o, (s'.ths t).pc = .got o ∧ s'.cur = some o ∧ s'.objs o = {} := by
  have ha := run_alloc ls init s alloc_init h
  simp only [step] at hs
  split at hs
  · simp only [Option.some.injEq] at hs
    subst hs
    exact ⟨s.nObjs, by simp, rfl, ha.unused s.nObjs (Nat.le_refl _)⟩
  · simp at hs

/-- No goroutine is ever stuck for good: whenever some call is in progress, a step of some
    goroutine (not of the clock, not an eviction) is enabled — a goroutine waiting for an entry's
    lock waits for a goroutine that can itself move. -/
theorem C16_no_deadlock (ls : List Label) (s : St) (h : run false init ls = some s) (t : Nat)
    (hbusy : (s.ths t).pc ≠ .idle ∧ (∀ r τ own, (s.ths t).pc ≠ .done r τ own) ∧ (s.ths t).pc ≠ .failed) :
    ∃ l, (∀ d, l ≠ .tick d) ∧ l ≠ .evict ∧ (step false s l).isSome = true := by
  have hi := run_inv ls init s inv_init h
  have holderMoves : ∀ o t', (s.objs o).holder = some t' →
      ∃ l, (∀ d, l ≠ .tick d) ∧ l ≠ .evict ∧ (step false s l).isSome = true := by
    intro o t' hh
    have h1 := hi.held o t' hh
    cases hpc : (s.ths t').pc <;> rw [hpc] at h1 <;> simp only [Pc.inCS] at h1
    · refine ⟨.recheck t', by simp, by simp, ?_⟩
      simp only [step, hpc]
      split <;> rfl
    · exact ⟨.fetchErr t', by simp, by simp, by simp [step, hpc]⟩
  cases hpc : (s.ths t).pc with
  | idle => exact absurd hpc hbusy.1
  | failed => exact absurd hpc hbusy.2.2
  | done r τ own => exact absurd hpc (hbusy.2.1 r τ own)
  | adding => exact ⟨.add t, by simp, by simp, by simp [step, hpc]⟩
  | got o =>
    cases hh : (s.objs o).holder with
    | none => exact ⟨.snapshot t, by simp, by simp, by simp [step, hpc, hh]⟩
    | some t' => exact holderMoves o t' hh
  | snap o exp res =>
    refine ⟨.fastCheck t, by simp, by simp, ?_⟩
    simp only [step, hpc]
    split <;> rfl
  | want o sr =>
    cases hh : (s.objs o).holder with
    | none => exact ⟨.acquire t, by simp, by simp, by simp [step, hpc, hh]⟩
    | some t' => exact holderMoves o t' hh
  | locked o sr =>
    refine ⟨.recheck t, by simp, by simp, ?_⟩
    simp only [step, hpc]
    split <;> rfl
  | fetching o => exact ⟨.fetchErr t, by simp, by simp, by simp [step, hpc]⟩

/-! non-vacuity: a schedule in which goroutine 0 misses, adds the entry and fetches (value 7, TTL 60),
    goroutine 1 is served from the cache 59 s later, and goroutine 2, 60 s later, waits for the lock
    while goroutine 3 refreshes the entry, then returns the refreshed value (not its own snapshot) -/
def demo : List Label :=
  [.call 0, .add 0, .snapshot 0, .fastCheck 0, .acquire 0, .recheck 0, .fetchOk 0 7 60,
   .tick 59, .call 1, .snapshot 1, .fastCheck 1,
   .tick 1, .call 2, .call 3, .snapshot 2, .snapshot 3, .fastCheck 2, .fastCheck 3,
   .acquire 3, .recheck 3, .fetchOk 3 8 60, .acquire 2, .recheck 2]

example : ∃ s, run false init demo = some s ∧
    (s.ths 0).pc = .done (some ⟨0, 60, 7⟩) 0 true ∧
    (s.ths 1).pc = .done (some ⟨0, 60, 7⟩) 59 false ∧
    (s.ths 3).pc = .done (some ⟨60, 60, 8⟩) 60 true ∧
    (s.ths 2).pc = .done (some ⟨60, 60, 8⟩) 60 false := ⟨_, rfl, rfl, rfl, rfl, rfl⟩

/-- The variant in which a goroutine that waited for the lock returns its own earlier copy
    (`stale = true`) is NOT fresh: in the same schedule goroutine 2, which started at second 60,
    returns the answer received at second 0 with TTL 60. The model tells the two apart. -/
theorem C16_stale_copy_variant_violates :
    ∃ s t f τ, run true init demo = some s ∧ (s.ths t).pc = .done (some f) τ false ∧
      (s.ths t).startedAt ≤ τ ∧ ¬ (τ < f.rcvd + f.ttl) :=
  ⟨_, 2, ⟨0, 60, 7⟩, 60, rfl, rfl, by decide, by decide⟩

end CacheLts
