import EchVerif.Ctx.Lts
/-
  C10 — the NewConn context governs only the initial read.
-/
namespace Ctx

/-- the invariant: no deadline event after a successful return; once main is past the join the
    watcher has exited; at a successful return no context deadline is in force -/
def Inv (s : St) : Prop :=
  s.badEvent = false ∧
  (s.main = .returned true ∨ s.main = .returning true → s.w = .exited ∧ s.deadlineSet = false) ∧
  (s.main = .returned false ∨ s.main = .returning false ∨ s.main = .clearing → s.w = .exited) ∧
  (s.main = .joinOk → s.w = .sendFalse → s.deadlineSet = false) ∧
  (s.main = .reading ∨ s.main = .processing ∨ s.main = .joinOk → s.w = .notStarted ∨ s.w = .selecting ∨ s.w = .firing ∨ s.w = .sendFalse → s.deadlineSet = false) ∧
  (s.w = .sendFalse → s.doneClosed = true)

theorem inv_init : Inv init := by
  unfold Inv init
  simp

theorem inv_step (s s' : St) (l : Label) (h : Inv s) (hs : step s l = some s') : Inv s' := by
  unfold Inv at *
  obtain ⟨h1, h2, h3, h4, h5, h6⟩ := h
  cases l <;> simp only [step] at hs <;> (repeat' split at hs) <;>
    simp at hs <;> subst hs <;> simp_all

theorem inv_run (s s' : St) (ls : List Label) (h : Inv s) (hr : run s ls = some s') : Inv s' := by
  induction ls generalizing s with
  | nil => simp [run] at hr; subst hr; exact h
  | cons l ls ih =>
    simp only [run] at hr
    split at hr
    · simp at hr
    · rename_i s1 h1
      exact ih s1 (inv_step s s1 l h h1) hr

/-- For EVERY schedule of main goroutine, watcher goroutine and environment (hello arrival and
    context cancellation at any moment, `select` resolved either way when both cases are ready):
    no SetDeadline is ever applied after NewConn has returned successfully, and at a successful
    return no deadline set on behalf of the context is in force and the watcher has exited — so
    cancelling or expiring the context afterwards cannot affect the connection. -/
theorem C10_no_effect_after_return (ls : List Label) (s : St) (hr : run init ls = some s) :
    s.badEvent = false ∧ (s.main = .returned true → s.deadlineSet = false ∧ s.w = .exited) := by
  have := inv_run init s ls inv_init hr
  exact ⟨this.1, fun h => ⟨(this.2.1 (Or.inl h)).2, (this.2.1 (Or.inl h)).1⟩⟩

/-- Once the watcher has exited nothing it could do remains: no label of the watcher is enabled
    (the context's only handle on the connection is gone). -/
theorem C10_watcher_gone (s : St) (h : s.w = .exited) :
    step s .wStart = none ∧ step s .wPickDone = none ∧ step s .wPickCtx = none ∧ step s .wFire = none := by
  simp [step, h]

/-- Prompt failure: if the context ends while NewConn is blocked in the initial read (no hello),
    then from every such reachable state the system can always move, without any help from the
    client, through at most five steps to `returned false`; nothing else is enabled for main. -/
theorem C10_prompt_failure (s : St) (hm : s.main = .reading) (hc : s.ctxDone = true) (hw : s.w ≠ .exited)
    (hsf : s.w ≠ .sendFalse) (hst : s.w = .sendTrue → s.deadlineSet = true) :
    ∃ sched, sched.length ≤ 6 ∧ (run s sched).map (·.main) = some (.returned false) := by
  obtain ⟨main, w, ha, cd, dc, ds, be⟩ := s
  simp only at hm hc hw hsf hst
  subst hm; subst hc
  cases w with
  | notStarted => exact ⟨[.wStart, .wPickCtx, .wFire, .mainReadErr, .recvExited, .mainReturn], by simp, by simp [run, step]⟩
  | selecting => exact ⟨[.wPickCtx, .wFire, .mainReadErr, .recvExited, .mainReturn], by simp, by simp [run, step]⟩
  | firing => exact ⟨[.wFire, .mainReadErr, .recvExited, .mainReturn], by simp, by simp [run, step]⟩
  | sendTrue =>
    have := hst rfl
    subst this
    exact ⟨[.mainReadErr, .recvExited, .mainReturn], by simp, by simp [run, step]⟩
  | sendFalse => exact absurd rfl hsf
  | exited => exact absurd rfl hw

/-- The property is FALSE of the code as it was (watcher not joined before returning): with the
    join removed — main returns as soon as it has closed `done` — this schedule sets the deadline
    after a successful return. Kept as the machine-checked counterexample for the defect fixed in
    /repo (see KNOWN_FINDINGS). -/
def stepOld (s : St) : Label → Option St
  | .mainProcessOk => if s.main = .processing then some { s with main := .returning true, doneClosed := true } else none
  | .wPickDone => if s.w = .selecting ∧ s.doneClosed then some { s with w := .exited } else none
  | .wFire => if s.w = .firing then
      some { s with w := .exited, deadlineSet := true, badEvent := s.badEvent || (s.main == .returned true) } else none
  | l => step s l

def runOld : St → List Label → Option St
  | s, [] => some s
  | s, l :: ls => match stepOld s l with
    | none => none
    | some s' => runOld s' ls

theorem C10_old_code_violates :
    ∃ sched s, runOld init sched = some s ∧ s.badEvent = true ∧ s.main = .returned true :=
  ⟨[.helloArrives, .mainReadOk, .mainProcessOk, .mainReturn, .ctxCancel, .wStart, .wPickCtx, .wFire], _, rfl, rfl, rfl⟩

end Ctx
