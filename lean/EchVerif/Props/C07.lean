import EchVerif.Lemmas.Pipe
import EchVerif.Lemmas.Multi
/-
  C07 — Conn is an order-preserving, lossless byte pipe for every fragmentation and cut.
  The transport model hands the client's bytes out as an arbitrary list of chunks (`Tr.chunks`);
  `Tr.stream` is their concatenation. Every statement below holds for all chunkings and all buffer
  sizes because it only mentions `stream`.
-/
open Wire TLS
namespace ECH

/-- Read side, any sequence of Reads with arbitrary buffer sizes, any chunking: as long as no
    retried hello is processed (retry ≠ 1, or the read side already in passthrough — C06 covers the
    one record that is rewritten), the bytes handed to the backend, then the Conn's buffer, then
    what is still in the transport, are exactly the buffer and transport contents at the start:
    nothing lost, duplicated or reordered; nothing is written towards the client. -/
theorem C07_read_pipe (H : Hpke) (ns : List Nat) (st : St) (t : Tr)
    (hr : st.retry ≠ 1 ∨ st.readPT = true) :
    (readsRun H st t ns).1.flatten ++ (readsRun H st t ns).2.1.readBuf ++ (readsRun H st t ns).2.2.stream
      = st.readBuf ++ t.stream ∧ (readsRun H st t ns).2.2.out = t.out :=
  readsRun_pipe H ns st t hr

/-- Independence from fragmentation: two transports carrying the same byte stream in different
    chunkings, read with different buffer sizes, deliver prefixes of the same byte string. -/
theorem C07_chunking_independent (H : Hpke) (ns ms : List Nat) (st : St) (t t' : Tr)
    (hs : t.stream = t'.stream) (hr : st.retry ≠ 1 ∨ st.readPT = true) :
    (readsRun H st t ns).1.flatten ++ ((readsRun H st t ns).2.1.readBuf ++ (readsRun H st t ns).2.2.stream)
    = (readsRun H st t' ms).1.flatten ++ ((readsRun H st t' ms).2.1.readBuf ++ (readsRun H st t' ms).2.2.stream) := by
  have a := (readsRun_pipe H ns st t hr).1
  have b := (readsRun_pipe H ms st t' hr).1
  simp only [List.append_assoc] at a b
  rw [a, b, hs]

/-- Cut while a record is being read: the bytes received before the cut are handed out first; the
    transport's error (ErrUnexpectedEOF mapped to EOF) is reported only by the Read that drains
    them, and by every Read after it. -/
theorem C07_cut_inspecting (H : Hpke) (st : St) (t t1 : Tr) (n : Nat) (r : Bytes) (e : Err)
    (hc : ¬ st.readPT ∧ st.readBuf = [] ∧ st.readErr.isNone) (hrec : readRecord t = (r, some e, t1)) :
    (connRead H st t n).data = r.take n ∧ (connRead H st t n).st.readBuf = r.drop n ∧
    (connRead H st t n).st.readErr = some e ∧
    ((connRead H st t n).err = if r.drop n = [] then some e else none) := by
  unfold connRead
  simp only [hc, and_self, hrec]
  unfold deliver
  by_cases hr : r = []
  · subst hr; simp
  · simp [hr]

/-- Cut in passthrough mode: the transport's own error is returned, with no data, only once every
    chunk has been handed out. -/
theorem C07_cut_passthrough (H : Hpke) (st : St) (t : Tr) (n : Nat) (e : IOErr)
    (hpt : st.readPT = true) (hb : st.readBuf = []) (hre : st.readErr = none)
    (herr : (connRead H st t n).err = some (.io e)) :
    (connRead H st t n).data = [] ∧ (t.closed = false → t.chunks = [] ∧ e = t.fin) := by
  unfold connRead at herr ⊢
  simp only [hpt, not_true_eq_false, false_and, if_false] at herr ⊢
  unfold deliver at herr ⊢
  simp only [hb, ne_eq, not_true_eq_false, if_false, hre] at herr ⊢
  unfold Tr.read1 at herr ⊢
  split at herr
  · rename_i hcl; simp [hcl]
  · rename_i hcl
    cases hch : t.chunks with
    | nil => simp [hch, hcl] at herr ⊢; exact herr.symm
    | cons c cs =>
      simp only [hch] at herr
      split at herr <;> simp at herr

/-- Write side, one call on an open transport that reports success: the client has received exactly
    the concatenation of everything written so far minus the withheld buffer, which is empty or a
    single incomplete TLS record; Write reports len(b); the read side is untouched. -/
theorem C07_write_pipe (st : St) (t : Tr) (b : Bytes) (hopen : t.closed = false)
    (hok : (connWrite st t b).err = none) :
    (connWrite st t b).tr.out ++ (connWrite st t b).st.writeBuf = t.out ++ st.writeBuf ++ b ∧
    (connWrite st t b).n = b.length ∧
    ((connWrite st t b).st.writeBuf = [] ∨ Incomplete (connWrite st t b).st.writeBuf) ∧
    (connWrite st t b).tr.chunks = t.chunks ∧ (connWrite st t b).st.readBuf = st.readBuf := by
  obtain ⟨a, b', _, d, e⟩ := connWrite_pipe st t b hopen hok
  exact ⟨a, b', e, d, (connWrite_frame st t b).2.2.2.2.2.1⟩

/-- a list of successful writes -/
def writesRun : St → Tr → List Bytes → Option (St × Tr)
  | st, t, [] => some (st, t)
  | st, t, b :: bs =>
    if (connWrite st t b).err = none then writesRun (connWrite st t b).st (connWrite st t b).tr bs else none

/-- Write side, any split of the backend's output into Write calls: once all calls have succeeded the
    client has received the whole concatenation except at most one incomplete record. -/
theorem C07_write_pipe_run (bs : List Bytes) (st st' : St) (t t' : Tr) (hopen : t.closed = false)
    (h : writesRun st t bs = some (st', t')) :
    t'.out ++ st'.writeBuf = t.out ++ st.writeBuf ++ bs.flatten ∧ t'.closed = false := by
  induction bs generalizing st t with
  | nil => simp [writesRun] at h; obtain ⟨rfl, rfl⟩ := h; simp [hopen]
  | cons b bs ih =>
    simp only [writesRun] at h
    split at h
    · rename_i hok
      obtain ⟨a, _, c, _⟩ := connWrite_pipe st t b hopen hok
      obtain ⟨i1, i2⟩ := ih _ _ c h
      refine ⟨?_, i2⟩
      rw [i1, a]; simp [List.append_assoc]
    · simp at h

/-- non-vacuity: the hypotheses are met by a freshly accepted connection (retry = 0) -/
example : ((0 : Nat) ≠ 1 ∨ false = true) := Or.inl (by decide)

/-- Several connections in one process, their operations interleaved in any order (`ECH/Multi.lean`):
    seen from connection `i`, the run is the single-connection run of `i`'s own operations - same final
    state, same results of its Reads and Writes in the same order. Together with the pipe theorems above:
    each connection is a lossless pipe of its own bytes whatever the process does on the others. -/
theorem C07_connections_independent (H : Hpke) (xs : List (Nat × Op)) (m : Multi) (i : Nat) :
    (mrun H m xs).1 i = (runOps H (m i) (opsOf i xs)).1 ∧
    obsOf i (mrun H m xs).2 = (runOps H (m i) (opsOf i xs)).2 :=
  mrun_proj H xs m i

/-- What the other connections do - which operations, how many, in which order relative to `i`'s - is
    invisible on connection `i`. -/
theorem C07_other_connections_invisible (H : Hpke) (xs ys : List (Nat × Op)) (m m' : Multi) (i : Nat)
    (hm : m i = m' i) (ho : opsOf i xs = opsOf i ys) :
    obsOf i (mrun H m xs).2 = obsOf i (mrun H m' ys).2 ∧ (mrun H m xs).1 i = (mrun H m' ys).1 i := by
  have a := mrun_proj H xs m i
  have b := mrun_proj H ys m' i
  rw [hm, ho] at a
  exact ⟨a.2.trans b.2.symm, a.1.trans b.1.symm⟩

/-- non-vacuity: two interleavings that agree on connection 0 and differ on connection 1 -/
example : opsOf 0 [(0, Op.read 5), (1, Op.write [1, 2]), (0, Op.read 7)]
        = opsOf 0 [(1, Op.read 1), (0, Op.read 5), (0, Op.read 7), (1, Op.feed [[3]])] := by
  simp [opsOf]

end ECH
