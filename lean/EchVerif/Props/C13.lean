import EchVerif.Lemmas.DNS
/-
  C13 — the DNS codec round-trips and agrees with an independent RFC 1035/9460 codec.
  Proved here: the name codec round trip (the part everything else rests on), the header round trip,
  the padding length law and the extended-RCODE law. The whole-message round trip for every record
  type and the agreement with golang.org/x/net/dns/dnsmessage are carried by the correspondence
  campaign (exhaustive over headers and question-name lengths) — see DESIGN.md ("partial").
-/
open Wire
namespace DNS

/-- well-formed labels: 1..63 bytes each -/
def LabelsOk (n : Name) : Prop := ∀ l ∈ n, 1 ≤ l.length ∧ l.length ≤ 63

theorem encLabels_ok (n : Name) (h : LabelsOk n) :
    ∃ e, encLabels n = some e ∧ e.length = octets n := by
  induction n with
  | nil => exact ⟨[], rfl, rfl⟩
  | cons l ls ih =>
    have hl := h l (by simp)
    obtain ⟨e, he, hlen⟩ := ih (fun x hx => h x (by simp [hx]))
    refine ⟨u8 l.length ++ l ++ e, ?_, ?_⟩
    · simp only [encLabels, lp8, he]
      rw [if_pos (by omega)]
    · simp [u8, octets, hlen]; omega

/-- Name codec round trip: an uncompressed name of well-formed labels (≤ 255 octets) written by
    the encoder is read back exactly, from any position of any message, followed by any bytes, and
    the cursor ends right after its terminating zero. -/
theorem C13_name_roundtrip (raw : Bytes) (n : Name) (e rest : Bytes) (pos : Nat)
    (hok : LabelsOk n) (hsz : octets n ≤ 255) (he : encLabels n = some e) :
    readName raw ⟨pos, e ++ [0] ++ rest⟩ = some (n, ⟨pos + e.length + 1, rest⟩) := by
  unfold readName
  have key : ∀ (n : Name) (e : Bytes) (pos fuel size : Nat), LabelsOk n → size + octets n ≤ 255 →
      encLabels n = some e → n.length < fuel →
      nameLabelsF raw fuel false ⟨pos, e ++ [0] ++ rest⟩ ⟨pos, e ++ [0] ++ rest⟩ 0 size
        = some (n, ⟨pos + e.length + 1, rest⟩) := by
    intro n
    induction n with
    | nil =>
      intro e pos fuel size _ _ he hf
      simp only [encLabels, Option.some.injEq] at he
      subst he
      cases fuel with
      | zero => simp at hf
      | succ k =>
        simp only [nameLabelsF, List.nil_append, List.cons_append]
        have : (0 : UInt8).toNat / 64 ≠ 3 := by decide
        simp only [this, if_false]
        have hr : readLP8 ((0 : UInt8) :: rest) = some ([], rest) := by
          simp [readLP8, readU8, readN]
        simp only [hr, if_true, Win.adv]
        simp
    | cons l ls ih =>
      intro e pos fuel size hok hsz he hf
      have hl := hok l (by simp)
      simp only [encLabels] at he
      split at he
      · rename_i a b ha hb
        simp only [Option.some.injEq] at he
        subst he
        simp only [lp8] at ha
        split at ha
        · simp only [Option.some.injEq] at ha
          subst ha
          cases fuel with
          | zero => simp at hf
          | succ k =>
            have hb0 : (UInt8.ofNat l.length).toNat / 64 ≠ 3 := by
              simp [UInt8.toNat_ofNat']; omega
            have hshape : (u8 l.length ++ l ++ b ++ [0] ++ rest) = UInt8.ofNat l.length :: (l ++ (b ++ [0] ++ rest)) := by
              simp [u8, List.append_assoc]
            simp only [nameLabelsF, hshape, hb0, if_false]
            have hr : readLP8 (UInt8.ofNat l.length :: (l ++ (b ++ [0] ++ rest))) = some (l, b ++ [0] ++ rest) := by
              have := readLP8_lp8 (x := l) (e := u8 l.length ++ l) (by simp [lp8]; omega) (b ++ [0] ++ rest)
              simpa [u8, List.append_assoc] using this
            have hne : l ≠ [] := by intro h0; subst h0; simp at hl
            simp only [hr, hne, if_false]
            have hsz' : ¬ (size + l.length + 1 > maxNameOctets) := by
              simp only [octets, maxNameOctets] at hsz ⊢; omega
            simp only [hsz', if_false, Win.adv]
            have hpos : pos + ((UInt8.ofNat l.length :: (l ++ (b ++ [0] ++ rest))).length - (b ++ [0] ++ rest).length) = pos + l.length + 1 := by
              simp; omega
            rw [hpos]
            have := ih b (pos + l.length + 1) k (size + l.length + 1) (fun x hx => hok x (by simp [hx]))
              (by simp only [octets] at hsz; omega) hb (by simp at hf; omega)
            simp only [Bool.false_eq_true, if_false]
            rw [this]
            simp [u8]
            omega
        · simp at ha
      · simp at he
  have hlen : n.length < nameFuel := by
    have : ∀ (n : Name), n.length ≤ octets n := by
      intro n
      induction n with
      | nil => simp [octets]
      | cons a as iha => simp only [octets, List.length_cons]; omega
    have := this n
    simp [nameFuel]; omega
  exact key n e pos nameFuel 0 hok (by omega) he hlen

/-- Header flag word round trip: for flag fields in range the decoder's bit extraction inverts
    the encoder's packing (all 2^5·16·16 combinations are also enumerated against the code). -/
theorem C13_header_roundtrip (m : EMessage) (h1 : m.qr < 2) (h2 : m.opcode < 16) (h3 : m.aa < 2)
    (h4 : m.tc < 2) (h5 : m.rd < 2) (h6 : m.ra < 2) (h7 : m.rcode < 16) :
    flagsWord m / 32768 = m.qr ∧ flagsWord m / 2048 % 16 = m.opcode ∧ flagsWord m / 1024 % 2 = m.aa ∧
    flagsWord m / 512 % 2 = m.tc ∧ flagsWord m / 256 % 2 = m.rd ∧ flagsWord m / 128 % 2 = m.ra ∧
    flagsWord m % 16 = m.rcode ∧ flagsWord m < 65536 := by
  unfold flagsWord
  refine ⟨?_, ?_, ?_, ?_, ?_, ?_, ?_, ?_⟩ <;> omega

/-- Extended RCODE (RFC 6891 6.1.3): low four bits from the header, upper eight bits from bits
    24..31 of the first OPT record's TTL; always below 4096. -/
theorem C13_rcode (rcode ttl : Nat) :
    responseCode rcode none = rcode % 16 ∧
    responseCode rcode (some ttl) = rcode % 16 + (ttl / 16777216 % 256) * 16 ∧
    responseCode rcode (some ttl) < 4096 := by
  refine ⟨rfl, rfl, ?_⟩
  simp only [responseCode]
  omega

theorem encOpts_snoc (a : List Opt) (o : Opt) (ea : Bytes) (ha : encOpts a = some ea) (ho : o.data.length < 65536) :
    encOpts (a ++ [o]) = some (ea ++ (u16 o.code ++ (u16 o.data.length ++ o.data))) := by
  induction a generalizing ea with
  | nil =>
    simp only [encOpts, Option.some.injEq] at ha
    subst ha
    simp [encOpts, lp16, ho]
  | cons x xs ih =>
    simp only [encOpts] at ha
    split at ha
    · rename_i a1 b1 h1 h2
      simp only [Option.some.injEq] at ha
      subst ha
      simp only [List.cons_append, encOpts, h1, ih b1 h2]
      simp [List.append_assoc]
    · simp at ha

theorem encRRs_cons (r : ERR) (rs : List ERR) (b : Bytes) (h : encRRs (r :: rs) = some b) :
    ∃ a c, encRR r = some a ∧ encRRs rs = some c ∧ b = a ++ c := by
  simp only [encRRs] at h
  split at h
  · rename_i a c ha hc
    simp only [Option.some.injEq] at h
    exact ⟨a, c, ha, hc, h.symm⟩
  · simp at h

/-- encoded length of a record list when one element is replaced -/
theorem encRRs_set_len (l : List ERR) (p : Nat) (x x' : ERR) (b1 b2 e1 e2 : Bytes) (hp : p < l.length)
    (h1 : encRRs (l.set p x) = some b1) (h2 : encRRs (l.set p x') = some b2)
    (he1 : encRR x = some e1) (he2 : encRR x' = some e2) :
    b2.length + e1.length = b1.length + e2.length := by
  induction l generalizing p b1 b2 with
  | nil => simp at hp
  | cons a as ih =>
    cases p with
    | zero =>
      simp only [List.set_cons_zero] at h1 h2
      obtain ⟨a1, c1, ha1, hc1, rfl⟩ := encRRs_cons _ _ _ h1
      obtain ⟨a2, c2, ha2, hc2, rfl⟩ := encRRs_cons _ _ _ h2
      rw [he1] at ha1; rw [he2] at ha2
      simp only [Option.some.injEq] at ha1 ha2
      rw [hc1] at hc2
      simp only [Option.some.injEq] at hc2
      subst ha1; subst ha2; subst hc2
      simp; omega
    | succ k =>
      simp only [List.set_cons_succ] at h1 h2
      obtain ⟨a1, c1, ha1, hc1, rfl⟩ := encRRs_cons _ _ _ h1
      obtain ⟨a2, c2, ha2, hc2, rfl⟩ := encRRs_cons _ _ _ h2
      rw [ha1] at ha2
      simp only [Option.some.injEq] at ha2
      subst ha2
      have := ih k c1 c2 (by simpa using hp) hc1 hc2
      simp; omega

theorem encRRs_get (l : List ERR) (b : Bytes) (p : Nat) (x : ERR) (h : encRRs l = some b) (hx : l[p]? = some x) :
    ∃ e, encRR x = some e := by
  induction l generalizing p b with
  | nil => simp at hx
  | cons a as ih =>
    obtain ⟨a1, c1, ha1, hc1, _⟩ := encRRs_cons _ _ _ h
    cases p with
    | zero => simp at hx; subst hx; exact ⟨a1, ha1⟩
    | succ k => simp at hx; exact ih c1 k hc1 hx

theorem encRR_opts_len (r : ERR) (os : List Opt) (o : Opt) (e1 e2 : Bytes) (ho : o.data.length < 65536)
    (h1 : encRR (withOpts r os) = some e1)
    (h2 : encRR (withOpts r (os ++ [o])) = some e2) :
    e2.length = e1.length + 4 + o.data.length := by
  unfold encRR withOpts at h1 h2
  simp only [encRData] at h1 h2
  cases hn : encNameStr r.name with
  | none => simp [hn] at h1
  | some n =>
    cases ho1 : encOpts os with
    | none => simp [hn, ho1] at h1
    | some eo =>
      have ho2 := encOpts_snoc os o eo ho1 ho
      simp only [hn, ho1, ho2, Option.bind_some] at h1 h2
      cases hl1 : lp16 eo with
      | none => simp [hl1] at h1
      | some d1 =>
        cases hl2 : lp16 (eo ++ (u16 o.code ++ (u16 o.data.length ++ o.data))) with
        | none => simp [hl2] at h2
        | some d2 =>
          simp only [hl1, hl2, Option.some.injEq] at h1 h2
          subst h1; subst h2
          simp only [lp16] at hl1 hl2
          split at hl1 <;> simp at hl1
          split at hl2 <;> simp at hl2
          subst hl1; subst hl2
          simp [u16]; omega

/-- AddPadding law: whenever AddPadding and the encoder succeed, the encoded length of the padded
    message is a multiple of 128 (RFC 8467 block padding for queries). -/
theorem C13_padding (m m' : EMessage) (b' : Bytes) (h : addPadding m = some m') (he : encode m' = some b') :
    b'.length % 128 = 0 := by
  unfold addPadding at h
  split at h
  · rename_i r hr
    split at h
    · rename_i os hos
      split at h
      · simp at h
      · rename_i b hb
        simp only [Option.some.injEq] at h
        subst h
        unfold encode withAdditional at hb he
        simp only at hb he
        split at hb
        · rename_i q a au ad hq ha hau had
          split at he
          · rename_i q' a' au' ad' hq' ha' hau' had'
            simp only [Option.some.injEq] at hb he
            rw [hq] at hq'; rw [ha] at ha'; rw [hau] at hau'
            simp only [Option.some.injEq] at hq' ha' hau'
            subst hq' ha' hau'
            have hbl : b.length = 12 + q.length + a.length + au.length + ad.length := by
              rw [← hb]; simp [u16]; omega
            have hbl' : b'.length = 12 + q.length + a.length + au.length + ad'.length := by
              rw [← he]; simp [u16]; omega
            have hp : (padTarget m).2 < (padTarget m).1.length := by
              rcases Nat.lt_or_ge (padTarget m).2 (padTarget m).1.length with hlt | hge
              · exact hlt
              · rw [List.getElem?_eq_none hge] at hr; simp at hr
            obtain ⟨e1, he1⟩ := encRRs_get _ _ (padTarget m).2 (withOpts r (keepNonPadding os)) had (by simp [hp])
            obtain ⟨e2, he2⟩ := encRRs_get _ _ (padTarget m).2 (withOpts r (keepNonPadding os ++ [⟨12, List.replicate (padLen b.length) 0⟩])) had' (by simp [hp])
            have hrel := encRRs_set_len _ _ _ _ _ _ _ _ hp had had' he1 he2
            have hopt := encRR_opts_len r _ ⟨12, List.replicate (padLen b.length) 0⟩ e1 e2
              (by simp [padLen]; omega) he1 he2
            simp only [List.length_replicate] at hopt
            simp only [padLen] at hopt
            omega
          · simp at he
        · simp at hb
    all_goals simp at h
  · simp at h

end DNS
