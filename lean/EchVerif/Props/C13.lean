import EchVerif.Lemmas.DNS
import EchVerif.Lemmas.NameSpec
import EchVerif.Props.C12
/-
  C13 — the DNS codec round-trips and agrees with an independent RFC 1035/9460 codec.
  Proved here: the name codec round trip (the part everything else rests on), the header round trip,
  the whole-message round trip for every message the encoder can write (questions and A / AAAA /
  NS / CNAME / PTR / OPT / HTTPS records), the padding length law and the extended-RCODE law. The
  agreement with golang.org/x/net/dns/dnsmessage (both directions, record types only the decoder
  knows, compression written by the other side) is carried by the correspondence campaign (exhaustive over headers and question-name lengths) — see DESIGN.md ("partial").
-/
open Wire
namespace DNS

/-- well-formed labels: 1..63 bytes each -/
def LabelsOk (n : Name) : Prop := ∀ l ∈ n, 1 ≤ l.length ∧ l.length ≤ 63

theorem encLabels_ok (n : Name) (h : LabelsOk n) :
    ∃ e, encLabels n = some e ∧ e.length = octets n := by
  induction n with
  | nil => exact ⟨[], rfl, rfl⟩
  | cons l ls ih =>
    have hl := h l (by simp)
    obtain ⟨e, he, hlen⟩ := ih (fun x hx => h x (by simp [hx]))
    refine ⟨u8 l.length ++ l ++ e, ?_, ?_⟩
    · simp only [encLabels, lp8, he]
      rw [if_pos (by omega)]
    · simp [u8, octets, hlen]; omega

/-- Name codec round trip: an uncompressed name of well-formed labels (≤ 255 octets) written by
    the encoder is read back exactly, from any position of any message, followed by any bytes, and
    the cursor ends right after its terminating zero. -/
theorem C13_name_roundtrip (raw : Bytes) (n : Name) (e rest : Bytes) (pos : Nat)
    (hok : LabelsOk n) (hsz : octets n ≤ 255) (he : encLabels n = some e) :
    readName raw ⟨pos, e ++ [0] ++ rest⟩ = some (n, ⟨pos + e.length + 1, rest⟩) := by
  unfold readName
  have key : ∀ (n : Name) (e : Bytes) (pos fuel size : Nat), LabelsOk n → size + octets n ≤ 255 →
      encLabels n = some e → n.length < fuel →
      nameLabelsF raw fuel false ⟨pos, e ++ [0] ++ rest⟩ ⟨pos, e ++ [0] ++ rest⟩ 0 size
        = some (n, ⟨pos + e.length + 1, rest⟩) := by
    intro n
    induction n with
    | nil =>
      intro e pos fuel size _ _ he hf
      simp only [encLabels, Option.some.injEq] at he
      subst he
      cases fuel with
      | zero => simp at hf
      | succ k =>
        simp only [nameLabelsF, List.nil_append, List.cons_append]
        have : (0 : UInt8).toNat / 64 ≠ 3 := by decide
        simp only [this, if_false]
        have hr : readLP8 ((0 : UInt8) :: rest) = some ([], rest) := by
          simp [readLP8, readU8, readN]
        simp only [hr, if_true, Win.adv]
        simp
    | cons l ls ih =>
      intro e pos fuel size hok hsz he hf
      have hl := hok l (by simp)
      simp only [encLabels] at he
      split at he
      · rename_i a b ha hb
        simp only [Option.some.injEq] at he
        subst he
        simp only [lp8] at ha
        split at ha
        · simp only [Option.some.injEq] at ha
          subst ha
          cases fuel with
          | zero => simp at hf
          | succ k =>
            have hb0 : (UInt8.ofNat l.length).toNat / 64 ≠ 3 := by
              simp [UInt8.toNat_ofNat']; omega
            have hshape : (u8 l.length ++ l ++ b ++ [0] ++ rest) = UInt8.ofNat l.length :: (l ++ (b ++ [0] ++ rest)) := by
              simp [u8, List.append_assoc]
            simp only [nameLabelsF, hshape, hb0, if_false]
            have hr : readLP8 (UInt8.ofNat l.length :: (l ++ (b ++ [0] ++ rest))) = some (l, b ++ [0] ++ rest) := by
              have := readLP8_lp8 (x := l) (e := u8 l.length ++ l) (by simp [lp8]; omega) (b ++ [0] ++ rest)
              simpa [u8, List.append_assoc] using this
            have hne : l ≠ [] := by intro h0; subst h0; simp at hl
            simp only [hr, hne, if_false]
            have hsz' : ¬ (size + l.length + 1 > maxNameOctets) := by
              simp only [octets, maxNameOctets] at hsz ⊢; omega
            simp only [hsz', if_false, Win.adv]
            have hpos : pos + ((UInt8.ofNat l.length :: (l ++ (b ++ [0] ++ rest))).length - (b ++ [0] ++ rest).length) = pos + l.length + 1 := by
              simp; omega
            rw [hpos]
            have := ih b (pos + l.length + 1) k (size + l.length + 1) (fun x hx => hok x (by simp [hx]))
              (by simp only [octets] at hsz; omega) hb (by simp at hf; omega)
            simp only [Bool.false_eq_true, if_false]
            rw [this]
            simp [u8]
            omega
        · simp at ha
      · simp at he
  have hlen : n.length < nameFuel := by
    have : ∀ (n : Name), n.length ≤ octets n := by
      intro n
      induction n with
      | nil => simp [octets]
      | cons a as iha => simp only [octets, List.length_cons]; omega
    have := this n
    simp [nameFuel]; omega
  exact key n e pos nameFuel 0 hok (by omega) he hlen

/-- Header flag word round trip: for flag fields in range the decoder's bit extraction inverts
    the encoder's packing (all 2^5·16·16 combinations are also enumerated against the code). -/
theorem C13_header_roundtrip (m : EMessage) (h1 : m.qr < 2) (h2 : m.opcode < 16) (h3 : m.aa < 2)
    (h4 : m.tc < 2) (h5 : m.rd < 2) (h6 : m.ra < 2) (h7 : m.rcode < 16) :
    flagsWord m / 32768 = m.qr ∧ flagsWord m / 2048 % 16 = m.opcode ∧ flagsWord m / 1024 % 2 = m.aa ∧
    flagsWord m / 512 % 2 = m.tc ∧ flagsWord m / 256 % 2 = m.rd ∧ flagsWord m / 128 % 2 = m.ra ∧
    flagsWord m % 16 = m.rcode ∧ flagsWord m < 65536 := by
  unfold flagsWord
  refine ⟨?_, ?_, ?_, ?_, ?_, ?_, ?_, ?_⟩ <;> omega

/-- Extended RCODE (RFC 6891 6.1.3): low four bits from the header, upper eight bits from bits
    24..31 of the first OPT record's TTL; always below 4096. -/
theorem C13_rcode (rcode ttl : Nat) :
    responseCode rcode none = rcode % 16 ∧
    responseCode rcode (some ttl) = rcode % 16 + (ttl / 16777216 % 256) * 16 ∧
    responseCode rcode (some ttl) < 4096 := by
  refine ⟨rfl, rfl, ?_⟩
  simp only [responseCode]
  omega

theorem encOpts_snoc (a : List Opt) (o : Opt) (ea : Bytes) (ha : encOpts a = some ea) (ho : o.data.length < 65536) :
    encOpts (a ++ [o]) = some (ea ++ (u16 o.code ++ (u16 o.data.length ++ o.data))) := by
  induction a generalizing ea with
  | nil =>
    simp only [encOpts, Option.some.injEq] at ha
    subst ha
    simp [encOpts, lp16, ho]
  | cons x xs ih =>
    simp only [encOpts] at ha
    split at ha
    · rename_i a1 b1 h1 h2
      simp only [Option.some.injEq] at ha
      subst ha
      simp only [List.cons_append, encOpts, h1, ih b1 h2]
      simp [List.append_assoc]
    · simp at ha

theorem encRRs_cons (r : ERR) (rs : List ERR) (b : Bytes) (h : encRRs (r :: rs) = some b) :
    ∃ a c, encRR r = some a ∧ encRRs rs = some c ∧ b = a ++ c := by
  simp only [encRRs] at h
  split at h
  · rename_i a c ha hc
    simp only [Option.some.injEq] at h
    exact ⟨a, c, ha, hc, h.symm⟩
  · simp at h

/-- encoded length of a record list when one element is replaced -/
theorem encRRs_set_len (l : List ERR) (p : Nat) (x x' : ERR) (b1 b2 e1 e2 : Bytes) (hp : p < l.length)
    (h1 : encRRs (l.set p x) = some b1) (h2 : encRRs (l.set p x') = some b2)
    (he1 : encRR x = some e1) (he2 : encRR x' = some e2) :
    b2.length + e1.length = b1.length + e2.length := by
  induction l generalizing p b1 b2 with
  | nil => simp at hp
  | cons a as ih =>
    cases p with
    | zero =>
      simp only [List.set_cons_zero] at h1 h2
      obtain ⟨a1, c1, ha1, hc1, rfl⟩ := encRRs_cons _ _ _ h1
      obtain ⟨a2, c2, ha2, hc2, rfl⟩ := encRRs_cons _ _ _ h2
      rw [he1] at ha1; rw [he2] at ha2
      simp only [Option.some.injEq] at ha1 ha2
      rw [hc1] at hc2
      simp only [Option.some.injEq] at hc2
      subst ha1; subst ha2; subst hc2
      simp; omega
    | succ k =>
      simp only [List.set_cons_succ] at h1 h2
      obtain ⟨a1, c1, ha1, hc1, rfl⟩ := encRRs_cons _ _ _ h1
      obtain ⟨a2, c2, ha2, hc2, rfl⟩ := encRRs_cons _ _ _ h2
      rw [ha1] at ha2
      simp only [Option.some.injEq] at ha2
      subst ha2
      have := ih k c1 c2 (by simpa using hp) hc1 hc2
      simp; omega

theorem encRRs_get (l : List ERR) (b : Bytes) (p : Nat) (x : ERR) (h : encRRs l = some b) (hx : l[p]? = some x) :
    ∃ e, encRR x = some e := by
  induction l generalizing p b with
  | nil => simp at hx
  | cons a as ih =>
    obtain ⟨a1, c1, ha1, hc1, _⟩ := encRRs_cons _ _ _ h
    cases p with
    | zero => simp at hx; subst hx; exact ⟨a1, ha1⟩
    | succ k => simp at hx; exact ih c1 k hc1 hx

theorem encRR_opts_len (r : ERR) (os : List Opt) (o : Opt) (e1 e2 : Bytes) (ho : o.data.length < 65536)
    (h1 : encRR (withOpts r os) = some e1)
    (h2 : encRR (withOpts r (os ++ [o])) = some e2) :
    e2.length = e1.length + 4 + o.data.length := by
  unfold encRR withOpts at h1 h2
  simp only [encRData] at h1 h2
  cases hn : encNameStr r.name with
  | none => simp [hn] at h1
  | some n =>
    cases ho1 : encOpts os with
    | none => simp [hn, ho1] at h1
    | some eo =>
      have ho2 := encOpts_snoc os o eo ho1 ho
      simp only [hn, ho1, ho2, Option.bind_some] at h1 h2
      cases hl1 : lp16 eo with
      | none => simp [hl1] at h1
      | some d1 =>
        cases hl2 : lp16 (eo ++ (u16 o.code ++ (u16 o.data.length ++ o.data))) with
        | none => simp [hl2] at h2
        | some d2 =>
          simp only [hl1, hl2, Option.some.injEq] at h1 h2
          subst h1; subst h2
          simp only [lp16] at hl1 hl2
          split at hl1 <;> simp at hl1
          split at hl2 <;> simp at hl2
          subst hl1; subst hl2
          simp [u16]; omega

/-- AddPadding law: whenever AddPadding and the encoder succeed, the encoded length of the padded
    message is a multiple of 128 (RFC 8467 block padding for queries). -/
theorem C13_padding (m m' : EMessage) (b' : Bytes) (h : addPadding m = some m') (he : encode m' = some b') :
    b'.length % 128 = 0 := by
  unfold addPadding at h
  split at h
  · rename_i r hr
    split at h
    · rename_i os hos
      split at h
      · simp at h
      · rename_i b hb
        simp only [Option.some.injEq] at h
        subst h
        unfold encode withAdditional at hb he
        simp only at hb he
        split at hb
        · rename_i q a au ad hq ha hau had
          split at he
          · rename_i q' a' au' ad' hq' ha' hau' had'
            simp only [Option.some.injEq] at hb he
            rw [hq] at hq'; rw [ha] at ha'; rw [hau] at hau'
            simp only [Option.some.injEq] at hq' ha' hau'
            subst hq' ha' hau'
            have hbl : b.length = 12 + q.length + a.length + au.length + ad.length := by
              rw [← hb]; simp [u16]; omega
            have hbl' : b'.length = 12 + q.length + a.length + au.length + ad'.length := by
              rw [← he]; simp [u16]; omega
            have hp : (padTarget m).2 < (padTarget m).1.length := by
              rcases Nat.lt_or_ge (padTarget m).2 (padTarget m).1.length with hlt | hge
              · exact hlt
              · rw [List.getElem?_eq_none hge] at hr; simp at hr
            obtain ⟨e1, he1⟩ := encRRs_get _ _ (padTarget m).2 (withOpts r (keepNonPadding os)) had (by simp [hp])
            obtain ⟨e2, he2⟩ := encRRs_get _ _ (padTarget m).2 (withOpts r (keepNonPadding os ++ [⟨12, List.replicate (padLen b.length) 0⟩])) had' (by simp [hp])
            have hrel := encRRs_set_len _ _ _ _ _ _ _ _ hp had had' he1 he2
            have hopt := encRR_opts_len r _ ⟨12, List.replicate (padLen b.length) 0⟩ e1 e2
              (by simp [padLen]; omega) he1 he2
            simp only [List.length_replicate] at hopt
            simp only [padLen] at hopt
            omega
          · simp at he
        · simp at hb
    all_goals simp at h
  · simp at h

/-! ### whole-message round trip (questions; A / AAAA / NS / CNAME / PTR / OPT / HTTPS records) -/

/-- the labels the encoder writes for a Go string: none for "", else split on dots -/
def toName (s : Bytes) : Name := if s = [] then [] else splitDots s

/-- the name survives the wire: labels of 1..63 octets, at most 255 octets in all -/
def NameOk (s : Bytes) : Prop := LabelsOk (toName s) ∧ octets (toName s) ≤ 255

theorem encNameStr_toName (s : Bytes) : encNameStr s = (encLabels (toName s)).map (· ++ [0]) := by
  unfold encNameStr toName
  split <;> simp [encLabels]

theorem wU16_u16 (pos v : Nat) (rest : Bytes) (h : v < 65536) :
    wU16 ⟨pos, u16 v ++ rest⟩ = some (v, ⟨pos + 2, rest⟩) := by
  simp only [wU16, readU16_u16 h, Option.map_some, Win.adv]
  simp [u16]; omega

theorem wU32_u32 (pos v : Nat) (rest : Bytes) (h : v < 4294967296) :
    wU32 ⟨pos, u32 v ++ rest⟩ = some (v, ⟨pos + 4, rest⟩) := by
  simp only [wU32, readU32_u32 h, Option.map_some, Win.adv]
  simp [u32]; omega

theorem wLP16_lp16 (pos : Nat) (x e rest : Bytes) (h : lp16 x = some e) :
    wLP16 ⟨pos, e ++ rest⟩ = some (⟨pos + 2, x⟩, ⟨pos + 2 + x.length, rest⟩) := by
  have hr := readLP16_lp16 h rest
  simp only [lp16] at h
  split at h
  · simp only [Option.some.injEq] at h
    subst h
    simp only [wLP16, hr, Option.map_some, Win.adv]
    simp [u16]; omega
  · simp at h

/-- a name written by the encoder (Go string `s`) is read back as its labels, from any position -/
theorem readName_encNameStr (raw : Bytes) (s nb rest : Bytes) (pos : Nat) (hok : NameOk s)
    (he : encNameStr s = some nb) : readName raw ⟨pos, nb ++ rest⟩ = some (toName s, ⟨pos + nb.length, rest⟩) := by
  rw [encNameStr_toName] at he
  cases hl : encLabels (toName s) with
  | none => rw [hl] at he; simp at he
  | some e =>
    rw [hl] at he
    simp only [Option.map_some, Option.some.injEq] at he
    subst he
    have := C13_name_roundtrip raw (toName s) e rest pos hok.1 hok.2 hl
    simpa [Nat.add_assoc] using this

def toQ (q : EQuestion) : Question := ⟨toName (trimDot q.name), q.typ, q.cls⟩
def QOk (q : EQuestion) : Prop := NameOk (trimDot q.name) ∧ q.typ < 65536 ∧ q.cls < 65536

theorem decodeQuestions_enc (raw : Bytes) (qs : List EQuestion) :
    ∀ (qb rest : Bytes) (pos : Nat), encQuestions qs = some qb → (∀ q ∈ qs, QOk q) →
      decodeQuestions raw qs.length ⟨pos, qb ++ rest⟩ = some (qs.map toQ, ⟨pos + qb.length, rest⟩) := by
  induction qs with
  | nil =>
    intro qb rest pos he _
    simp only [encQuestions, Option.some.injEq] at he
    subst he
    simp [decodeQuestions]
  | cons q qs ih =>
    intro qb rest pos he hok
    simp only [encQuestions] at he
    split at he
    · rename_i a b ha hb
      simp only [Option.some.injEq] at he
      subst he
      obtain ⟨hn, ht, hc⟩ := hok q (by simp)
      simp only [encQuestion] at ha
      cases hnb : encNameStr (trimDot q.name) with
      | none => rw [hnb] at ha; simp at ha
      | some nb =>
        rw [hnb] at ha
        simp only [Option.map_some, Option.some.injEq] at ha
        subst ha
        have h1 := readName_encNameStr raw (trimDot q.name) nb (u16 q.typ ++ u16 q.cls ++ b ++ rest) pos hn hnb
        have h2 := wU16_u16 (pos + nb.length) q.typ (u16 q.cls ++ b ++ rest) ht
        have h3 := wU16_u16 (pos + nb.length + 2) q.cls (b ++ rest) hc
        have h4 := ih b rest (pos + nb.length + 2 + 2) hb (fun x hx => hok x (by simp [hx]))
        simp only [List.append_assoc] at h1 h2 h3 h4 ⊢
        simp only [List.length_cons, decodeQuestions, h1, h2, h3, h4, Option.map_some, List.map_cons, toQ]
        simp [u16]; omega
    · simp at he

/-- what the decoder yields for encoder-side RDATA (the kinds covered by the round-trip theorem) -/
def toRData : EData → RData
  | .ip b => .ip b
  | .str s => .name (splitDots s)
  | .opts l => .opt l
  | .https prio target alpn nd port v4 v6 ech =>
    .https { priority := prio, target := toName target, alpn := alpn, noDefaultALPN := nd, port := port,
             v4 := v4, v6 := v6, ech := ech }
  | _ => .raw []

/-- RDATA the round-trip theorem covers — everything `RR.Bytes` can write: addresses of the right
    size for A / AAAA, a well-formed name for NS / CNAME / PTR, EDNS options for OPT, and HTTPS
    records (priority, target, alpn, no-default-alpn, port, ipv4hint, ech, ipv6hint) -/
def DataOk (typ : Nat) : EData → Prop
  | .ip b => (typ = 1 ∧ b.length = 4) ∨ (typ = 28 ∧ b.length = 16)
  | .str s => (typ = 2 ∨ typ = 5 ∨ typ = 12) ∧ LabelsOk (splitDots s) ∧ octets (splitDots s) ≤ 255
  | .opts l => typ = 41 ∧ ∀ o ∈ l, o.code < 65536 ∧ o.data.length < 65536
  | .https prio target alpn _ port v4 v6 ech =>
    typ = 65 ∧ prio < 65536 ∧ NameOk target ∧ port < 65536 ∧ ech.length < 65536 ∧
    (∀ ab, encAlpn alpn = some ab → ab.length < 65536) ∧
    (∀ a ∈ v4, a.length = 4) ∧ v4.flatten.length < 65536 ∧
    (∀ a ∈ v6, a.length = 16) ∧ v6.flatten.length < 65536
  | _ => False

def RROk (r : ERR) : Prop :=
  NameOk r.name ∧ r.typ < 65536 ∧ r.cls < 65536 ∧ r.ttl < 4294967296 ∧ DataOk r.typ r.data

def toRR (r : ERR) : RR := ⟨toName r.name, r.typ, r.cls, r.ttl, toRData r.data⟩

theorem encOpts_len (l : List Opt) : ∀ eb, encOpts l = some eb → l.length ≤ eb.length := by
  induction l with
  | nil => intro eb _; simp
  | cons o os ih =>
    intro eb he
    simp only [encOpts] at he
    split at he
    · rename_i a b ha hb
      simp only [Option.some.injEq] at he
      subst he
      have := ih b hb
      simp [u16]; omega
    · simp at he

theorem optsF_enc (l : List Opt) : ∀ (eb : Bytes) (fuel : Nat), encOpts l = some eb →
    (∀ o ∈ l, o.code < 65536 ∧ o.data.length < 65536) → l.length ≤ fuel → optsF fuel eb = some l := by
  induction l with
  | nil =>
    intro eb fuel he _ _
    simp only [encOpts, Option.some.injEq] at he
    subst he
    cases fuel <;> simp [optsF]
  | cons o os ih =>
    intro eb fuel he hok hf
    simp only [encOpts] at he
    split at he
    · rename_i a b ha hb
      simp only [Option.some.injEq] at he
      subst he
      obtain ⟨hc, hd⟩ := hok o (by simp)
      cases fuel with
      | zero => simp at hf
      | succ k =>
        have hne : (u16 o.code ++ a ++ b) ≠ [] := by simp [u16]
        have h1 : readU16 (u16 o.code ++ a ++ b) = some (o.code, a ++ b) := by
          rw [List.append_assoc]; exact readU16_u16 hc _
        have h2 : readLP16 (a ++ b) = some (o.data, b) := readLP16_lp16 ha b
        have h3 := ih b k hb (fun x hx => hok x (by simp [hx])) (by simp at hf; omega)
        simp only [optsF, hne, if_false, h1, h2, h3, Option.map_some]
    · simp at he

/-! #### HTTPS RDATA -/

theorem encAlpn_len (l : List Bytes) : ∀ b, encAlpn l = some b → l.length ≤ b.length := by
  induction l with
  | nil => intro b _; simp
  | cons p ps ih =>
    intro b he
    simp only [encAlpn] at he
    split at he
    · rename_i a c ha hc
      simp only [Option.some.injEq] at he
      subst he
      have := ih c hc
      simp only [lp8] at ha
      split at ha
      · simp only [Option.some.injEq] at ha; subst ha; simp [u8]; omega
      · simp at ha
    · simp at he

theorem lp8ListF_enc (l : List Bytes) : ∀ (b : Bytes) (fuel : Nat), encAlpn l = some b → l.length ≤ fuel →
    lp8ListF fuel b = some l := by
  induction l with
  | nil =>
    intro b fuel he _
    simp only [encAlpn, Option.some.injEq] at he
    subst he
    cases fuel <;> simp [lp8ListF]
  | cons p ps ih =>
    intro b fuel he hf
    simp only [encAlpn] at he
    split at he
    · rename_i a c ha hc
      simp only [Option.some.injEq] at he
      subst he
      cases fuel with
      | zero => simp at hf
      | succ k =>
        have h1 : readLP8 (a ++ c) = some (p, c) := readLP8_lp8 ha c
        have hne : a ++ c ≠ [] := by
          simp only [lp8] at ha
          split at ha
          · simp only [Option.some.injEq] at ha; subst ha; simp [u8]
          · simp at ha
        have h2 := ih c k hc (by simp at hf; omega)
        simp only [lp8ListF, hne, if_false, h1, h2, Option.map_some]
    · simp at he

theorem flatten_len (l : List Bytes) (k : Nat) (hk : 0 < k) (h : ∀ a ∈ l, a.length = k) : l.length ≤ l.flatten.length := by
  induction l with
  | nil => simp
  | cons a as ih =>
    have := ih (fun x hx => h x (by simp [hx]))
    have := h a (by simp)
    simp only [List.length_cons, List.flatten_cons, List.length_append]; omega

theorem chunksOfF_flat (l : List Bytes) (k : Nat) (hk : 0 < k) : ∀ (fuel : Nat), (∀ a ∈ l, a.length = k) → l.length ≤ fuel →
    chunksOfF fuel k l.flatten = some l := by
  induction l with
  | nil => intro fuel _ _; cases fuel <;> simp [chunksOfF]
  | cons a as ih =>
    intro fuel h hf
    have ha := h a (by simp)
    cases fuel with
    | zero => simp at hf
    | succ f =>
      have hne : (a :: as).flatten ≠ [] := by
        simp only [List.flatten_cons, ne_eq, List.append_eq_nil_iff, not_and]
        intro h0; subst h0; simp at ha; omega
      have h1 : readN k (a ++ as.flatten) = some (a, as.flatten) := readN_append' a _ ha
      have h2 := ih f (fun x hx => h x (by simp [hx])) (by simp at hf; omega)
      simp only [List.flatten_cons] at hne ⊢
      simp only [chunksOfF, hne, if_false, h1, h2, Option.map_some]

theorem param_len (k : Nat) (v x : Bytes) (h : param k v = some x) : 1 ≤ x.length := by
  simp only [param] at h
  cases hl : lp16 v with
  | none => rw [hl] at h; simp at h
  | some y => rw [hl] at h; simp only [Option.map_some, Option.some.injEq] at h; subst h; simp [u16]

/-- the `switch key` of the parameter loop -/
def hpInterp (k : Nat) (v : Bytes) (h : Https) : Option Https :=
  if k = 1 then (lp8ListF v.length v).map fun l => { h with alpn := h.alpn ++ l }
  else if k = 2 then some { h with noDefaultALPN := true }
  else if k = 3 then (readU16 v).map fun (p, _) => { h with port := p }
  else if k = 4 then (chunksOfF v.length 4 v).map fun l => { h with v4 := h.v4 ++ l }
  else if k = 5 then some { h with ech := v }
  else if k = 6 then (chunksOfF v.length 16 v).map fun l => { h with v6 := h.v6 ++ l }
  else some h

theorem hpInterp_1 (v : Bytes) (h : Https) : hpInterp 1 v h = (lp8ListF v.length v).map fun l => { h with alpn := h.alpn ++ l } := by
  simp [hpInterp]
theorem hpInterp_2 (v : Bytes) (h : Https) : hpInterp 2 v h = some { h with noDefaultALPN := true } := by
  simp [hpInterp]
theorem hpInterp_3 (v : Bytes) (h : Https) : hpInterp 3 v h = (readU16 v).map fun (p, _) => { h with port := p } := by
  simp [hpInterp]
theorem hpInterp_4 (v : Bytes) (h : Https) : hpInterp 4 v h = (chunksOfF v.length 4 v).map fun l => { h with v4 := h.v4 ++ l } := by
  simp [hpInterp]
theorem hpInterp_5 (v : Bytes) (h : Https) : hpInterp 5 v h = some { h with ech := v } := by
  simp [hpInterp]
theorem hpInterp_6 (v : Bytes) (h : Https) : hpInterp 6 v h = (chunksOfF v.length 16 v).map fun l => { h with v6 := h.v6 ++ l } := by
  simp [hpInterp]

theorem httpsParamsF_nil (fuel : Nat) (h : Https) : httpsParamsF fuel [] h = some h := by
  cases fuel <;> simp [httpsParamsF]

/-- one parameter: key, 16-bit length, value -/
theorem httpsParamsF_cons (fuel k : Nat) (v rest : Bytes) (h : Https) (hk : k < 65536) (hv : v.length < 65536) :
    httpsParamsF (fuel + 1) (u16 k ++ (u16 v.length ++ v) ++ rest) h =
      (hpInterp k v h).bind (httpsParamsF fuel rest) := by
  have hne : u16 k ++ (u16 v.length ++ v) ++ rest ≠ [] := by simp [u16]
  have h1 : readU16 (u16 k ++ (u16 v.length ++ v) ++ rest) = some (k, (u16 v.length ++ v) ++ rest) := by
    rw [List.append_assoc]; exact readU16_u16 hk _
  have h2 : readLP16 ((u16 v.length ++ v) ++ rest) = some (v, rest) :=
    readLP16_lp16 (x := v) (e := u16 v.length ++ v) (by simp [lp16, hv]) rest
  simp only [httpsParamsF, hne, if_false, h1, h2]
  unfold hpInterp
  cases hi : (if k = 1 then (lp8ListF v.length v).map fun l => { h with alpn := h.alpn ++ l }
      else if k = 2 then some { h with noDefaultALPN := true }
      else if k = 3 then (readU16 v).map fun (p, _) => { h with port := p }
      else if k = 4 then (chunksOfF v.length 4 v).map fun l => { h with v4 := h.v4 ++ l }
      else if k = 5 then some { h with ech := v }
      else if k = 6 then (chunksOfF v.length 16 v).map fun l => { h with v6 := h.v6 ++ l }
      else some h) <;> simp

/-- the parameters the encoder writes, in its order, are read back into the same fields -/
theorem httpsParams_enc (alpn : List Bytes) (nd : Bool) (port : Nat) (v4 v6 : List Bytes) (ech a h4 e h6 : Bytes)
    (h0 : Https) (fuel : Nat)
    (ha : (if alpn = [] then some [] else (encAlpn alpn).bind (param 1)) = some a)
    (hh4 : (if v4 = [] then some [] else param 4 v4.flatten) = some h4)
    (he : (if ech = [] then some [] else param 5 ech) = some e)
    (hh6 : (if v6 = [] then some [] else param 6 v6.flatten) = some h6)
    (hport : port < 65536) (hv4 : ∀ x ∈ v4, x.length = 4) (hv6 : ∀ x ∈ v6, x.length = 16)
    (hf : (if alpn = [] then 0 else 1) + (if nd then 1 else 0) + (if port > 0 then 1 else 0) +
          (if v4 = [] then 0 else 1) + (if ech = [] then 0 else 1) + (if v6 = [] then 0 else 1) ≤ fuel) :
    httpsParamsF fuel (a ++ (if nd then u16 2 ++ u16 0 else []) ++
        (if port > 0 then u16 3 ++ u16 2 ++ u16 port else []) ++ h4 ++ e ++ h6) h0 =
      some { h0 with alpn := h0.alpn ++ alpn, noDefaultALPN := (if nd then true else h0.noDefaultALPN),
                     port := (if port > 0 then port else h0.port), v4 := h0.v4 ++ v4,
                     ech := (if ech = [] then h0.ech else ech), v6 := h0.v6 ++ v6 } := by
  -- segment 6
  have r6 : ∀ (f : Nat) (h : Https), (if v6 = [] then 0 else 1) ≤ f → httpsParamsF f h6 h = some { h with v6 := h.v6 ++ v6 } := by
    intro f h hf1
    by_cases hz : v6 = []
    · subst hz; simp only [if_true, Option.some.injEq] at hh6; subst hh6
      simp [httpsParamsF_nil]
    · simp only [hz, if_false] at hf1
      simp only [hz, if_false, param] at hh6
      cases hl : lp16 v6.flatten with
      | none => rw [hl] at hh6; simp at hh6
      | some x =>
        rw [hl] at hh6; simp only [Option.map_some, Option.some.injEq] at hh6; subst hh6
        simp only [lp16] at hl
        split at hl
        · rename_i hlt
          simp only [Option.some.injEq] at hl; subst hl
          obtain ⟨f', rfl⟩ : ∃ f', f = f' + 1 := ⟨f - 1, by omega⟩
          have := httpsParamsF_cons f' 6 v6.flatten [] h (by omega) hlt
          simp only [List.append_nil] at this
          rw [this]
          have hc := chunksOfF_flat v6 16 (by omega) v6.flatten.length hv6 (flatten_len v6 16 (by omega) hv6)
          simp only [hpInterp_6, hc, Option.map_some, Option.bind_some, httpsParamsF_nil]
        · simp at hl
  -- segment 5
  have r5 : ∀ (f : Nat) (h : Https), (if ech = [] then 0 else 1) + (if v6 = [] then 0 else 1) ≤ f → httpsParamsF f (e ++ h6) h =
      some { h with ech := (if ech = [] then h.ech else ech), v6 := h.v6 ++ v6 } := by
    intro f h hf1
    by_cases hz : ech = []
    · subst hz; simp only [if_true, Option.some.injEq] at he; subst he
      simp only [if_true, Nat.zero_add] at hf1
      simpa using r6 f h hf1
    · simp only [hz, if_false] at hf1
      simp only [hz, if_false, param] at he
      cases hl : lp16 ech with
      | none => rw [hl] at he; simp at he
      | some x =>
        rw [hl] at he; simp only [Option.map_some, Option.some.injEq] at he; subst he
        simp only [lp16] at hl
        split at hl
        · rename_i hlt
          simp only [Option.some.injEq] at hl; subst hl
          obtain ⟨f', rfl⟩ : ∃ f', f = f' + 1 := ⟨f - 1, by omega⟩
          have := httpsParamsF_cons f' 5 ech h6 h (by omega) hlt
          rw [this]
          simp only [hpInterp_5, Option.bind_some, r6 f' _ (by omega), hz, if_false]
        · simp at hl
  -- segment 4
  have r4 : ∀ (f : Nat) (h : Https), (if v4 = [] then 0 else 1) + (if ech = [] then 0 else 1) + (if v6 = [] then 0 else 1) ≤ f → httpsParamsF f (h4 ++ (e ++ h6)) h =
      some { h with v4 := h.v4 ++ v4, ech := (if ech = [] then h.ech else ech), v6 := h.v6 ++ v6 } := by
    intro f h hf1
    by_cases hz : v4 = []
    · subst hz; simp only [if_true, Option.some.injEq] at hh4; subst hh4
      simp only [if_true, Nat.zero_add] at hf1
      simpa using r5 f h hf1
    · simp only [hz, if_false] at hf1
      simp only [hz, if_false, param] at hh4
      cases hl : lp16 v4.flatten with
      | none => rw [hl] at hh4; simp at hh4
      | some x =>
        rw [hl] at hh4; simp only [Option.map_some, Option.some.injEq] at hh4; subst hh4
        simp only [lp16] at hl
        split at hl
        · rename_i hlt
          simp only [Option.some.injEq] at hl; subst hl
          obtain ⟨f', rfl⟩ : ∃ f', f = f' + 1 := ⟨f - 1, by omega⟩
          have := httpsParamsF_cons f' 4 v4.flatten (e ++ h6) h (by omega) hlt
          rw [this]
          have hc := chunksOfF_flat v4 4 (by omega) v4.flatten.length hv4 (flatten_len v4 4 (by omega) hv4)
          simp only [hpInterp_4, hc, Option.map_some, Option.bind_some, r5 f' _ (by omega)]
        · simp at hl
  -- segment 3
  have r3 : ∀ (f : Nat) (h : Https), (if port > 0 then 1 else 0) + (if v4 = [] then 0 else 1) + (if ech = [] then 0 else 1) + (if v6 = [] then 0 else 1) ≤ f →
      httpsParamsF f ((if port > 0 then u16 3 ++ u16 2 ++ u16 port else []) ++ (h4 ++ (e ++ h6))) h =
      some { h with port := (if port > 0 then port else h.port), v4 := h.v4 ++ v4,
                    ech := (if ech = [] then h.ech else ech), v6 := h.v6 ++ v6 } := by
    intro f h hf1
    by_cases hz : port > 0
    · simp only [hz, if_true] at hf1 ⊢
      obtain ⟨f', rfl⟩ : ∃ f', f = f' + 1 := ⟨f - 1, by omega⟩
      have := httpsParamsF_cons f' 3 (u16 port) (h4 ++ (e ++ h6)) h (by omega) (by simp [u16])
      have hlen : (u16 port).length = 2 := by simp [u16]
      rw [hlen] at this
      simp only [List.append_assoc] at this ⊢
      rw [this]
      have hr : readU16 (u16 port) = some (port, []) := by
        have := readU16_u16 hport []
        simpa using this
      simp only [hpInterp_3, hr, Option.map_some, Option.bind_some, r4 f' _ (by omega)]
    · simp only [hz, if_false, List.nil_append, Nat.zero_add] at hf1 ⊢
      simpa using r4 f h hf1
  -- segment 2
  have r2 : ∀ (f : Nat) (h : Https), (if nd then 1 else 0) + (if port > 0 then 1 else 0) + (if v4 = [] then 0 else 1) + (if ech = [] then 0 else 1) + (if v6 = [] then 0 else 1) ≤ f →
      httpsParamsF f ((if nd then u16 2 ++ u16 0 else []) ++ ((if port > 0 then u16 3 ++ u16 2 ++ u16 port else []) ++ (h4 ++ (e ++ h6)))) h =
      some { h with noDefaultALPN := (if nd then true else h.noDefaultALPN), port := (if port > 0 then port else h.port),
                    v4 := h.v4 ++ v4, ech := (if ech = [] then h.ech else ech), v6 := h.v6 ++ v6 } := by
    intro f h hf1
    cases nd with
    | true =>
      simp only [if_true] at hf1 ⊢
      obtain ⟨f', rfl⟩ : ∃ f', f = f' + 1 := ⟨f - 1, by omega⟩
      have := httpsParamsF_cons f' 2 [] ((if port > 0 then u16 3 ++ u16 2 ++ u16 port else []) ++ (h4 ++ (e ++ h6))) h (by omega) (by simp)
      simp only [List.length_nil, List.append_nil] at this
      rw [this]
      simp only [hpInterp_2, Option.bind_some, r3 f' _ (by omega)]
    | false =>
      simp only [Bool.false_eq_true, if_false, List.nil_append, Nat.zero_add] at hf1 ⊢
      simpa using r3 f h hf1
  -- segment 1
  have hassoc : a ++ (if nd then u16 2 ++ u16 0 else []) ++ (if port > 0 then u16 3 ++ u16 2 ++ u16 port else []) ++ h4 ++ e ++ h6 =
      a ++ ((if nd then u16 2 ++ u16 0 else []) ++ ((if port > 0 then u16 3 ++ u16 2 ++ u16 port else []) ++ (h4 ++ (e ++ h6)))) := by
    simp [List.append_assoc]
  rw [hassoc]
  by_cases hz : alpn = []
  · subst hz; simp only [if_true, Option.some.injEq] at ha; subst ha
    simp only [if_true, Nat.zero_add] at hf
    simpa using r2 fuel h0 hf
  · simp only [hz, if_false] at hf
    simp only [hz, if_false] at ha
    cases hab : encAlpn alpn with
    | none => rw [hab] at ha; simp at ha
    | some ab =>
      rw [hab] at ha
      simp only [Option.bind_some, param] at ha
      cases hl : lp16 ab with
      | none => rw [hl] at ha; simp at ha
      | some x =>
        rw [hl] at ha; simp only [Option.map_some, Option.some.injEq] at ha; subst ha
        simp only [lp16] at hl
        split at hl
        · rename_i hlt
          simp only [Option.some.injEq] at hl; subst hl
          obtain ⟨f', rfl⟩ : ∃ f', fuel = f' + 1 := ⟨fuel - 1, by omega⟩
          have := httpsParamsF_cons f' 1 ab ((if nd then u16 2 ++ u16 0 else []) ++ ((if port > 0 then u16 3 ++ u16 2 ++ u16 port else []) ++ (h4 ++ (e ++ h6)))) h0 (by omega) hlt
          rw [this]
          have hc := lp8ListF_enc alpn ab ab.length hab (encAlpn_len alpn ab hab)
          simp only [hpInterp_1, hc, Option.map_some, Option.bind_some, r2 f' _ (by omega)]
        · simp at hl

theorem decodeRData_enc (raw : Bytes) (typ : Nat) (d : EData) (x : Bytes) (pos : Nat)
    (hok : DataOk typ d) (he : encRData typ d = some x) :
    decodeRData raw typ ⟨pos, x⟩ = some (toRData d) := by
  cases d with
  | ip b =>
    simp only [encRData, Option.some.injEq] at he
    subst he
    rcases hok with ⟨rfl, hl⟩ | ⟨rfl, hl⟩ <;> simp [decodeRData, hl, toRData]
  | str s =>
    obtain ⟨ht, hlab, hoct⟩ := hok
    simp only [encRData, if_pos ht] at he
    cases hl : encLabels (splitDots s) with
    | none => rw [hl] at he; simp at he
    | some e =>
      rw [hl] at he
      simp only [Option.map_some, Option.some.injEq] at he
      subst he
      have := C13_name_roundtrip raw (splitDots s) e [] pos hlab hoct hl
      simp only [List.append_nil] at this
      have hdec : decodeRData raw typ ⟨pos, e ++ [0]⟩ = (readName raw ⟨pos, e ++ [0]⟩).map fun (n, _) => RData.name n := by
        rcases ht with rfl | rfl | rfl <;> simp [decodeRData]
      rw [hdec, this]
      rfl
  | opts l =>
    obtain ⟨rfl, hl⟩ := hok
    simp only [encRData] at he
    have := optsF_enc l x x.length he hl (encOpts_len l x he)
    simp [decodeRData, this, toRData]
  | https prio target alpn nd port v4 v6 ech =>
    obtain ⟨rfl, hp, hn, hport, hech, halpn, hv4, hv4l, hv6, hv6l⟩ := hok
    simp only [encRData] at he
    split at he
    · rename_i t a h4 e h6 ht ha hh4 hee hh6
      simp only [Option.some.injEq] at he
      subst he
      -- every present parameter occupies at least one byte, so the byte count bounds the parameter count
      have l1 : (if alpn = [] then 0 else 1) ≤ a.length := by
        by_cases hz : alpn = []
        · simp [hz]
        · simp only [hz, if_false] at ha ⊢
          cases hab : encAlpn alpn with
          | none => rw [hab] at ha; simp at ha
          | some ab => rw [hab] at ha; exact param_len _ _ _ ha
      have l2 : (if nd then 1 else 0) ≤ (if nd then u16 2 ++ u16 0 else []).length := by
        cases nd <;> simp [u16]
      have l3 : (if port > 0 then 1 else 0) ≤ (if port > 0 then u16 3 ++ u16 2 ++ u16 port else []).length := by
        by_cases hz : port > 0 <;> simp [hz, u16]
      have l4 : (if v4 = [] then 0 else 1) ≤ h4.length := by
        by_cases hz : v4 = []
        · simp [hz]
        · simp only [hz, if_false] at hh4 ⊢; exact param_len _ _ _ hh4
      have l5 : (if ech = [] then 0 else 1) ≤ e.length := by
        by_cases hz : ech = []
        · simp [hz]
        · simp only [hz, if_false] at hee ⊢; exact param_len _ _ _ hee
      have l6 : (if v6 = [] then 0 else 1) ≤ h6.length := by
        by_cases hz : v6 = []
        · simp [hz]
        · simp only [hz, if_false] at hh6 ⊢; exact param_len _ _ _ hh6
      generalize hps : a ++ (if nd then u16 2 ++ u16 0 else []) ++
        (if port > 0 then u16 3 ++ u16 2 ++ u16 port else []) ++ h4 ++ e ++ h6 = ps
      have hcount : (if alpn = [] then 0 else 1) + (if nd then 1 else 0) + (if port > 0 then 1 else 0) +
          (if v4 = [] then 0 else 1) + (if ech = [] then 0 else 1) + (if v6 = [] then 0 else 1) ≤ ps.length := by
        rw [← hps]; simp only [List.length_append]; omega
      have h3 := httpsParams_enc alpn nd port v4 v6 ech a h4 e h6 { priority := prio, target := toName target }
        ps.length ha hh4 hee hh6 hport hv4 hv6 hcount
      rw [hps] at h3
      have hx : u16 prio ++ t ++ a ++ (if nd then u16 2 ++ u16 0 else []) ++
          (if port > 0 then u16 3 ++ u16 2 ++ u16 port else []) ++ h4 ++ e ++ h6 = u16 prio ++ (t ++ ps) := by
        rw [← hps]; simp [List.append_assoc]
      rw [hx]
      have h1 := wU16_u16 pos prio (t ++ ps) hp
      have h2 := readName_encNameStr raw target t ps (pos + 2) hn ht
      have hd : decodeRData raw 65 ⟨pos, u16 prio ++ (t ++ ps)⟩ = decHTTPS raw ⟨pos, u16 prio ++ (t ++ ps)⟩ := by
        simp [decodeRData]
      rw [hd]
      simp only [decHTTPS, h1, h2, h3, Option.map_some, toRData]
      have e1 : (if nd then true else false) = nd := by cases nd <;> rfl
      have e2 : (if port > 0 then port else 0) = port := by
        by_cases hz : port > 0
        · simp [hz]
        · have : port = 0 := by omega
          simp [this]
      have e3 : (if ech = [] then [] else ech) = ech := by
        by_cases hz : ech = [] <;> simp [hz]
      simp [e1, e2, e3]
    · simp at he
  | other => exact hok.elim

theorem decodeRR_enc (raw : Bytes) (r : ERR) (rb rest : Bytes) (pos : Nat) (hok : RROk r)
    (he : encRR r = some rb) : decodeRR raw ⟨pos, rb ++ rest⟩ = some (toRR r, ⟨pos + rb.length, rest⟩) := by
  obtain ⟨hn, ht, hc, htt, hd⟩ := hok
  simp only [encRR] at he
  split at he
  · rename_i nb d hnb hdd
    simp only [Option.some.injEq] at he
    subst he
    cases hx : encRData r.typ r.data with
    | none => rw [hx] at hdd; simp at hdd
    | some x =>
      rw [hx] at hdd
      simp only [Option.bind_some] at hdd
      have h1 := readName_encNameStr raw r.name nb (u16 r.typ ++ u16 r.cls ++ u32 r.ttl ++ d ++ rest) pos hn hnb
      have h2 := wU16_u16 (pos + nb.length) r.typ (u16 r.cls ++ u32 r.ttl ++ d ++ rest) ht
      have h3 := wU16_u16 (pos + nb.length + 2) r.cls (u32 r.ttl ++ d ++ rest) hc
      have h4 := wU32_u32 (pos + nb.length + 2 + 2) r.ttl (d ++ rest) htt
      have h5 := wLP16_lp16 (pos + nb.length + 2 + 2 + 4) x d rest hdd
      have h6 := decodeRData_enc raw r.typ r.data x (pos + nb.length + 2 + 2 + 4 + 2) hd hx
      have hdl : d.length = 2 + x.length := by
        simp only [lp16] at hdd
        split at hdd
        · simp only [Option.some.injEq] at hdd; subst hdd; simp [u16]; omega
        · simp at hdd
      simp only [List.append_assoc] at h1 h2 h3 h4 h5 ⊢
      simp only [decodeRR, h1, h2, h3, h4, h5, h6, Option.map_some, toRR]
      simp [u16, u32]; omega
  · simp at he

theorem decodeRRs_enc (raw : Bytes) (rs : List ERR) :
    ∀ (b rest : Bytes) (pos : Nat), encRRs rs = some b → (∀ r ∈ rs, RROk r) →
      decodeRRs raw rs.length ⟨pos, b ++ rest⟩ = some (rs.map toRR, ⟨pos + b.length, rest⟩) := by
  induction rs with
  | nil =>
    intro b rest pos he _
    simp only [encRRs, Option.some.injEq] at he
    subst he
    simp [decodeRRs]
  | cons r rs ih =>
    intro b rest pos he hok
    obtain ⟨a, c, ha, hc, rfl⟩ := encRRs_cons r rs b he
    have h1 := decodeRR_enc raw r a (c ++ rest) pos (hok r (by simp)) ha
    have h2 := ih c rest (pos + a.length) hc (fun x hx => hok x (by simp [hx]))
    simp only [List.append_assoc] at h1 ⊢
    simp only [List.length_cons, decodeRRs, h1, h2, Option.map_some, List.map_cons]
    simp; omega

/-- the message a well-formed encoder-side message decodes to -/
def toMessage (m : EMessage) : Message :=
  { id := m.id, qr := m.qr, opcode := m.opcode, aa := m.aa, tc := m.tc, rd := m.rd, ra := m.ra, rcode := m.rcode,
    question := m.question.map toQ, answer := m.answer.map toRR, authority := m.authority.map toRR,
    additional := m.additional.map toRR }

structure MsgOk (m : EMessage) : Prop where
  id : m.id < 65536
  qr : m.qr < 2
  opcode : m.opcode < 16
  aa : m.aa < 2
  tc : m.tc < 2
  rd : m.rd < 2
  ra : m.ra < 2
  rcode : m.rcode < 16
  nq : m.question.length < 65536
  nan : m.answer.length < 65536
  nns : m.authority.length < 65536
  nar : m.additional.length < 65536
  qs : ∀ q ∈ m.question, QOk q
  an : ∀ r ∈ m.answer, RROk r
  ns : ∀ r ∈ m.authority, RROk r
  ar : ∀ r ∈ m.additional, RROk r

/-- Whole-message round trip: every message made of a header with in-range fields, any number of
    questions and any number of A / AAAA / NS / CNAME / PTR / OPT / HTTPS records in the three record
    sections — every kind of RDATA `RR.Bytes` can write — with names of well-formed labels
    (≤ 255 octets), that `Message.Bytes` encodes, is decoded by `DecodeMessage` to exactly the same
    header, questions and records, HTTPS parameters included. (Record types only the decoder knows
    are compared with dnsmessage by the correspondence campaign.) -/
theorem C13_message_roundtrip (m : EMessage) (b : Bytes) (hok : MsgOk m) (he : encode m = some b) :
    decode b = some (toMessage m) := by
  simp only [encode] at he
  split at he
  · rename_i q a ns ar hq ha hns har
    simp only [Option.some.injEq] at he
    subst he
    obtain ⟨f1, f2, f3, f4, f5, f6, f7, f8⟩ := C13_header_roundtrip m hok.qr hok.opcode hok.aa hok.tc hok.rd hok.ra hok.rcode
    generalize hraw : (u16 m.id ++ u16 (flagsWord m) ++ u16 m.question.length ++ u16 m.answer.length ++
      u16 m.authority.length ++ u16 m.additional.length ++ q ++ a ++ ns ++ ar) = raw
    have hshape : raw = u16 m.id ++ (u16 (flagsWord m) ++ (u16 m.question.length ++ (u16 m.answer.length ++
      (u16 m.authority.length ++ (u16 m.additional.length ++ (q ++ (a ++ (ns ++ (ar ++ []))))))))) := by
      rw [← hraw]; simp [List.append_assoc]
    have d1 := decodeQuestions_enc raw m.question q (a ++ (ns ++ (ar ++ []))) 12 hq hok.qs
    have d2 := decodeRRs_enc raw m.answer a (ns ++ (ar ++ [])) (12 + q.length) ha hok.an
    have d3 := decodeRRs_enc raw m.authority ns (ar ++ []) (12 + q.length + a.length) hns hok.ns
    have d4 := decodeRRs_enc raw m.additional ar [] (12 + q.length + a.length + ns.length) har hok.ar
    unfold decode
    conv => lhs; rw [hshape]
    simp only [readU16_u16 hok.id, readU16_u16 f8, readU16_u16 hok.nq, readU16_u16 hok.nan, readU16_u16 hok.nns,
      readU16_u16 hok.nar]
    rw [← hshape]
    simp only [d1, d2, d3, d4, toMessage, f1, f2, f3, f4, f5, f6, f7]
  · simp at he

/-! ### agreement of the name decoder with RFC 1035, as a theorem

`Spec/DNSName.lean` defines "the domain name at offset `pos` of message `raw`" as a relation
written from RFC 1035 3.1 / 4.1.4 alone (labels, root, 14-bit pointers). -/

theorem length_le_octets (n : Name) : n.length ≤ octets n := by
  induction n with
  | nil => simp [octets]
  | cons l ls ih => simp only [List.length_cons, octets]; omega

/-- Soundness: whatever the decoder returns for a name read at a position inside the message is
    the RFC 1035 name at that offset, it respects the 255-octet limit, every pointer followed
    points backwards, at most 255 of them, and the cursor it leaves is inside the message again. -/
theorem C13_name_refines_rfc1035 (raw : Bytes) (w w' : Win) (n : Name) (hw : Win.Inside raw w)
    (h : readName raw w = some (n, w')) :
    Spec.NameAt raw w.pos n ∧ Spec.octets n ≤ 255 ∧
    (∃ k, Spec.NameAtBack raw w.pos n k ∧ k ≤ 255) ∧ Win.Inside raw w' := by
  obtain ⟨k, hk, hk2⟩ := nameLabelsF_sound raw _ false w w 0 0 n w' hw (by simp [maxPointers]) h
  refine ⟨hk.toNameAt, ?_, ⟨k, hk, by simpa [maxPointers] using hk2⟩, ?_⟩
  · rw [octets_eq]
    rcases nameLabelsF_size raw _ false w w 0 0 n w' h with h1 | h1
    · simpa [maxNameOctets] using h1
    · subst h1; simp [octets]
  · exact nameLabelsF_cursor raw _ false w w 0 0 n w' hw hw h

/-- Completeness: every name the relation defines at an offset - pointers backwards, at most 255 of
    them, at most 255 octets - is decoded, and decoded to exactly those labels. -/
theorem C13_name_complete (raw : Bytes) (pos k : Nat) (n : Name) (h : Spec.NameAtBack raw pos n k)
    (hk : k ≤ 255) (hs : Spec.octets n ≤ 255) :
    ∃ w', readName raw ⟨pos, raw.drop pos⟩ = some (n, w') := by
  rw [octets_eq] at hs
  have hl := length_le_octets n
  exact nameLabelsF_complete raw h nameFuel false ⟨pos, raw.drop pos⟩ 0 0
    (by simpa [maxPointers] using hk) (by simpa [maxNameOctets] using hs) (by simp only [nameFuel]; omega)

/-- … so on whole windows the decoder *is* the relation restricted to the budget: -/
theorem C13_name_decoder_is_rfc1035 (raw : Bytes) (pos : Nat) (n : Name) :
    (∃ w', readName raw ⟨pos, raw.drop pos⟩ = some (n, w')) ↔
      ∃ k, Spec.NameAtBack raw pos n k ∧ k ≤ 255 ∧ Spec.octets n ≤ 255 := by
  constructor
  · rintro ⟨w', h⟩
    obtain ⟨_, h2, ⟨k, h3, h4⟩, _⟩ := C13_name_refines_rfc1035 raw ⟨pos, raw.drop pos⟩ w' n (Win.inside_whole raw pos) h
    exact ⟨k, h3, h4, h2⟩
  · rintro ⟨k, h1, h2, h3⟩
    exact C13_name_complete raw pos k n h1 h2 h3

/-- the relation is a function: one name per offset (so "the" name at an offset is well defined and
    the decoder's answer is the only one an RFC 1035 reader can give) -/
theorem C13_name_unique (raw : Bytes) (pos k1 k2 : Nat) (n1 n2 : Name)
    (h1 : Spec.NameAtBack raw pos n1 k1) (h2 : Spec.NameAtBack raw pos n2 k2) : n1 = n2 ∧ k1 = k2 := by
  induction h1 generalizing n2 k2 with
  | root h0 =>
    cases h2 with
    | root _ => exact ⟨rfl, rfl⟩
    | label g0 gne _ _ _ => rw [h0] at g0; cases g0; exact absurd rfl gne
    | ptr g0 gp _ _ _ => rw [h0] at g0; cases g0; simp at gp
  | label h0 hne hnp _ _ ih =>
    cases h2 with
    | root g0 => rw [h0] at g0; cases g0; exact absurd rfl hne
    | label g0 _ _ _ g =>
      rw [h0] at g0; cases g0
      obtain ⟨e1, e2⟩ := ih _ _ g
      exact ⟨by rw [e1], e2⟩
    | ptr g0 gp _ _ _ => rw [h0] at g0; cases g0; exact absurd gp hnp
  | ptr h0 hp h1' _ _ ih =>
    cases h2 with
    | root g0 => rw [h0] at g0; cases g0; simp at hp
    | label g0 _ gnp _ _ => rw [h0] at g0; cases g0; exact absurd hp gnp
    | ptr g0 _ g1 _ g =>
      rw [h0] at g0; cases g0
      rw [h1'] at g1; cases g1
      obtain ⟨e1, e2⟩ := ih _ _ g
      exact ⟨e1, by omega⟩

/-! ### … lifted to whole messages: every name of a decoded message is an RFC 1035 name of it -/

theorem wU16_inside {raw : Bytes} {w w' : Win} {v : Nat} (hw : Win.Inside raw w) (h : wU16 w = some (v, w')) :
    Win.Inside raw w' := by
  unfold wU16 at h
  rw [Option.map_eq_some_iff] at h
  obtain ⟨⟨v', r⟩, hr, he⟩ := h
  simp only [Prod.mk.injEq] at he
  obtain ⟨_, rfl⟩ := he
  exact (Win.inside_adv (u16 v') r hw (readU16_inv hr).1).1

theorem wU32_inside {raw : Bytes} {w w' : Win} {v : Nat} (hw : Win.Inside raw w) (h : wU32 w = some (v, w')) :
    Win.Inside raw w' := by
  unfold wU32 at h
  rw [Option.map_eq_some_iff] at h
  obtain ⟨⟨v', r⟩, hr, he⟩ := h
  simp only [Prod.mk.injEq] at he
  obtain ⟨_, rfl⟩ := he
  exact (Win.inside_adv (u32 v') r hw (readU32_inv hr).1).1

theorem wLP16_inside {raw : Bytes} {w d w' : Win} (hw : Win.Inside raw w) (h : wLP16 w = some (d, w')) :
    Win.Inside raw d ∧ Win.Inside raw w' := by
  unfold wLP16 at h
  rw [Option.map_eq_some_iff] at h
  obtain ⟨⟨x, r⟩, hr, he⟩ := h
  simp only [Prod.mk.injEq] at he
  obtain ⟨rfl, rfl⟩ := he
  have hb := (readLP16_inv hr).1
  refine ⟨?_, (Win.inside_adv (u16 x.length ++ x) r hw hb).1⟩
  obtain ⟨t, ht⟩ := hw
  refine ⟨r ++ t, ?_⟩
  show raw.drop (w.pos + 2) = x ++ (r ++ t)
  rw [← List.drop_drop, ht, hb]
  simp [u16]

theorem httpsParamsF_target : ∀ (fuel : Nat) (b : Bytes) (h h' : Https),
    httpsParamsF fuel b h = some h' → h'.target = h.target := by
  intro fuel
  induction fuel with
  | zero => intro b h h' e; simp only [httpsParamsF] at e; split at e <;> simp at e; rw [e]
  | succ f ih =>
    intro b h h' e
    simp only [httpsParamsF] at e
    split at e
    · simp at e; rw [e]
    · split at e
      · simp at e
      · split at e
        · simp at e
        · split at e
          · simp at e
          · rename_i k r hk _ v r2 hv _ h'' hh
            have := ih _ _ _ e
            rw [this]
            by_cases k1 : k = 1
            · rw [if_pos k1, Option.map_eq_some_iff] at hh; obtain ⟨_, _, rfl⟩ := hh; rfl
            rw [if_neg k1] at hh
            by_cases k2 : k = 2
            · rw [if_pos k2] at hh; cases hh; rfl
            rw [if_neg k2] at hh
            by_cases k3 : k = 3
            · rw [if_pos k3, Option.map_eq_some_iff] at hh; obtain ⟨_, _, rfl⟩ := hh; rfl
            rw [if_neg k3] at hh
            by_cases k4 : k = 4
            · rw [if_pos k4, Option.map_eq_some_iff] at hh; obtain ⟨_, _, rfl⟩ := hh; rfl
            rw [if_neg k4] at hh
            by_cases k5 : k = 5
            · rw [if_pos k5] at hh; cases hh; rfl
            rw [if_neg k5] at hh
            by_cases k6 : k = 6
            · rw [if_pos k6, Option.map_eq_some_iff] at hh; obtain ⟨_, _, rfl⟩ := hh; rfl
            rw [if_neg k6] at hh
            cases hh; rfl

/-- the names inside record data the resolver follows: NS / CNAME / PTR targets and the target of
    an HTTPS record -/
def RDataNames (raw : Bytes) : RData → Prop
  | .name n => ∃ p, Spec.NameAt raw p n
  | .https h => ∃ p, Spec.NameAt raw p h.target
  | _ => True

theorem decodeRData_names (raw : Bytes) (typ : Nat) (data : Win) (d : RData) (hd : Win.Inside raw data)
    (h : decodeRData raw typ data = some d) : RDataNames raw d := by
  have ht := C12_types raw typ data d h
  cases d with
  | name n =>
    simp only [TypeMatches] at ht
    unfold decodeRData at h
    rw [if_neg (by omega), if_pos ht, Option.map_eq_some_iff] at h
    obtain ⟨⟨n', w'⟩, hr, he⟩ := h
    cases he
    exact ⟨data.pos, (C13_name_refines_rfc1035 raw data w' n hd hr).1⟩
  | https hh =>
    simp only [TypeMatches] at ht
    subst ht
    simp only [decodeRData] at h
    simp at h
    unfold decHTTPS at h
    split at h
    · simp at h
    · rename_i p w1 h1
      split at h
      · simp at h
      · rename_i n w2 h2
        rw [Option.map_eq_some_iff] at h
        obtain ⟨h', hp, he⟩ := h
        cases he
        have := httpsParamsF_target _ _ _ _ hp
        simp only at this
        exact ⟨w1.pos, by rw [this]; exact (C13_name_refines_rfc1035 raw w1 w2 n (wU16_inside hd h1) h2).1⟩
  | _ => trivial

theorem decodeRR_names (raw : Bytes) (w w' : Win) (rr : RR) (hw : Win.Inside raw w)
    (h : decodeRR raw w = some (rr, w')) :
    Win.Inside raw w' ∧ Spec.NameAt raw w.pos rr.name ∧ RDataNames raw rr.data := by
  unfold decodeRR at h
  split at h
  · simp at h
  · rename_i n w1 h1
    split at h
    · simp at h
    · rename_i typ w2 h2
      split at h
      · simp at h
      · rename_i cls w3 h3
        split at h
        · simp at h
        · rename_i ttl w4 h4
          split at h
          · simp at h
          · rename_i data w5 h5
            rw [Option.map_eq_some_iff] at h
            obtain ⟨d, hd, he⟩ := h
            simp only [Prod.mk.injEq] at he
            obtain ⟨rfl, rfl⟩ := he
            obtain ⟨hn, _, _, i1⟩ := C13_name_refines_rfc1035 raw w w1 n hw h1
            have i4 := wU32_inside (wU16_inside (wU16_inside i1 h2) h3) h4
            obtain ⟨i5, i6⟩ := wLP16_inside i4 h5
            exact ⟨i6, hn, decodeRData_names raw typ data d i5 hd⟩

theorem decodeRRs_names (raw : Bytes) : ∀ (n : Nat) (w w' : Win) (l : List RR), Win.Inside raw w →
    decodeRRs raw n w = some (l, w') →
    Win.Inside raw w' ∧ ∀ rr ∈ l, (∃ p, Spec.NameAt raw p rr.name) ∧ RDataNames raw rr.data := by
  intro n
  induction n with
  | zero => intro w w' l hw h; simp [decodeRRs] at h; obtain ⟨rfl, rfl⟩ := h; exact ⟨hw, by simp⟩
  | succ k ih =>
    intro w w' l hw h
    simp only [decodeRRs] at h
    split at h
    · simp at h
    · rename_i rr w1 h1
      rw [Option.map_eq_some_iff] at h
      obtain ⟨⟨l', w2⟩, hr, he⟩ := h
      simp only [Prod.mk.injEq] at he
      obtain ⟨rfl, rfl⟩ := he
      obtain ⟨i1, hn, hd⟩ := decodeRR_names raw w w1 rr hw h1
      obtain ⟨i2, hl⟩ := ih _ _ _ i1 hr
      refine ⟨i2, ?_⟩
      intro x hx
      simp only [List.mem_cons] at hx
      rcases hx with rfl | hx
      · exact ⟨⟨w.pos, hn⟩, hd⟩
      · exact hl x hx

theorem decodeQuestions_names (raw : Bytes) : ∀ (n : Nat) (w w' : Win) (l : List Question), Win.Inside raw w →
    decodeQuestions raw n w = some (l, w') →
    Win.Inside raw w' ∧ ∀ q ∈ l, ∃ p, Spec.NameAt raw p q.name := by
  intro n
  induction n with
  | zero => intro w w' l hw h; simp [decodeQuestions] at h; obtain ⟨rfl, rfl⟩ := h; exact ⟨hw, by simp⟩
  | succ k ih =>
    intro w w' l hw h
    simp only [decodeQuestions] at h
    split at h
    · simp at h
    · rename_i nm w1 h1
      split at h
      · simp at h
      · rename_i t w2 h2
        split at h
        · simp at h
        · rename_i c w3 h3
          rw [Option.map_eq_some_iff] at h
          obtain ⟨⟨l', w4⟩, hr, he⟩ := h
          simp only [Prod.mk.injEq] at he
          obtain ⟨rfl, rfl⟩ := he
          obtain ⟨hn, _, _, i1⟩ := C13_name_refines_rfc1035 raw w w1 nm hw h1
          obtain ⟨i2, hl⟩ := ih _ _ _ (wU16_inside (wU16_inside i1 h2) h3) hr
          refine ⟨i2, ?_⟩
          intro x hx
          simp only [List.mem_cons] at hx
          rcases hx with rfl | hx
          · exact ⟨w.pos, hn⟩
          · exact hl x hx

theorem readU16_drop {b r : Bytes} {v : Nat} (h : readU16 b = some (v, r)) : r = b.drop 2 := by
  have := (readU16_inv h).1
  rw [this]; simp [u16]

theorem decode_inv_drop (raw : Bytes) (m : Message) (h : decode raw = some m) :
    ∃ qd an ns ar qs w1 a w2 b w3 c w4,
      decodeQuestions raw qd ⟨12, raw.drop 12⟩ = some (qs, w1) ∧ decodeRRs raw an w1 = some (a, w2) ∧
      decodeRRs raw ns w2 = some (b, w3) ∧ decodeRRs raw ar w3 = some (c, w4) ∧
      m.question = qs ∧ m.answer = a ∧ m.authority = b ∧ m.additional = c := by
  unfold decode at h
  split at h; · simp at h
  rename_i id r1 h1
  split at h; · simp at h
  rename_i fl r2 h2
  split at h; · simp at h
  rename_i qd r3 h3
  split at h; · simp at h
  rename_i an r4 h4
  split at h; · simp at h
  rename_i ns r5 h5
  split at h; · simp at h
  rename_i ar r6 h6
  split at h; · simp at h
  rename_i qs w1 hq
  split at h; · simp at h
  rename_i a w2 ha
  split at h; · simp at h
  rename_i b w3 hb
  split at h; · simp at h
  rename_i c w4 hc
  simp only [Option.some.injEq] at h
  subst h
  have e : r6 = raw.drop 12 := by
    rw [readU16_drop h6, readU16_drop h5, readU16_drop h4, readU16_drop h3, readU16_drop h2, readU16_drop h1]
    simp [List.drop_drop]
  subst e
  exact ⟨qd, an, ns, ar, qs, w1, a, w2, b, w3, c, w4, hq, ha, hb, hc, rfl, rfl, rfl, rfl⟩

/-- Every name a successful `DecodeMessage` hands to its caller - question names, the owner name
    of every record of the three sections, the target of every NS / CNAME / PTR and HTTPS record -
    is the RFC 1035 name found at some offset of the message that was decoded: the decoder cannot
    invent a name, take one from outside the message or splice labels that RFC 1035 does not join. -/
theorem C13_message_names_rfc1035 (raw : Bytes) (m : Message) (h : decode raw = some m) :
    (∀ q ∈ m.question, ∃ p, Spec.NameAt raw p q.name) ∧
    (∀ rr ∈ m.answer ++ m.authority ++ m.additional,
      (∃ p, Spec.NameAt raw p rr.name) ∧ RDataNames raw rr.data) := by
  obtain ⟨qd, an, ns, ar, qs, w1, a, w2, b, w3, c, w4, hq, ha, hb, hc, e1, e2, e3, e4⟩ := decode_inv_drop raw m h
  have i0 : Win.Inside raw ⟨12, raw.drop 12⟩ := Win.inside_whole raw 12
  obtain ⟨i1, hqs⟩ := decodeQuestions_names raw qd _ _ _ i0 hq
  obtain ⟨i2, h2⟩ := decodeRRs_names raw an _ _ _ i1 ha
  obtain ⟨i3, h3⟩ := decodeRRs_names raw ns _ _ _ i2 hb
  obtain ⟨_, h4⟩ := decodeRRs_names raw ar _ _ _ i3 hc
  subst e1 e2 e3 e4
  refine ⟨hqs, ?_⟩
  intro rr hrr
  simp only [List.mem_append] at hrr
  rcases hrr with (hrr | hrr) | hrr
  · exact h2 rr hrr
  · exact h3 rr hrr
  · exact h4 rr hrr

/-- non-vacuity: "ex" followed by a pointer back to it, read at the pointer -/
example : Spec.NameAtBack [2, 101, 120, 0, 192, 0] 4 [[101, 120]] 1 :=
  .ptr (b0 := 192) (b1 := 0) rfl (by decide) rfl (by decide)
    (.label (len := 2) rfl (by decide) (by decide) (by decide) (.root rfl))


/-! non-vacuity: a query for "ex" (type HTTPS) with a padded OPT record satisfies the hypotheses -/

def demoMsg : EMessage :=
  { id := 7, rd := 1, question := [⟨[101, 120], 65, 1⟩],
    additional := [⟨[], 41, 4096, 0, .opts [⟨12, [0, 0]⟩]⟩] }

theorem demo_names : toName (trimDot [101, 120]) = [[101, 120]] := by
  simp [toName, trimDot, splitDots]

example : MsgOk demoMsg := by
  refine ⟨by simp [demoMsg], by simp [demoMsg], by simp [demoMsg], by simp [demoMsg], by simp [demoMsg], by simp [demoMsg],
    by simp [demoMsg], by simp [demoMsg], by simp [demoMsg], by simp [demoMsg], by simp [demoMsg], by simp [demoMsg], ?_, ?_, ?_, ?_⟩
  · intro q hq
    simp [demoMsg] at hq
    subst hq
    refine ⟨⟨?_, ?_⟩, by simp, by simp⟩
    · rw [demo_names]; intro l hl; simp at hl; subst hl; simp
    · rw [demo_names]; simp [octets]
  · intro r hr; simp [demoMsg] at hr
  · intro r hr; simp [demoMsg] at hr
  · intro r hr
    simp [demoMsg] at hr
    subst hr
    refine ⟨⟨?_, ?_⟩, by simp, by simp, by simp, ?_⟩
    · simp [toName, LabelsOk]
    · simp [toName, octets]
    · simp [DataOk]

end DNS
