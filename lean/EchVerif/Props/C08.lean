import EchVerif.Lemmas.NoPanic
import EchVerif.Lemmas.Pipe
/-
  C08 — no peer input can crash, hang or balloon a Conn.
  The model carries every Go index / slice / nil-dereference of the code as an explicit `.panic`
  outcome, so "never panics" is a real obligation about all inputs, keys and HPKE worlds.
-/
open Wire TLS
namespace ECH

/-- NewConn never panics, whatever the client sends and whatever the keys are. -/
theorem C08_no_panic_newConn (H : Hpke) (keys : List Key) (t : Tr) :
    (newConn H keys t).err ≠ some .panic := by
  unfold newConn
  split
  · rename_i e t1 hrr
    simp only [failNew]
    intro h
    simp only [Option.some.injEq] at h
    subst h
    unfold readRecord at hrr
    repeat' (split at hrr <;> try (simp at hrr))
  · split
    · simp [failNew]
    · split
      · rename_i e hh
        simp only [failNew]
        intro h
        simp only [Option.some.injEq] at h
        subst h
        rcases handle_first_err H _ _ _ hh with r | r
        · rcases r with r | r | r | r <;> simp at r
        · simp at r
      · split
        · rename_i outer inner st1 _ e hm
          simp only [failNew]
          intro h
          simp only [Option.some.injEq] at h
          subst h
          unfold firstMarshal at hm
          split at hm <;> (have := marshal_err _ _ hm; simp at this)
        · simp

/-- Conn.Write never panics, whatever the backend writes, in any state. -/
theorem C08_no_panic_write (st : St) (t : Tr) (b : Bytes) : (connWrite st t b).err ≠ some .panic := by
  have hloop : ∀ fuel blen st t, (writeLoop fuel blen st t).err ≠ some .panic := by
    intro fuel
    induction fuel with
    | zero => intro blen st t; simp [writeLoop]
    | succ n ih =>
      intro blen st t
      simp only [writeLoop]
      split
      · simp
      · split
        · simp
        · split
          · simp
          · split
            · rename_i e hi
              unfold inspectWrite at hi
              repeat' (split at hi <;> try (simp at hi))
              subst hi; simp
            · split
              · simp
              · exact ih _ _ _
  unfold connWrite
  split
  · cases h : (t.write b).2.1 <;> simp [h]
  · exact hloop _ _ _ _

/-- states in which no stored error is a panic -/
def Safe (st : St) : Prop := Inv st ∧ st.readErr ≠ some .panic

theorem deliver_err (n : Nat) (st : St) (t : Tr) (h : st.readErr ≠ some .panic) :
    (deliver n st t).err ≠ some .panic ∧ (deliver n st t).st.readErr = st.readErr := by
  unfold deliver
  split
  · refine ⟨?_, rfl⟩
    split
    · exact h
    · simp
  · split
    · rename_i e he
      exact ⟨by rw [← he]; exact h, rfl⟩
    · refine ⟨?_, rfl⟩
      cases hx : (t.read1 n).2.1 <;> simp [hx]

theorem readRecord_err (t : Tr) : (readRecord t).2.1 ≠ some .panic := by
  unfold readRecord
  repeat' split
  all_goals simp

theorem readRetry_safe (H : Hpke) (n : Nat) (st : St) (t1 : Tr) (r : Bytes)
    (hre : st.readErr ≠ some .panic) (hin : st.inner.isSome) (hout : (st.outer.bind (·.d.ech)).isSome) :
    (readRetry H n st t1 r).err ≠ some .panic ∧ (readRetry H n st t1 r).st.readErr ≠ some .panic := by
  have hnp : ∀ e, handle H { st with readPT := true } r true = .error e → e ≠ .panic := by
    intro e he
    rcases handle_retry_err H { st with readPT := true } r e hin hout he with r' | r' | r'
    · rcases r' with r' | r' | r' | r' <;> (subst r'; simp)
    · subst r'; simp
    · subst r'; simp
  unfold readRetry
  split
  · rename_i e he
    have := hnp e he
    refine ⟨by simpa using this, ?_⟩
    simp only [alertViaConn]
    simpa using this
  · rename_i o inner st2 hok
    obtain ⟨_, _, _, hproc, hrc⟩ := handle_inv H _ st2 r true o inner hok
    cases inner with
    | none => have := hrc rfl; simp [retryCheck] at this
    | some i =>
      simp only
      have hre2 : st2.readErr = st.readErr := by
        rcases process_frame H _ st2 o true (some i) hproc with ⟨_, e⟩ | ⟨_, _, _, _, _, _, e, _⟩ <;> rw [e]
      split
      · rename_i e hm
        have := marshal_err _ _ hm
        have hd := deliver_err n { st2 with readErr := some e, readBuf := [] } t1 (by simp [this])
        exact ⟨hd.1, by rw [hd.2]; simp [this]⟩
      · rename_i buf hm
        have hd := deliver_err n { st2 with readBuf := buf } t1 (by simp [hre2]; exact hre)
        exact ⟨hd.1, by rw [hd.2]; simp [hre2]; exact hre⟩

/-- Conn.Read never panics in any state satisfying the invariant, and keeps the state safe. -/
theorem C08_no_panic_read (H : Hpke) (st : St) (t : Tr) (n : Nat) (hs : Safe st) :
    (connRead H st t n).err ≠ some .panic ∧ Safe (connRead H st t n).st := by
  obtain ⟨hi, hre⟩ := hs
  suffices h : (connRead H st t n).err ≠ some .panic ∧ (connRead H st t n).st.readErr ≠ some .panic from
    ⟨h.1, inv_read H st t n hi, h.2⟩
  unfold connRead
  split
  · rename_i hc
    have hrr := readRecord_err t
    split
    · rename_i r e t1 heq
      rw [heq] at hrr
      have hd := deliver_err n { st with readErr := some e, readBuf := r } t1 (by simpa using hrr)
      exact ⟨hd.1, by rw [hd.2]; simpa using hrr⟩
    · rename_i r t1 heq
      split
      · have hd := deliver_err n { st with readPT := true, readBuf := r } t1 hre
        exact ⟨hd.1, by rw [hd.2]; exact hre⟩
      · split
        · rename_i hh
          have hr1 : st.retry = 1 := by
            simp only [isRetryHello, Bool.decide_and, Bool.and_eq_true, decide_eq_true_eq] at hh
            exact hh.2.2.2
          have hin := (hi.retry_pt (by omega)).2
          exact readRetry_safe H n st t1 r hre hin (hi.inner_outer hin).1
        · have hd := deliver_err n { st with readBuf := r } t1 hre
          exact ⟨hd.1, by rw [hd.2]; exact hre⟩
  · have hd := deliver_err n st t hre
    exact ⟨hd.1, by rw [hd.2]; exact hre⟩

/-- No panic in ANY run: every observable result of every operation of every interleaving of Reads,
    Writes and arriving client data after a successful NewConn is data or a non-panic error. -/
theorem C08_no_panic_run (H : Hpke) (keys : List Key) (t : Tr) (ops : List Op)
    (hok : (newConn H keys t).err = none) :
    ∀ o ∈ (runOps H ⟨(newConn H keys t).st, (newConn H keys t).tr⟩ ops).2, o.err ≠ some .panic := by
  have key : ∀ (ops : List Op) (s : Sys), Safe s.st → ∀ o ∈ (runOps H s ops).2, o.err ≠ some .panic := by
    intro ops
    induction ops with
    | nil => intro s _ o ho; simp [runOps] at ho
    | cons op ops ih =>
      intro s hs o ho
      simp only [runOps, List.mem_cons] at ho
      cases op with
      | read n =>
        have := C08_no_panic_read H s.st s.tr n hs
        rcases ho with rfl | ho
        · exact this.1
        · exact ih _ this.2 o ho
      | write b =>
        have hw := C08_no_panic_write s.st s.tr b
        have hs' : Safe (connWrite s.st s.tr b).st :=
          ⟨inv_write _ _ _ hs.1, by rw [(connWrite_frame _ _ _).2.2.2.2.2.2.1]; exact hs.2⟩
        rcases ho with rfl | ho
        · exact hw
        · exact ih _ hs' o ho
      | feed cs =>
        rcases ho with rfl | ho
        · simp [stepOp]
        · exact ih (stepOp H s (.feed cs)).1 hs o ho
  have hinit : Safe (newConn H keys t).st := by
    refine ⟨inv_newConn H keys t hok, ?_⟩
    obtain ⟨record, t1, outer, inner, st1, buf, _, _, hh, _, hr⟩ := newConn_ok H keys t _ rfl hok
    rw [hr]
    obtain ⟨_, _, _, hproc, _⟩ := handle_inv H _ st1 record false outer inner hh
    rcases process_frame H _ st1 outer false inner hproc with ⟨_, e⟩ | ⟨_, _, _, _, _, _, e, _⟩ <;>
      (rw [e]; simp [afterHello])
  exact key ops _ hinit

theorem read1_progress (n : Nat) (t : Tr) (hn : 0 < n) (hch : ∀ c ∈ t.chunks, c ≠ []) :
    (t.read1 n).1 ≠ [] ∨ (t.read1 n).2.1 ≠ none := by
  unfold Tr.read1
  split
  · right; simp
  · cases hc : t.chunks with
    | nil => right; simp
    | cons c cs =>
      have hne := hch c (by simp [hc])
      simp only
      split
      · left; simpa using hne
      · left
        cases c with
        | nil => simp at hne
        | cons a as => cases n with
          | zero => omega
          | succ k => simp

/-- Progress: a Read with a non-empty buffer on a transport whose chunks are non-empty returns at
    least one byte or an error — never (0, nil), so a caller looping on Read cannot spin. -/
theorem C08_progress (H : Hpke) (st : St) (t : Tr) (n : Nat) (hn : 0 < n)
    (hch : ∀ c ∈ t.chunks, c ≠ []) :
    (connRead H st t n).data ≠ [] ∨ (connRead H st t n).err ≠ none := by
  have hbuf : ∀ (st : St) (t : Tr), st.readBuf ≠ [] → (deliver n st t).data ≠ [] := by
    intro st t hb
    unfold deliver
    simp only [hb, ne_eq, not_false_eq_true, if_true]
    cases hrb : st.readBuf with
    | nil => simp [hrb] at hb
    | cons a as => cases n with
      | zero => omega
      | succ k => simp
  have hdel : ∀ (st : St) (t : Tr), (∀ c ∈ t.chunks, c ≠ []) →
      (deliver n st t).data ≠ [] ∨ (deliver n st t).err ≠ none := by
    intro st t hch
    by_cases hb : st.readBuf = []
    · unfold deliver
      simp only [hb, ne_eq, not_true_eq_false, if_false]
      split
      · right; simp
      · have := read1_progress n t hn hch
        rcases hr : t.read1 n with ⟨d, e, t'⟩
        rw [hr] at this
        simp only at this ⊢
        rcases this with h | h
        · exact Or.inl h
        · right; cases e <;> simp at h ⊢
    · exact Or.inl (hbuf st t hb)
  unfold connRead
  split
  · have hrr := readRecord_spec t
    split
    · rename_i r e t1 heq
      by_cases hr : r = []
      · right
        subst hr
        unfold deliver
        simp
      · left; exact hbuf _ _ (by simpa using hr)
    · rename_i r t1 heq
      rw [heq] at hrr
      simp only at hrr
      have hlen := (hrr.2.2.2.2 trivial).1
      have hr : r ≠ [] := by intro h; subst h; simp at hlen
      split
      · left; exact hbuf _ _ (by simpa using hr)
      · split
        · unfold readRetry
          split
          · right; simp
          · rename_i o inner st2 hok
            cases inner with
            | none => right; simp
            | some i =>
              simp only
              split
              · right
                unfold deliver
                simp
              · rename_i buf hm
                left
                have := marshalRec_length false i buf hm
                exact hbuf _ _ (by intro hb; simp at hb; subst hb; simp at this)
        · left; exact hbuf _ _ (by simpa using hr)
  · exact hdel st t hch

/-- Memory bound on the write side: after any successful Write at most one incomplete record is
    withheld, i.e. fewer than 5 + (2^14 + 256) bytes. -/
theorem C08_write_bound (st : St) (t : Tr) (b : Bytes) (hopen : t.closed = false)
    (hok : (connWrite st t b).err = none) :
    (connWrite st t b).st.writeBuf = [] ∨ Incomplete (connWrite st t b).st.writeBuf :=
  (connWrite_pipe st t b hopen hok).2.2.2.2

/-- Memory bound on the read side: one Read never leaves more than one record (at most
    5 + 2^14 + 256 bytes read from the client, or one re-marshalled hello of at most 5 + 65535 bytes)
    in the buffer, unless more was already buffered. -/
theorem C08_read_bound (H : Hpke) (st : St) (t : Tr) (n : Nat) :
    (connRead H st t n).st.readBuf.length ≤ max st.readBuf.length 65540 := by
  have hdel : ∀ (st : St) (t : Tr), (deliver n st t).st.readBuf.length ≤ st.readBuf.length := by
    intro st t
    unfold deliver
    split
    · simp
    · split <;> simp
  have hrec : ∀ t, (readRecord t).1.length ≤ 65540 := by
    intro t
    unfold readRecord
    have h1 := readFull_spec (t.chunks.length + 1) 5 t
    rcases hr : Tr.readFull (t.chunks.length + 1) 5 t with ⟨h, e, t'⟩
    rw [hr] at h1
    simp only at h1
    cases e with
    | some e => simp; omega
    | none =>
      simp only
      split
      · simp; omega
      · rename_i hmax
        have h2 := readFull_spec (t'.chunks.length + 1) (recLen h) t'
        rcases hr2 : Tr.readFull (t'.chunks.length + 1) (recLen h) t' with ⟨b, e2, t''⟩
        rw [hr2] at h2
        simp only at h2
        simp only [maxRecordLength] at hmax
        cases e2 <;> (simp; omega)
  have hmar : ∀ (i : Hello) (buf : Bytes), i.marshal = .ok buf → buf.length ≤ 65540 := by
    intro i buf hm
    unfold Hello.marshal marshalRec at hm
    split at hm
    · simp at hm
    · split at hm
      · simp at hm
      · split at hm
        · simp at hm
        · rename_i r hr16
          simp only [Except.ok.injEq] at hm
          subst hm
          simp only [lp16] at hr16
          split at hr16
          · simp only [Option.some.injEq] at hr16
            subst hr16
            rename_i hl
            simp [u8, u16] at hl ⊢; omega
          · simp at hr16
  have hmx : ∀ a : Nat, a ≤ 65540 → a ≤ max st.readBuf.length 65540 := fun a h => Nat.le_trans h (Nat.le_max_right _ _)
  unfold connRead
  split
  · rename_i hc
    split
    · rename_i r e t1 heq
      have hr := hrec t
      rw [heq] at hr
      exact hmx _ (Nat.le_trans (hdel { st with readErr := some e, readBuf := r } t1) hr)
    · rename_i r t1 heq
      have hr := hrec t
      rw [heq] at hr
      simp only at hr
      split
      · exact hmx _ (Nat.le_trans (hdel { st with readPT := true, readBuf := r } t1) hr)
      · split
        · unfold readRetry
          split
          · simp only [alertViaConn]
            simp [hc.2.1]
          · rename_i o inner st2 hok
            cases inner with
            | none =>
              simp only
              obtain ⟨_, _, _, hproc, _⟩ := handle_inv H _ st2 r true o none hok
              have := process_none H _ st2 o true hproc
              rw [this]
              simp [hc.2.1]
            | some i =>
              simp only
              split
              · rename_i e hm
                exact hmx _ (Nat.le_trans (hdel { st2 with readErr := some e, readBuf := [] } t1) (by simp))
              · rename_i buf hm
                exact hmx _ (Nat.le_trans (hdel { st2 with readBuf := buf } t1) (hmar i buf hm))
        · exact hmx _ (Nat.le_trans (hdel { st with readBuf := r } t1) hr)
  · exact Nat.le_trans (hdel st t) (Nat.le_max_left _ _)

end ECH
