import EchVerif.Lemmas.Config
/-
  C11 — ECH configs and config lists encode to the standard format and round-trip.
  Only property theorems and non-vacuity examples live here.
-/
open Wire
namespace ECH

/-- field ranges of the Go struct (uint16 / uint8 fields) -/
def ConfigSpec.InRange (c : ConfigSpec) : Prop :=
  c.id < 256 ∧ c.kem < 65536 ∧ SuitesInRange c.suites

/-- what `Config.Spec()` returns for an encoding of `c`: same fields, derived maximum_name_length -/
def ConfigSpec.normal (c : ConfigSpec) : ConfigSpec :=
  { c with maxNameLen := min (c.publicName.length + 16) 255 }

/-- Round trip, with arbitrary trailing bytes: the parse consumes exactly the encoding
    (never reads beyond the declared length) and yields the same id, KEM, key, suites, name. -/
theorem C11_roundtrip (c : ConfigSpec) (e rest : Bytes) (hr : c.InRange) (hv : c.version = 0xfe0d)
    (h : c.bytes = some e) : parseConfig (e ++ rest) = some (c.normal, rest) := by
  obtain ⟨hid, hkem, hsu⟩ := hr
  unfold ConfigSpec.bytes at h
  split at h
  · simp at h
  · rename_i hn
    split at h
    · rename_i pk cs nm hpk hcs hnm
      split at h
      · rename_i body hbody
        simp at h; subst h
        have hm : min (c.publicName.length + 16) 255 < 256 := by omega
        unfold parseConfig
        simp only [List.append_assoc, hv, readU16_u16 (show 0xfe0d < 65536 by omega)]
        simp only [ne_eq, not_true_eq_false, if_false, readLP16_lp16 hbody]
        simp only [List.append_assoc, readU8_u8 hid, readU16_u16 hkem, readLP16_lp16 hpk,
          readLP16_lp16 hcs, parseSuites_putSuites _ hsu, readU8_u8 hm, readLP8_lp8 hnm]
        simp [ConfigSpec.normal, hv]
      · simp at h
    · simp at h

/-- `Bytes` succeeds exactly when the name has 1..255 bytes and the contents fit the 16-bit
    length prefixes. -/
theorem C11_bytes_defined (c : ConfigSpec) :
    (c.bytes).isSome ↔
      (1 ≤ c.publicName.length ∧ c.publicName.length ≤ 255 ∧ c.publicKey.length < 65536 ∧
       11 + c.publicKey.length + 4 * c.suites.length + c.publicName.length < 65536) := by
  have hs := putSuites_length c.suites
  by_cases hn : c.publicName.length = 0 ∨ c.publicName.length > 255
  · simp only [ConfigSpec.bytes, hn, if_true]; simp; omega
  · have hn8 : c.publicName.length < 256 := by omega
    by_cases hpk : c.publicKey.length < 65536
    · by_cases hsu : (putSuites c.suites).length < 65536
      · simp only [ConfigSpec.bytes, hn, if_false, lp16, lp8, hpk, hsu, hn8, if_true]
        split
        · rename_i body hb
          split at hb
          · rename_i hl
            simp [u8, u16, hs] at hl
            simp; omega
          · simp at hb
        · rename_i hb
          split at hb
          · simp at hb
          · rename_i hl
            simp [u8, u16, hs] at hl
            simp; omega
      · simp only [ConfigSpec.bytes, hn, if_false, lp16, lp8, hpk, hsu, hn8, if_true]
        simp <;> omega
    · simp only [ConfigSpec.bytes, hn, if_false, lp16, lp8, hpk, hn8, if_true]
      simp <;> omega

/-- ConfigList / ParseConfigList round trip. -/
theorem C11_list_roundtrip (cs : List ConfigSpec) (encs : List Bytes) (l : Bytes)
    (hr : ∀ c ∈ cs, c.InRange ∧ c.version = 0xfe0d)
    (he : encodeAll cs = some encs)
    (hl : configList encs = some l) :
    parseConfigList l = some (cs.map ConfigSpec.normal) := by
  unfold configList at hl
  have key : ∀ (cs : List ConfigSpec) (encs : List Bytes),
      (∀ c ∈ cs, c.InRange ∧ c.version = 0xfe0d) →
      encodeAll cs = some encs →
      ∀ fuel, encs.flatten.length ≤ fuel →
        parseConfigsF fuel encs.flatten = some (cs.map ConfigSpec.normal) := by
    intro cs
    induction cs with
    | nil =>
      intro encs _ he fuel _
      simp [encodeAll] at he; subst he
      cases fuel <;> simp [parseConfigsF]
    | cons c cs' ih =>
      intro encs hr he fuel hf
      unfold encodeAll at he
      split at he
      · rename_i e es' hce hes
        simp at he; subst he
        have hc := hr c (by simp)
        have hrt := C11_roundtrip c e es'.flatten hc.1 hc.2 hce
        have hne : e ≠ [] := by
          intro h0; subst h0
          have := C11_roundtrip c [] [] hc.1 hc.2 hce
          simp [parseConfig, readU16] at this
        cases fuel with
        | zero =>
          simp at hf; exact absurd hf.1 hne
        | succ n =>
          have hlen : es'.flatten.length ≤ n := by
            have : 0 < e.length := List.length_pos_iff.mpr hne
            rw [List.flatten_cons, List.length_append] at hf; omega
          have hne2 : e ++ es'.flatten ≠ [] := by simp [hne]
          simp only [List.flatten_cons, parseConfigsF, hne2, if_false, hrt, List.map_cons]
          rw [ih es' (fun c hc => hr c (by simp [hc])) hes n hlen]
      · simp at he
  have := readLP16_lp16 hl []
  simp only [List.append_nil] at this
  unfold parseConfigList
  rw [this]
  exact key cs encs hr he _ (Nat.le_refl _)

/-- Every strict prefix of a valid encoding is rejected. -/
theorem C11_truncation_rejected (c : ConfigSpec) (e p : Bytes) (h : c.bytes = some e)
    (hp : p <+: e) (hne : p ≠ e) : parseConfig p = none := by
  obtain ⟨t, ht⟩ := hp
  have htne : t ≠ [] := by intro h0; subst h0; simp at ht; exact hne ht
  have shape := bytes_shape c e h
  obtain ⟨body, hshape, hb⟩ := shape
  cases hq : parseConfig p with
  | none => rfl
  | some r =>
    exfalso
    unfold parseConfig at hq
    split at hq
    · simp at hq
    · rename_i ver s1 h1
      split at hq
      · simp at hq
      · split at hq
        · simp at hq
        · rename_i ss rest h2
          obtain ⟨e1, _⟩ := readU16_inv h1
          obtain ⟨e2, hss⟩ := readLP16_inv h2
          -- p = u16 ver ++ u16 ss.length ++ ss ++ rest, and p ++ t = e
          rw [e1, e2, hshape] at ht
          simp only [u16, List.append_assoc, List.cons_append, List.nil_append, List.cons.injEq] at ht
          obtain ⟨_, _, hl1, hl2, hrest⟩ := ht
          have hlen : ss.length = body.length := by
            have a1 := congrArg UInt8.toNat hl1
            have a2 := congrArg UInt8.toNat hl2
            simp at a1 a2
            omega
          have := congrArg List.length hrest
          simp at this
          have : t.length = 0 := by omega
          exact htne (List.length_eq_zero_iff.mp this)

/-- The parser never reads beyond the declared length: the unread suffix is returned
    untouched and the parse depends only on the consumed prefix. -/
theorem C11_no_overread (b : Bytes) (c : ConfigSpec) (rest : Bytes)
    (h : parseConfig b = some (c, rest)) :
    ∃ consumed, b = consumed ++ rest ∧ ∀ junk, parseConfig (consumed ++ junk) = some (c, junk) := by
  unfold parseConfig at h
  split at h
  · simp at h
  · rename_i ver s1 h1
    split at h
    · simp at h
    · rename_i hver
      split at h
      · simp at h
      · rename_i ss rest' h2
        obtain ⟨e1, hv⟩ := readU16_inv h1
        obtain ⟨e2, hss⟩ := readLP16_inv h2
        refine ⟨u16 ver ++ (u16 ss.length ++ ss), ?_, ?_⟩
        · have : rest' = rest := by
            repeat' (split at h <;> try (simp at h))
            exact h.2
          subst this
          rw [e1, e2]; simp [List.append_assoc]
        · intro junk
          have hlp : lp16 ss = some (u16 ss.length ++ ss) := by simp [lp16, hss]
          unfold parseConfig
          simp only [List.append_assoc, readU16_u16 hv]
          simp only [hver, if_false]
          have := readLP16_lp16 hlp junk
          simp only [List.append_assoc] at this
          rw [this]
          repeat' (split at h <;> try (simp at h))
          simp_all

/-- The encoding is a well-formed draft section 4 ECHConfig (independent grammar), provided the
    key and the suite list are non-empty as the draft requires (NewConfig: 32-byte key, 3 suites). -/
theorem C11_wellformed (c : ConfigSpec) (e : Bytes) (hv : c.version = 0xfe0d)
    (hk : 1 ≤ c.publicKey.length) (hs : 1 ≤ c.suites.length) (h : c.bytes = some e) :
    Spec.isECHConfig e = true := by
  have hsl := putSuites_length c.suites
  unfold ConfigSpec.bytes at h
  split at h
  · simp at h
  · rename_i hn
    split at h
    · rename_i pk cs nm hpk hcs hnm
      split at h
      · rename_i body hbody
        simp at h; subst h
        unfold lp16 at hbody
        split at hbody
        · rename_i hbl
          simp only [Option.some.injEq] at hbody; subst hbody
          rw [hv]
          exact isECHConfig_of _ hbl
            (contentsOk_of _ _ _ _ _ _ _ _ _ hpk hcs hnm hk (by omega) (by omega) (by omega))
        · simp at hbody
      · simp at h
    · simp at h

/-! ### non-vacuity: a concrete spec meets every hypothesis above and really encodes -/
def exampleSpec : ConfigSpec :=
  ⟨0xfe0d, 7, 0x20, List.replicate 32 1, [⟨1, 3⟩, ⟨1, 2⟩, ⟨1, 1⟩], 0, [0x61, 0x2e, 0x62]⟩

example : exampleSpec.InRange ∧ exampleSpec.version = 0xfe0d ∧ 1 ≤ exampleSpec.publicKey.length ∧
    1 ≤ exampleSpec.suites.length ∧ (exampleSpec.bytes).isSome := by
  refine ⟨⟨by decide, by decide, ?_⟩, rfl, by decide, by decide, by decide⟩
  intro s hs
  simp [exampleSpec] at hs
  rcases hs with rfl | rfl | rfl <;> decide

example : ∃ e, exampleSpec.bytes = some e ∧ e.length = 62 := ⟨_, rfl, by decide⟩

end ECH
