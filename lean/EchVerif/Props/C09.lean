import EchVerif.Lemmas.KeyLoop
/-
  C09 — ECH acceptance depends only on holding the right key, not on the other keys.
-/
open Wire TLS
namespace ECH

/-- If every key other than the target yields `continue` for this hello, the loop over ANY list
    containing the target — at any position, with any repetitions — behaves exactly like the loop
    over the target alone. -/
theorem C09_superset (H : Hpke) (st : St) (h : Hello) (ech : EchExt) (keys : List Key) (t : Key)
    (hin : t ∈ keys) (hother : ∀ k ∈ keys, k ≠ t → tryKey H st h ech k = .next) :
    keyLoop H st h ech keys = keyLoop H st h ech [t] := by
  have hsingle : keyLoop H st h ech [t] = tryKey H st h ech t := by
    simp only [keyLoop]
    cases tryKey H st h ech t <;> rfl
  rw [hsingle]
  induction keys with
  | nil => simp at hin
  | cons k ks ih =>
    by_cases hkt : k = t
    · subst hkt
      simp only [keyLoop]
      cases htk : tryKey H st h ech k with
      | next =>
        simp only
        by_cases hin' : k ∈ ks
        · have := ih hin' (fun k' hk' hne => hother k' (by simp [hk']) hne)
          rw [this, htk]
        · -- no further copy of the target: all remaining keys continue
          have : ∀ ks', (∀ k' ∈ ks', tryKey H st h ech k' = .next) → keyLoop H st h ech ks' = .next := by
            intro ks'
            induction ks' with
            | nil => intro _; rfl
            | cons a as iha =>
              intro hall
              simp only [keyLoop, hall a (by simp)]
              exact iha (fun k' hk' => hall k' (by simp [hk']))
          exact this ks (fun k' hk' => hother k' (by simp [hk']) (fun e => hin' (e ▸ hk')))
      | fail x => rfl
      | opened a b c => rfl
    · have hn := hother k (by simp) hkt
      simp only [keyLoop, hn]
      have hin' : t ∈ ks := by
        simp at hin
        rcases hin with e | e
        · exact absurd e.symm hkt
        · exact e
      exact ih hin' (fun k' hk' hne => hother k' (by simp [hk']) hne)

/-- First hello: a valid key to which the hello was NOT sealed never disturbs the loop — it yields
    `continue`, whatever its config id, suites and public name. Valid: its private key parses for
    its KEM. Not sealed to it: the world holds no seal under its private key. -/
theorem C09_other_key_continues_first (H : Hpke) (st : St) (h : Hello) (ech : EchExt) (k : Key) (aad : Bytes)
    (hfirst : st.ctx = none) (henc : ech.enc.length > 0) (haad : h.marshalAAD = .ok aad)
    (hvalid : ∀ cfg, configSpec k.config = some cfg → H.privOk.contains (cfg.kem, k.priv) = true)
    (hnoseal : ∀ s ∈ H.seals, s.priv ≠ k.priv) :
    tryKey H st h ech k = .next := by
  unfold tryKey
  cases hcfg : configSpec k.config with
  | none => rfl
  | some cfg =>
    simp only
    split
    · rfl
    · split
      · rfl
      · have hv := hvalid cfg hcfg
        by_cases hs : H.setupOk.contains (k.priv, cfg.kem, ech.kdf, ech.aead, ech.enc) = true
        · have hc : candCtx H st ech k cfg =
              .ok ⟨k.priv, cfg.kem, ech.kdf, ech.aead, "tls ech\x00".toUTF8.toList ++ k.config, ech.enc, 0⟩ := by
            have hv' : (cfg.kem, k.priv) ∈ H.privOk := by simpa using hv
            have hs' : (k.priv, cfg.kem, ech.kdf, ech.aead, ech.enc) ∈ H.setupOk := by simpa using hs
            unfold candCtx
            simp [hfirst, henc, hv', hs']
          simp only [hc, haad]
          rw [open_none_of_no_seal]
          intro s hs' hc'
          exact hnoseal s hs' hc'.1
        · have hc : candCtx H st ech k cfg = .error .next := by
            have hv' : (cfg.kem, k.priv) ∈ H.privOk := by simpa using hv
            have hs' : (k.priv, cfg.kem, ech.kdf, ech.aead, ech.enc) ∉ H.setupOk := by simpa using hs
            unfold candCtx
            simp [hfirst, henc, hv', hs']
          simp only [hc]

/-- Retried hello: only the key that opened the first hello is ever tried; all others continue. -/
theorem C09_other_key_continues_retry (H : Hpke) (st : St) (h : Hello) (ech : EchExt) (k : Key) (c0 : Ctx)
    (hctx : st.ctx = some c0) (hne : k.config ≠ st.ctxConfig) :
    tryKey H st h ech k = .next := by
  unfold tryKey
  cases hcfg : configSpec k.config with
  | none => rfl
  | some cfg =>
    simp only
    split
    · rfl
    · rw [if_pos]
      exact ⟨by simp [hctx], fun e => hne e.symm⟩

/-- Converse: with no seal under any held private key, the hello is never accepted. -/
theorem C09_converse (H : Hpke) (st : St) (h : Hello) (ech : EchExt)
    (hnone : ∀ k ∈ st.keys, ∀ s ∈ H.seals, s.priv ≠ k.priv) (hfirst : st.ctx = none) :
    ∀ pt c cfgb, keyLoop H st h ech st.keys ≠ .opened pt c cfgb := by
  intro pt c cfgb hk
  obtain ⟨pre, k, post, hks, _, hto⟩ := keyLoop_opened H st h ech st.keys pt c cfgb hk
  obtain ⟨cfg, c1, aad, _, _, _, _, hcand, _, hopen, _⟩ := tryKey_opened H st h ech k pt c cfgb hto
  obtain ⟨hc1, _⟩ := candCtx_fresh H st ech k cfg c1 hfirst hcand
  obtain ⟨s, hs, s1, _⟩ := open_some H c1 aad ech.payload pt hopen
  subst hc1
  exact hnone k (by simp [hks]) s hs s1

/-- non-vacuity: a two-key world in which the second key opens and the first continues -/
example : ∃ (H : Hpke), H.seals.length = 1 ∧ H.privOk.length = 2 := ⟨{ privOk := [(32, [1]), (32, [2])], seals := [⟨[2], 32, 1, 1, [], [9], 0, [], [7], [8]⟩] }, rfl, rfl⟩

end ECH
