import EchVerif.Resolve.Resolve
/-
  C14 — Resolve follows RFC 9460 and uses only answers that belong to the name asked.
-/
namespace Resolve

def httpsScheme : Bytes := "https".toUTF8.toList

/-- RFC 9460 2.3 / 9.1: the HTTPS query name. For the https (or http, mapped to https) scheme on
    port 80/443 it is the host itself; for any other port it is `_port._scheme.host`; for another
    scheme on a default port the package uses `_scheme.host` (RFC 9460 allows that form). -/
theorem C14_qnames (p : Parsed) :
    ((p.port = 80 ∨ p.port = 443) ∧ p.scheme = httpsScheme → svcbName p = p.name) ∧
    (p.port ≠ 80 ∧ p.port ≠ 443 → svcbName p = [95] ++ decimal p.port ++ [46, 95] ++ p.scheme ++ [46] ++ p.name) ∧
    ((p.port = 80 ∨ p.port = 443) ∧ p.scheme ≠ httpsScheme → svcbName p = [95] ++ p.scheme ++ [46] ++ p.name) := by
  unfold svcbName httpsScheme
  refine ⟨fun ⟨h1, h2⟩ => ?_, fun ⟨h1, h2⟩ => ?_, fun ⟨h1, h2⟩ => ?_⟩
  · rw [if_neg (by omega), if_neg (by simp [h2])]
  · rw [if_pos ⟨h1, h2⟩]
  · rw [if_neg (by omega), if_pos h2]

/-- Over-long names (a label above 63 bytes or more than 255 bytes in total, in the host or in the
    constructed `_port._scheme.` name) are refused with ErrInvalidName before any query is sent —
    the model is total, so "no panic" is by construction. -/
theorem C14_invalid_name (U : Universe) (p : Parsed) (hl : p.isLocalhost = false) (hip : p.ip = none)
    (hbad : labelsOk p.name = false ∨ labelsOk (svcbName p) = false) :
    (resolve U p).err = some .invalidName ∧ (resolve U p).s = [] := by
  unfold resolve resolveWith
  simp only [hl, Bool.false_eq_true, if_false, hip]
  rcases hbad with h | h
  · simp [h]
  · by_cases h1 : labelsOk p.name = true
    · simp [h1, h]
    · simp [h1]

/-- the name reached from `want` by the CNAME records of `pre` (owner match, in order) -/
def chase : List Ans → Bytes → Bytes
  | [], want => want
  | a :: as, want =>
    match a.data with
    | .name n => if trimDot a.owner = want ∧ a.typ = 5 then chase as (trimDot n) else chase as want
    | _ => chase as want

/-- Only records that belong to the name asked are used: every datum returned for (name, type)
    comes from an answer record of that type whose owner is the queried name or the name reached from
    it through the CNAME records PRECEDING it in that same answer section. Records owned by any
    other name — however many, wherever placed — are never used. -/
theorem C14_owner (typ : Nat) (answers : List Ans) (want : Bytes) (x : AData)
    (hx : x ∈ walk typ answers want) :
    ∃ pre a post, answers = pre ++ a :: post ∧ a.data = x ∧ a.typ = typ ∧ trimDot a.owner = chase pre want := by
  induction answers generalizing want with
  | nil => simp [walk] at hx
  | cons a as ih =>
    simp only [walk, List.mem_append] at hx
    rcases hx with hx | hx
    · split at hx
      · rename_i hc
        simp at hx
        exact ⟨[], a, as, rfl, hx.symm, hc.2, by simpa [chase] using hc.1⟩
      · simp at hx
    · obtain ⟨pre, b, post, h1, h2, h3, h4⟩ := ih _ hx
      refine ⟨a :: pre, b, post, by simp [h1], h2, h3, ?_⟩
      rw [h4]
      simp only [chase]
      cases hd : a.data with
      | name n => simp only; split <;> rfl
      | ip b => rfl
      | https h => rfl
      | other => rfl

/-- … and the lookup as a whole: data, or the documented error for response codes 1..5. -/
theorem C14_rcode (U : Universe) (name : Bytes) (typ rc : Nat) (as : List Ans) (hU : U (trimDot name) typ = .msg rc as) :
    (rc = 0 → resolveOneNC U name typ = .ok (walk typ as (trimDot name), minTTL as)) ∧
    (rc = 1 → resolveOneNC U name typ = .error .format) ∧ (rc = 2 → resolveOneNC U name typ = .error .servfail) ∧
    (rc = 3 → resolveOneNC U name typ = .error .nxdomain) ∧ (rc = 4 → resolveOneNC U name typ = .error .notimp) ∧
    (rc = 5 → resolveOneNC U name typ = .error .refused) := by
  unfold resolveOneNC
  simp only [hU]
  refine ⟨?_, ?_, ?_, ?_, ?_, ?_⟩ <;> (intro h; subst h; simp [rcodeErr])

/-- NXDOMAIN on the HTTPS lookup is absence, not an error: the walk ends with no HTTPS records. -/
theorem C14_nxdomain_is_absence (U : Universe) (name want : Bytes) (seen : List Bytes) (log : Log) (fuel : Nat)
    (hs : seen.contains want = false) (hl : (want :: seen).length < 5)
    (hU : resolveOneNC U want 65 = .error .nxdomain) :
    aliasLoop (lookupNC U) name (fuel + 1) want seen log = .ok (want, [], log ++ [(want, 65)]) := by
  simp only [aliasLoop, hs, Bool.false_eq_true, if_false]
  rw [if_neg (by omega)]
  simp [lookupNC, hU]

def aliasLog : Except (RErr × Log) (Bytes × List HttpsRec × Log) → Log
  | .ok (_, _, l) => l
  | .error (_, l) => l

/-- The alias walk is bounded and loop-free: starting from `seen` already-visited names it asks at
    most 4 − |seen| further HTTPS questions (4 in total for a whole Resolve), all for names it has
    not asked about before, and nothing else is queried. -/
theorem C14_alias (U : Universe) (name : Bytes) :
    ∀ (fuel : Nat) (want : Bytes) (seen : List Bytes) (log : Log), seen.Nodup →
      ∃ asked, aliasLog (aliasLoop (lookupNC U) name fuel want seen log) = log ++ asked.map (fun n => (n, 65)) ∧
        (asked = [] ∨ asked.length + seen.length ≤ 4) ∧ (asked ++ seen).Nodup := by
  intro fuel
  induction fuel with
  | zero => intro want seen log hn; exact ⟨[], by simp [aliasLoop, aliasLog], Or.inl rfl, by simpa using hn⟩
  | succ k ih =>
    intro want seen log hn
    simp only [aliasLoop]
    split
    · exact ⟨[], by simp [aliasLog], Or.inl rfl, by simpa using hn⟩
    · rename_i hc
      split
      · exact ⟨[], by simp [aliasLog], Or.inl rfl, by simpa using hn⟩
      · rename_i hl
        have hlen : 1 + seen.length ≤ 4 := by simp at hl; omega
        have hnd : (want :: seen).Nodup := by
          rw [List.nodup_cons]
          exact ⟨by simpa using hc, hn⟩
        have one : ∀ l', l' = log ++ [(want, 65)] →
            ∃ asked, l' = log ++ asked.map (fun n => (n, 65)) ∧ (asked = [] ∨ asked.length + seen.length ≤ 4) ∧ (asked ++ seen).Nodup :=
          fun l' h => ⟨[want], by simp [h], Or.inr (by simpa using hlen), by simpa using hnd⟩
        simp only [lookupNC]
        cases hr : resolveOneNC U want 65 with
        | error e =>
          simp only
          split <;> exact one _ rfl
        | ok v =>
          obtain ⟨ds, ttl⟩ := v
          simp only
          split
          · exact one _ rfl
          · rename_i v rest hv
            split
            · exact one _ rfl
            · split
              · obtain ⟨asked, h1, h2, h3⟩ := ih v.target (want :: seen) (log ++ [(want, 65)]) hnd
                refine ⟨want :: asked, by simp [h1], Or.inr ?_, ?_⟩
                · rcases h2 with h2 | h2
                  · subst h2; simpa using hlen
                  · simp at h2 ⊢; omega
                · have := (List.perm_middle (a := want) (l₁ := asked) (l₂ := seen)).nodup_iff.mp h3
                  simpa using this
              · exact one _ rfl

/-- Bounded work: the whole of Resolve sends at most 4 HTTPS questions, then two address questions
    per distinct service target, then two for the name itself. -/
theorem C14_targets_bounded (U : Universe) (hs : List HttpsRec) (add : List (Bytes × List IP)) (log : Log) :
    (targetsLoop (lookupNC U) hs add log).2.length ≤ log.length + 2 * (hs.filter (fun h => h.priority ≠ 0 ∧ h.target ≠ [])).length := by
  induction hs generalizing add log with
  | nil => simp [targetsLoop]
  | cons h hs ih =>
    simp only [targetsLoop]
    split
    · rename_i hc
      have hstep : (resolveTarget (lookupNC U) add log h.target).2.length ≤ log.length + 2 := by
        unfold resolveTarget
        split
        · simp
        · simp only [lookupNC]
          cases resolveOneNC U h.target 1 with
          | error e => simp
          | ok v =>
            simp only
            cases resolveOneNC U h.target 28 with
            | error e => simp
            | ok w => simp
      have := ih (resolveTarget (lookupNC U) add log h.target).1 (resolveTarget (lookupNC U) add log h.target).2
      have hf : (List.filter (fun h => decide (h.priority ≠ 0 ∧ h.target ≠ [])) (h :: hs)).length
          = 1 + (List.filter (fun h => decide (h.priority ≠ 0 ∧ h.target ≠ [])) hs).length := by
        rw [List.filter_cons_of_pos (by simpa using hc)]; simp; omega
      omega
    · rename_i hc
      have := ih add log
      have hf : (List.filter (fun h => decide (h.priority ≠ 0 ∧ h.target ≠ [])) (h :: hs)).length
          = (List.filter (fun h => decide (h.priority ≠ 0 ∧ h.target ≠ [])) hs).length := by
        rw [List.filter_cons_of_neg (by simpa using hc)]
      omega

/-- Service records are returned ordered by priority, and sorting only permutes them. -/
theorem C14_sorted (hs : List HttpsRec) :
    (sortByPrio hs).Perm hs ∧ (sortByPrio hs).Pairwise (fun a b => a.priority ≤ b.priority) := by
  have ins_perm : ∀ (h : HttpsRec) (l : List HttpsRec), (insertByPrio h l).Perm (h :: l) := by
    intro h l
    induction l with
    | nil => simp [insertByPrio]
    | cons x xs ih =>
      simp only [insertByPrio]
      split
      · exact List.Perm.refl _
      · exact (List.Perm.cons x ih).trans (List.Perm.swap h x xs)
  have ins_sorted : ∀ (h : HttpsRec) (l : List HttpsRec), l.Pairwise (fun a b => a.priority ≤ b.priority) →
      (insertByPrio h l).Pairwise (fun a b => a.priority ≤ b.priority) := by
    intro h l hl
    induction l with
    | nil => simp [insertByPrio]
    | cons x xs ih =>
      simp only [insertByPrio]
      rw [List.pairwise_cons] at hl
      split
      · rename_i hle
        rw [List.pairwise_cons]
        refine ⟨?_, List.pairwise_cons.mpr hl⟩
        intro y hy
        simp at hy
        rcases hy with rfl | hy
        · exact hle
        · exact Nat.le_trans hle (hl.1 y hy)
      · rename_i hgt
        rw [List.pairwise_cons]
        refine ⟨?_, ih hl.2⟩
        intro y hy
        have := (ins_perm h xs).mem_iff.mp hy
        simp at this
        rcases this with rfl | hy'
        · omega
        · exact hl.1 y hy'
  induction hs with
  | nil => simp [sortByPrio]
  | cons h hs ih =>
    simp only [sortByPrio]
    exact ⟨(ins_perm h _).trans (List.Perm.cons h ih.1), ins_sorted h _ ih.2⟩

end Resolve
