import EchVerif.Lemmas.Conn
/-
  C05 — without ECH acceptance the connection is passed through unmodified.
-/
open Wire TLS
namespace ECH

/-- Byte-for-byte: for ANY buffer the parser accepts, the re-marshalled record carries exactly the
    ClientHello structure `body` that was read — the input minus `after` (bytes following the
    extensions inside the handshake message) and `trail` (bytes following the message), which are
    the only bytes the parser ignores — under a record header whose version is legacy_version. -/
theorem C05_passthrough_bytes (buf : Bytes) (h : Hello) (hp : parseClientHello buf = .ok h)
    (hl : buf.length < 65536) :
    ∃ body after trail,
      buf = u8 1 ++ (u24 (body ++ after).length ++ (body ++ after)) ++ trail ∧
      h.marshal = .ok (u8 0x16 ++ u16 h.legacyVersion ++
                       (u16 (4 + body.length) ++ (u8 1 ++ (u24 body.length ++ body)))) := by
  obtain ⟨body, after, trail, hbuf, hlen, hmb, _, _, _, _, _⟩ := parseClientHello_inv buf h hp
  refine ⟨body, after, trail, hbuf, ?_⟩
  have hb : body.length + 4 < 65536 := by
    have := congrArg List.length hbuf
    simp [u8, u24] at this
    omega
  have h24 : lp24 body = some (u24 body.length ++ body) := by
    simp [lp24]; omega
  have h16 : lp16 (u8 1 ++ (u24 body.length ++ body)) = some (u16 (4 + body.length) ++ (u8 1 ++ (u24 body.length ++ body))) := by
    have : (u8 1 ++ (u24 body.length ++ body)).length = 4 + body.length := by simp [u8, u24]; omega
    simp only [lp16, this]
    simp; omega
  simp only [Hello.marshal, marshalRec, hmb, h24, h16]

/-- Canonical hellos (nothing after the extensions, nothing after the message — every hello a TLS
    stack emits): the forwarded record is the client's handshake message verbatim; only record-header
    bytes 1–2 (the legacy record version) are normalised. -/
theorem C05_passthrough_canonical (body : Bytes) (h : Hello)
    (hp : parseClientHello (u8 1 ++ (u24 body.length ++ body)) = .ok h)
    (hl : body.length + 4 < 65536)
    (hcanon : ∀ b a t, u8 1 ++ (u24 body.length ++ body) = u8 1 ++ (u24 (b ++ a).length ++ (b ++ a)) ++ t →
              marshalBody false h = .ok b → a = [] ∧ t = []) :
    h.marshal = .ok (u8 0x16 ++ u16 h.legacyVersion ++
      (u16 (u8 1 ++ (u24 body.length ++ body)).length ++ (u8 1 ++ (u24 body.length ++ body)))) := by
  have hlen : (u8 1 ++ (u24 body.length ++ body)).length < 65536 := by simp [u8, u24]; omega
  obtain ⟨b, a, t, hbuf, hm⟩ := C05_passthrough_bytes _ h hp hlen
  obtain ⟨_, _, _, _, _, hmb, _⟩ := parseClientHello_inv _ h hp
  have hmb' : marshalBody false h = .ok b := by
    simp only [Hello.marshal, marshalRec] at hm
    split at hm
    · simp at hm
    · rename_i body' hb'
      split at hm
      · simp at hm
      · rename_i m hm24
        split at hm
        · simp at hm
        · rename_i r hr16
          simp only [lp24] at hm24
          split at hm24
          · simp only [Option.some.injEq] at hm24
            subst hm24
            simp only [lp16] at hr16
            split at hr16
            · simp only [Option.some.injEq] at hr16
              subst hr16
              simp only [Except.ok.injEq] at hm
              have := List.append_cancel_left hm
              simp only [u16, u8, u24, List.cons_append, List.nil_append, List.cons.injEq] at this
              rw [hb', this.2.2.2.2.2.2]
            · simp at hr16
          · simp at hm24
  obtain ⟨ha, ht⟩ := hcanon b a t hbuf hmb'
  subst ha; subst ht
  simp only [List.append_nil] at hbuf
  rw [hm]
  have hbb : body = b := by
    have h1 := List.append_cancel_left hbuf
    have h2 := congrArg List.length h1
    simp [u24] at h2
    have h3 : u24 body.length = u24 b.length := by rw [h2]
    rw [h3] at h1
    exact List.append_cancel_left h1
  subst hbb
  simp [u8, u24]
  congr 1
  omega

/-- When is a hello passed through rather than decrypted or aborted: no ECH extension, or no keys,
    or no TLS 1.3 in supported_versions (first hello). -/
theorem C05_when_passthrough (H : Hpke) (st : St) (h : Hello)
    (hc : h.d.ech = none ∨ st.keys = [] ∨ h.d.tls13 = false) :
    process H st h false = .ok (none, st) := by
  unfold process processCore
  simp only [Bool.false_eq_true, if_false]
  cases he : h.d.ech with
  | none => rfl
  | some e =>
    rcases hc with hc | hc | hc
    · simp [he] at hc
    · simp [hc]
    · simp [hc]

/-- … and no matching key (GREASE / unknown config id / other suite): every key is skipped, the
    hello is passed through and no HPKE state is created. -/
theorem C05_no_matching_key (H : Hpke) (st : St) (h : Hello) (e : EchExt) (he : h.d.ech = some e)
    (hk : ∀ k ∈ st.keys, ∀ cfg, configSpec k.config = some cfg →
            cfg.id ≠ e.configId ∨ ¬ cfg.suites.any (fun s => s.kdf = e.kdf ∧ s.aead = e.aead)) :
    process H st h false = .ok (none, st) := by
  have hloop : ∀ ks, (∀ k ∈ ks, k ∈ st.keys) → keyLoop H st h e ks = .next := by
    intro ks
    induction ks with
    | nil => intro _; rfl
    | cons k ks ih =>
      intro hin
      have hk' := hk k (hin k (by simp))
      have : tryKey H st h e k = .next := by
        unfold tryKey
        cases hc : configSpec k.config with
        | none => rfl
        | some cfg =>
          have := hk' cfg hc
          simp only
          rw [if_pos this]
      simp only [keyLoop, this]
      exact ih (fun k' hk'' => hin k' (by simp [hk'']))
  unfold process processCore
  simp only [Bool.false_eq_true, if_false, he]
  split
  · rfl
  · rw [hloop st.keys (fun _ hk => hk)]

/-- A passthrough NewConn leaves both directions in passthrough mode and holds exactly the
    re-marshalled outer hello for the backend; no HPKE context exists. -/
theorem C05_passthrough_conn (H : Hpke) (keys : List Key) (t : Tr) (r : NewResult)
    (hr : newConn H keys t = r) (hok : r.err = none) (hna : r.st.accepted = false) :
    ∃ record t1 outer, readRecord t = (record, none, t1) ∧
      parseClientHello (record.drop 5) = .ok outer ∧
      outer.marshal = .ok r.st.readBuf ∧ r.st.readPT = true ∧ r.st.writePT = true ∧
      r.st.writeBuf = [] ∧ r.st.ctx = none ∧ r.tr = t1 := by
  unfold newConn at hr
  split at hr
  · subst hr; simp [failNew] at hok
  · rename_i record t1 hrr
    split at hr
    · subst hr; simp [failNew] at hok
    · split at hr
      · subst hr; simp [failNew] at hok
      · rename_i outer inner st1 hh
        obtain ⟨hpo, _, _, hproc, _⟩ := handle_inv H _ st1 record false outer inner hh
        refine ⟨record, t1, outer, hrr, hpo, ?_⟩
        split at hr
        · subst hr; simp [failNew] at hok
        · rename_i buf hm
          subst hr
          cases hi : inner with
          | some i => simp [St.accepted, afterHello, hi] at hna
          | none =>
            subst hi
            have := process_none H _ st1 outer false hproc
            subst this
            simp [afterHello, firstMarshal] at hm ⊢
            exact hm

end ECH
