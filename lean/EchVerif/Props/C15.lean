import EchVerif.Resolve.Targets
/-
  C15 — connection targets are a pure, rule-conforming function of the resolution result.
-/
namespace Resolve

theorem addAll_eq_dedup (net : Network) (r : Result) (ips : List IP) (port : Nat) (ech : Option Bytes)
    (alpn : List Bytes) (acc : List Target) :
    addAll net r acc ips port ech alpn =
      dedup ((ips.map fun ip => (⟨ip, effPort r port, ech, alpn⟩ : Target)).filter (fun t => familyOk net t.ip)) acc := by
  induction ips generalizing acc with
  | nil => rfl
  | cons ip ips ih =>
    simp only [addAll, List.foldl_cons, List.map_cons]
    have ih' := ih (add net r acc ip port ech alpn)
    simp only [addAll] at ih'
    rw [ih']
    unfold add
    by_cases hf : familyOk net ip = true
    · simp only [hf, not_true_eq_false, if_false, List.filter_cons_of_pos, dedup]
      split <;> rfl
    · have hf' : familyOk net ip = false := by simpa using hf
      rw [List.filter_cons_of_neg (by simp [hf'])]
      simp [hf']

theorem dedup_append (a b acc : List Target) : dedup (a ++ b) acc = dedup b (dedup a acc) := by
  induction a generalizing acc with
  | nil => rfl
  | cons t ts ih =>
    simp only [List.cons_append, dedup]
    split <;> exact ih _

theorem httpsLoop_eq_dedup (net : Network) (r : Result) (hs : List HttpsRec) (acc : List Target) :
    httpsLoop net r hs acc =
      dedup (((hs.filter (·.priority ≠ 0)).flatMap fun h =>
        (recAddrs r h).map fun ip => (⟨ip, effPort r (recPort r h), h.ech, recAlpn h⟩ : Target)).filter
          (fun t => familyOk net t.ip)) acc := by
  induction hs generalizing acc with
  | nil => rfl
  | cons h hs ih =>
    simp only [httpsLoop]
    by_cases hp : h.priority = 0
    · simp only [hp, if_true]
      rw [ih]
      simp [hp]
    · simp only [hp, if_false]
      rw [ih, addAll_eq_dedup]
      rw [List.filter_cons_of_pos (by simpa using hp)]
      simp only [List.flatMap_cons, List.filter_append, dedup_append]

/-- The iterator computes exactly the declarative specification: service-mode records in order,
    each contributing its own addresses (target's, else origin's, else hints) with its own port
    (80 upgraded to 443), ECH list and ALPN set (+ http/1.1 unless no-default-alpn), restricted to
    the requested family, first occurrence of each address/port pair; plain addresses only when no
    service record produced a target. -/
theorem C15_refines (r : Result) (net : Network) : targets r net = TargetsSpec r net := by
  unfold targets TargetsSpec svcTargets plainTargets candidates
  rw [httpsLoop_eq_dedup, addAll_eq_dedup]

theorem dedup_nodup (ts acc : List Target) (h : (acc.map fun t => (t.ip, t.port)).Nodup) :
    ((dedup ts acc).map fun t => (t.ip, t.port)).Nodup := by
  induction ts generalizing acc with
  | nil => exact h
  | cons t ts ih =>
    simp only [dedup]
    split
    · exact ih acc h
    · rename_i hn
      apply ih
      rw [List.map_append, List.nodup_append]
      refine ⟨h, by simp, ?_⟩
      intro a ha b hb
      simp at hb
      subst hb
      intro hab
      subst hab
      apply hn
      rw [List.any_eq_true]
      simp only [List.mem_map] at ha
      obtain ⟨x, hx, hxe⟩ := ha
      simp only [Prod.mk.injEq] at hxe
      exact ⟨x, hx, by simp [hxe.1, hxe.2]⟩

/-- No duplicate address/port pairs. -/
theorem C15_nodup (r : Result) (net : Network) : ((targets r net).map fun t => (t.ip, t.port)).Nodup := by
  rw [C15_refines]
  unfold TargetsSpec svcTargets plainTargets
  split <;> exact dedup_nodup _ _ (by simp)

theorem dedup_mem (ts acc : List Target) (P : Target → Prop) (h1 : ∀ t ∈ ts, P t) (h2 : ∀ t ∈ acc, P t) :
    ∀ t ∈ dedup ts acc, P t := by
  induction ts generalizing acc with
  | nil => exact h2
  | cons t ts ih =>
    simp only [dedup]
    split
    · exact ih acc (fun x hx => h1 x (by simp [hx])) h2
    · apply ih _ (fun x hx => h1 x (by simp [hx]))
      intro x hx
      simp at hx
      rcases hx with hx | hx
      · exact h2 x hx
      · subst hx; exact h1 _ (by simp)

/-- Restricted to the requested address family: tcp4/udp4 ⇒ 4-byte, tcp6/udp6 ⇒ 16-byte addresses. -/
theorem C15_family (r : Result) (net : Network) : ∀ t ∈ targets r net, familyOk net t.ip = true := by
  rw [C15_refines]
  unfold TargetsSpec svcTargets plainTargets
  split
  · refine dedup_mem _ _ (fun t => familyOk net t.ip = true) ?_ (by simp)
    intro t ht; simp at ht; exact ht.2
  · refine dedup_mem _ _ (fun t => familyOk net t.ip = true) ?_ (by simp)
    intro t ht; simp at ht; exact ht.2

/-- Alias-mode records (priority 0) are ignored. -/
theorem C15_alias_ignored (r : Result) (net : Network) :
    targets r net = targets { r with https := r.https.filter (·.priority ≠ 0) } net := by
  rw [C15_refines, C15_refines]
  unfold TargetsSpec svcTargets plainTargets candidates recAddrs recPort effPort
  simp [List.filter_filter]

/-- Plain addresses (no ECH, no ALPN) are offered only when no HTTPS record produced a target. -/
theorem C15_plain_only_if_none (r : Result) (net : Network) :
    (svcTargets r net ≠ [] → targets r net = svcTargets r net) ∧
    (svcTargets r net = [] → targets r net = plainTargets r net ∧
        ∀ t ∈ targets r net, t.ech = none ∧ t.alpn = [] ∧ t.ip ∈ r.address) := by
  rw [C15_refines]
  unfold TargetsSpec
  refine ⟨fun h => by simp [h], fun h => ?_⟩
  simp only [h, ne_eq, not_true_eq_false, if_false, true_and]
  unfold plainTargets
  refine dedup_mem _ _ (fun t => t.ech = none ∧ t.alpn = [] ∧ t.ip ∈ r.address) ?_ (by simp)
  intro t ht
  simp only [List.mem_filter, List.mem_map] at ht
  obtain ⟨⟨ip, hip, rfl⟩, _⟩ := ht
  exact ⟨rfl, rfl, hip⟩

/-- Every target comes from a service record's own data: its ECH list and ALPN set are those of one
    non-alias HTTPS record, its address one of that record's addresses. -/
theorem C15_own_record (r : Result) (net : Network) :
    ∀ t ∈ svcTargets r net, ∃ h ∈ r.https, h.priority ≠ 0 ∧ t.ech = h.ech ∧ t.alpn = recAlpn h ∧
      t.ip ∈ recAddrs r h ∧ t.port = effPort r (recPort r h) := by
  unfold svcTargets
  refine dedup_mem _ _ (fun t => ∃ h ∈ r.https, h.priority ≠ 0 ∧ t.ech = h.ech ∧ t.alpn = recAlpn h ∧
      t.ip ∈ recAddrs r h ∧ t.port = effPort r (recPort r h)) ?_ (by simp)
  intro t ht
  simp only [candidates, List.mem_filter, List.mem_flatMap, List.mem_map] at ht
  obtain ⟨⟨h, ⟨hh, hp⟩, ip, hip, rfl⟩, _⟩ := ht
  exact ⟨h, hh, by simpa using hp, rfl, rfl, hip, rfl⟩

/-- Stopping the iteration after k targets yields the k-prefix of the full enumeration. -/
theorem C15_prefix (r : Result) (net : Network) (k : Nat) :
    targetsUpTo r net k <+: targets r net := List.take_prefix k _

/-- Enumerating performs no store into the record's ALPN backing array: after `slices.Clip` the
    append of "http/1.1" always allocates, whatever spare capacity the slice had. -/
theorem C15_no_writes (s : Slice) (x : Bytes) : (goAppend (goClip s) x).2 = none := by
  unfold goAppend goClip
  simp only [List.length_take]
  rw [if_neg (by omega)]

/-- … whereas without the clip a slice with spare capacity is written in place (the defect fixed in
    /repo): non-vacuity of the slice model. -/
example : (goAppend ⟨[[1], [2], [3], [0]], 3⟩ [9]).2 = some 3 := by decide

end Resolve
