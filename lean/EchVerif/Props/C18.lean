import EchVerif.Lemmas.DialLts
/-
  C18 — Dial attempts are ordered, bounded and leak-free; the first success wins.

  The theorems quantify over every target script (resolve error / refused / DialFunc succeeds /
  DialFunc fails, hangs until cancelled or times out), every number of workers and EVERY schedule
  of the feeder, the workers, the closer, the collector and the caller's cancellation
  (`run script (init n nW) ls = some s` for an arbitrary label list `ls`). Time is abstracted: a
  timer expiry is an always-enabled step, so "after ConcurrencyDelay", "within Timeout" and
  "promptly" are stated as enabledness/causality facts here and measured in virtual time by the
  harness (partial, see DESIGN.md).
-/
namespace DialLts

/-- `s` is reachable by some schedule -/
def Reach (script : List Script) (nW : Nat) (s : St) : Prop :=
  ∃ ls, run script (init script.length nW) ls = some s

theorem reach_inv (script : List Script) (nW : Nat) (hn : 0 < nW) (s : St) (h : Reach script nW s) :
    InvA script nW s ∧ InvB script nW s := by
  obtain ⟨ls, hr⟩ := h
  refine run_inv (P := fun s => InvA script nW s ∧ InvB script nW s) script ?_ _ s ls
    ⟨invA_init script nW, invB_init script nW⟩ hr
  intro s l s' ⟨ha, hb⟩ hs
  exact ⟨invA_step script nW s s' l ha hs, invB_step script nW hn s s' l ha hb hs⟩

/-- Target order and pacing: at every reachable state the targets handed to workers so far are
    exactly 0, 1, …, k-1 in this order (k = the feeder's position), and no hand-off other than the
    first ever happened without a ConcurrencyDelay expiry, a wake-up caused by a failure, or the
    context ending since the previous one. -/
theorem C18_order_and_pacing (script : List Script) (nW : Nat) (hn : 0 < nW) (s : St) (h : Reach script nW s) :
    s.handoffs = List.range (fidx script.length s.feeder) ∧ s.badPace = false :=
  ⟨(reach_inv script nW hn s h).1.order, (reach_inv script nW hn s h).1.pace⟩

/-- Concurrency bound: the number of DialFunc calls in flight, and its maximum over the whole
    history, never exceeds the number of workers (MaxConcurrency). -/
theorem C18_concurrency (script : List Script) (nW : Nat) (hn : 0 < nW) (s : St) (h : Reach script nW s) :
    s.inflight ≤ nW ∧ s.maxInflight ≤ nW := by
  obtain ⟨ha, hb⟩ := reach_inv script nW hn s h
  refine ⟨?_, hb.maxi⟩
  rw [hb.infl, ← ha.len]
  exact List.countP_le_length

/-- Connections: every connection DialFunc ever produced is, at every moment, in exactly one
    place — still held by a worker that is about to hand it over, closed by Dial, or the one
    chosen as Dial's result. -/
theorem C18_connections (script : List Script) (nW : Nat) (hn : 0 < nW) (s : St) (h : Reach script nW s) (j : Nat) :
    s.workers.countP (holdsConn j) + s.closed.count j + (if s.ret = some (.conn j) then 1 else 0)
      = s.established.count j :=
  (reach_inv script nW hn s h).2.conns j

/-- … so once everything has finished, every established connection other than the returned one
    has been closed exactly once, and the returned one has not been closed. -/
theorem C18_connections_at_rest (script : List Script) (nW : Nat) (hn : 0 < nW) (s : St) (h : Reach script nW s)
    (ht : terminal s = true) (j : Nat) :
    s.closed.count j + (if s.ret = some (.conn j) then 1 else 0) = s.established.count j := by
  have := C18_connections script nW hn s h j
  have hall : ∀ (v : Nat) (y : Worker), s.workers[v]? = some y → y = Worker.exited := by
    simp only [terminal, Bool.and_eq_true] at ht
    exact all_exited ht.2
  rw [countP_all_exited (holdsConn j) rfl hall] at this
  omega

/-- The returned connection is one that DialFunc really established. -/
theorem C18_returned_was_established (script : List Script) (nW : Nat) (hn : 0 < nW) (s : St) (h : Reach script nW s)
    (k : Nat) (hr : s.ret = some (.conn k)) : k ∈ s.established := by
  have := C18_connections script nW hn s h k
  rw [if_pos hr] at this
  exact List.count_pos_iff.mp (by omega)

/-- The outcome is decided once: whatever the collector chose stays chosen. -/
theorem C18_outcome_once (script : List Script) (s s' : St) (l : Label) (r : Ret)
    (hr : s.ret = some r) (hs : step script s l = some s') : s'.ret = some r := by
  cases l with
  | parentCancel => obtain ⟨_, rfl⟩ := step_parentCancel hs; exact hr
  | feederGo => obtain ⟨_, _, rfl⟩ := step_feederGo hs; exact hr
  | handoff w => obtain ⟨_, _, _, rfl⟩ := step_handoff hs; exact hr
  | prep w => obtain ⟨_, _, _, rfl | rfl⟩ := step_prep hs <;> exact hr
  | finish w ok => obtain ⟨_, _, _, ⟨_, _, rfl⟩ | ⟨_, rfl⟩⟩ := step_finish hs <;> exact hr
  | errRecv w => obtain ⟨_, _, hn, rfl⟩ := step_errRecv hs; rw [hr] at hn; cases hn
  | errDrop w => obtain ⟨_, _, _, rfl⟩ := step_errDrop hs; exact hr
  | connRecv w => obtain ⟨_, _, hn, rfl⟩ := step_connRecv hs; rw [hr] at hn; cases hn
  | connClose w => obtain ⟨_, _, _, rfl⟩ := step_connClose hs; exact hr
  | workerExit w => obtain ⟨_, _, rfl⟩ := step_workerExit hs; exact hr
  | closeErr => obtain ⟨_, _, rfl⟩ := step_closeErr hs; exact hr
  | collectClosed => obtain ⟨hn, _, rfl⟩ := step_collectClosed hs; rw [hr] at hn; cases hn
  | collectCtx => obtain ⟨hn, _, rfl⟩ := step_collectCtx hs; rw [hr] at hn; cases hn
  | ret => obtain ⟨_, _, rfl⟩ := step_ret hs; exact hr

/-- Joined errors: when Dial returns the joined errors and the caller has not cancelled, the
    list holds exactly one error per target — nothing was dropped and nothing is duplicated. -/
theorem C18_errors_joined (script : List Script) (nW : Nat) (hn : 0 < nW) (s : St) (h : Reach script nW s)
    (ks : List Nat) (hr : s.ret = some (.errs ks)) (hp : s.parentDone = false) (j : Nat) :
    ks.count j = if j < script.length then 1 else 0 := by
  have := (reach_inv script nW hn s h).2.errsAll ks hr hp j
  rw [this]
  simp [List.count_range]

/-- Attempts begun after the outcome is decided: once Dial has returned, its context is cancelled,
    so every attempt that begins afterwards begins under an already-cancelled context; the ghost
    flag recording a live-context attempt after the return is never raised. -/
theorem C18_late_attempts_cancelled (script : List Script) (nW : Nat) (hn : 0 < nW) (s : St) (h : Reach script nW s) :
    s.badLate = false ∧ (s.returned = true → s.ctxDone = true) :=
  ⟨(reach_inv script nW hn s h).1.late, fun hr => ((reach_inv script nW hn s h).1.retd hr).1⟩

/-- Prompt return on cancellation: whenever the context has ended and no outcome has been chosen
    yet, the collector can take the `ctx.Done` branch at once — it never waits for a worker. -/
theorem C18_cancel_enabled (script : List Script) (s : St) (hc : s.ctxDone = true) (hr : s.ret = none) :
    step script s .collectCtx = some { s with ret := some .ctxErr } := by
  simp [step, hr, hc]

theorem wSum_replicate (n : Nat) : wSum (List.replicate n Worker.idle) = n := by
  induction n with
  | zero => rfl
  | succ n ih => simp only [wSum, List.replicate_succ, List.map_cons, List.sum_cons, wWeight] at ih ⊢; omega

theorem run_measure (script : List Script) (nW : Nat) (s s' : St) (ls : List Label)
    (ha : InvA script nW s) (hr : run script s ls = some s') :
    ls.length + measure script.length s' ≤ measure script.length s := by
  induction ls generalizing s with
  | nil => simp [run] at hr; subst hr; simp
  | cons l ls ih =>
    simp only [run] at hr
    split at hr
    · simp at hr
    · rename_i s1 h1
      have := ih s1 (invA_step script nW s s1 l ha h1) hr
      have := measure_step script nW s s1 l ha h1
      simp only [List.length_cons]; omega

/-- No goroutine outlives the call indefinitely, part 1 — every schedule is finite: no execution
    of feeder, workers, closer and collector has more than 10·targets + workers + 4 steps
    (given that DialFunc returns, which `finish` models as always possible). -/
theorem C18_every_run_ends (script : List Script) (nW : Nat) (ls : List Label) (s : St)
    (hr : run script (init script.length nW) ls = some s) : ls.length ≤ 10 * script.length + nW + 4 := by
  have := run_measure script nW _ s ls (invA_init script nW) hr
  have hm : measure script.length (init script.length nW) ≤ 10 * script.length + nW + 4 := by
    cases script with
    | nil => simp [measure, init, fWeight, retWeight, wSum_replicate]
    | cons a t => simp [measure, init, fWeight, retWeight, wSum_replicate]
  omega

/-- No goroutine outlives the call indefinitely, part 2 — no deadlock: in every reachable state in
    which something is still running (or Dial has not returned), some step of the system itself
    — not the caller's cancellation — is enabled. With part 1: every maximal execution ends in
    a state where Dial has returned and the feeder, every worker and the closer have finished. -/
theorem C18_no_deadlock (script : List Script) (nW : Nat) (hn : 0 < nW) (s : St) (h : Reach script nW s)
    (ht : terminal s = false) : ∃ l, isSystem l = true ∧ (step script s l).isSome = true :=
  progress script nW hn s (reach_inv script nW hn s h).1 ht

/-- At rest nothing of the system can move any more. -/
theorem C18_terminal_is_final (script : List Script) (nW : Nat) (hn : 0 < nW) (s : St) (h : Reach script nW s)
    (ht : terminal s = true) (l : Label) (hl : isSystem l = true) : step script s l = none := by
  cases hs : step script s l with
  | none => rfl
  | some s' =>
    exfalso
    simp only [terminal, Bool.and_eq_true, beq_iff_eq] at ht
    obtain ⟨⟨⟨hret, hec⟩, hf⟩, hall⟩ := ht
    have hex := all_exited hall
    have ha := (reach_inv script nW hn s h).1
    have hrs := (ha.retd hret).2
    cases l with
    | parentCancel => cases hl
    | feederGo => obtain ⟨_, hf', _⟩ := step_feederGo hs; rw [hf] at hf'; cases hf'
    | handoff w => obtain ⟨_, hf', _, _⟩ := step_handoff hs; rw [hf] at hf'; cases hf'
    | prep w => obtain ⟨_, hw, _, _⟩ := step_prep hs; cases hex w _ hw
    | finish w ok => obtain ⟨_, _, hw, _⟩ := step_finish hs; cases hex w _ hw
    | errRecv w => obtain ⟨_, hw, _, _⟩ := step_errRecv hs; cases hex w _ hw
    | errDrop w => obtain ⟨_, hw, _, _⟩ := step_errDrop hs; cases hex w _ hw
    | connRecv w => obtain ⟨_, hw, _, _⟩ := step_connRecv hs; cases hex w _ hw
    | connClose w => obtain ⟨_, hw, _, _⟩ := step_connClose hs; cases hex w _ hw
    | workerExit w => obtain ⟨hw, _, _⟩ := step_workerExit hs; cases hex w _ hw
    | closeErr => obtain ⟨he, _, _⟩ := step_closeErr hs; rw [hec] at he; cases he
    | collectClosed => obtain ⟨hn', _, _⟩ := step_collectClosed hs; rw [hn'] at hrs; cases hrs
    | collectCtx => obtain ⟨hn', _, _⟩ := step_collectCtx hs; rw [hn'] at hrs; cases hrs
    | ret => obtain ⟨_, hn', _⟩ := step_ret hs; rw [hret] at hn'; cases hn'

/-! non-vacuity: a concrete schedule with two successful targets and two workers — the first
    connection is returned, the second one is closed, everything finishes -/
def demoSched : List Label :=
  [.handoff 0, .prep 0, .feederGo, .handoff 1, .prep 1, .finish 0 true, .finish 1 true, .connRecv 0, .ret,
   .connClose 1, .workerExit 0, .workerExit 1, .closeErr]

example : (run [.ok, .ok] (init 2 2) demoSched).map (fun s => (terminal s, s.ret, s.closed, s.established, s.maxInflight)) =
    some (true, some (.conn 0), [1], [1, 0], 2) := by decide

/-- three failing targets, one worker: the errors are joined in arrival order -/
def demoErrs : List Label :=
  [.handoff 0, .prep 0, .finish 0 false, .errRecv 0, .handoff 0, .prep 0, .errRecv 0,
   .workerExit 0, .closeErr, .collectClosed, .ret]

example : (run [.fail, .refuse] (init 2 1) demoErrs).map (fun s => (terminal s, s.ret)) =
    some (true, some (.errs [0, 1])) := by decide

end DialLts
