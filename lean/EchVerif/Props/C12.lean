import EchVerif.Lemmas.DNS
/-
  C12 — decoding any DNS message terminates, within bounds, without panicking.
  The decoder model is a total Lean function (structural recursion on the section counts and on
  explicit fuel for names); the theorems below show that the fuel never is the reason a name is
  rejected and bound the work by the message length.
-/
open Wire
namespace DNS

/-- Name decoding always stops by itself within 511 loop iterations, whatever the bytes and
    whatever the compression pointers (cycles, chains): every amount of fuel ≥ 511 gives the same
    answer, so the model's 520 is never what ends a decode. Each iteration follows one pointer
    (at most 255 per name) or reads one label (at most 255 octets per name). -/
theorem C12_name_bounded (raw : Bytes) (w : Win) (fuel : Nat) (h : 511 ≤ fuel) :
    nameLabelsF raw fuel false w w 0 0 = readName raw w := by
  unfold readName
  apply nameLabelsF_fuel
  · simp [need, maxPointers, maxNameOctets]; omega
  · simp [need, maxPointers, maxNameOctets, nameFuel]

/-- Decoded names respect RFC 1035 2.3.4: at most 255 octets of labels. -/
theorem C12_name_size (raw : Bytes) (w w' : Win) (n : Name) (h : readName raw w = some (n, w')) :
    octets n ≤ 255 := by
  rcases nameLabelsF_size raw _ false w w 0 0 n w' h with h1 | h1
  · simpa [maxNameOctets] using h1
  · subst h1; simp [octets]

/-- shape of a successfully decoded message -/
theorem decode_inv (raw : Bytes) (m : Message) (h : decode raw = some m) :
    ∃ r6 qd an ns ar qs w1 a w2 b w3 c w4, r6.length + 12 = raw.length ∧
      decodeQuestions raw qd ⟨12, r6⟩ = some (qs, w1) ∧ decodeRRs raw an w1 = some (a, w2) ∧
      decodeRRs raw ns w2 = some (b, w3) ∧ decodeRRs raw ar w3 = some (c, w4) ∧
      m.question = qs ∧ m.answer = a ∧ m.authority = b ∧ m.additional = c := by
  unfold decode at h
  split at h; · simp at h
  rename_i id r1 h1
  split at h; · simp at h
  rename_i fl r2 h2
  split at h; · simp at h
  rename_i qd r3 h3
  split at h; · simp at h
  rename_i an r4 h4
  split at h; · simp at h
  rename_i ns r5 h5
  split at h; · simp at h
  rename_i ar r6 h6
  split at h; · simp at h
  rename_i qs w1 hq
  split at h; · simp at h
  rename_i a w2 ha
  split at h; · simp at h
  rename_i b w3 hb
  split at h; · simp at h
  rename_i c w4 hc
  simp only [Option.some.injEq] at h
  subst h
  have l1 := readU16_len h1
  have l2 := readU16_len h2
  have l3 := readU16_len h3
  have l4 := readU16_len h4
  have l5 := readU16_len h5
  have l6 := readU16_len h6
  exact ⟨r6, qd, an, ns, ar, qs, w1, a, w2, b, w3, c, w4, by omega, hq, ha, hb, hc, rfl, rfl, rfl, rfl⟩

/-- Record data has the Go dynamic type implied by its record type: net.IP for A/AAAA, string for
    NS/CNAME/PTR, HTTPS for type 65, []Option for OPT, …, []byte for every other type. -/
theorem C12_types (raw : Bytes) (typ : Nat) (data : Win) (d : RData)
    (h : decodeRData raw typ data = some d) : TypeMatches typ d := by
  unfold decodeRData at h
  by_cases ht0 : typ = 1
  · rw [if_pos ht0] at h; have ht := ht0
    split at h <;> cases h; exact Or.inl ht
  rw [if_neg ht0] at h
  by_cases ht1 : typ = 2 ∨ typ = 5 ∨ typ = 12
  · rw [if_pos ht1] at h; have ht := ht1
    rw [Option.map_eq_some_iff] at h; obtain ⟨_, _, rfl⟩ := h; exact ht
  rw [if_neg ht1] at h
  by_cases ht2 : typ = 6
  · rw [if_pos ht2] at h; have ht := ht2
    unfold decSOA at h
    repeat' (split at h <;> try (cases h; done))
    simp only [Option.some.injEq] at h; subst h; exact ht
  rw [if_neg ht2] at h
  by_cases ht3 : typ = 15
  · rw [if_pos ht3] at h; have ht := ht3
    unfold decMX at h
    repeat' (split at h <;> try (cases h; done))
    rw [Option.map_eq_some_iff] at h; obtain ⟨_, _, rfl⟩ := h; exact ht
  rw [if_neg ht3] at h
  by_cases ht4 : typ = 16
  · rw [if_pos ht4] at h; have ht := ht4
    rw [Option.map_eq_some_iff] at h; obtain ⟨_, _, rfl⟩ := h; exact ht
  rw [if_neg ht4] at h
  by_cases ht5 : typ = 28
  · rw [if_pos ht5] at h; have ht := ht5
    split at h <;> cases h; exact Or.inr ht
  rw [if_neg ht5] at h
  by_cases ht6 : typ = 29
  · rw [if_pos ht6] at h; have ht := ht6
    split at h <;> cases h; exact ht
  rw [if_neg ht6] at h
  by_cases ht7 : typ = 33
  · rw [if_pos ht7] at h; have ht := ht7
    unfold decSRV at h
    repeat' (split at h <;> try (cases h; done))
    rw [Option.map_eq_some_iff] at h; obtain ⟨_, _, rfl⟩ := h; exact ht
  rw [if_neg ht7] at h
  by_cases ht8 : typ = 37
  · rw [if_pos ht8] at h; have ht := ht8
    unfold decCERT at h
    repeat' (split at h <;> try (cases h; done))
    simp only [Option.some.injEq] at h; subst h; exact ht
  rw [if_neg ht8] at h
  by_cases ht9 : typ = 41
  · rw [if_pos ht9] at h; have ht := ht9
    rw [Option.map_eq_some_iff] at h; obtain ⟨_, _, rfl⟩ := h; exact ht
  rw [if_neg ht9] at h
  by_cases ht10 : typ = 43
  · rw [if_pos ht10] at h; have ht := ht10
    unfold decDS at h
    repeat' (split at h <;> try (cases h; done))
    simp only [Option.some.injEq] at h; subst h; exact ht
  rw [if_neg ht10] at h
  by_cases ht11 : typ = 46
  · rw [if_pos ht11] at h; have ht := ht11
    unfold decRRSIG at h
    repeat' (split at h <;> try (cases h; done))
    rw [Option.map_eq_some_iff] at h; obtain ⟨_, _, rfl⟩ := h; exact ht
  rw [if_neg ht11] at h
  by_cases ht12 : typ = 47
  · rw [if_pos ht12] at h; have ht := ht12
    rw [Option.map_eq_some_iff] at h; obtain ⟨_, _, rfl⟩ := h; exact ht
  rw [if_neg ht12] at h
  by_cases ht13 : typ = 48
  · rw [if_pos ht13] at h; have ht := ht13
    unfold decDNSKEY at h
    repeat' (split at h <;> try (cases h; done))
    simp only [Option.some.injEq] at h; subst h; exact ht
  rw [if_neg ht13] at h
  by_cases ht14 : typ = 64
  · rw [if_pos ht14] at h; have ht := ht14
    unfold decSVCB at h
    repeat' (split at h <;> try (cases h; done))
    rw [Option.map_eq_some_iff] at h; obtain ⟨_, _, rfl⟩ := h; exact ht
  rw [if_neg ht14] at h
  by_cases ht15 : typ = 65
  · rw [if_pos ht15] at h; have ht := ht15
    unfold decHTTPS at h
    repeat' (split at h <;> try (cases h; done))
    rw [Option.map_eq_some_iff] at h; obtain ⟨_, _, rfl⟩ := h; exact ht
  rw [if_neg ht15] at h
  by_cases ht16 : typ = 256
  · rw [if_pos ht16] at h; have ht := ht16
    unfold decURI at h
    repeat' (split at h <;> try (cases h; done))
    simp only [Option.some.injEq] at h; subst h; exact ht
  rw [if_neg ht16] at h
  by_cases ht17 : typ = 257
  · rw [if_pos ht17] at h; have ht := ht17
    unfold decCAA at h
    repeat' (split at h <;> try (cases h; done))
    simp only [Option.some.injEq] at h; subst h; exact ht
  rw [if_neg ht17] at h
  simp only [Option.some.injEq] at h
  subst h
  simp only [TypeMatches]
  simp
  omega

/-- Work is linear in the message length: a decoded message with q questions and r records needs
    at least 12 + 5q + 11r bytes, so lying section counts cannot make the decoder do more than
    len/11 record iterations (each bounded by C12_name_bounded and its RDLENGTH). -/
theorem C12_cost (raw : Bytes) (m : Message) (h : decode raw = some m) :
    12 + 5 * m.question.length + 11 * (m.answer.length + m.authority.length + m.additional.length) ≤ raw.length := by
  obtain ⟨r6, qd, an, ns, ar, qs, w1, a, w2, b, w3, c, w4, hl, hq, ha, hb, hc, e1, e2, e3, e4⟩ := decode_inv raw m h
  obtain ⟨q1, q2⟩ := decodeQuestions_adv raw qd ⟨12, r6⟩ w1 qs hq
  obtain ⟨a1, a2⟩ := decodeRRs_adv raw an w1 w2 a ha
  obtain ⟨b1, b2⟩ := decodeRRs_adv raw ns w2 w3 b hb
  obtain ⟨c1, c2⟩ := decodeRRs_adv raw ar w3 w4 c hc
  rw [e1, e2, e3, e4, q1, a1, b1, c1]
  simp only at q2
  omega

/-- every record of every section went through `decodeRData` -/
theorem decodeRRs_types (raw : Bytes) (n : Nat) (w w' : Win) (l : List RR)
    (h : decodeRRs raw n w = some (l, w')) : ∀ rr ∈ l, TypeMatches rr.typ rr.data := by
  induction n generalizing w l with
  | zero => simp [decodeRRs] at h; obtain ⟨rfl, _⟩ := h; simp
  | succ k ih =>
    simp only [decodeRRs] at h
    split at h
    · simp at h
    · rename_i rr w1 h1
      rw [Option.map_eq_some_iff] at h
      obtain ⟨⟨l', w2⟩, hr, he⟩ := h
      simp only [Prod.mk.injEq] at he
      obtain ⟨rfl, rfl⟩ := he
      intro x hx
      simp at hx
      rcases hx with rfl | hx
      · unfold decodeRR at h1
        split at h1; · simp at h1
        split at h1; · simp at h1
        split at h1; · simp at h1
        split at h1; · simp at h1
        split at h1; · simp at h1
        rw [Option.map_eq_some_iff] at h1
        obtain ⟨d, hd, he⟩ := h1
        simp only [Prod.mk.injEq] at he
        obtain ⟨rfl, _⟩ := he
        exact C12_types raw _ _ d hd
      · exact ih w1 l' hr x hx

/-- The resolver's type assertions (`a.Data.(string)` for CNAME, `v.(dns.HTTPS)`, `v.(net.IP)`)
    can never fail on a decoded message: in every section, a type-5 record carries a name, a
    type-65 record an HTTPS value, type-1/28 records an IP, and the OPT record []Option. -/
theorem C12_resolver_safe (raw : Bytes) (m : Message) (h : decode raw = some m) :
    ∀ rr ∈ m.answer ++ m.authority ++ m.additional,
      (rr.typ = 5 → ∃ n, rr.data = .name n) ∧ (rr.typ = 65 → ∃ x, rr.data = .https x) ∧
      (rr.typ = 1 ∨ rr.typ = 28 → ∃ b, rr.data = .ip b) ∧ (rr.typ = 41 → ∃ o, rr.data = .opt o) := by
  obtain ⟨r6, qd, an, ns, ar, qs, w1, a, w2, b, w3, c, w4, hl, hq, ha, hb, hc, e1, e2, e3, e4⟩ := decode_inv raw m h
  rw [e2, e3, e4]
  intro rr hrr
  have ht : TypeMatches rr.typ rr.data := by
    simp only [List.mem_append] at hrr
    rcases hrr with (hrr | hrr) | hrr
    · exact decodeRRs_types raw an w1 w2 a ha rr hrr
    · exact decodeRRs_types raw ns w2 w3 b hb rr hrr
    · exact decodeRRs_types raw ar w3 w4 c hc rr hrr
  cases hd : rr.data <;> simp only [hd, TypeMatches] at ht <;>
    refine ⟨fun h5 => ?_, fun h65 => ?_, fun h1 => ?_, fun h41 => ?_⟩ <;>
    first
      | exact ⟨_, rfl⟩
      | (exfalso; simp at ht; omega)
      | (exfalso; omega)

/-- Lying section counts, decodes that FAIL included: however many records the header announces, the
    section loop starts at most len/11 + 1 record decodes (len/5 + 1 question decodes) before it has either
    finished or met a record that does not decode - never more than the count either, and exactly the
    count when the section decodes. `rrIters` / `qIters` are instrumented copies of the loops of
    `decodeRRs` / `decodeQuestions` (`Lemmas/DNS.lean`). With `C12_name_bounded` (≤ 511 steps per name)
    this bounds the work of a failing `DecodeMessage` as `C12_cost` does for a successful one. -/
theorem C12_cost_any (raw : Bytes) (n : Nat) (w : Win) :
    11 * rrIters raw n w ≤ w.b.length + 11 ∧ rrIters raw n w ≤ n ∧
    5 * qIters raw n w ≤ w.b.length + 5 ∧
    (∀ l w', decodeRRs raw n w = some (l, w') → rrIters raw n w = n) :=
  ⟨rrIters_bound raw n w, rrIters_le raw n w, qIters_bound raw n w, fun l w' h => rrIters_ok raw n w w' l h⟩

/-- non-vacuity: a header that announces 65535 answers over an empty rest costs one attempt -/
example : rrIters [] 65535 ⟨12, []⟩ = 1 := by
  simp [rrIters, decodeRR, readName, nameLabelsF, nameFuel]

end DNS
