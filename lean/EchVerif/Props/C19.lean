import EchVerif.Transport
/-
  C19 — Transport keeps HTTP requests encrypted, correctly named and origin-isolated.
  Proved: the decision function. That net/http honours the pool key, refuses plaintext through the
  failing DialContext and negotiates the protocol is observed on a real http.Client ("partial").
-/
namespace Transport
open Resolve

/-- http is upgraded to https whenever the origin publishes HTTPS records; otherwise the scheme is
    the caller's. The plaintext dialer (a constant failure) is reached only when this is "http". -/
theorem C19_upgrade (i : In) :
    (i.https ≠ [] → i.scheme = bHttp → scheme' i = bHttps) ∧
    (i.https = [] → scheme' i = i.scheme) ∧ (i.scheme ≠ bHttp → scheme' i = i.scheme) := by
  unfold scheme'
  refine ⟨fun h1 h2 => by simp [h1, h2], fun h => by simp [h], fun h => by simp [h]⟩

/-- The TLS server name and the Host header depend only on the request's URL and Host field —
    whatever DNS says (aliases, targets, any HTTPS record set). -/
theorem C19_names (i : In) (recs : List HttpsRec) :
    (hostPort { i with https := recs }).1 = (hostPort i).1 ∧ hostHeader { i with https := recs } = hostHeader i ∧
    (hostPort i).1 = (match i.split with | some hp => hp.1 | none => i.urlHost) := by
  refine ⟨?_, rfl, ?_⟩
  · unfold hostPort
    cases i.split <;> rfl
  · unfold hostPort
    cases i.split <;> rfl

theorem split_at_dot (a b x y : Bytes) (ha : (46 : UInt8) ∉ a) (hb : (46 : UInt8) ∉ b)
    (h : a ++ 46 :: x = b ++ 46 :: y) : a = b ∧ x = y := by
  induction a generalizing b with
  | nil =>
    cases b with
    | nil => simpa using h
    | cons c cs =>
      simp at h
      exact absurd h.1.symm (fun e => hb (by simp [e]))
  | cons c cs ih =>
    cases b with
    | nil =>
      simp at h
      exact absurd h.1 (fun e => ha (by simp [e]))
    | cons d ds =>
      simp at h
      obtain ⟨rfl, h'⟩ := h
      have := ih ds (fun e => ha (by simp [e])) (fun e => hb (by simp [e])) h'
      exact ⟨by rw [this.1], this.2⟩

/-- Origin isolation: the pool key is injective on (port, scheme, host) for ports and schemes
    that contain no dot (decimal ports, URL schemes) — two different origins never map to the same
    key, so net/http never shares a pooled connection between them. -/
theorem C19_pool_key_injective (p1 s1 h1 p2 s2 h2 : Bytes)
    (hp1 : (46 : UInt8) ∉ p1) (hp2 : (46 : UInt8) ∉ p2) (hs1 : (46 : UInt8) ∉ s1) (hs2 : (46 : UInt8) ∉ s2)
    (h : poolKey p1 s1 h1 = poolKey p2 s2 h2) : p1 = p2 ∧ s1 = s2 ∧ h1 = h2 := by
  unfold poolKey at h
  simp only [List.cons_append, List.nil_append, List.append_assoc, List.cons.injEq, true_and] at h
  obtain ⟨e1, r1⟩ := split_at_dot p1 p2 _ _ hp1 hp2 h
  simp only [List.cons.injEq, true_and] at r1
  obtain ⟨e2, r2⟩ := split_at_dot s1 s2 _ _ hs1 hs2 r1
  refine ⟨e1, e2, ?_⟩
  have := congrArg List.reverse r2
  simp at this
  exact this

/-- a record is "usable" for the protocol decision when it is in service mode and supports at
    least one of h3 / h2 / http/1.1 -/
def usable (h : HttpsRec) : Bool :=
  h.priority ≠ 0 ∧ (h.alpn.contains bH3 ∨ ¬ h.noDefaultALPN ∨ h.alpn.contains bH2 ∨ h.alpn.contains bHttp11)

/-- HTTP/3 is chosen only when an HTTP/3 round-tripper exists and the most-preferred usable HTTPS
    record offers h3. -/
theorem C19_h3 (i : In) :
    useH3 i = true ↔ i.hasH3 = true ∧ ∃ h, i.https.find? usable = some h ∧ h.alpn.contains bH3 = true := by
  unfold useH3
  have key : ∀ l : List HttpsRec, h3Loop l = true ↔ ∃ h, l.find? usable = some h ∧ h.alpn.contains bH3 = true := by
    intro l
    induction l with
    | nil => simp [h3Loop]
    | cons x xs ih =>
      simp only [h3Loop]
      by_cases hp : x.priority = 0
      · have hu : usable x = false := by simp [usable, hp]
        simp only [hp, if_true, List.find?, hu]
        exact ih
      · simp only [hp, if_false]
        by_cases h3 : x.alpn.contains bH3 = true
        · have hu : usable x = true := by
            have h3' : bH3 ∈ x.alpn := by simpa using h3
            simp [usable, hp, h3']
          simp only [h3, if_true, List.find?, hu]
          exact ⟨fun _ => ⟨x, rfl, h3⟩, fun _ => trivial⟩
        · simp only [h3, if_false]
          by_cases ho : ¬ x.noDefaultALPN ∨ x.alpn.contains bH2 ∨ x.alpn.contains bHttp11
          · have hu : usable x = true := by
              simp only [usable, decide_eq_true_eq]
              refine ⟨hp, ?_⟩
              rcases ho with h | h | h
              · exact Or.inr (Or.inl h)
              · exact Or.inr (Or.inr (Or.inl h))
              · exact Or.inr (Or.inr (Or.inr h))
            simp only [ho, if_true, List.find?, hu]
            constructor
            · intro hf; simp at hf
            · rintro ⟨h, he, hh⟩
              simp only [Option.some.injEq] at he
              subst he
              exact absurd hh h3
          · have hu : usable x = false := by
              simp only [usable, decide_eq_false_iff_not, not_and, not_or]
              intro _
              simp only [not_or] at ho
              exact ⟨h3, ho.1, ho.2.1, ho.2.2⟩
            simp only [ho, if_false, List.find?, hu]
            exact ih
  constructor
  · intro h
    simp only [Bool.and_eq_true] at h
    exact ⟨h.1, (key _).mp h.2⟩
  · rintro ⟨h1, h2⟩
    simp only [Bool.and_eq_true]
    exact ⟨h1, (key _).mpr h2⟩

/-- The records handed to the dialer are all in service mode and compatible with the chosen protocol
    family: with HTTP/3 every one lists h3; otherwise every one lists h2 or http/1.1, or keeps the
    default ALPN (http/1.1), or lists no ALPN at all. Nothing else of a record is changed. -/
theorem C19_filter (i : In) :
    (∀ h ∈ filtered i, h ∈ i.https ∧ h.priority ≠ 0) ∧
    (useH3 i = true → ∀ h ∈ filtered i, h.alpn.contains bH3 = true) ∧
    (useH3 i = false → ∀ h ∈ filtered i,
        h.alpn = [] ∨ h.noDefaultALPN = false ∨ h.alpn.contains bH2 = true ∨ h.alpn.contains bHttp11 = true) := by
  unfold filtered
  refine ⟨?_, ?_, ?_⟩
  · intro h hh
    split at hh <;>
      (simp only [List.mem_filter] at hh
       refine ⟨hh.1, ?_⟩
       intro hp
       simp [keep, hp] at hh)
  · intro hu h hh
    simp only [hu, if_true, List.mem_filter] at hh
    have := hh.2
    unfold keep at this
    split at this
    · simp at this
    · split at this
      · rename_i hc; simp at hc
      · split at this
        · rename_i hc; simp [bH3, bHttp11] at hc
        · simp only [List.any_eq_true] at this
          obtain ⟨p, hp, hps⟩ := this
          simp at hps
          subst hps
          simpa using hp
  · intro hu h hh
    simp only [hu, Bool.false_eq_true, if_false, List.mem_filter] at hh
    have := hh.2
    unfold keep at this
    split at this
    · simp at this
    · split at this
      · rename_i hc; exact Or.inl hc.2
      · split at this
        · rename_i hc; right; left; simpa using hc.1
        · simp only [List.any_eq_true] at this
          obtain ⟨p, hp, hps⟩ := this
          simp at hps
          rcases hps with rfl | rfl
          · right; right; left; simpa using hp
          · right; right; right; simpa using hp

/-- non-vacuity: two origins on one address get different keys -/
example : poolKey b443 bHttps [97] ≠ poolKey b443 bHttps [98] := by decide

end Transport
