import EchVerif.Lemmas.Splice
import EchVerif.Lemmas.SpecRefine
import EchVerif.Lemmas.Conn
/-
  C03 — an accepted inner hello is reconstructed byte-exactly.
-/
open Wire TLS
namespace ECH

/-- Appendix B substitution, characterised: for an outer hello with pairwise distinct extension
    types (true of every legal hello), a successful substitution of the marker's reference list
    yields exactly the outer extensions whose type is referenced, in outer order; the references
    are precisely the types of that block (hence in order, not repeated, all present in the outer
    hello) and none of them is encrypted_client_hello or ech_outer_extensions. -/
theorem C03_expand_characterisation (want : Bytes) (outer res : List Ext)
    (hnd : (outer.map (·.typ)).Nodup)
    (h : refsLoopF want.length want outer = .ok res) :
    ∃ refs, refTypes want.length want = some refs ∧
      res = outer.filter (fun e => refs.contains e.typ) ∧ res.map (·.typ) = refs ∧
      ∀ t ∈ refs, t ≠ 0xfe0d ∧ t ≠ 0xfd00 := by
  obtain ⟨ts, h1, h2⟩ := refsLoopF_refines _ want outer res h
  obtain ⟨a, b, c⟩ := refsLoop_eq_keep ts outer res hnd h2
  exact ⟨ts, h1, a, b, c⟩

/-- Without the distinctness hypothesis the block is still an order-preserving sub-list of the outer
    extensions (nothing invented, nothing reordered) whose types are exactly the references. -/
theorem C03_expand_sublist (want : Bytes) (outer res : List Ext)
    (h : refsLoopF want.length want outer = .ok res) :
    ∃ refs, refTypes want.length want = some refs ∧ res.Sublist outer ∧ res.map (·.typ) = refs := by
  obtain ⟨ts, h1, h2⟩ := refsLoopF_refines _ want outer res h
  obtain ⟨a, b⟩ := refsLoop_sublist ts outer res h2
  exact ⟨ts, h1, a, b⟩

/-- The extension list of the reconstructed hello: every inner extension other than the marker is
    kept in place; the marker (at most one) is replaced, in place, by the block of referenced outer
    extensions — nothing else added, dropped or reordered. -/
theorem C03_expand_in_place (outer inner res : List Ext) (seen : Bool)
    (h : expandExts outer inner seen = .ok res) :
    (res = inner ∧ ∀ e ∈ inner, e.typ ≠ 0xfd00) ∨
    (seen = false ∧ ∃ pre m post want rest block,
      inner = pre ++ m :: post ∧ m.typ = 0xfd00 ∧
      (∀ e ∈ pre, e.typ ≠ 0xfd00) ∧ (∀ e ∈ post, e.typ ≠ 0xfd00) ∧
      readLP8 m.data = some (want, rest) ∧ refsLoopF want.length want outer = .ok block ∧
      res = pre ++ block ++ post) := by
  induction inner generalizing res seen with
  | nil => simp [expandExts] at h; subst h; left; simp
  | cons e es ih =>
    simp only [expandExts] at h
    split at h
    · rename_i hne
      split at h
      · simp at h
      · rename_i r hr
        simp only [Except.ok.injEq] at h
        subst h
        rcases ih r seen hr with ⟨h1, h2⟩ | ⟨hs, pre, m, post, want, rest, block, h1, h2, h3, h4, h5, h6, h7⟩
        · left
          refine ⟨by rw [h1], ?_⟩
          intro x hx
          simp at hx
          rcases hx with rfl | hx
          · exact hne
          · exact h2 x hx
        · right
          refine ⟨hs, e :: pre, m, post, want, rest, block, by simp [h1], h2, ?_, h4, h5, h6, by simp [h7]⟩
          intro x hx
          simp at hx
          rcases hx with rfl | hx
          · exact hne
          · exact h3 x hx
    · rename_i hm
      have hm' : e.typ = 0xfd00 := by simpa using hm
      split at h
      · simp at h
      · rename_i hseen
        split at h
        · simp at h
        · rename_i want rest hw
          split at h
          · simp at h
          · rename_i block hb
            split at h
            · simp at h
            · rename_i r hr
              simp only [Except.ok.injEq] at h
              subst h
              right
              rcases ih r true hr with ⟨h1, h2⟩ | ⟨hs, _⟩
              · exact ⟨by simpa using hseen, [], e, es, want, rest, block, by simp, hm', by simp, h2, hw, hb, by simp [h1]⟩
              · simp at hs

/-- What `decodeInner` returns, field by field: the decrypted encoding's version, random, cipher
    suites and compression methods; the OUTER hello's legacy_session_id; the expanded extension
    list; and ServerName / ALPN / … derived from that reconstructed list. -/
theorem C03_reconstruct_fields (outer inner : Hello) (pt : Bytes) (h : decodeInner outer pt = .ok inner) :
    ∃ h0, parseClientHello (u8 1 ++ (u24 pt.length ++ pt)) = .ok h0 ∧
      inner.legacyVersion = h0.legacyVersion ∧ inner.random = h0.random ∧
      inner.sessionId = outer.sessionId ∧ inner.cipherSuites = h0.cipherSuites ∧
      inner.compression = h0.compression ∧
      expandExts outer.exts h0.exts false = .ok inner.exts ∧
      parseExtensions inner.exts = .ok inner.d := by
  unfold decodeInner at h
  split at h
  · simp at h
  · rename_i m hm
    simp only [lp24] at hm
    split at hm
    · simp only [Option.some.injEq] at hm
      subst hm
      split at h
      · simp at h
      · rename_i h0 hp
        split at h
        · simp at h
        · split at h
          · simp at h
          · rename_i newExt hx
            split at h
            · simp at h
            · rename_i d hd
              split at h
              · simp at h
              · simp only [Except.ok.injEq] at h
                subst h
                exact ⟨h0, hp, rfl, rfl, rfl, rfl, rfl, hx, hd⟩
    · simp at hm

/-- A reconstructed inner hello always has an extensions field (it carries at least the ECH
    extension of type inner), so the `noExt` form of pre-TLS-1.3 hellos never reaches the backend
    as an accepted inner hello. -/
theorem C03_inner_has_extension_field (outer inner : Hello) (pt : Bytes) (h : decodeInner outer pt = .ok inner) :
    inner.noExt = false := by
  unfold decodeInner at h
  split at h
  · simp at h
  · split at h
    · simp at h
    · rename_i m _ h0 hp
      split at h
      · simp at h
      · rename_i hty
        split at h
        · simp at h
        · split at h
          · simp at h
          · split at h
            · simp at h
            · simp only [Except.ok.injEq] at h
              subst h
              simp only
              obtain ⟨_, _, _, _, _, _, _, _, _, hpe, _, hno⟩ := parseClientHello_inv _ h0 hp
              cases hn : h0.noExt with
              | false => rfl
              | true =>
                exfalso
                have hex := (hno hn).1
                rw [hex] at hpe
                simp only [parseExtensions, parseExtensionsFrom, Except.ok.injEq] at hpe
                have hty' : Option.map (fun x => x.typ) h0.d.ech = some 1 := by simpa using hty
                rw [← hpe] at hty'
                simp at hty'

/-- Byte-exactness of the record handed to the backend: the marshalled inner hello is the TLS
    record (type 22, version = legacy_version) carrying one ClientHello message whose body is
    exactly  version ‖ random ‖ <session id> ‖ <suites> ‖ <compression> ‖ <extensions> , each
    vector with its length prefix, the extensions being the plain encodings of `inner.exts` in
    order — no padding, nothing else. -/
theorem C03_marshal_exact (inner : Hello)
    (hx : ∀ e ∈ inner.exts, e.data.length < 65536)
    (hs : inner.sessionId.length < 256) (hc : inner.cipherSuites.length < 65536)
    (hm : inner.compression.length < 256) (he : (encExts inner.exts).length < 65536)
    (hne : inner.noExt = false)
    (body : Bytes)
    (hb : body = u16 inner.legacyVersion ++ inner.random ++ (u8 inner.sessionId.length ++ inner.sessionId) ++
            (u16 inner.cipherSuites.length ++ inner.cipherSuites) ++
            (u8 inner.compression.length ++ inner.compression) ++
            (u16 (encExts inner.exts).length ++ encExts inner.exts))
    (hl : body.length + 4 < 65536) :
    inner.marshal = .ok (u8 0x16 ++ u16 inner.legacyVersion ++
      (u16 (4 + body.length) ++ (u8 1 ++ (u24 body.length ++ body)))) := by
  have hmb : marshalBody false inner = .ok body := by
    dsimp only [marshalBody]
    rw [putExts_false _ inner.exts hx]
    simp [lp8, lp16, hs, hc, hm, he, hb, hne]
  have h24 : lp24 body = some (u24 body.length ++ body) := by
    simp [lp24]; omega
  have h16 : lp16 (u8 1 ++ (u24 body.length ++ body)) = some (u16 (4 + body.length) ++ (u8 1 ++ (u24 body.length ++ body))) := by
    have : (u8 1 ++ (u24 body.length ++ body)).length = 4 + body.length := by simp [u8, u24]; omega
    simp only [lp16, this]
    simp; omega
  simp only [Hello.marshal, marshalRec, hmb, h24, h16]

/-- The names reported by an accepted Conn are those of the reconstructed inner hello. -/
theorem C03_names_from_inner (H : Hpke) (keys : List Key) (t : Tr) (i : Hello)
    (hi : (newConn H keys t).st.inner = some i) :
    (newConn H keys t).st.serverName = i.d.serverName ∧ (newConn H keys t).st.alpn = i.d.alpn := by
  simp [St.serverName, St.alpn, hi]

/-- **Refinement to the draft-level specification.** Whenever the model reconstructs an inner hello
    from a decrypted `EncodedClientHelloInner` `pt` and marshals it to the record `rec` handed to the
    backend, `rec` is exactly `Spec.specInner pt sid outerExtensions` — the ClientHelloInner the client
    committed to according to draft-ietf-tls-esni 5.1, computed on bytes by a definition written
    from the draft's text, independently of the model of client_hello.go: padding stripped, the outer
    hello's legacy_session_id substituted, each `ech_outer_extensions` reference replaced in place by
    the referenced outer extension. (`outer.exts` in 16-bit range: true of every parsed hello.) -/
theorem C03_refines_spec (outer inner : Hello) (pt rec : Bytes)
    (hor : ∀ e ∈ outer.exts, e.typ < 65536 ∧ e.data.length < 65536)
    (h : decodeInner outer pt = .ok inner) (hm : inner.marshal = .ok rec) :
    Spec.specInner pt outer.sessionId (encExts outer.exts) = some rec := by
  have hnoext := fun i (hi : decodeInner outer pt = .ok i) => hi
  unfold decodeInner at h
  split at h
  · simp at h
  · rename_i m hlp
    split at h
    · simp at h
    · rename_i h0 hp
      split at h
      · simp at h
      · rename_i hty
        split at h
        · simp at h
        · rename_i newExt hexp
          split at h
          · simp at h
          · rename_i d hd
            split at h
            · simp at h
            · simp only [Except.ok.injEq] at h
              subst h
              -- shape of the decrypted encoding
              obtain ⟨l24, rfl⟩ := lp24_inv hlp
              obtain ⟨body, after, trail, hbuf, hl2, hmb0, hbody, hrnd, hver, hpe, hz, hno⟩ := parseClientHello_inv _ h0 hp
              have hty' : (h0.d.ech.map (·.typ)) = some 1 := by simpa using hty
              have hne0 : h0.noExt = false := by
                cases hn : h0.noExt with
                | false => rfl
                | true =>
                  exfalso
                  have hex := (hno hn).1
                  rw [hex] at hpe
                  simp only [parseExtensions, parseExtensionsFrom, Except.ok.injEq] at hpe
                  rw [← hpe] at hty'
                  simp at hty'
              obtain ⟨hza, _⟩ := hz hty'
              have hbuf' : u8 1 ++ (u24 pt.length ++ pt) =
                  u8 1 ++ (u24 (body ++ after).length ++ ((body ++ after) ++ trail)) := by
                rw [hbuf]; simp only [List.append_assoc]
              have hcut := List.append_cancel_left hbuf'
              obtain ⟨hu, hpt⟩ := List.append_inj hcut (by simp [u24])
              have hn := u24_inj l24 hl2 hu
              have htr : trail = [] := by
                have := congrArg List.length hpt
                simp only [List.length_append] at this
                rw [hn] at this
                simp only [List.length_append] at this
                exact List.eq_nil_of_length_eq_zero (by omega)
              subst htr
              simp only [List.append_nil] at hpt
              -- fields of the decrypted encoding
              obtain ⟨s1, s2, s3, s4, s5, hb0⟩ := marshalBody_inv h0 body hne0 hmb0
              have hfields := fields_body h0.legacyVersion h0.random h0.sessionId h0.cipherSuites h0.compression
                (encExts h0.exts) after hrnd s1 s2 s3 s4
              rw [← hb0, ← hpt] at hfields
              -- extension lists
              have hr0 := TLS.parseClientHello_exts_range _ h0 hp
              have hie := extsOf_parseExts _ _ (parseExts_encExts h0.exts hr0)
              have hoe := extsOf_parseExts _ _ (parseExts_encExts outer.exts hor)
              have hex := expand_expandExts outer.exts h0.exts false newExt hexp
              -- the marshalled record
              obtain ⟨b2, hmb2, l2a, l2b, hrec⟩ := marshalRec_inv _ rec hm
              obtain ⟨t1, t2, t3, t4, t5, hb2⟩ := marshalBody_inv _ b2 (by simpa using hne0) hmb2
              simp only at hb2 t1 t4 hrec
              have haz : (after.all fun x => x == 0) = true := by simpa [allZero] using hza
              simp only [Spec.specInner, hfields, haz, hie, hoe, hex, encExts_raw]
              subst hrec
              subst hb2
              generalize (u16 h0.legacyVersion ++ h0.random ++ (u8 (List.length outer.sessionId) ++ outer.sessionId) ++
                (u16 (List.length h0.cipherSuites) ++ h0.cipherSuites) ++
                (u8 (List.length h0.compression) ++ h0.compression) ++
                (u16 (List.length (encExts newExt)) ++ encExts newExt)) = B
              have hlen : (u8 1 ++ u24 B.length ++ B).length = 4 + B.length := by simp [u8, u24]; omega
              rw [hlen]
              simp only [List.append_assoc]
              simp

/-- non-vacuity of the characterisation: a concrete outer list and reference list -/
example : refsLoop [10, 13] [⟨0, [1]⟩, ⟨10, [2]⟩, ⟨43, []⟩, ⟨13, [3]⟩] = .ok [⟨10, [2]⟩, ⟨13, [3]⟩] := by
  simp [refsLoop, seek]

end ECH
