import EchVerif.Wire
/-
  Model of /repo/client_hello.go, /repo/server_hello.go and the error classes of /repo/tls.go.
  Every Go slice/index expression that can panic is an explicit `.panic` outcome here.
-/
open Wire

namespace TLS

inductive IOErr | eof | fail | closed | timeout
deriving DecidableEq, Repr

/-- error classes: the five sentinel errors of tls.go, everything else (`other`: cryptobyte builder
    errors, HPKE key parsing errors), transport errors, and Go run-time panics. -/
inductive Err
  | unexpected | illegal | decode | missing | decrypt | other
  | io (e : IOErr)
  | panic
deriving DecidableEq, Repr

structure Ext where
  typ : Nat
  data : Bytes
deriving DecidableEq, Repr

structure EchExt where
  typ : Nat := 0
  kdf : Nat := 0
  aead : Nat := 0
  configId : Nat := 0
  enc : Bytes := []
  payload : Bytes := []
deriving DecidableEq, Repr

/-- the fields `parseExtensions` derives from the extension list -/
structure Derived where
  serverName : Bytes := []
  alpn : List Bytes := []
  hasEOE : Bool := false
  tls13 : Bool := false
  ech : Option EchExt := none
deriving DecidableEq, Repr

structure Hello where
  legacyVersion : Nat
  random : Bytes
  sessionId : Bytes
  cipherSuites : Bytes
  compression : Bytes
  exts : List Ext
  d : Derived
  noExt : Bool := false   -- the message has no extensions field at all (legal before TLS 1.3)
deriving DecidableEq, Repr

/-! ### extension list codec -/

def parseExtsF : Nat → Bytes → Option (List Ext)
  | 0, b => if b = [] then some [] else none
  | fuel+1, b =>
    if b = [] then some [] else
    match readU16 b with
    | none => none
    | some (t, r1) =>
      match readLP16 r1 with
      | none => none
      | some (d, r2) =>
        match parseExtsF fuel r2 with
        | none => none
        | some es => some (⟨t, d⟩ :: es)

def parseExts (b : Bytes) : Option (List Ext) := parseExtsF b.length b

/-! ### parseExtensions -/

/-- server_name list loop. State: current ServerName. -/
def sniLoopF : Nat → Bytes → Bytes → Except Err Bytes
  | 0, b, sn => if b = [] then .ok sn else .error .decode
  | fuel+1, b, sn =>
    if b = [] then .ok sn else
    match readU8 b with
    | none => .error .decode
    | some (nt, r1) =>
      if nt ≠ 0 then .error .illegal else
      match readLP16 r1 with
      | none => .error .decode
      | some (hn, r2) =>
        if sn ≠ [] then .error .decode else sniLoopF fuel r2 hn

def alpnLoopF : Nat → Bytes → List Bytes → Except Err (List Bytes)
  | 0, b, acc => if b = [] then .ok acc else .error .decode
  | fuel+1, b, acc =>
    if b = [] then .ok acc else
    match readLP8 b with
    | none => .error .decode
    | some (p, r) => alpnLoopF fuel r (acc ++ [p])

def versionsLoopF : Nat → Bytes → Bool → Except Err Bool
  | 0, b, acc => if b = [] then .ok acc else .error .decode
  | fuel+1, b, acc =>
    if b = [] then .ok acc else
    match readU16 b with
    | none => .error .decode
    | some (v, r) => versionsLoopF fuel r (acc || decide (v ≥ 0x0304))

/-- the body of `case 0xfe0d` -/
def parseEchExt (data : Bytes) : Except Err EchExt :=
  match readU8 data with
  | none => .error .decode
  | some (t, r0) =>
    if t > 1 then .error .illegal else
    if t = 1 then
      if r0 = [] then .ok { typ := 1 } else .error .decode
    else
    match readU16 r0 with
    | none => .error .decode
    | some (kdf, r1) =>
      match readU16 r1 with
      | none => .error .decode
      | some (aead, r2) =>
        match readU8 r2 with
        | none => .error .decode
        | some (cid, r3) =>
          match readLP16 r3 with
          | none => .error .decode
          | some (enc, r4) =>
            match readLP16 r4 with
            | none => .error .decode
            | some (payload, r5) =>
              if r5 = [] then .ok ⟨0, kdf, aead, cid, enc, payload⟩ else .error .decode

def extStep (d : Derived) (e : Ext) : Except Err Derived :=
  if e.typ = 0 then
    match readLP16 e.data with
    | none => .error .decode
    | some (l, _) =>
      match sniLoopF l.length l d.serverName with
      | .error x => .error x
      | .ok sn => .ok { d with serverName := sn }
  else if e.typ = 16 then
    match readLP16 e.data with
    | none => .error .decode
    | some (l, _) =>
      match alpnLoopF l.length l d.alpn with
      | .error x => .error x
      | .ok a => .ok { d with alpn := a }
  else if e.typ = 43 then
    match readLP8 e.data with
    | none => .error .decode
    | some (l, _) =>
      match versionsLoopF l.length l d.tls13 with
      | .error x => .error x
      | .ok t => .ok { d with tls13 := t }
  else if e.typ = 0xfd00 then .ok { d with hasEOE := true }
  else if e.typ = 0xfe0d then
    if d.ech.isSome then .error .illegal else
    match parseEchExt e.data with
    | .error x => .error x
    | .ok x => .ok { d with ech := some x }
  else .ok d

def parseExtensionsFrom : Derived → List Ext → Except Err Derived
  | d, [] => .ok d
  | d, e :: es =>
    match extStep d e with
    | .error x => .error x
    | .ok d' => parseExtensionsFrom d' es

/-- `(*clientHello).parseExtensions` -/
def parseExtensions (es : List Ext) : Except Err Derived := parseExtensionsFrom {} es

/-! ### parseClientHello -/

def allZero (b : Bytes) : Bool := b.all (· == 0)

/-- `parseClientHello(buf)`: buf starts at the handshake header (record[5:]). -/
def parseClientHello (buf : Bytes) : Except Err Hello :=
  match readU8 buf with
  | none => .error .decode
  | some (mt, s0) =>
    if mt ≠ 1 then .error .unexpected else
    match readLP24 s0 with
    | none => .error .decode
    | some (ss, zeros) =>
      match readU16 ss with
      | none => .error .decode
      | some (ver, s1) =>
        match readN 32 s1 with
        | none => .error .decode
        | some (rnd, s2) =>
          match readLP8 s2 with
          | none => .error .decode
          | some (sid, s3) =>
            match readLP16 s3 with
            | none => .error .decode
            | some (cs, s4) =>
              match readLP8 s4 with
              | none => .error .decode
              | some (comp, s5) =>
                if s5 = [] then
                  -- RFC 8446 4.1.2: a hello of an earlier version may end here
                  match parseExtensions [] with
                  | .error x => .error x
                  | .ok d => .ok ⟨ver, rnd, sid, cs, comp, [], d, true⟩
                else
                match readLP16 s5 with
                | none => .error .decode
                | some (extb, s6) =>
                  match parseExts extb with
                  | none => .error .decode
                  | some exts =>
                    match parseExtensions exts with
                    | .error x => .error x
                    | .ok d =>
                      if (d.ech.map (·.typ)) = some 1 ∧ ¬ (allZero s6 ∧ allZero zeros) then .error .illegal
                      else .ok ⟨ver, rnd, sid, cs, comp, exts, d, false⟩

/-! ### marshal / marshalAAD -/

/-- one extension as written by `marshal(aad)`; `none` = builder error, `panic` for the
    `ext.Data[:n]` slice with n < 0. -/
def putExt (aad : Bool) (payloadLen : Nat) (e : Ext) : Except Err Bytes :=
  if aad ∧ e.typ = 0xfe0d then
    if payloadLen > e.data.length then .error .panic else
    match lp16 (e.data.take (e.data.length - payloadLen) ++ List.replicate payloadLen 0) with
    | some b => .ok (u16 e.typ ++ b)
    | none => .error .other
  else
    match lp16 e.data with
    | some b => .ok (u16 e.typ ++ b)
    | none => .error .other

def putExts (aad : Bool) (payloadLen : Nat) : List Ext → Except Err Bytes
  | [] => .ok []
  | e :: es =>
    match putExt aad payloadLen e, putExts aad payloadLen es with
    | .ok a, .ok b => .ok (a ++ b)
    | .error x, _ => .error x
    | _, .error x => .error x

/-- the ClientHello body (inside the handshake header) -/
def marshalBody (aad : Bool) (h : Hello) : Except Err Bytes :=
  let pl := match h.d.ech with | some e => e.payload.length | none => 0
  match putExts aad pl h.exts with
  | .error x => .error x
  | .ok eb =>
    match lp8 h.sessionId, lp16 h.cipherSuites, lp8 h.compression, lp16 eb with
    | some sid, some cs, some comp, some ex =>
      .ok (u16 h.legacyVersion ++ h.random ++ sid ++ cs ++ comp ++ (if h.noExt then [] else ex))
    | _, _, _, _ => .error .other

/-- `(*clientHello).marshal(aad)`: the whole record -/
def marshalRec (aad : Bool) (h : Hello) : Except Err Bytes :=
  match marshalBody aad h with
  | .error x => .error x
  | .ok body =>
    match lp24 body with
    | none => .error .other
    | some m =>
      match lp16 (u8 1 ++ m) with
      | none => .error .other
      | some r => .ok (u8 0x16 ++ u16 h.legacyVersion ++ r)

def Hello.marshal (h : Hello) : Except Err Bytes := marshalRec false h

/-- `marshalAAD`: `m[9:]` -/
def Hello.marshalAAD (h : Hello) : Except Err Bytes :=
  match marshalRec true h with
  | .error x => .error x
  | .ok m => if m.length < 9 then .error .panic else .ok (m.drop 9)

/-! ### ServerHello (only what inspectWrite uses: parse success and the HRR test) -/

def hrrRandom : Bytes :=
  [0xCF, 0x21, 0xAD, 0x74, 0xE5, 0x9A, 0x61, 0x11, 0xBE, 0x1D, 0x8C, 0x02, 0x1E, 0x65, 0xB8, 0x91,
   0xC2, 0xA2, 0x11, 0x16, 0x7A, 0xBB, 0x8C, 0x5E, 0x07, 0x9E, 0x09, 0xE2, 0xC8, 0xA8, 0x33, 0x9C]

/-- `parseServerHello(buf)` reduced to (error | isHelloRetryRequest) -/
def parseServerHello (buf : Bytes) : Except Err Bool :=
  match readU8 buf with
  | none => .error .decode
  | some (mt, s0) =>
    if mt ≠ 2 then .error .unexpected else
    match readN 3 s0 with
    | none => .error .decode
    | some (_, s1) =>
      match readU16 s1 with
      | none => .error .decode
      | some (_, s2) =>
        match readN 32 s2 with
        | none => .error .decode
        | some (rnd, s3) =>
          match readLP8 s3 with
          | none => .error .decode
          | some (_, s4) =>
            match readU16 s4 with
            | none => .error .decode
            | some (_, s5) =>
              match readU8 s5 with
              | none => .error .decode
              | some (_, s6) =>
                match readLP16 s6 with
                | none => .error .decode
                | some (extb, _) =>
                  match parseExts extb with
                  | none => .error .decode
                  | some _ => .ok (rnd == hrrRandom)

end TLS
