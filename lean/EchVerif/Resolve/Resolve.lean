import EchVerif.Resolve.Targets
/-
  Model of `Resolver.Resolve`, `resolveTarget`, `resolveOneNoCache` (/repo/resolve.go) over a
  universe of DNS data. url.Parse / net.SplitHostPort / strconv.ParseUint / net.ParseIP /
  strings.ToLower are Go standard library calls whose results the harness passes in as data.
-/
namespace Resolve

inductive RErr
  | invalidName | format | servfail | nxdomain | notimp | refused
  | rcode        -- any other non-zero response code
  | transport    -- DoH request failed / bad status / undecodable body
deriving Repr, DecidableEq

inductive AData
  | ip (b : Bytes)
  | name (n : Bytes)        -- CNAME / NS / PTR target
  | https (h : HttpsRec)
  | other
deriving Repr, DecidableEq

structure Ans where
  owner : Bytes
  typ : Nat
  ttl : Nat
  data : AData
deriving Repr, DecidableEq

inductive Resp
  | fail                                 -- transport-level failure
  | msg (rcode : Nat) (answers : List Ans)
deriving Repr

/-- the DNS universe: what the DoH server answers for (qname, qtype) -/
abbrev Universe := Bytes → Nat → Resp

def trimDot (s : Bytes) : Bytes := if s.getLast? = some 46 then s.dropLast else s

def rcodeErr (rc : Nat) : RErr :=
  if rc = 1 then .format else if rc = 2 then .servfail else if rc = 3 then .nxdomain
  else if rc = 4 then .notimp else if rc = 5 then .refused else .rcode

/-- the answer-section walk of resolveOneNoCache: follows in-answer CNAMEs for the owner match -/
def walk (qtyp : Nat) : List Ans → Bytes → List AData
  | [], _ => []
  | a :: as, want =>
    let here := if trimDot a.owner = want ∧ a.typ = qtyp then [a.data] else []
    let want' := match a.data with
      | .name n => if trimDot a.owner = want ∧ a.typ = 5 then trimDot n else want
      | _ => want
    here ++ walk qtyp as want'

/-- smallest TTL of the answer section; 300 when the section is empty -/
def minTTL : List Ans → Nat
  | [] => 300
  | [a] => a.ttl
  | a :: as => min a.ttl (minTTL as)

/-- `resolveOneNoCache(name, typ)`: data of the matching records, TTL to cache them for -/
def resolveOneNC (U : Universe) (name : Bytes) (typ : Nat) : Except RErr (List AData × Nat) :=
  -- the question encoder strips one trailing dot: "www.example.com." is asked as "www.example.com"
  match U (trimDot name) typ with
  | .fail => .error .transport
  | .msg rc answers =>
    if rc ≠ 0 then .error (rcodeErr rc)
    else .ok (walk typ answers (trimDot name), minTTL answers)

abbrev Log := List (Bytes × Nat)

def dataIPs : List AData → List IP
  | [] => []
  | .ip b :: r => b :: dataIPs r
  | _ :: r => dataIPs r       -- unreachable for A/AAAA answers (C12_types)

def dataHttps : List AData → List HttpsRec
  | [] => []
  | .https h :: r => h :: dataHttps r
  | _ :: r => dataHttps r

/-- `resolveOne` as seen by Resolve: a lookup that threads some state σ (the query log; for the
    cached resolver also the cache and the clock) -/
abbrev Lookup (σ : Type) := σ → Bytes → Nat → Except RErr (List AData) × σ

/-- uncached lookup: state = upstream query log -/
def lookupNC (U : Universe) : Lookup Log := fun log name typ =>
  match resolveOneNC U name typ with
  | .error e => (.error e, log ++ [(name, typ)])
  | .ok (ds, _) => (.ok ds, log ++ [(name, typ)])

/-- the alias-following loop; `fuel` ≥ 6 suffices (the loop stops when 5 names have been seen) -/
def aliasLoop {σ : Type} (look : Lookup σ) (name : Bytes) : Nat → Bytes → List Bytes → σ → Except (RErr × σ) (Bytes × List HttpsRec × σ)
  | 0, want, _, s => .ok (want, [], s)
  | fuel+1, want, seen, s =>
    if seen.contains want then .ok (name, [], s)                 -- alias loop detected
    else if (want :: seen).length ≥ 5 then .ok (name, [], s)     -- alias chain too long
    else
      match look s want 65 with
      | (.error e, s') =>
        if e = .nxdomain then .ok (want, [], s') else .error (e, s')
      | (.ok ds, s') =>
        match dataHttps ds with
        | [] => .ok (want, [], s')
        | v :: rest =>
          if v.priority = 0 ∧ v.target = [] then .ok (want, [], s')
          else if v.priority = 0 then aliasLoop look name fuel v.target (want :: seen) s'
          else .ok (want, v :: rest, s')

/-- stable insertion sort by priority. sort.Slice is only documented to return a sorted permutation;
    for the at most 12 records of a response Go's pdqsort is this insertion sort. -/
def insertByPrio (h : HttpsRec) : List HttpsRec → List HttpsRec
  | [] => [h]
  | x :: xs => if h.priority ≤ x.priority then h :: x :: xs else x :: insertByPrio h xs

def sortByPrio : List HttpsRec → List HttpsRec
  | [] => []
  | h :: hs => insertByPrio h (sortByPrio hs)

/-- `resolveTarget`: A then AAAA of a service target, unless already present -/
def resolveTarget {σ : Type} (look : Lookup σ) (add : List (Bytes × List IP)) (s : σ) (name : Bytes) : List (Bytes × List IP) × σ :=
  if add.any (·.1 = name) then (add, s) else
  match look s name 1 with
  | (.error _, s1) => (add, s1)
  | (.ok a, s1) =>
    match look s1 name 28 with
    | (.error _, s2) => ((if dataIPs a = [] then add else add ++ [(name, dataIPs a)]), s2)
    | (.ok b, s2) => ((if dataIPs a ++ dataIPs b = [] then add else add ++ [(name, dataIPs a ++ dataIPs b)]), s2)

def targetsLoop {σ : Type} (look : Lookup σ) : List HttpsRec → List (Bytes × List IP) → σ → List (Bytes × List IP) × σ
  | [], add, s => (add, s)
  | h :: hs, add, s =>
    if h.priority ≠ 0 ∧ h.target ≠ [] then
      targetsLoop look hs (resolveTarget look add s h.target).1 (resolveTarget look add s h.target).2
    else targetsLoop look hs add s

/-- what the standard library made of the argument of Resolve -/
structure Parsed where
  scheme : Bytes          -- lower-cased URL scheme, "https" when there is none (http is mapped to https)
  name : Bytes            -- host after url.Parse / SplitHostPort
  port : Nat              -- 443 unless a port > 0 was given
  isLocalhost : Bool
  ip : Option Bytes       -- net.ParseIP(name), 4-byte form for IPv4
deriving Repr

def labelsOk (name : Bytes) : Bool :=
  name.length ≤ 255 ∧ (name.splitOn 46).all (·.length ≤ 63)

def decimal (n : Nat) : Bytes := (toString n).toUTF8.toList

/-- RFC 9460 2.3 query name as the package builds it -/
def svcbName (p : Parsed) : Bytes :=
  if p.port ≠ 80 ∧ p.port ≠ 443 then [95] ++ decimal p.port ++ [46, 95] ++ p.scheme ++ [46] ++ p.name
  else if p.scheme ≠ "https".toUTF8.toList then [95] ++ p.scheme ++ [46] ++ p.name
  else p.name

structure ROut (σ : Type) where
  result : Result
  err : Option RErr
  s : σ

def resolveWith {σ : Type} (look : Lookup σ) (s0 : σ) (p : Parsed) : ROut σ :=
  if p.isLocalhost then ⟨{ port := p.port, address := [[127, 0, 0, 1], [0, 0, 0, 0, 0, 0, 0, 0, 0, 0, 0, 0, 0, 0, 0, 1]] }, none, s0⟩ else
  match p.ip with
  | some ip => ⟨{ port := p.port, address := [ip] }, none, s0⟩
  | none =>
    if ¬ labelsOk p.name then ⟨{ port := p.port }, some .invalidName, s0⟩ else
    if ¬ labelsOk (svcbName p) then ⟨{ port := p.port }, some .invalidName, s0⟩ else
    match aliasLoop look p.name 6 (svcbName p) [] s0 with
    | .error (e, s1) => ⟨{ port := p.port }, some e, s1⟩
    | .ok (want, https, s1) =>
      match targetsLoop look (sortByPrio https) [] s1 with
      | (add, s2) =>
        match look s2 (if want = svcbName p then p.name else want) 1 with
        | (.error e, s3) => ⟨{ port := p.port, https := sortByPrio https, additional := add }, some e, s3⟩
        | (.ok a, s3) =>
          match look s3 (if want = svcbName p then p.name else want) 28 with
          | (.error e, s4) => ⟨{ port := p.port, https := sortByPrio https, additional := add, address := dataIPs a }, some e, s4⟩
          | (.ok b, s4) => ⟨{ port := p.port, https := sortByPrio https, additional := add, address := dataIPs a ++ dataIPs b }, none, s4⟩

/-- Resolve without a cache: state = upstream query log -/
def resolve (U : Universe) (p : Parsed) : ROut Log := resolveWith (lookupNC U) [] p

/-! ### the cache (`resolveOne`) -/

structure CEntry where
  name : Bytes
  typ : Nat
  expiry : Nat          -- seconds on the injected clock
  res : List AData
  fetchedAt : Nat       -- ghost: when the response this entry came from was fetched
  ttl : Nat             -- ghost: the smallest TTL of that response (300 when it had no record)
deriving Repr

/-- cache + clock + upstream query log (with the time of each upstream query) -/
structure CState where
  entries : List CEntry := []
  now : Nat := 0
  upstream : List (Bytes × Nat × Nat) := []     -- (name, type, time)
deriving Repr

def CState.find (c : CState) (name : Bytes) (typ : Nat) : Option CEntry :=
  c.entries.find? (fun e => e.name = name ∧ e.typ = typ)

def CState.without (c : CState) (name : Bytes) (typ : Nat) : List CEntry :=
  c.entries.filter (fun e => ¬ (e.name = name ∧ e.typ = typ))

/-- `resolveOne(name, typ)` with the cache enabled, at time `c.now`, against universe U -/
def lookupCached (U : Universe) : Lookup CState := fun c name typ =>
  match c.find name typ with
  | some e =>
    if c.now < e.expiry then (.ok e.res, c)
    else
      match resolveOneNC U name typ with
      | .error err => (.error err, { c with entries := c.without name typ, upstream := c.upstream ++ [(name, typ, c.now)] })
      | .ok (ds, ttl) => (.ok ds, { c with entries := c.without name typ ++ [⟨name, typ, c.now + ttl, ds, c.now, ttl⟩], upstream := c.upstream ++ [(name, typ, c.now)] })
  | none =>
    match resolveOneNC U name typ with
    | .error err => (.error err, { c with upstream := c.upstream ++ [(name, typ, c.now)] })
    | .ok (ds, ttl) => (.ok ds, { c with entries := c.entries ++ [⟨name, typ, c.now + ttl, ds, c.now, ttl⟩], upstream := c.upstream ++ [(name, typ, c.now)] })

end Resolve
