/-
  Fine-grained model of `(*Resolver).resolveOne` (/repo/resolve.go) for ONE cache key, any number of
  goroutines: the fast path (snapshot of expiration and result under the entry's read lock, the
  clock read after the lock is released), the slow path (write lock, re-check, upstream query
  while the lock is held, store, unlock), removal of the key on failure, eviction, and two
  goroutines that both miss in the 2Q cache and each add their own entry object.

  Every line below is one atomic step of one goroutine or of the environment; a schedule is any
  list of labels. Results carry the (ghost) fetch they came from.
-/
namespace CacheLts

/-- one upstream response: when it was received, its smallest TTL, and what it said -/
structure Fetch where
  rcvd : Nat
  ttl : Nat
  val : Nat
deriving DecidableEq, Repr

/-- a `*cacheValue` -/
structure Obj where
  exp : Option Nat := none          -- `expiration` (none = the zero time)
  res : Option Fetch := none        -- `result` (none = nil)
  holder : Option Nat := none       -- which goroutine holds `mu` for writing
deriving DecidableEq, Repr

inductive Pc
  | idle
  | adding                                   -- cache.Get missed; about to cache.Add a new entry
  | got (o : Nat)                            -- has its *cacheValue
  | snap (o : Nat) (exp : Option Nat) (res : Option Fetch)   -- fast path: copied both under RLock
  | want (o : Nat) (snapRes : Option Fetch)  -- blocked in v.mu.Lock(); still has its local copy `res`
  | locked (o : Nat) (snapRes : Option Fetch) -- holds the lock; about to re-check
  | fetching (o : Nat)                       -- upstream query in flight, lock held
  | done (r : Option Fetch) (τ : Nat) (own : Bool)   -- returned r; ghost: the clock reading that justified it
  | failed
deriving DecidableEq, Repr

structure Th where
  pc : Pc := .idle
  startedAt : Nat := 0
deriving DecidableEq, Repr

structure St where
  now : Nat := 0
  objs : Nat → Obj := fun _ => {}
  nObjs : Nat := 0                  -- objects 0 .. nObjs-1 have been allocated
  cur : Option Nat := none          -- the object the 2Q cache maps the key to
  ths : Nat → Th := fun _ => {}

def St.setTh (s : St) (t : Nat) (th : Th) : St := { s with ths := fun i => if i = t then th else s.ths i }
def St.setObj (s : St) (o : Nat) (ob : Obj) : St := { s with objs := fun i => if i = o then ob else s.objs i }

inductive Label
  | tick (d : Nat)                    -- the clock advances
  | evict                             -- the 2Q cache drops the key
  | call (t : Nat)                    -- resolveOne starts: cache.Get
  | add (t : Nat)                     -- cache.Add(key, &cacheValue{})
  | snapshot (t : Nat)                -- RLock; exp, res := v.expiration, v.result; RUnlock
  | fastCheck (t : Nat)               -- !exp.IsZero() && timeNow().Before(exp)
  | acquire (t : Nat)                 -- v.mu.Lock() succeeds
  | recheck (t : Nat)                 -- the same test on v.expiration, under the lock
  | fetchOk (t : Nat) (val ttl : Nat) -- upstream answered; expiration, result stored; unlock; return
  | fetchErr (t : Nat)                -- upstream failed; cache.Remove(key); unlock; return the error

def fresh (exp : Option Nat) (now : Nat) : Bool :=
  match exp with
  | some e => decide (now < e)
  | none => false

/-- `stale = false` is the code as it is. `stale = true` is a variant kept for comparison: the
    re-check under the lock returns the goroutine's own earlier copy `res` instead of `v.result`. -/
def step (stale : Bool) (s : St) : Label → Option St
  | .tick d => some { s with now := s.now + d }
  | .evict => some { s with cur := none }
  | .call t =>
    match (s.ths t).pc with
    | .idle | .done _ _ _ | .failed =>
      match s.cur with
      | some o => some (s.setTh t ⟨.got o, s.now⟩)
      | none => some (s.setTh t ⟨.adding, s.now⟩)
    | _ => none
  | .add t =>
    match (s.ths t).pc with
    | .adding =>
      some { s.setTh t ⟨.got s.nObjs, (s.ths t).startedAt⟩ with nObjs := s.nObjs + 1, cur := some s.nObjs }
    | _ => none
  | .snapshot t =>
    match (s.ths t).pc with
    | .got o =>
      if (s.objs o).holder = none then
        some (s.setTh t ⟨.snap o (s.objs o).exp (s.objs o).res, (s.ths t).startedAt⟩)
      else none
    | _ => none
  | .fastCheck t =>
    match (s.ths t).pc with
    | .snap o exp res =>
      if fresh exp s.now then some (s.setTh t ⟨.done res s.now false, (s.ths t).startedAt⟩)
      else some (s.setTh t ⟨.want o res, (s.ths t).startedAt⟩)
    | _ => none
  | .acquire t =>
    match (s.ths t).pc with
    | .want o sr =>
      if (s.objs o).holder = none then
        some ((s.setTh t ⟨.locked o sr, (s.ths t).startedAt⟩).setObj o { s.objs o with holder := some t })
      else none
    | _ => none
  | .recheck t =>
    match (s.ths t).pc with
    | .locked o sr =>
      if fresh (s.objs o).exp s.now then
        some ((s.setTh t ⟨.done (if stale then sr else (s.objs o).res) s.now false, (s.ths t).startedAt⟩).setObj o
                { s.objs o with holder := none })
      else some (s.setTh t ⟨.fetching o, (s.ths t).startedAt⟩)
    | _ => none
  | .fetchOk t val ttl =>
    match (s.ths t).pc with
    | .fetching o =>
      some ((s.setTh t ⟨.done (some ⟨s.now, ttl, val⟩) s.now true, (s.ths t).startedAt⟩).setObj o
              ⟨some (s.now + ttl), some ⟨s.now, ttl, val⟩, none⟩)
    | _ => none
  | .fetchErr t =>
    match (s.ths t).pc with
    | .fetching o =>
      some { (s.setTh t ⟨.failed, (s.ths t).startedAt⟩).setObj o { s.objs o with holder := none } with
             cur := none }
    | _ => none

def run (stale : Bool) : St → List Label → Option St
  | s, [] => some s
  | s, l :: ls => match step stale s l with
    | none => none
    | some s' => run stale s' ls

def init : St := {}

/-- what an observer of one call can check from outside: the response the answer came from arrived
    during the call, or the call started before that response had outlived its TTL -/
def answerFresh (startedAt : Nat) (f : Fetch) : Bool :=
  decide (startedAt ≤ f.rcvd) || decide (startedAt < f.rcvd + f.ttl)

end CacheLts
