import EchVerif.Wire
/-
  Model of `ResolveResult.Targets(network)` (/repo/resolve.go) and its declarative specification.
-/
namespace Resolve

abbrev IP := Bytes

structure HttpsRec where
  priority : Nat := 0
  target : Bytes := []            -- "" = the owner name itself
  alpn : List Bytes := []
  noDefaultALPN : Bool := false
  port : Nat := 0
  v4 : List IP := []
  v6 : List IP := []
  ech : Option Bytes := none      -- nil vs. a (possibly empty) byte string
deriving Repr, DecidableEq

structure Result where
  port : Nat := 443
  address : List IP := []
  https : List HttpsRec := []
  additional : List (Bytes × List IP) := []   -- map[string][]net.IP, keys pairwise distinct
deriving Repr, DecidableEq

structure Target where
  ip : IP
  port : Nat
  ech : Option Bytes
  alpn : List Bytes
deriving Repr, DecidableEq

inductive Network | tcp | tcp4 | tcp6 | udp | udp4 | udp6
deriving Repr, DecidableEq

/-- the `address` closure: is this IP usable on the network -/
def familyOk (net : Network) (ip : IP) : Bool :=
  match net with
  | .tcp4 | .udp4 => ip.length = 4
  | .tcp6 | .udp6 => ip.length = 16
  | _ => ip.length = 4 ∨ ip.length = 16

def lookup (m : List (Bytes × List IP)) (k : Bytes) : List IP :=
  match m.find? (·.1 = k) with
  | some (_, v) => v
  | none => []

def http11 : Bytes := "http/1.1".toUTF8.toList

/-- port used by a service record -/
def recPort (r : Result) (h : HttpsRec) : Nat :=
  if h.port > 0 then h.port else if r.port = 80 then 443 else r.port

def recAlpn (h : HttpsRec) : List Bytes := if h.noDefaultALPN then h.alpn else h.alpn ++ [http11]

/-- addresses a service record contributes, in order -/
def recAddrs (r : Result) (h : HttpsRec) : List IP :=
  if h.target ≠ [] then lookup r.additional h.target
  else if r.address ≠ [] then r.address
  else h.v4 ++ h.v6

/-- the `add` closure: state = targets emitted so far (the `seen` map is their address/port set) -/
def effPort (r : Result) (port : Nat) : Nat := if port = 0 then r.port else port

def add (net : Network) (r : Result) (acc : List Target) (ip : IP) (port : Nat) (ech : Option Bytes) (alpn : List Bytes) : List Target :=
  if ¬ familyOk net ip then acc
  else if acc.any (fun t => t.ip = ip ∧ t.port = effPort r port) then acc
  else acc ++ [⟨ip, effPort r port, ech, alpn⟩]

def addAll (net : Network) (r : Result) (acc : List Target) (ips : List IP) (port : Nat) (ech : Option Bytes) (alpn : List Bytes) : List Target :=
  ips.foldl (fun a ip => add net r a ip port ech alpn) acc

def httpsLoop (net : Network) (r : Result) : List HttpsRec → List Target → List Target
  | [], acc => acc
  | h :: hs, acc =>
    if h.priority = 0 then httpsLoop net r hs acc
    else httpsLoop net r hs (addAll net r acc (recAddrs r h) (recPort r h) h.ech (recAlpn h))

/-- all targets the iterator yields when never stopped -/
def targets (r : Result) (net : Network) : List Target :=
  if httpsLoop net r r.https [] ≠ [] then httpsLoop net r r.https []
  else addAll net r [] r.address r.port none []

/-- stopping the iteration after k targets -/
def targetsUpTo (r : Result) (net : Network) (k : Nat) : List Target := (targets r net).take k

/-! ### declarative specification -/

/-- candidates in preference order, before family filtering and de-duplication -/
def candidates (r : Result) : List Target :=
  (r.https.filter (·.priority ≠ 0)).flatMap fun h =>
    (recAddrs r h).map fun ip => ⟨ip, effPort r (recPort r h), h.ech, recAlpn h⟩

/-- keep the first occurrence of each address/port pair -/
def dedup : List Target → List Target → List Target
  | [], acc => acc
  | t :: ts, acc => if acc.any (fun x => x.ip = t.ip ∧ x.port = t.port) then dedup ts acc else dedup ts (acc ++ [t])

def svcTargets (r : Result) (net : Network) : List Target :=
  dedup ((candidates r).filter (fun t => familyOk net t.ip)) []

def plainTargets (r : Result) (net : Network) : List Target :=
  dedup ((r.address.map fun ip => (⟨ip, effPort r r.port, none, []⟩ : Target)).filter (fun t => familyOk net t.ip)) []

def TargetsSpec (r : Result) (net : Network) : List Target :=
  if svcTargets r net ≠ [] then svcTargets r net else plainTargets r net

/-! ### Go slice semantics for the `append(h.ALPN, "http/1.1")` expression -/

/-- a Go slice: backing array and length (capacity = array length) -/
structure Slice where
  arr : List Bytes
  len : Nat
deriving Repr, DecidableEq

/-- `append(s, x)`: result slice and the index written in the SHARED backing array, if any -/
def goAppend (s : Slice) (x : Bytes) : Slice × Option Nat :=
  if s.len < s.arr.length then (⟨s.arr.set s.len x, s.len + 1⟩, some s.len)
  else (⟨s.arr.take s.len ++ [x], s.len + 1⟩, none)

/-- `slices.Clip(s)`: capacity reduced to the length -/
def goClip (s : Slice) : Slice := ⟨s.arr.take s.len, min s.len s.arr.length⟩

end Resolve
