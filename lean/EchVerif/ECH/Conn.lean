import EchVerif.TLS.Hello
import EchVerif.ECH.Config
/-
  Model of /repo/ech.go: NewConn, handleClientHello, processEncryptedClientHello, Conn.Read,
  Conn.Write, inspectWrite, and of readRecord / convertErrorsToAlerts / sendAlert (tls.go),
  over a scripted transport and an ideal HPKE.
-/
open Wire TLS

namespace ECH

/-! ### ideal HPKE
  A decryption succeeds iff exactly that seal was performed: `seals` lists the seals that exist in
  the world (recipient key material, suite, info, encapsulated key, sequence number, aad,
  ciphertext ↦ plaintext).  `privOk` / `setupOk` record for which inputs key parsing and
  SetupRecipient succeed (KEM/KDF/AEAD support, X25519 decapsulation). -/
structure Seal where
  priv : Bytes
  kem : Nat
  kdf : Nat
  aead : Nat
  info : Bytes
  enc : Bytes
  seq : Nat
  aad : Bytes
  ct : Bytes
  pt : Bytes
deriving DecidableEq, Repr

structure Hpke where
  privOk : List (Nat × Bytes) := []                        -- (kem, private key)
  setupOk : List (Bytes × Nat × Nat × Nat × Bytes) := []   -- (private key, kem, kdf, aead, enc)
  seals : List Seal := []
deriving Repr

/-- receiver context (`hpke.Receipient`): which key/suite/info/enc it was set up with + seqNum -/
structure Ctx where
  priv : Bytes
  kem : Nat
  kdf : Nat
  aead : Nat
  info : Bytes
  enc : Bytes
  seq : Nat
deriving DecidableEq, Repr

def Hpke.open (H : Hpke) (c : Ctx) (aad ct : Bytes) : Option Bytes :=
  (H.seals.find? fun s => s.priv = c.priv ∧ s.kem = c.kem ∧ s.kdf = c.kdf ∧ s.aead = c.aead ∧
      s.info = c.info ∧ s.enc = c.enc ∧ s.seq = c.seq ∧ s.aad = aad ∧ s.ct = ct).map (·.pt)

structure Key where
  config : Bytes
  priv : Bytes
deriving DecidableEq, Repr

/-! ### scripted transport (the `net.Conn` handed to NewConn) -/
structure Tr where
  chunks : List Bytes        -- client → server bytes, as the kernel will hand them out
  fin : IOErr                -- what Read returns once the chunks are exhausted
  out : Bytes := []          -- bytes written towards the client so far
  closed : Bool := false
deriving Repr

def Tr.stream (t : Tr) : Bytes := t.chunks.flatten

/-- one `conn.Read(buf)` with `len(buf) = k`, `k > 0` -/
def Tr.read1 (k : Nat) (t : Tr) : Bytes × Option IOErr × Tr :=
  if t.closed then ([], some .closed, t) else
  match t.chunks with
  | [] => ([], some t.fin, t)
  | c :: cs =>
    if c.length ≤ k then (c, none, { t with chunks := cs })
    else (c.take k, none, { t with chunks := c.drop k :: cs })

/-- `io.ReadFull(conn, buf[:k])` with the ErrUnexpectedEOF ↦ EOF mapping of readRecord folded in.
    Fuel bounds the loop (chunks are non-empty, so `chunks.length + 1` suffices). -/
def Tr.readFull : Nat → Nat → Tr → Bytes × Option IOErr × Tr
  | _, 0, t => ([], none, t)
  | 0, _, t => ([], some .fail, t)
  | fuel+1, k+1, t =>
    match t.read1 (k+1) with
    | (d, some e, t') => (d, some e, t')
    | (d, none, t') =>
      let (d2, e, t'') := Tr.readFull fuel (k + 1 - d.length) t'
      (d ++ d2, e, t'')

def Tr.write (b : Bytes) (t : Tr) : Nat × Option IOErr × Tr :=
  if t.closed then (0, some .closed, t) else (b.length, none, { t with out := t.out ++ b })

def Tr.close (t : Tr) : Tr := { t with closed := true }

/-! ### tls.go -/

/-- the largest record length accepted while the handshake is inspected (RFC 8446 5.2) -/
def maxRecordLength : Nat := 16384 + 256

def recLen (hdr : Bytes) : Nat :=
  match hdr with
  | _ :: _ :: _ :: a :: b :: _ => a.toNat * 256 + b.toNat
  | _ => 0

/-- `readRecord(conn)`: bytes read so far, error, transport -/
def readRecord (t : Tr) : Bytes × Option Err × Tr :=
  match Tr.readFull (t.chunks.length + 1) 5 t with
  | (h, some e, t') => (h, some (.io e), t')
  | (h, none, t') =>
    if recLen h > maxRecordLength then (h, some .decode, t')
    else
      match Tr.readFull (t'.chunks.length + 1) (recLen h) t' with
      | (b, some e, t'') => (h ++ b, some (.io e), t'')
      | (b, none, t'') => (h ++ b, none, t'')

def alertCode : Err → Nat
  | .unexpected => 10
  | .illegal => 47
  | .decode => 50
  | .decrypt => 51
  | .missing => 109
  | _ => 40

def alertRecord (e : Err) : Bytes := [0x15, 0x03, 0x03, 0x00, 0x02, 0x02, UInt8.ofNat (alertCode e)]

/-! ### connection state -/
structure St where
  keys : List Key := []
  outer : Option Hello := none
  inner : Option Hello := none
  ctx : Option Ctx := none
  ctxConfig : Bytes := []
  readBuf : Bytes := []
  readErr : Option Err := none
  writeBuf : Bytes := []
  retry : Nat := 0
  readPT : Bool := false
  writePT : Bool := false
deriving Repr

/-- `sendAlert(conn, 2, code)` on the raw transport: write (result ignored) then Close -/
def alertRaw (e : Err) (t : Tr) : Tr := ((t.write (alertRecord e)).2.2).close

/-! ### processEncryptedClientHello -/

/-- Appendix B loop over the `want` list: cursor into the outer extensions. -/
def refsLoopF : Nat → Bytes → List Ext → Except Err (List Ext)
  | 0, want, _ => if want = [] then .ok [] else .error .decode
  | fuel+1, want, outer =>
    if want = [] then .ok [] else
    match readU16 want with
    | none => .error .decode
    | some (t, rest) =>
      if t = 0xfe0d ∨ t = 0xfd00 then .error .illegal else
      match outer.dropWhile (fun e => e.typ ≠ t) with
      | [] => .error .illegal
      | e :: outer' =>
        match refsLoopF fuel rest outer' with
        | .error x => .error x
        | .ok es => .ok (e :: es)

/-- the loop over the inner extensions replacing the ech_outer_extensions marker -/
def expandExts (outer : List Ext) : List Ext → Bool → Except Err (List Ext)
  | [], _ => .ok []
  | e :: es, seen =>
    if e.typ ≠ 0xfd00 then
      match expandExts outer es seen with
      | .error x => .error x
      | .ok r => .ok (e :: r)
    else if seen then .error .illegal
    else
      match readLP8 e.data with
      | none => .error .decode
      | some (want, _) =>
        match refsLoopF want.length want outer with
        | .error x => .error x
        | .ok block =>
          match expandExts outer es true with
          | .error x => .error x
          | .ok r => .ok (block ++ r)

/-- everything after a successful HPKE open: decode EncodedClientHelloInner -/
def decodeInner (outer : Hello) (innerBytes : Bytes) : Except Err Hello :=
  match lp24 innerBytes with
  | none => .error .other
  | some m =>
    match parseClientHello (u8 1 ++ m) with
    | .error x => .error x
    | .ok inner =>
      if (inner.d.ech.map (·.typ)) ≠ some 1 then .error .illegal else
      match expandExts outer.exts inner.exts false with
      | .error x => .error x
      | .ok newExt =>
        match parseExtensions newExt with
        | .error x => .error x
        | .ok d =>
          if ¬ d.tls13 then .error .illegal
          else .ok { inner with sessionId := outer.sessionId, exts := newExt, d := d }

inductive KeyTry
  | next                      -- `continue`
  | fail (e : Err)            -- `return nil, err`
  | opened (pt : Bytes) (c : Ctx) (cfg : Bytes)

/-- the receiver context a candidate key would use: the stored one (retry) or a fresh one -/
def candCtx (H : Hpke) (st : St) (ech : EchExt) (k : Key) (cfg : ConfigSpec) : Except KeyTry Ctx :=
  match st.ctx with
  | some c => .ok c
  | none =>
    if ech.enc.length > 0 then
      if ¬ H.privOk.contains (cfg.kem, k.priv) then .error (.fail .other)
      else if ¬ H.setupOk.contains (k.priv, cfg.kem, ech.kdf, ech.aead, ech.enc) then .error .next
      else .ok ⟨k.priv, cfg.kem, ech.kdf, ech.aead, "tls ech\x00".toUTF8.toList ++ k.config, ech.enc, 0⟩
    else .error (.fail .illegal)

/-- one iteration of the key loop -/
def tryKey (H : Hpke) (st : St) (h : Hello) (ech : EchExt) (k : Key) : KeyTry :=
  match configSpec k.config with
  | none => .next
  | some cfg =>
    if cfg.id ≠ ech.configId ∨ ¬ cfg.suites.any (fun s => s.kdf = ech.kdf ∧ s.aead = ech.aead) then .next else
    if st.ctx.isSome ∧ st.ctxConfig ≠ k.config then .next else
    match candCtx H st ech k cfg with
    | .error r => r
    | .ok c =>
      match h.marshalAAD with
      | .error x => .fail x
      | .ok aad =>
        match H.open c aad ech.payload with
        | none => .next
        | some pt =>
          if cfg.publicName ≠ h.d.serverName then .fail .illegal
          else .opened pt { c with seq := c.seq + 1 } k.config

def keyLoop (H : Hpke) (st : St) (h : Hello) (ech : EchExt) : List Key → KeyTry
  | [] => .next
  | k :: ks =>
    match tryKey H st h ech k with
    | .next => keyLoop H st h ech ks
    | r => r

/-- the extra checks of section 7.1.1 on a retried ClientHelloOuter -/
def retryPre (st : St) (h : Hello) : Except Err Unit :=
  match h.d.ech, st.outer.bind (·.d.ech) with
  | none, _ => .error .missing
  | some e, some o =>
    if o.configId ≠ e.configId ∨ o.kdf ≠ e.kdf ∨ o.aead ≠ e.aead ∨ e.enc.length > 0 then .error .illegal else .ok ()
  | some _, none => .error .panic     -- c.outer.echExt nil dereference

def processCore (H : Hpke) (st : St) (h : Hello) (isRetry : Bool) : Except Err (Option Hello × St) :=
  match h.d.ech with
  | none => .ok (none, st)
  | some ech =>
    if ¬ h.d.tls13 ∨ st.keys.isEmpty then .ok (none, st) else
    match keyLoop H st h ech st.keys with
    | .fail x => .error x
    | .next => if isRetry then .error .decrypt else .ok (none, st)
    | .opened pt c cfg =>
      match decodeInner h pt with
      | .error x => .error x
      | .ok inner => .ok (some inner, { st with ctx := some c, ctxConfig := cfg })

/-- `processEncryptedClientHello(h, isRetry)`; `ok none` covers both `nil, nil` and errNoMatch -/
def process (H : Hpke) (st : St) (h : Hello) (isRetry : Bool) : Except Err (Option Hello × St) :=
  if isRetry then
    match retryPre st h with
    | .error x => .error x
    | .ok () => processCore H st h true
  else processCore H st h false

/-- the `if isRetry { … mismatch … }` check of handleClientHello -/
def retryCheck (st : St) (inner : Option Hello) : Except Err Unit :=
  match inner, st.inner with
  | some i, some ci =>
    if i.d.ech.isNone ∨ ci.d.serverName ≠ i.d.serverName ∨ ci.d.alpn ≠ i.d.alpn then .error .illegal else .ok ()
  | none, _ => .error .illegal
  | some _, none => .error .panic  -- c.inner nil dereference

/-- `handleClientHello(record, isRetry)` -/
def handle (H : Hpke) (st : St) (record : Bytes) (isRetry : Bool) :
    Except Err (Hello × Option Hello × St) :=
  match parseClientHello (record.drop 5) with
  | .error x => .error x
  | .ok outer =>
    if outer.d.hasEOE then .error .illegal else
    if ¬ st.keys.isEmpty ∧ (outer.d.ech.map (·.typ)) = some 1 then .error .illegal else
    match process H st outer isRetry with
    | .error x => .error x
    | .ok (inner, st') =>
      if isRetry then
        match retryCheck st inner with
        | .error x => .error x
        | .ok () => .ok (outer, inner, st')
      else .ok (outer, inner, st')

/-! ### NewConn -/
structure NewResult where
  err : Option Err
  st : St
  tr : Tr
deriving Repr

def failNew (e : Err) (st : St) (t : Tr) : NewResult := ⟨some e, st, alertRaw e t⟩

/-- the state NewConn builds after a successful handleClientHello -/
def afterHello (st1 : St) (outer : Hello) (inner : Option Hello) : St :=
  { st1 with outer := some outer, inner := inner, readPT := inner.isNone, writePT := inner.isNone }

def firstMarshal (outer : Hello) (inner : Option Hello) : Except Err Bytes :=
  match inner with
  | some i => i.marshal
  | none => outer.marshal

def newConn (H : Hpke) (keys : List Key) (t : Tr) : NewResult :=
  match readRecord t with
  | (_, some e, t1) => failNew e {} t1
  | (record, none, t1) =>
    if record.head? ≠ some 22 then failNew .unexpected {} t1 else
    match handle H { keys := keys } record false with
    | .error e => failNew e { keys := keys } t1
    | .ok (outer, inner, st1) =>
      match firstMarshal outer inner with
      | .error e => failNew e (afterHello st1 outer inner) t1
      | .ok buf => ⟨none, { afterHello st1 outer inner with readBuf := buf }, t1⟩

def St.accepted (st : St) : Bool := st.inner.isSome
def St.presented (st : St) : Bool := (st.outer.bind (·.d.ech)).any (·.typ = 0)
def St.serverName (st : St) : Bytes :=
  match st.inner, st.outer with
  | some i, _ => i.d.serverName
  | none, some o => o.d.serverName
  | none, none => []
def St.alpn (st : St) : List Bytes :=
  match st.inner, st.outer with
  | some i, _ => i.d.alpn
  | none, some o => o.d.alpn
  | none, none => []

/-! ### Conn.Write / inspectWrite -/

/-- handshake message type of a record (0 for an empty record) -/
def msgTypeOf (record : Bytes) : Option UInt8 := if record.length > 5 then record[5]? else some 0

def inspectWrite (st : St) (record : Bytes) : Except Err St :=
  if record.head? = some 23 then .ok { st with writePT := true }
  else if record.head? = some 22 ∧ msgTypeOf record = some 2 then
    match parseServerHello (record.drop 5) with
    | .error _ => .error .decode
    | .ok hrr => if hrr then .ok { st with writePT := true, retry := st.retry + 1 } else .ok st
  else .ok st

structure WriteResult where
  n : Nat
  err : Option Err
  st : St
  tr : Tr
deriving Repr

/-- the `for len(c.writeBuf) >= 5` loop; `blen = len(b)` -/
def writeLoop : Nat → Nat → St → Tr → WriteResult
  | 0, blen, st, t => ⟨blen, none, st, t⟩
  | fuel+1, blen, st, t =>
    if st.writeBuf.length < 5 then ⟨blen, none, st, t⟩ else
    if recLen st.writeBuf > maxRecordLength then ⟨0, some .decode, st, t⟩ else
    if recLen st.writeBuf + 5 > st.writeBuf.length then ⟨blen, none, st, t⟩ else
    match inspectWrite st (st.writeBuf.take (recLen st.writeBuf + 5)) with
    | .error e => ⟨0, some e, st, t⟩
    | .ok st1 =>
      match t.write (st1.writeBuf.take (recLen st.writeBuf + 5)) with
      | (n, some e, t1) => ⟨min blen n, some (.io e), { st1 with writeBuf := st1.writeBuf.drop n }, t1⟩
      | (n, none, t1) => writeLoop fuel blen { st1 with writeBuf := st1.writeBuf.drop n } t1

def connWrite (st : St) (t : Tr) (b : Bytes) : WriteResult :=
  if st.writePT ∧ st.writeBuf = [] then
    match t.write b with
    | (n, e, t1) => ⟨n, e.map .io, st, t1⟩
  else
    writeLoop ((st.writeBuf ++ b).length + 1) b.length { st with writeBuf := st.writeBuf ++ b } t

/-- `convertErrorsToAlerts(c.Conn, err)` in Conn.Read: the alert is written to the embedded
    transport directly (not through Conn.Write, whose buffer belongs to the writing goroutine),
    then the transport is closed; the Conn's own state is untouched -/
def alertViaConn (e : Err) (st : St) (t : Tr) : St × Tr := (st, alertRaw e t)

/-! ### Conn.Read -/
structure ReadResult where
  data : Bytes
  err : Option Err
  st : St
  tr : Tr
deriving Repr

/-- the tail of Conn.Read: hand out buffered bytes, else the stored error, else the transport -/
def deliver (n : Nat) (st : St) (t : Tr) : ReadResult :=
  if st.readBuf ≠ [] then
    ⟨st.readBuf.take n, if st.readBuf.drop n = [] then st.readErr else none, { st with readBuf := st.readBuf.drop n }, t⟩
  else
    match st.readErr with
    | some e => ⟨[], some e, st, t⟩
    | none =>
      match t.read1 n with
      | (d, e, t') => ⟨d, e.map .io, st, t'⟩

/-- a retried ClientHello record `r` met while `retry = 1` -/
def readRetry (H : Hpke) (n : Nat) (st : St) (t1 : Tr) (r : Bytes) : ReadResult :=
  match handle H { st with readPT := true } r true with
  | .error e =>
    ⟨[], some e, (alertViaConn e { st with readPT := true, readErr := some e } t1).1,
                 (alertViaConn e { st with readPT := true, readErr := some e } t1).2⟩
  | .ok (_, inner, st2) =>
    match inner with
    | none => ⟨[], some .panic, st2, t1⟩     -- unreachable: handle(retry) never returns a nil inner
    | some i =>
      match i.marshal with
      | .error e => deliver n { st2 with readErr := some e, readBuf := [] } t1
      | .ok buf => deliver n { st2 with readBuf := buf } t1

def isRetryHello (st : St) (r : Bytes) : Bool :=
  r.head? = some 22 ∧ r.length > 5 ∧ r[5]? = some 1 ∧ st.retry = 1

def connRead (H : Hpke) (st : St) (t : Tr) (n : Nat) : ReadResult :=
  if ¬ st.readPT ∧ st.readBuf = [] ∧ st.readErr.isNone then
    match readRecord t with
    | (r, some e, t1) => deliver n { st with readErr := some e, readBuf := r } t1
    | (r, none, t1) =>
      if r.head? = some 23 then deliver n { st with readPT := true, readBuf := r } t1
      else if isRetryHello st r then readRetry H n st t1 r
      else deliver n { st with readBuf := r } t1
  else deliver n st t

end ECH
