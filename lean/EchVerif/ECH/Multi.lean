import EchVerif.ECH.Ops
/-
  A process serving several connections: one `Sys` (Conn state + transport) per connection id, and an
  arbitrary interleaving of operations, each addressed to one connection. The model has no state shared
  between connections (the code has none either: no package-level variable of `ech.go`, `tls.go`,
  `client_hello.go` is written after initialisation) - `Lemmas`/`Props` prove that an interleaved run then
  decomposes into independent single-connection runs, which is what the harness's interleaved-sessions
  stream compares the implementation with.
-/
open Wire TLS
namespace ECH

abbrev Multi := Nat → Sys

def Multi.set (m : Multi) (i : Nat) (s : Sys) : Multi := fun j => if j = i then s else m j

/-- one operation of the interleaving: on connection `i`, `op` -/
def mstep (H : Hpke) (m : Multi) (x : Nat × Op) : Multi × (Nat × Obs) :=
  (m.set x.1 (stepOp H (m x.1) x.2).1, (x.1, (stepOp H (m x.1) x.2).2))

def mrun (H : Hpke) : Multi → List (Nat × Op) → Multi × List (Nat × Obs)
  | m, [] => (m, [])
  | m, x :: xs =>
    let r := mstep H m x
    let rest := mrun H r.1 xs
    (rest.1, r.2 :: rest.2)

/-- the operations of an interleaving that are addressed to connection `i`, in order -/
def opsOf (i : Nat) (xs : List (Nat × Op)) : List Op :=
  xs.filterMap (fun x => if x.1 = i then some x.2 else none)

/-- the observations made on connection `i`, in order -/
def obsOf (i : Nat) (os : List (Nat × Obs)) : List Obs :=
  os.filterMap (fun x => if x.1 = i then some x.2 else none)

end ECH
