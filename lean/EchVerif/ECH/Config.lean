import EchVerif.Wire
/-
  Model of /repo/config.go: ConfigSpec.Bytes, parseConfig / Config.Spec, ConfigList,
  ParseConfigList.  Key generation (NewConfig) is abstracted: the public key is a parameter;
  NewConfig = Bytes on the fixed KEM / suite list with a 32-byte key.
-/
open Wire

namespace ECH

structure CipherSuite where
  kdf : Nat
  aead : Nat
deriving DecidableEq, Repr

structure ConfigSpec where
  version : Nat
  id : Nat
  kem : Nat
  publicKey : Bytes
  suites : List CipherSuite
  maxNameLen : Nat
  publicName : Bytes
deriving DecidableEq, Repr

def putSuites : List CipherSuite → Bytes
  | [] => []
  | c :: cs => u16 c.kdf ++ u16 c.aead ++ putSuites cs

/-- `ConfigSpec.Bytes`: `none` models the returned error (bad name length or builder overflow). -/
def ConfigSpec.bytes (c : ConfigSpec) : Option Bytes :=
  if c.publicName.length = 0 ∨ c.publicName.length > 255 then none else
  match lp16 c.publicKey, lp16 (putSuites c.suites), lp8 c.publicName with
  | some pk, some cs, some nm =>
    match lp16 (u8 c.id ++ u16 c.kem ++ pk ++ cs ++ u8 (min (c.publicName.length + 16) 255) ++ nm ++ u16 0) with
    | some body => some (u16 c.version ++ body)
    | none => none
  | _, _, _ => none

/-- the `for !cs.Empty()` loop of parseConfig; fuel = remaining length. -/
def parseSuitesF : Nat → Bytes → Option (List CipherSuite)
  | 0, b => if b = [] then some [] else none
  | fuel+1, b =>
    if b = [] then some [] else
    match readU16 b with
    | none => none
    | some (k, r1) =>
      match readU16 r1 with
      | none => none
      | some (a, r2) =>
        match parseSuitesF fuel r2 with
        | none => none
        | some cs => some (⟨k, a⟩ :: cs)

def parseSuites (b : Bytes) : Option (List CipherSuite) := parseSuitesF b.length b

/-- `parseConfig(s *cryptobyte.String)`: result and the advanced string; `none` = ErrDecodeError. -/
def parseConfig (s : Bytes) : Option (ConfigSpec × Bytes) :=
  match readU16 s with
  | none => none
  | some (ver, s1) =>
    if ver ≠ 0xfe0d then none else
    match readLP16 s1 with
    | none => none
    | some (ss, rest) =>
      match readU8 ss with
      | none => none
      | some (id, ss1) =>
        match readU16 ss1 with
        | none => none
        | some (kem, ss2) =>
          match readLP16 ss2 with
          | none => none
          | some (pk, ss3) =>
            match readLP16 ss3 with
            | none => none
            | some (cs, ss4) =>
              match parseSuites cs with
              | none => none
              | some suites =>
                match readU8 ss4 with
                | none => none
                | some (mnl, ss5) =>
                  match readLP8 ss5 with
                  | none => none
                  | some (name, _exts) =>
                    some (⟨ver, id, kem, pk, suites, mnl, name⟩, rest)

/-- `Config.Spec()` -/
def configSpec (cfg : Bytes) : Option ConfigSpec := (parseConfig cfg).map (·.1)

/-- encoding each spec of a list (what a caller does before `ConfigList`) -/
def encodeAll : List ConfigSpec → Option (List Bytes)
  | [] => some []
  | c :: cs =>
    match c.bytes, encodeAll cs with
    | some e, some es => some (e :: es)
    | _, _ => none

/-- `ConfigList(configs)` -/
def configList (cfgs : List Bytes) : Option Bytes := lp16 cfgs.flatten

def parseConfigsF : Nat → Bytes → Option (List ConfigSpec)
  | 0, b => if b = [] then some [] else none
  | fuel+1, b =>
    if b = [] then some [] else
    match parseConfig b with
    | none => none
    | some (c, r) =>
      match parseConfigsF fuel r with
      | none => none
      | some cs => some (c :: cs)

/-- `ParseConfigList` -/
def parseConfigList (b : Bytes) : Option (List ConfigSpec) :=
  match readLP16 b with
  | none => none
  | some (ss, _) => parseConfigsF ss.length ss

/-! ### Independent transcription of draft-ietf-tls-esni section 4 (the well-formedness spec)

```
opaque HpkePublicKey<1..2^16-1>;
struct { HpkeKdfId kdf_id; HpkeAeadId aead_id; } HpkeSymmetricCipherSuite;
struct { uint8 config_id; HpkeKemId kem_id; HpkePublicKey public_key;
         HpkeSymmetricCipherSuite cipher_suites<4..2^16-4>; } HpkeKeyConfig;
struct { HpkeKeyConfig key_config; uint8 maximum_name_length; opaque public_name<1..255>;
         ECHConfigExtension extensions<0..2^16-1>; } ECHConfigContents;
struct { uint16 version; uint16 length; select (version) { case 0xfe0d: ECHConfigContents } } ECHConfig;
ECHConfig ECHConfigList<4..2^16-1>;
```
The recogniser below walks that grammar directly (it shares only the integer readers with the model).
-/
namespace Spec

def extsOk : Nat → Bytes → Bool
  | 0, b => b = []
  | fuel+1, b =>
    if b = [] then true else
    match readU16 b with
    | none => false
    | some (_, r) => match readLP16 r with
      | none => false
      | some (_, r2) => extsOk fuel r2

def contentsOk (c : Bytes) : Bool :=
  match c with
  | _id :: k1 :: k2 :: r =>
    let _kem := k1.toNat * 256 + k2.toNat
    match readLP16 r with
    | none => false
    | some (pk, r1) =>
      if pk.length < 1 then false else
      match readLP16 r1 with
      | none => false
      | some (cs, r2) =>
        if cs.length < 4 ∨ cs.length % 4 ≠ 0 then false else
        match r2 with
        | _mnl :: r3 =>
          match readLP8 r3 with
          | none => false
          | some (nm, r4) =>
            if nm.length < 1 then false else
            match readLP16 r4 with
            | none => false
            | some (exts, r5) => r5 = [] ∧ extsOk exts.length exts
        | [] => false
  | _ => false

/-- one ECHConfig of version 0xfe0d occupying exactly `b` -/
def isECHConfig (b : Bytes) : Bool :=
  match b with
  | 0xfe :: 0x0d :: l1 :: l2 :: c => (c.length = l1.toNat * 256 + l2.toNat) ∧ contentsOk c
  | _ => false

def configsOk : Nat → Bytes → Bool
  | 0, b => b = []
  | fuel+1, b =>
    if b = [] then true else
    match b with
    | v1 :: v2 :: l1 :: l2 :: c =>
      let n := l1.toNat * 256 + l2.toNat
      if n ≤ c.length then
        isECHConfig (v1 :: v2 :: l1 :: l2 :: c.take n) ∧ configsOk fuel (c.drop n)
      else false
    | _ => false

def isECHConfigList (b : Bytes) : Bool :=
  match b with
  | l1 :: l2 :: c => (c.length = l1.toNat * 256 + l2.toNat) ∧ configsOk c.length c
  | _ => false

end Spec
end ECH
