import EchVerif.ECH.Conn
/-
  Operation sequences on a Conn: the two goroutines that use a Conn (the copier reading from it and
  the copier writing to it) and the environment (client bytes arriving) are an arbitrary interleaved
  list of operations.
-/
open Wire TLS
namespace ECH

inductive Op
  | read (n : Nat)                 -- Conn.Read with a buffer of n bytes
  | write (b : Bytes)              -- Conn.Write
  | feed (chunks : List Bytes)     -- environment: more client bytes arrive on the transport
deriving Repr

structure Sys where
  st : St
  tr : Tr
deriving Repr

/-- observable result of one operation -/
structure Obs where
  data : Bytes := []
  n : Nat := 0
  err : Option Err := none
deriving Repr

def stepOp (H : Hpke) (s : Sys) : Op → Sys × Obs
  | .read n => (⟨(connRead H s.st s.tr n).st, (connRead H s.st s.tr n).tr⟩,
                { data := (connRead H s.st s.tr n).data, err := (connRead H s.st s.tr n).err })
  | .write b => (⟨(connWrite s.st s.tr b).st, (connWrite s.st s.tr b).tr⟩,
                 { n := (connWrite s.st s.tr b).n, err := (connWrite s.st s.tr b).err })
  | .feed cs => (⟨s.st, { s.tr with chunks := s.tr.chunks ++ cs }⟩, {})

def runOps (H : Hpke) : Sys → List Op → Sys × List Obs
  | s, [] => (s, [])
  | s, op :: ops =>
    let r := stepOp H s op
    let rest := runOps H r.1 ops
    (rest.1, r.2 :: rest.2)

/-- the state invariant of a Conn returned by a successful NewConn -/
structure Inv (st : St) : Prop where
  retry_pt : st.retry ≥ 1 → st.writePT = true ∧ st.inner.isSome
  inner_outer : st.inner.isSome → (st.outer.bind (·.d.ech)).isSome ∧ st.ctx.isSome
  no_inner_pt : st.inner = none → st.readPT = true ∧ st.writePT = true ∧ st.ctx = none ∧ st.writeBuf = []
  seq : ∀ c, st.ctx = some c → c.seq = 1 ∨ (c.seq = 2 ∧ st.readPT = true)

end ECH
