import EchVerif.Wire
/-
  Specification-level reading of a ClientHello, written directly from RFC 8446 4.1.2 / RFC 6066 /
  RFC 7301 / draft-ietf-tls-esni 5.1-5.2, independently of the model of client_hello.go (only the
  integer / length-prefix readers of `Wire` are shared).
-/
open Wire
namespace Spec

structure Fields where
  version : Bytes      -- 2 bytes
  random : Bytes       -- 32 bytes
  sid : Bytes
  suites : Bytes
  comp : Bytes
  extBlock : Bytes     -- contents of the extensions vector
  after : Bytes        -- bytes after the extensions vector (padding in EncodedClientHelloInner)
deriving Repr, DecidableEq

/-- RFC 8446 4.1.2 ClientHello structure (no handshake header) -/
def fields (b : Bytes) : Option Fields :=
  match readN 2 b with
  | none => none
  | some (v, b1) =>
  match readN 32 b1 with
  | none => none
  | some (r, b2) =>
  match readLP8 b2 with
  | none => none
  | some (sid, b3) =>
  match readLP16 b3 with
  | none => none
  | some (cs, b4) =>
  match readLP8 b4 with
  | none => none
  | some (comp, b5) =>
  -- RFC 8446 4.1.2 / RFC 5246 7.4.1.2: before TLS 1.3 the extensions field may be absent altogether
  if b5 = [] then some ⟨v, r, sid, cs, comp, [], []⟩ else
  match readLP16 b5 with
  | none => none
  | some (ext, b6) => some ⟨v, r, sid, cs, comp, ext, b6⟩

/-- raw extension triples (type, data, full encoding) -/
structure RawExt where
  typ : Nat
  data : Bytes
deriving Repr, DecidableEq

def RawExt.enc (e : RawExt) : Bytes := u16 e.typ ++ u16 e.data.length ++ e.data

def rawExts : Nat → Bytes → Option (List RawExt)
  | 0, b => if b = [] then some [] else none
  | fuel+1, b =>
    if b = [] then some [] else
    match readU16 b with
    | none => none
    | some (t, r) =>
      match readLP16 r with
      | none => none
      | some (d, r2) => (rawExts fuel r2).map (⟨t, d⟩ :: ·)

def extsOf (block : Bytes) : Option (List RawExt) := rawExts block.length block

/-- RFC 6066 section 3: the host_name of the server_name extension ("" when absent) -/
def sniOfExts (es : List RawExt) : Bytes :=
  match es.find? (·.typ = 0) with
  | none => []
  | some e =>
    match readLP16 e.data with
    | some (l, _) =>
      match l with
      | 0 :: rest => match readLP16 rest with
        | some (h, _) => h
        | none => []
      | _ => []
    | none => []

def protoList : Nat → Bytes → List Bytes
  | 0, _ => []
  | fuel+1, b => match readLP8 b with
    | some (p, r) => p :: protoList fuel r
    | none => []

/-- RFC 7301: protocol_name_list of the ALPN extension -/
def alpnOfExts (es : List RawExt) : List Bytes :=
  match es.find? (·.typ = 16) with
  | none => []
  | some e => match readLP16 e.data with
    | some (l, _) => protoList l.length l
    | none => []

/-- draft 5.1: replace each reference of the ech_outer_extensions list by the referenced outer
    extension, in order, searching forward from the previous match (Appendix B semantics). -/
def splice : List RawExt → List Nat → Option (List RawExt)
  | _, [] => some []
  | outer, t :: ts =>
    if t = 0xfe0d ∨ t = 0xfd00 then none else
    match outer.span (fun e => e.typ ≠ t) with
    | (_, e :: rest) => (splice rest ts).map (e :: ·)
    | (_, []) => none

def refList : Nat → Bytes → Option (List Nat)
  | 0, b => if b = [] then some [] else none
  | fuel+1, b =>
    if b = [] then some [] else
    match readU16 b with
    | some (t, r) => (refList fuel r).map (t :: ·)
    | none => none

/-- expansion of the inner extension list; `markerSeen` enforces "at most once" -/
def expand (outer : List RawExt) : List RawExt → Bool → Option (List RawExt)
  | [], _ => some []
  | e :: es, seen =>
    if e.typ = 0xfd00 then
      if seen then none else
      match readLP8 e.data with
      | none => none
      | some (refs, _) =>
        match refList refs.length refs with
        | none => none
        | some ts =>
          match splice outer ts, expand outer es true with
          | some blk, some r => some (blk ++ r)
          | _, _ => none
    else (expand outer es seen).map (e :: ·)

def encExts (es : List RawExt) : Bytes := (es.map RawExt.enc).flatten

/-- The ClientHelloInner the client committed to (draft 5.1), as a TLS record:
    decoded EncodedClientHelloInner `enc` with its padding removed, `sid` substituted for the
    (empty) legacy_session_id, and the outer-extension references expanded in place. -/
def specInner (enc sid outerBlock : Bytes) : Option Bytes :=
  match fields enc with
  | none => none
  | some f =>
    if ¬ f.after.all (· == 0) then none else
    match extsOf f.extBlock, extsOf outerBlock with
    | some ies, some oes =>
      match expand oes ies false with
      | none => none
      | some es =>
        let block := encExts es
        let body := f.version ++ f.random ++ (u8 sid.length ++ sid) ++ (u16 f.suites.length ++ f.suites) ++
                    (u8 f.comp.length ++ f.comp) ++ (u16 block.length ++ block)
        let msg := u8 1 ++ u24 body.length ++ body
        some (u8 0x16 ++ f.version ++ u16 msg.length ++ msg)
    | _, _ => none

/-- ClientHello body of a handshake record `rec` (strip 5-byte record header, 4-byte handshake header) -/
def bodyOfRecord (rec : Bytes) : Option Bytes :=
  match rec with
  | 22 :: _ :: _ :: _ :: _ :: 1 :: l1 :: l2 :: l3 :: rest =>
    let n := l1.toNat * 65536 + l2.toNat * 256 + l3.toNat
    if n ≤ rest.length then some (rest.take n) else none
  | _ => none

/-- draft 5.2 ClientHelloOuterAAD: the ClientHelloOuter structure with the `payload` field of the
    (unique) encrypted_client_hello extension replaced by zeros of the same length.  Computed on
    bytes: the payload is the last `plen` bytes of that extension's data. -/
def aadExts : List RawExt → List RawExt
  | [] => []
  | e :: es =>
    if e.typ = 0xfe0d then
      -- type(1) kdf(2) aead(2) id(1) enc<0..2^16-1> payload<1..2^16-1>
      match e.data with
      | 0 :: _ :: _ :: _ :: _ :: _ :: rest =>
        match readLP16 rest with
        | some (enc, r2) =>
          match readLP16 r2 with
          | some (pl, _) =>
            ⟨e.typ, e.data.take (8 + enc.length) ++ u16 pl.length ++ List.replicate pl.length 0⟩ :: aadExts es
          | none => e :: aadExts es
        | none => e :: aadExts es
      | _ => e :: aadExts es
    else e :: aadExts es

def aadSpec (body : Bytes) : Option Bytes :=
  match fields body with
  | none => none
  | some f =>
    match extsOf f.extBlock with
    | none => none
    | some es =>
      let block := encExts (aadExts es)
      some (f.version ++ f.random ++ (u8 f.sid.length ++ f.sid) ++ (u16 f.suites.length ++ f.suites) ++
            (u8 f.comp.length ++ f.comp) ++ (u16 block.length ++ block))

end Spec
