import EchVerif.Wire
/-
  RFC 1035 section 3.1 and 4.1.4, written as a relation on the raw message and an offset — no
  cursor, no window, no budget: nothing here mentions the decoder model (`DNS/Message.lean`).

    a domain name is a sequence of labels, each a length octet followed by that number of octets,
    ended by the zero-length label of the root; "an entire domain name or a list of labels at the
    end of a domain name" may be replaced by a pointer: two octets whose first two bits are ones,
    the remaining 14 bits being the offset, from the start of the message, of the rest of the name.

  A length octet whose two top bits are `11` is a pointer; every other non-zero length octet is
  taken as a label length (RFC 1035 reserves `01` and `10`; this package, like the relation, reads
  them as lengths 64..191 — more liberal than the RFC, which the size limit of 255 still bounds).
-/
namespace Spec

inductive NameAt (raw : Bytes) : Nat → List Bytes → Prop
  /-- the root label ends the name -/
  | root {pos : Nat} : raw[pos]? = some 0 → NameAt raw pos []
  /-- a label: length octet, then that many octets, then the rest of the name -/
  | label {pos : Nat} {len : UInt8} {rest : List Bytes} :
      raw[pos]? = some len → len ≠ 0 → len.toNat / 64 ≠ 3 →
      pos + 1 + len.toNat ≤ raw.length →
      NameAt raw (pos + 1 + len.toNat) rest →
      NameAt raw pos ((raw.drop (pos + 1)).take len.toNat :: rest)
  /-- a pointer: the rest of the name is the name at the 14-bit offset -/
  | ptr {pos : Nat} {b0 b1 : UInt8} {n : List Bytes} :
      raw[pos]? = some b0 → b0.toNat / 64 = 3 → raw[pos + 1]? = some b1 →
      NameAt raw ((b0.toNat * 256 + b1.toNat) % 16384) n →
      NameAt raw pos n

/-- the same with what the decoder additionally insists on: every pointer points strictly
    backwards (which is what makes the relation well founded); the last index counts the pointers
    followed -/
inductive NameAtBack (raw : Bytes) : Nat → List Bytes → Nat → Prop
  | root {pos : Nat} : raw[pos]? = some 0 → NameAtBack raw pos [] 0
  | label {pos : Nat} {len : UInt8} {rest : List Bytes} {k : Nat} :
      raw[pos]? = some len → len ≠ 0 → len.toNat / 64 ≠ 3 →
      pos + 1 + len.toNat ≤ raw.length →
      NameAtBack raw (pos + 1 + len.toNat) rest k →
      NameAtBack raw pos ((raw.drop (pos + 1)).take len.toNat :: rest) k
  | ptr {pos : Nat} {b0 b1 : UInt8} {n : List Bytes} {k : Nat} :
      raw[pos]? = some b0 → b0.toNat / 64 = 3 → raw[pos + 1]? = some b1 →
      (b0.toNat * 256 + b1.toNat) % 16384 < pos →
      NameAtBack raw ((b0.toNat * 256 + b1.toNat) % 16384) n k →
      NameAtBack raw pos n (k + 1)

theorem NameAtBack.toNameAt {raw : Bytes} {pos k : Nat} {n : List Bytes} (h : NameAtBack raw pos n k) :
    NameAt raw pos n := by
  induction h with
  | root h => exact .root h
  | label h1 h2 h3 h4 _ ih => exact .label h1 h2 h3 h4 ih
  | ptr h1 h2 h3 _ _ ih => exact .ptr h1 h2 h3 ih

/-- RFC 1035 2.3.4: octets of a name on the wire without its root label -/
def octets : List Bytes → Nat
  | [] => 0
  | l :: ls => l.length + 1 + octets ls

end Spec
