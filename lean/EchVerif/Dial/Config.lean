import EchVerif.Wire
/-
  Model of the decision part of `Dialer.Dial` and of `dialOne` (/repo/dial.go): which tls.Config
  (reduced to ServerName and EncryptedClientHelloConfigList) each DialFunc call receives.
  Attempts are taken sequentially (MaxConcurrency = 1); concurrency is C18's subject.
-/
namespace Dial

/-- an ECH config list as seen in a tls.Config: concrete bytes, or the bootstrap list Dial
    generates from PublicName (fresh random id and key: opaque) -/
inductive EchList
  | bytes (b : Bytes)
  | boot
deriving Repr, DecidableEq

structure Cfg where
  serverName : Bytes
  ech : Option EchList        -- none = nil
deriving Repr, DecidableEq

/-- result of one DialFunc call, scripted by the environment -/
inductive Outcome
  | ok
  | err
  | reject (retry : Bytes)    -- tls.ECHRejectionError with this RetryConfigList (possibly empty)
deriving Repr, DecidableEq

structure Target where
  host : Bytes
  addr : Bytes
  ech : Option Bytes          -- Target.ECH of the HTTPS record that produced the address (nil = none)
  resolveErr : Bool := false  -- the comma-separated entry failed to resolve
deriving Repr, DecidableEq

structure Dialer where
  requireECH : Bool
  publicName : Bytes
deriving Repr

structure Call where
  addr : Bytes
  cfg : Cfg
deriving Repr, DecidableEq

/-- the config every attempt starts from: the caller's, plus the bootstrap list when the caller
    supplied none and PublicName is set -/
def baseCfg (d : Dialer) (caller : Cfg) : Cfg :=
  if caller.ech = none ∧ d.publicName ≠ [] then { caller with ech := some .boot } else caller

def attemptSN (d : Dialer) (caller : Cfg) (t : Target) : Bytes :=
  if (baseCfg d caller).serverName = [] then t.host else (baseCfg d caller).serverName

def attemptECH (d : Dialer) (caller : Cfg) (t : Target) : Option EchList :=
  match caller.ech, t.ech with
  | none, some b => some (.bytes b)
  | _, _ => (baseCfg d caller).ech

/-- the per-target config (`tc.Clone()` … in the worker); `none` = refused, no call is made -/
def attemptCfg (d : Dialer) (caller : Cfg) (t : Target) : Option Cfg :=
  if d.requireECH ∧ attemptECH d caller t = none then none
  else some ⟨attemptSN d caller t, attemptECH d caller t⟩

/-- `dialOne`: the calls made for one address given the scripted outcomes; returns the calls,
    whether it succeeded and the unused outcomes -/
def dialOne (addr : Bytes) (cfg : Cfg) : List Outcome → List Call × Bool × List Outcome
  | [] => ([⟨addr, cfg⟩], false, [])                     -- script exhausted: treat as error
  | .ok :: rest => ([⟨addr, cfg⟩], true, rest)
  | .err :: rest => ([⟨addr, cfg⟩], false, rest)
  | .reject retry :: rest =>
    if retry = [] then ([⟨addr, cfg⟩], false, rest)
    else
      match rest with
      | .ok :: rest' => ([⟨addr, cfg⟩, ⟨addr, { cfg with ech := some (.bytes retry) }⟩], true, rest')
      | _ :: rest' => ([⟨addr, cfg⟩, ⟨addr, { cfg with ech := some (.bytes retry) }⟩], false, rest')
      | [] => ([⟨addr, cfg⟩, ⟨addr, { cfg with ech := some (.bytes retry) }⟩], false, [])

/-- sequential Dial: targets in order until one succeeds -/
def dialSeq (d : Dialer) (caller : Cfg) : List Target → List Outcome → List Call × Option Bytes
  | [], _ => ([], none)
  | t :: ts, outs =>
    if t.resolveErr then dialSeq d caller ts outs else
    match attemptCfg d caller t with
    | none => dialSeq d caller ts outs
    | some cfg =>
      match dialOne t.addr cfg outs with
      | (calls, true, _) => (calls, some t.addr)
      | (calls, false, rest) =>
        ((calls ++ (dialSeq d caller ts rest).1), (dialSeq d caller ts rest).2)

end Dial
