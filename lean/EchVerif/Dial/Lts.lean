/-
  Model of the concurrency of `Dialer.Dial` (/repo/dial.go): feeder goroutine, N worker goroutines,
  closer goroutine and the collector (Dial's own goroutine), as a labelled transition system.
  Unbuffered channels are rendezvous steps; `time.After`, the per-attempt timeout and context
  cancellation are nondeterministically enabled events (untimed); `select` picks any ready case.
-/
namespace DialLts

/-- what happens for target k: the entry failed to resolve / the attempt is refused before dialling
    (RequireECH without a list) / DialFunc eventually succeeds / DialFunc eventually fails (error,
    timeout, or cancellation) -/
inductive Script | resolveErr | refuse | ok | fail
deriving DecidableEq, Repr

inductive Feeder
  | wait (k : Nat)   -- in the `select` before handing out target k (k ≥ 1)
  | send (k : Nat)   -- blocked on `targetChan <- target k`
  | done             -- closed targetChan
deriving DecidableEq, Repr

inductive Worker
  | idle                          -- blocked on `range targetChan`
  | got (k : Nat)                 -- received target k, before the pre-dial checks
  | dial (k : Nat) (late : Bool)  -- inside DialFunc; `late` = its context was already cancelled at the start
  | sendErr (k : Nat)             -- in sendErr's select
  | sendConn (k : Nat)            -- in sendConn's select, holding an established connection
  | exited
deriving DecidableEq, Repr

inductive Ret | conn (k : Nat) | ctxErr | errs (ks : List Nat)
deriving DecidableEq, Repr

structure St where
  feeder : Feeder
  credit : Bool              -- ghost: timer / wake / ctx.Done since the previous hand-off
  workers : List Worker
  parentDone : Bool          -- the caller's context has ended
  ctxDone : Bool             -- Dial's (child) context is cancelled
  errs : List Nat            -- errors collected so far, by target index, in arrival order
  ret : Option Ret           -- the collector has chosen what to return
  returned : Bool            -- ... and Dial has returned it (its deferred cancel() has run)
  errClosed : Bool
  closed : List Nat          -- connections closed by sendConn
  established : List Nat     -- connections DialFunc returned
  handoffs : List Nat        -- ghost: targets handed to workers, in order
  inflight : Nat             -- ghost: DialFunc calls in progress
  maxInflight : Nat          -- ghost
  badLate : Bool             -- ghost: an attempt started after Dial returned, with a live context
  badPace : Bool             -- ghost: a hand-off (other than the first) without timer / wake / ctx.Done
deriving DecidableEq, Repr

inductive Label
  | parentCancel          -- caller's context ends
  | feederGo              -- time.After / ctx.Done in the feeder's select
  | handoff (w : Nat)     -- targetChan rendezvous with worker w
  | prep (w : Nat)        -- worker w finishes the pre-dial checks: error target / refused / DialFunc starts
  | finish (w : Nat) (ok : Bool)   -- DialFunc returns for worker w: a connection, or an error (failure, timeout, cancellation)
  | errRecv (w : Nat)     -- errChan rendezvous worker w → collector (followed by wake())
  | errDrop (w : Nat)     -- sendErr sees ctx.Done
  | connRecv (w : Nat)    -- connChan rendezvous: the collector returns this connection
  | connClose (w : Nat)   -- sendConn sees ctx.Done and closes the connection
  | workerExit (w : Nat)  -- targetChan closed
  | closeErr              -- closer: all workers exited ⇒ close(errChan)
  | collectClosed         -- collector sees errChan closed
  | collectCtx            -- collector sees ctx.Done
  | ret                   -- Dial returns: the deferred cancel() runs, the caller sees the outcome
deriving DecidableEq, Repr

def init (nTargets nWorkers : Nat) : St :=
  { feeder := if nTargets = 0 then .done else .send 0, credit := true,
    workers := List.replicate nWorkers .idle, parentDone := false, ctxDone := false, errs := [], ret := none, returned := false,
    errClosed := false, closed := [], established := [], handoffs := [], inflight := 0, maxInflight := 0,
    badLate := false, badPace := false }

def step (script : List Script) (s : St) : Label → Option St
  | .parentCancel => if s.parentDone then none else some { s with parentDone := true, ctxDone := true }
  | .feederGo => match s.feeder with
    | .wait k => some { s with feeder := .send k, credit := true }
    | _ => none
  | .handoff w => match s.feeder, s.workers[w]? with
    | .send k, some .idle =>
      some { s with workers := s.workers.set w (.got k),
                    feeder := if k + 1 < script.length then .wait (k + 1) else .done,
                    handoffs := s.handoffs ++ [k], badPace := s.badPace || !s.credit, credit := false }
    | _, _ => none
  | .prep w => match s.workers[w]? with
    | some (.got k) => match script[k]? with
      | some .resolveErr => some { s with workers := s.workers.set w (.sendErr k) }
      | some .refuse => some { s with workers := s.workers.set w (.sendErr k) }
      | some _ => some { s with workers := s.workers.set w (.dial k s.ctxDone), inflight := s.inflight + 1,
                                maxInflight := max s.maxInflight (s.inflight + 1),
                                badLate := s.badLate || (s.returned && !s.ctxDone) }
      | none => none
    | _ => none
  | .finish w ok => match s.workers[w]? with
    | some (.dial k _) =>
      if ok then
        (if script[k]? = some .ok then
          some { s with workers := s.workers.set w (.sendConn k), established := k :: s.established, inflight := s.inflight - 1 }
        else none)
      else some { s with workers := s.workers.set w (.sendErr k), inflight := s.inflight - 1 }
    | _ => none
  | .errRecv w => match s.workers[w]?, s.ret with
    | some (.sendErr k), none =>
      some { s with workers := s.workers.set w .idle, errs := s.errs ++ [k],
                    feeder := match s.feeder with | .wait j => .send j | f => f,
                    credit := match s.feeder with | .wait _ => true | _ => s.credit }  -- wake()
    | _, _ => none
  | .errDrop w => match s.workers[w]? with
    | some (.sendErr _) => if s.ctxDone then some { s with workers := s.workers.set w .idle } else none
    | _ => none
  | .connRecv w => match s.workers[w]?, s.ret with
    | some (.sendConn k), none =>
      some { s with workers := s.workers.set w .idle, ret := some (.conn k) }
    | _, _ => none
  | .connClose w => match s.workers[w]? with
    | some (.sendConn k) =>
      if s.ctxDone then some { s with workers := s.workers.set w .idle, closed := k :: s.closed } else none
    | _ => none
  | .workerExit w => match s.workers[w]?, s.feeder with
    | some .idle, .done => some { s with workers := s.workers.set w .exited }
    | _, _ => none
  | .closeErr => if !s.errClosed && s.workers.all (· == .exited) then some { s with errClosed := true } else none
  | .collectClosed => match s.ret with
    | none => if s.errClosed then some { s with ret := some (.errs s.errs) } else none
    | some _ => none
  | .collectCtx => match s.ret with
    | none => if s.ctxDone then some { s with ret := some .ctxErr } else none
    | some _ => none
  | .ret => if s.ret.isSome && !s.returned then some { s with returned := true, ctxDone := true } else none

def run (script : List Script) : St → List Label → Option St
  | s, [] => some s
  | s, l :: ls => match step script s l with
    | none => none
    | some s' => run script s' ls

/-! ### observable events and trace acceptance -/

inductive Obs
  | cancel                          -- the caller cancels
  | start (k : Nat) (late : Bool)   -- DialFunc called for target k; was its context already cancelled?
  | finish (k : Nat) (ok : Bool)    -- DialFunc returned for target k (connection / error)
  | close (k : Nat)                 -- connection k closed by Dial
  | retConn (k : Nat) | retCtx | retErrs (ks : List Nat)
deriving DecidableEq, Repr

def internalLabels (nW : Nat) : List Label :=
  [.feederGo, .closeErr, .collectClosed, .collectCtx, .ret] ++
    (List.range nW).flatMap fun w => [.handoff w, .errRecv w, .errDrop w, .workerExit w, .connRecv w]

/-- internal steps: everything not observable; `prep` is internal only for targets that never call
    DialFunc. The collector's own steps are internal too: the harness can only see what `Dial`
    returned some time after it did, so a `ret…` observation checks the recorded outcome. -/
def internalSteps (script : List Script) (nW : Nat) (s : St) : List St :=
  (internalLabels nW).filterMap (step script s) ++
  (List.range nW).filterMap fun (w : Nat) => match s.workers[w]? with
    | some (Worker.got k) => match script[k]? with
      | some .resolveErr => step script s (.prep w)
      | some .refuse => step script s (.prep w)
      | _ => none
    | _ => none

def obsSteps (script : List Script) (nW : Nat) (s : St) : Obs → List St
  | .cancel => (step script s .parentCancel).toList
  | .start k late => (List.range nW).filterMap fun (w : Nat) => match s.workers[w]? with
      | some (Worker.got k') => if k' = k then (step script s (.prep w)).bind fun s' =>
          if s'.workers[w]? = some (Worker.dial k late) then some s' else none else none
      | _ => none
  | .finish k ok => (List.range nW).filterMap fun (w : Nat) => match s.workers[w]? with
      | some (Worker.dial k' _) => if k' = k then step script s (.finish w ok) else none
      | _ => none
  | .close k => (List.range nW).filterMap fun (w : Nat) => match s.workers[w]? with
      | some (Worker.sendConn k') => if k' = k then step script s (.connClose w) else none
      | _ => none
  | .retConn k => if s.returned && s.ret = some (.conn k) then [s] else []
  | .retCtx => if s.returned && s.ret = some .ctxErr then [s] else []
  | .retErrs ks => if s.returned && s.ret = some (.errs ks) then [s] else []

/-- all states reachable by internal steps: `seen` so far, `frontier` ⊆ `seen` still to expand -/
def closureF (script : List Script) (nW : Nat) : Nat → List St → List St → List St
  | 0, seen, _ => seen
  | fuel+1, seen, frontier =>
    if frontier.isEmpty then seen
    else closureF script nW fuel
      (seen ++ ((frontier.flatMap (internalSteps script nW)).filter (fun t => !seen.contains t)).eraseDups)
      (((frontier.flatMap (internalSteps script nW)).filter (fun t => !seen.contains t)).eraseDups)

def closure (script : List Script) (nW : Nat) (fuel : Nat) (ss : List St) : List St :=
  closureF script nW fuel ss ss

/-- does the transition system exhibit this sequence of observable events? Returns the number of
    accepted events (= length iff accepted). -/
def acceptsUpTo (script : List Script) (nW : Nat) (trace : List Obs) : Nat :=
  let rec go (ss : List St) (tr : List Obs) (n : Nat) : Nat :=
    match tr with
    | [] => n
    | o :: rest =>
      let nxt := closure script nW 64 ((ss.flatMap fun s => obsSteps script nW s o).eraseDups)
      if nxt.isEmpty then n else go nxt rest (n + 1)
  go (closure script nW 64 [init script.length nW]) trace 0

/-- every goroutine of Dial has finished -/
def terminal (s : St) : Bool :=
  s.returned && s.errClosed && s.feeder == .done && s.workers.all (· == .exited)

def finalStates (script : List Script) (nW : Nat) (trace : List Obs) : List St :=
  trace.foldl (fun ss o => closure script nW 64 ((ss.flatMap fun s => obsSteps script nW s o).eraseDups))
    (closure script nW 64 [init script.length nW])

/-- the whole trace is exhibited and afterwards the system can be at rest with nothing left running -/
def acceptsQuiescent (script : List Script) (nW : Nat) (trace : List Obs) : Bool :=
  (finalStates script nW trace).any terminal

end DialLts
