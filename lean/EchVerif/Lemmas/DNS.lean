import EchVerif.DNS.Message
/-! lemmas about the DNS decoder model -/
open Wire
namespace DNS

/-- iterations still possible from counters (ptrs, size): each iteration either follows a pointer
    (ptrs grows, bounded by 255), reads a non-empty label (size grows by ≥ 2, bounded by 255), or
    stops -/
def need (ptrs size : Nat) : Nat := (maxPointers - ptrs) + (maxNameOctets - size) + 1

/-- with enough fuel the result does not depend on the fuel: the loop never runs out of fuel,
    i.e. it always stops by itself within `need ptrs size` iterations -/
theorem nameLabelsF_fuel (raw : Bytes) :
    ∀ (f1 f2 : Nat) (jumped : Bool) (cur w : Win) (ptrs size : Nat),
      need ptrs size ≤ f1 → need ptrs size ≤ f2 →
      nameLabelsF raw f1 jumped cur w ptrs size = nameLabelsF raw f2 jumped cur w ptrs size := by
  intro f1
  induction f1 with
  | zero => intro f2 j cur w p s h1 _; simp [need] at h1
  | succ n ih =>
    intro f2 j cur w p s h1 h2
    cases f2 with
    | zero => simp [need] at h2
    | succ m =>
      simp only [nameLabelsF]
      cases hw : w.b with
      | nil => rfl
      | cons b0 rest0 =>
        simp only
        split
        · -- pointer
          split
          · rfl
          · rename_i hp
            split
            · rfl
            · rename_i v rest hr
              split
              · rfl
              · apply ih
                · simp only [need, maxPointers, maxNameOctets] at h1 hp ⊢; omega
                · simp only [need, maxPointers, maxNameOctets] at h2 hp ⊢; omega
        · split
          · rfl
          · rename_i lab rest hl
            split
            · rfl
            · split
              · rfl
              · rename_i hne hsz
                have hlen : 0 < lab.length := List.length_pos_iff.mpr hne
                rw [ih m j _ _ p (s + lab.length + 1)]
                · simp only [need, maxPointers, maxNameOctets] at h1 hsz ⊢; omega
                · simp only [need, maxPointers, maxNameOctets] at h2 hsz ⊢; omega

/-- sum of (label length + 1) -/
def octets : Name → Nat
  | [] => 0
  | l :: ls => l.length + 1 + octets ls

theorem nameLabelsF_size (raw : Bytes) :
    ∀ (f : Nat) (jumped : Bool) (cur w : Win) (ptrs size : Nat) (n : Name) (c : Win),
      nameLabelsF raw f jumped cur w ptrs size = some (n, c) →
      size + octets n ≤ maxNameOctets ∨ (n = [] ) := by
  intro f
  induction f with
  | zero => intro j cur w p s n c h; simp [nameLabelsF] at h
  | succ k ih =>
    intro j cur w p s n c h
    simp only [nameLabelsF] at h
    cases hw : w.b with
    | nil => simp [hw] at h
    | cons b0 rest0 =>
      simp only [hw] at h
      split at h
      · split at h
        · simp at h
        · split at h
          · simp at h
          · split at h
            · simp at h
            · exact ih _ _ _ _ _ _ _ h
      · split at h
        · simp at h
        · rename_i lab rest hl
          split at h
          · simp only [Option.some.injEq, Prod.mk.injEq] at h
            exact Or.inr h.1.symm
          · split at h
            · simp at h
            · rename_i hne hsz
              split at h
              · simp at h
              · rename_i ls c' hrec
                simp only [Option.some.injEq, Prod.mk.injEq] at h
                obtain ⟨rfl, _⟩ := h
                left
                rcases ih _ _ _ _ _ _ _ hrec with h1 | h1
                · simp only [octets]; omega
                · subst h1; simp only [octets, maxNameOctets] at hsz ⊢; omega

end DNS

namespace DNS

theorem adv_b (w : Win) (rest : Bytes) : (w.adv rest).b = rest := rfl

/-- a name read advances the caller's cursor by at least one byte -/
theorem nameLabelsF_adv (raw : Bytes) :
    ∀ (f : Nat) (jumped : Bool) (cur w : Win) (ptrs size : Nat) (n : Name) (c : Win),
      nameLabelsF raw f jumped cur w ptrs size = some (n, c) →
      (jumped = true → c = cur) ∧ (jumped = false → c.b.length + 1 ≤ w.b.length) := by
  intro f
  induction f with
  | zero => intro j cur w p s n c h; simp [nameLabelsF] at h
  | succ k ih =>
    intro j cur w p s n c h
    simp only [nameLabelsF] at h
    cases hw : w.b with
    | nil => simp [hw] at h
    | cons b0 rest0 =>
      simp only [hw] at h
      split at h
      · split at h
        · simp at h
        · split at h
          · simp at h
          · rename_i v rest hr
            split at h
            · simp at h
            · have := (ih _ _ _ _ _ _ _ h).1 rfl
              have hl := readU16_len hr
              cases j with
              | true => simp at this; exact ⟨fun _ => this, fun h => by simp at h⟩
              | false =>
                simp at this
                refine ⟨fun h => by simp at h, fun _ => ?_⟩
                rw [this, adv_b]
                simp at hl ⊢; omega
      · split at h
        · simp at h
        · rename_i lab rest hl
          have hlen := readLP8_len hl
          split at h
          · simp only [Option.some.injEq, Prod.mk.injEq] at h
            obtain ⟨_, rfl⟩ := h
            cases j with
            | true => simp
            | false => simp [adv_b]; simp at hlen; omega
          · split at h
            · simp at h
            · split at h
              · simp at h
              · rename_i ls c' hrec
                simp only [Option.some.injEq, Prod.mk.injEq] at h
                obtain ⟨_, rfl⟩ := h
                have := ih _ _ _ _ _ _ _ hrec
                cases j with
                | true => simp at this ⊢; exact this
                | false =>
                  simp at this ⊢
                  have h2 := this
                  rw [adv_b] at h2
                  simp at hlen; omega

theorem readName_adv (raw : Bytes) (w w' : Win) (n : Name) (h : readName raw w = some (n, w')) :
    w'.b.length + 1 ≤ w.b.length :=
  (nameLabelsF_adv raw _ false w w 0 0 n w' h).2 rfl

theorem wU16_adv (w w' : Win) (v : Nat) (h : wU16 w = some (v, w')) : w'.b.length + 2 = w.b.length := by
  unfold wU16 at h
  rw [Option.map_eq_some_iff] at h
  obtain ⟨⟨v', r⟩, hr, he⟩ := h
  simp only [Prod.mk.injEq] at he
  obtain ⟨_, rfl⟩ := he
  have := readU16_len hr
  rw [adv_b]; omega

theorem wU32_adv (w w' : Win) (v : Nat) (h : wU32 w = some (v, w')) : w'.b.length + 4 = w.b.length := by
  unfold wU32 at h
  rw [Option.map_eq_some_iff] at h
  obtain ⟨⟨v', r⟩, hr, he⟩ := h
  simp only [Prod.mk.injEq] at he
  obtain ⟨_, rfl⟩ := he
  have := readU32_len hr
  rw [adv_b]; omega

theorem wLP16_adv (w d w' : Win) (h : wLP16 w = some (d, w')) : w'.b.length + 2 ≤ w.b.length := by
  unfold wLP16 at h
  rw [Option.map_eq_some_iff] at h
  obtain ⟨⟨x, r⟩, hr, he⟩ := h
  simp only [Prod.mk.injEq] at he
  obtain ⟨_, rfl⟩ := he
  have := readLP16_len hr
  rw [adv_b]; omega

/-- every decoded resource record consumes at least 11 bytes of the message -/
theorem decodeRR_adv (raw : Bytes) (w w' : Win) (rr : RR) (h : decodeRR raw w = some (rr, w')) :
    w'.b.length + 11 ≤ w.b.length := by
  unfold decodeRR at h
  split at h
  · simp at h
  · rename_i n w1 h1
    split at h
    · simp at h
    · rename_i t w2 h2
      split at h
      · simp at h
      · rename_i c w3 h3
        split at h
        · simp at h
        · rename_i ttl w4 h4
          split at h
          · simp at h
          · rename_i d w5 h5
            rw [Option.map_eq_some_iff] at h
            obtain ⟨_, _, he⟩ := h
            simp only [Prod.mk.injEq] at he
            obtain ⟨_, rfl⟩ := he
            have a1 := readName_adv raw w w1 n h1
            have a2 := wU16_adv _ _ _ h2
            have a3 := wU16_adv _ _ _ h3
            have a4 := wU32_adv _ _ _ h4
            have a5 := wLP16_adv _ _ _ h5
            omega

theorem decodeRRs_adv (raw : Bytes) (n : Nat) (w w' : Win) (l : List RR)
    (h : decodeRRs raw n w = some (l, w')) : l.length = n ∧ w'.b.length + 11 * n ≤ w.b.length := by
  induction n generalizing w l with
  | zero => simp [decodeRRs] at h; obtain ⟨rfl, rfl⟩ := h; simp
  | succ k ih =>
    simp only [decodeRRs] at h
    split at h
    · simp at h
    · rename_i rr w1 h1
      rw [Option.map_eq_some_iff] at h
      obtain ⟨⟨l', w2⟩, hr, he⟩ := h
      simp only [Prod.mk.injEq] at he
      obtain ⟨rfl, rfl⟩ := he
      have a := decodeRR_adv raw w w1 rr h1
      obtain ⟨b1, b2⟩ := ih w1 l' hr
      refine ⟨by simp [b1], by omega⟩

theorem decodeQuestions_adv (raw : Bytes) (n : Nat) (w w' : Win) (l : List Question)
    (h : decodeQuestions raw n w = some (l, w')) : l.length = n ∧ w'.b.length + 5 * n ≤ w.b.length := by
  induction n generalizing w l with
  | zero => simp [decodeQuestions] at h; obtain ⟨rfl, rfl⟩ := h; simp
  | succ k ih =>
    simp only [decodeQuestions] at h
    split at h
    · simp at h
    · rename_i nm w1 h1
      split at h
      · simp at h
      · rename_i t w2 h2
        split at h
        · simp at h
        · rename_i c w3 h3
          rw [Option.map_eq_some_iff] at h
          obtain ⟨⟨l', w4⟩, hr, he⟩ := h
          simp only [Prod.mk.injEq] at he
          obtain ⟨rfl, rfl⟩ := he
          have a1 := readName_adv raw w w1 nm h1
          have a2 := wU16_adv _ _ _ h2
          have a3 := wU16_adv _ _ _ h3
          obtain ⟨b1, b2⟩ := ih w3 l' hr
          refine ⟨by simp [b1], by omega⟩

/-- the Go dynamic type of RR.Data implied by the record type -/
def TypeMatches (typ : Nat) : RData → Prop
  | .ip _ => typ = 1 ∨ typ = 28
  | .name _ => typ = 2 ∨ typ = 5 ∨ typ = 12
  | .soa .. => typ = 6
  | .mx .. => typ = 15
  | .txt _ => typ = 16
  | .loc => typ = 29
  | .srv .. => typ = 33
  | .cert .. => typ = 37
  | .opt _ => typ = 41
  | .ds .. => typ = 43
  | .rrsig .. => typ = 46
  | .nsec .. => typ = 47
  | .dnskey .. => typ = 48
  | .svcb .. => typ = 64
  | .https _ => typ = 65
  | .uri .. => typ = 256
  | .caa .. => typ = 257
  | .raw _ => typ ∉ [1, 2, 5, 12, 6, 15, 16, 28, 29, 33, 37, 41, 43, 46, 47, 48, 64, 65, 256, 257]

/-- how many resource records the section loop starts to decode when the header announces `n` of them: it
    stops at the first record that does not decode (instrumented copy of the recursion of `decodeRRs`) -/
def rrIters (raw : Bytes) : Nat → Win → Nat
  | 0, _ => 0
  | n+1, w =>
    match decodeRR raw w with
    | none => 1
    | some (_, w1) => 1 + rrIters raw n w1

/-- the same for the question section -/
def qIters (raw : Bytes) : Nat → Win → Nat
  | 0, _ => 0
  | n+1, w =>
    match decodeQuestions raw 1 w with
    | none => 1
    | some (_, w1) => 1 + qIters raw n w1

theorem rrIters_le (raw : Bytes) (n : Nat) (w : Win) : rrIters raw n w ≤ n := by
  induction n generalizing w with
  | zero => simp [rrIters]
  | succ k ih =>
    simp only [rrIters]
    split
    · omega
    · rename_i rr w1 _
      have := ih w1
      omega

theorem rrIters_bound (raw : Bytes) (n : Nat) (w : Win) : 11 * rrIters raw n w ≤ w.b.length + 11 := by
  induction n generalizing w with
  | zero => simp [rrIters]
  | succ k ih =>
    simp only [rrIters]
    split
    · omega
    · rename_i rr w1 h1
      have a := decodeRR_adv raw w w1 rr h1
      have b := ih w1
      omega

/-- a section that decodes made exactly as many iterations as it has records -/
theorem rrIters_ok (raw : Bytes) (n : Nat) (w w' : Win) (l : List RR)
    (h : decodeRRs raw n w = some (l, w')) : rrIters raw n w = n := by
  induction n generalizing w w' l with
  | zero => simp [rrIters]
  | succ k ih =>
    simp only [decodeRRs] at h
    simp only [rrIters]
    split at h
    · simp at h
    · rename_i rr w1 h1
      rw [Option.map_eq_some_iff] at h
      obtain ⟨⟨l', w2⟩, hr, _⟩ := h
      rw [h1]
      simp only
      rw [ih w1 w2 l' hr]
      omega

theorem qIters_bound (raw : Bytes) (n : Nat) (w : Win) : 5 * qIters raw n w ≤ w.b.length + 5 := by
  induction n generalizing w with
  | zero => simp [qIters]
  | succ k ih =>
    simp only [qIters]
    split
    · omega
    · rename_i l w1 h1
      have a := (decodeQuestions_adv raw 1 w w1 l h1).2
      have b := ih w1
      omega

end DNS
