import EchVerif.Lemmas.Splice
import EchVerif.Lemmas.Hello
import EchVerif.Spec.Hello
/-
  Refinement of the model's reconstruction of ClientHelloInner to the byte-level specification
  `Spec.specInner`, which was written from the draft's text (5.1) independently of client_hello.go.
-/
open Wire TLS
namespace ECH

def toRaw (e : Ext) : Spec.RawExt := ⟨e.typ, e.data⟩

theorem rawExts_parseExtsF : ∀ (fuel : Nat) (b : Bytes) (es : List Ext),
    parseExtsF fuel b = some es → Spec.rawExts fuel b = some (es.map toRaw) := by
  intro fuel
  induction fuel with
  | zero =>
    intro b es h
    simp only [parseExtsF] at h
    split at h
    · simp only [Option.some.injEq] at h; subst h; simp [Spec.rawExts, *]
    · simp at h
  | succ n ih =>
    intro b es h
    simp only [parseExtsF] at h
    split at h
    · simp only [Option.some.injEq] at h; subst h; simp [Spec.rawExts, *]
    · rename_i hne
      split at h
      · simp at h
      · rename_i t r1 h1
        split at h
        · simp at h
        · rename_i d r2 h2
          split at h
          · simp at h
          · rename_i es' h3
            simp only [Option.some.injEq] at h
            subst h
            simp [Spec.rawExts, hne, h1, h2, ih r2 es' h3, toRaw]

theorem extsOf_parseExts (b : Bytes) (es : List Ext) (h : parseExts b = some es) :
    Spec.extsOf b = some (es.map toRaw) := rawExts_parseExtsF _ _ _ h

theorem encExts_raw (es : List Ext) : Spec.encExts (es.map toRaw) = encExts es := by
  induction es with
  | nil => rfl
  | cons e es ih =>
    simp only [Spec.encExts, List.map_cons, List.flatten_cons] at ih ⊢
    rw [ih]
    simp [Spec.RawExt.enc, toRaw, encExts, List.append_assoc]

theorem refList_refTypes : ∀ (fuel : Nat) (b : Bytes), Spec.refList fuel b = refTypes fuel b := by
  intro fuel
  induction fuel with
  | zero => intro b; rfl
  | succ n ih =>
    intro b
    simp only [Spec.refList, refTypes]
    split
    · rfl
    · cases h : readU16 b with
      | none => rfl
      | some p => obtain ⟨t, r⟩ := p; simp [ih]

theorem span_loop_snd {α} (p : α → Bool) : ∀ (l acc : List α), (List.span.loop p l acc).2 = l.dropWhile p := by
  intro l
  induction l with
  | nil => intro acc; simp [List.span.loop]
  | cons a as ih =>
    intro acc
    simp only [List.span.loop, List.dropWhile]
    cases p a <;> simp [ih]

theorem span_snd {α} (p : α → Bool) (l : List α) : (l.span p).2 = l.dropWhile p := span_loop_snd p l []

theorem dropWhile_seek_raw (t : Nat) : ∀ (l : List Ext) (e : Ext) (r : List Ext), seek t l = some (e, r) →
    (l.map toRaw).dropWhile (fun x => decide (x.typ ≠ t)) = toRaw e :: r.map toRaw := by
  intro l
  induction l with
  | nil => intro e r h; simp [seek] at h
  | cons a as ih =>
    intro e r h
    simp only [seek] at h
    split at h
    · rename_i ha
      simp only [Option.some.injEq, Prod.mk.injEq] at h
      obtain ⟨rfl, rfl⟩ := h
      simp [List.dropWhile, toRaw, ha]
    · rename_i ha
      have := ih e r h
      simp only [List.map_cons, List.dropWhile]
      have hd : decide ((toRaw a).typ ≠ t) = true := by simp [toRaw, ha]
      rw [hd]
      exact this

theorem splice_refsLoop : ∀ (ts : List Nat) (outer res : List Ext), refsLoop ts outer = .ok res →
    Spec.splice (outer.map toRaw) ts = some (res.map toRaw) := by
  intro ts
  induction ts with
  | nil =>
    intro outer res h
    simp only [refsLoop, Except.ok.injEq] at h
    subst h
    simp [Spec.splice]
  | cons t ts ih =>
    intro outer res h
    simp only [refsLoop] at h
    split at h
    · simp at h
    · rename_i hnt
      split at h
      · simp at h
      · rename_i e rem hs
        split at h
        · simp at h
        · rename_i es hr
          simp only [Except.ok.injEq] at h
          subst h
          have hsp := dropWhile_seek_raw t outer e rem hs
          have := ih rem es hr
          have hsnd := span_snd (fun x : Spec.RawExt => decide (x.typ ≠ t)) (outer.map toRaw)
          rw [hsp] at hsnd
          simp only [Spec.splice, hnt, if_false]
          cases hspan : (outer.map toRaw).span (fun x => decide (x.typ ≠ t)) with
          | mk pre post =>
            rw [hspan] at hsnd
            simp only at hsnd
            subst hsnd
            simp [this]

theorem expand_expandExts (outer : List Ext) : ∀ (inner : List Ext) (seen : Bool) (res : List Ext),
    expandExts outer inner seen = .ok res →
    Spec.expand (outer.map toRaw) (inner.map toRaw) seen = some (res.map toRaw) := by
  intro inner
  induction inner with
  | nil =>
    intro seen res h
    simp only [expandExts, Except.ok.injEq] at h
    subst h
    simp [Spec.expand]
  | cons e es ih =>
    intro seen res h
    simp only [expandExts] at h
    split at h
    · rename_i hne
      split at h
      · simp at h
      · rename_i r hr
        simp only [Except.ok.injEq] at h
        subst h
        have hne' : ¬ (toRaw e).typ = 0xfd00 := by simpa [toRaw] using hne
        simp [Spec.expand, hne', ih seen r hr]
    · rename_i heq
      have heq' : (toRaw e).typ = 0xfd00 := by
        simp only [toRaw]
        exact Decidable.not_not.mp heq
      split at h
      · simp at h
      · rename_i hseen
        split at h
        · simp at h
        · rename_i want rest hlp
          split at h
          · simp at h
          · rename_i block hb
            split at h
            · simp at h
            · rename_i r hr
              simp only [Except.ok.injEq] at h
              subst h
              obtain ⟨ts, hts, hloop⟩ := refsLoopF_refines _ want outer block hb
              have h1 := splice_refsLoop ts outer block hloop
              have h2 := ih true r hr
              have hseen' : seen = false := by simpa using hseen
              simp only [List.map_cons, Spec.expand, heq', if_true, hseen']
              have hlp' : readLP8 (toRaw e).data = some (want, rest) := by simpa [toRaw] using hlp
              simp [hlp', refList_refTypes, hts, h1, h2]

end ECH

namespace ECH

theorem lp8_inv {x e : Bytes} (h : lp8 x = some e) : x.length < 256 ∧ e = u8 x.length ++ x := by
  simp only [lp8] at h
  split at h
  · simp only [Option.some.injEq] at h; exact ⟨by assumption, h.symm⟩
  · simp at h

theorem lp16_inv {x e : Bytes} (h : lp16 x = some e) : x.length < 65536 ∧ e = u16 x.length ++ x := by
  simp only [lp16] at h
  split at h
  · simp only [Option.some.injEq] at h; exact ⟨by assumption, h.symm⟩
  · simp at h

theorem lp24_inv {x e : Bytes} (h : lp24 x = some e) : x.length < 16777216 ∧ e = u24 x.length ++ x := by
  simp only [lp24] at h
  split at h
  · simp only [Option.some.injEq] at h; exact ⟨by assumption, h.symm⟩
  · simp at h

theorem putExts_false_inv (pl : Nat) : ∀ (es : List Ext) (eb : Bytes), putExts false pl es = .ok eb →
    eb = encExts es ∧ ∀ e ∈ es, e.data.length < 65536 := by
  intro es
  induction es with
  | nil => intro eb h; simp only [putExts, Except.ok.injEq] at h; subst h; simp [encExts]
  | cons e es ih =>
    intro eb h
    simp only [putExts] at h
    split at h
    · rename_i a b ha hb
      simp only [Except.ok.injEq] at h
      subst h
      obtain ⟨hb1, hb2⟩ := ih b hb
      simp only [putExt, Bool.false_eq_true, false_and, if_false] at ha
      split at ha
      · rename_i x hx
        simp only [Except.ok.injEq] at ha
        subst ha
        obtain ⟨hl, rfl⟩ := lp16_inv hx
        refine ⟨by simp [encExts, hb1, List.append_assoc], ?_⟩
        intro y hy
        rcases List.mem_cons.mp hy with rfl | hy
        · exact hl
        · exact hb2 y hy
      · simp at ha
    · simp at h
    · simp at h

/-- inversion of the non-AAD marshaller for a hello that has an extensions field -/
theorem marshalBody_inv (h : Hello) (body : Bytes) (hne : h.noExt = false) (hm : marshalBody false h = .ok body) :
    h.sessionId.length < 256 ∧ h.cipherSuites.length < 65536 ∧ h.compression.length < 256 ∧
    (encExts h.exts).length < 65536 ∧ (∀ e ∈ h.exts, e.data.length < 65536) ∧
    body = u16 h.legacyVersion ++ h.random ++ (u8 h.sessionId.length ++ h.sessionId) ++
      (u16 h.cipherSuites.length ++ h.cipherSuites) ++ (u8 h.compression.length ++ h.compression) ++
      (u16 (encExts h.exts).length ++ encExts h.exts) := by
  simp only [marshalBody] at hm
  split at hm
  · simp at hm
  · rename_i eb hput
    obtain ⟨rfl, hr⟩ := putExts_false_inv _ _ _ hput
    split at hm
    · rename_i sid cs comp ex h1 h2 h3 h4
      simp only [Except.ok.injEq, hne, Bool.false_eq_true, if_false] at hm
      obtain ⟨l1, rfl⟩ := lp8_inv h1
      obtain ⟨l2, rfl⟩ := lp16_inv h2
      obtain ⟨l3, rfl⟩ := lp8_inv h3
      obtain ⟨l4, rfl⟩ := lp16_inv h4
      exact ⟨l1, l2, l3, l4, hr, hm.symm⟩
    · simp at hm

theorem marshalRec_inv (h : Hello) (rec : Bytes) (hm : marshalRec false h = .ok rec) :
    ∃ body, marshalBody false h = .ok body ∧ body.length < 16777216 ∧ 4 + body.length < 65536 ∧
      rec = u8 0x16 ++ u16 h.legacyVersion ++ (u16 (4 + body.length) ++ (u8 1 ++ (u24 body.length ++ body))) := by
  simp only [marshalRec] at hm
  split at hm
  · simp at hm
  · rename_i body hb
    split at hm
    · simp at hm
    · rename_i m h24
      split at hm
      · simp at hm
      · rename_i r h16
        simp only [Except.ok.injEq] at hm
        obtain ⟨l24, rfl⟩ := lp24_inv h24
        obtain ⟨l16, rfl⟩ := lp16_inv h16
        have hlen : (u8 1 ++ (u24 body.length ++ body)).length = 4 + body.length := by simp [u8, u24]; omega
        rw [hlen] at l16
        refine ⟨body, hb, l24, l16, ?_⟩
        rw [← hm, hlen]

/-- `Spec.fields` reads back the six fields of a ClientHello body followed by anything -/
theorem fields_body (ver : Nat) (rnd sid cs comp extb after : Bytes) (hr : rnd.length = 32)
    (hs : sid.length < 256) (hc : cs.length < 65536) (hm : comp.length < 256) (he : extb.length < 65536) :
    Spec.fields (u16 ver ++ rnd ++ (u8 sid.length ++ sid) ++ (u16 cs.length ++ cs) ++ (u8 comp.length ++ comp) ++
      (u16 extb.length ++ extb) ++ after) = some ⟨u16 ver, rnd, sid, cs, comp, extb, after⟩ := by
  have e1 : readN 2 (u16 ver ++ (rnd ++ ((u8 sid.length ++ sid) ++ ((u16 cs.length ++ cs) ++ ((u8 comp.length ++ comp) ++ ((u16 extb.length ++ extb) ++ after))))))
      = some (u16 ver, rnd ++ ((u8 sid.length ++ sid) ++ ((u16 cs.length ++ cs) ++ ((u8 comp.length ++ comp) ++ ((u16 extb.length ++ extb) ++ after))))) :=
    readN_append' _ _ (by simp [u16])
  have e2 : readN 32 (rnd ++ ((u8 sid.length ++ sid) ++ ((u16 cs.length ++ cs) ++ ((u8 comp.length ++ comp) ++ ((u16 extb.length ++ extb) ++ after)))))
      = some (rnd, (u8 sid.length ++ sid) ++ ((u16 cs.length ++ cs) ++ ((u8 comp.length ++ comp) ++ ((u16 extb.length ++ extb) ++ after)))) :=
    readN_append' _ _ hr
  have e3 := readLP8_lp8 (x := sid) (e := u8 sid.length ++ sid) (by simp [lp8, hs])
    ((u16 cs.length ++ cs) ++ ((u8 comp.length ++ comp) ++ ((u16 extb.length ++ extb) ++ after)))
  have e4 := readLP16_lp16 (x := cs) (e := u16 cs.length ++ cs) (by simp [lp16, hc])
    ((u8 comp.length ++ comp) ++ ((u16 extb.length ++ extb) ++ after))
  have e5 := readLP8_lp8 (x := comp) (e := u8 comp.length ++ comp) (by simp [lp8, hm]) ((u16 extb.length ++ extb) ++ after)
  have e6 := readLP16_lp16 (x := extb) (e := u16 extb.length ++ extb) (by simp [lp16, he]) after
  have hne : (u16 extb.length ++ extb) ++ after ≠ [] := by simp [u16]
  simp only [List.append_assoc] at e1 e2 e3 e4 e5 e6 hne ⊢
  simp only [Spec.fields, e1, e2, e3, e4, e5, hne, if_false, e6]

end ECH

namespace TLS
theorem parseClientHello_exts_range (buf : Bytes) (h : Hello) (hp : parseClientHello buf = .ok h) :
    ∀ e ∈ h.exts, e.typ < 65536 ∧ e.data.length < 65536 := by
  unfold parseClientHello at hp
  split at hp; · simp at hp
  split at hp; · simp at hp
  split at hp; · simp at hp
  split at hp; · simp at hp
  split at hp; · simp at hp
  split at hp; · simp at hp
  split at hp; · simp at hp
  split at hp; · simp at hp
  split at hp
  · split at hp; · simp at hp
    simp only [Except.ok.injEq] at hp
    subst hp
    simp
  · split at hp; · simp at hp
    split at hp; · simp at hp
    rename_i extb _ _ _ exts h8
    split at hp; · simp at hp
    split at hp; · simp at hp
    simp only [Except.ok.injEq] at hp
    subst hp
    exact (parseExts_inv extb exts h8).2
end TLS

namespace ECH

end ECH
