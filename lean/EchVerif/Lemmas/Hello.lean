import EchVerif.TLS.Hello
/-! L-RT: wire round trips for the ClientHello model. -/
open Wire
namespace TLS

/-- the plain (non-AAD) encoding of an extension list -/
def encExts : List Ext → Bytes
  | [] => []
  | e :: es => u16 e.typ ++ (u16 e.data.length ++ e.data) ++ encExts es

theorem encExts_append (a b : List Ext) : encExts (a ++ b) = encExts a ++ encExts b := by
  induction a with
  | nil => rfl
  | cons e es ih => simp [encExts, ih, List.append_assoc]

/-- every extension accepted by the parser re-encodes to exactly the bytes it was read from -/
theorem parseExtsF_inv (fuel : Nat) (b : Bytes) (es : List Ext) (h : parseExtsF fuel b = some es) :
    encExts es = b ∧ ∀ e ∈ es, e.typ < 65536 ∧ e.data.length < 65536 := by
  induction fuel generalizing b es with
  | zero =>
    simp [parseExtsF] at h
    obtain ⟨h1, h2⟩ := h; subst h1; subst h2
    exact ⟨rfl, fun _ he => by simp at he⟩
  | succ n ih =>
    unfold parseExtsF at h
    split at h
    · simp at h; subst h; simp_all [encExts]
    · split at h
      · simp at h
      · rename_i t r1 h1
        split at h
        · simp at h
        · rename_i d r2 h2
          split at h
          · simp at h
          · rename_i es' h3
            simp at h; subst h
            obtain ⟨e1, k1⟩ := readU16_inv h1
            obtain ⟨e2, k2⟩ := readLP16_inv h2
            obtain ⟨e3, k3⟩ := ih r2 es' h3
            refine ⟨by simp [encExts, e3, e1, e2, List.append_assoc], ?_⟩
            intro e he
            simp at he
            rcases he with rfl | he
            · exact ⟨k1, k2⟩
            · exact k3 e he

theorem parseExts_inv (b : Bytes) (es : List Ext) (h : parseExts b = some es) :
    encExts es = b ∧ ∀ e ∈ es, e.typ < 65536 ∧ e.data.length < 65536 := parseExtsF_inv _ b es h

/-- conversely the parser accepts the encoding of any in-range list -/
theorem parseExtsF_encExts (es : List Ext) (hr : ∀ e ∈ es, e.typ < 65536 ∧ e.data.length < 65536) :
    ∀ fuel, (encExts es).length ≤ fuel → parseExtsF fuel (encExts es) = some es := by
  induction es with
  | nil => intro fuel _; cases fuel <;> simp [encExts, parseExtsF]
  | cons e es ih =>
    intro fuel hf
    have he := hr e (by simp)
    have hes : ∀ x ∈ es, x.typ < 65536 ∧ x.data.length < 65536 := fun x hx => hr x (by simp [hx])
    cases fuel with
    | zero => simp [encExts, u16] at hf
    | succ n =>
      have hl : (encExts es).length ≤ n := by simp [encExts, u16] at hf; omega
      have hne : encExts (e :: es) ≠ [] := by simp [encExts, u16]
      have hlp : lp16 e.data = some (u16 e.data.length ++ e.data) := by simp [lp16, he.2]
      simp only [parseExtsF, hne, if_false]
      simp only [encExts, List.append_assoc, readU16_u16 he.1]
      have := readLP16_lp16 hlp (encExts es)
      simp only [List.append_assoc] at this
      simp only [this, ih hes n hl]

theorem parseExts_encExts (es : List Ext) (hr : ∀ e ∈ es, e.typ < 65536 ∧ e.data.length < 65536) :
    parseExts (encExts es) = some es := parseExtsF_encExts es hr _ (Nat.le_refl _)

/-- the non-AAD marshaller writes exactly `encExts` (and cannot fail on in-range extensions) -/
theorem putExts_false (pl : Nat) (es : List Ext) (hr : ∀ e ∈ es, e.data.length < 65536) :
    putExts false pl es = .ok (encExts es) := by
  induction es with
  | nil => rfl
  | cons e es ih =>
    have he := hr e (by simp)
    have hes : ∀ x ∈ es, x.data.length < 65536 := fun x hx => hr x (by simp [hx])
    simp [putExts, putExt, lp16, he, ih hes, encExts, List.append_assoc]

end TLS

namespace TLS

/-- Shape of any buffer accepted by `parseClientHello`, and L-RT in the parse→marshal direction:
    re-marshalling the parsed hello yields exactly the ClientHello structure that was read,
    i.e. the input minus the bytes the parser ignores (`after`: bytes following the extensions
    inside the handshake message; `trail`: bytes following the handshake message). -/
theorem parseClientHello_inv (buf : Bytes) (h : Hello) (hp : parseClientHello buf = .ok h) :
    ∃ body after trail,
      buf = u8 1 ++ (u24 (body ++ after).length ++ (body ++ after)) ++ trail ∧
      (body ++ after).length < 16777216 ∧
      marshalBody false h = .ok body ∧
      body = u16 h.legacyVersion ++ h.random ++ (u8 h.sessionId.length ++ h.sessionId) ++
             (u16 h.cipherSuites.length ++ h.cipherSuites) ++ (u8 h.compression.length ++ h.compression) ++
             (if h.noExt then [] else u16 (encExts h.exts).length ++ encExts h.exts) ∧
      h.random.length = 32 ∧ h.legacyVersion < 65536 ∧
      parseExtensions h.exts = .ok h.d ∧
      ((h.d.ech.map (·.typ)) = some 1 → allZero after = true ∧ allZero trail = true) ∧
      (h.noExt = true → h.exts = [] ∧ after = []) := by
  unfold parseClientHello at hp
  split at hp; · simp at hp
  rename_i mt s0 h0
  split at hp; · simp at hp
  rename_i hmt
  split at hp; · simp at hp
  rename_i ss zeros h1
  split at hp; · simp at hp
  rename_i ver s1 h2
  split at hp; · simp at hp
  rename_i rnd s2 h3
  split at hp; · simp at hp
  rename_i sid s3 h4
  split at hp; · simp at hp
  rename_i cs s4 h5
  split at hp; · simp at hp
  rename_i comp s5 h6
  obtain ⟨e0, _⟩ := readU8_inv h0
  obtain ⟨e1, l1⟩ := readLP24_inv h1
  obtain ⟨e2, l2⟩ := readU16_inv h2
  obtain ⟨e3, l3⟩ := readN_inv h3
  obtain ⟨e4, l4⟩ := readLP8_inv h4
  obtain ⟨e5, l5⟩ := readLP16_inv h5
  obtain ⟨e6, l6⟩ := readLP8_inv h6
  have hmt1 : mt = 1 := by simpa using hmt
  subst hmt1
  split at hp
  · -- no extensions field
    rename_i hs5
    subst hs5
    split at hp; · simp at hp
    rename_i d h9
    simp only [Except.ok.injEq] at hp
    subst hp
    have hss : ss = u16 ver ++ rnd ++ (u8 sid.length ++ sid) ++ (u16 cs.length ++ cs) ++ (u8 comp.length ++ comp) := by
      rw [e2, e3, e4, e5, e6]; simp [List.append_assoc]
    have hech : d.ech = none := by
      simp only [parseExtensions] at h9
      first
        | (simp only [Except.ok.injEq] at h9; subst h9; rfl)
        | (cases h9; rfl)
    refine ⟨u16 ver ++ rnd ++ (u8 sid.length ++ sid) ++ (u16 cs.length ++ cs) ++ (u8 comp.length ++ comp),
      [], zeros, ?_, ?_, ?_, ?_, l3, l2, h9, ?_, ?_⟩
    · rw [e0, e1, hss]; simp only [List.append_assoc, List.append_nil]
    · rw [List.append_nil, ← hss]; exact l1
    · dsimp only [marshalBody]
      simp [putExts, lp8, lp16, l4, l5, l6]
    · simp
    · intro ht; rw [hech] at ht; simp at ht
    · intro _; exact ⟨rfl, rfl⟩
  · split at hp; · simp at hp
    rename_i extb s6 h7
    split at hp; · simp at hp
    rename_i exts h8
    split at hp; · simp at hp
    rename_i d h9
    split at hp; · simp at hp
    rename_i hz
    simp only [Except.ok.injEq] at hp
    subst hp
    obtain ⟨e7, l7⟩ := readLP16_inv h7
    obtain ⟨e8, r8⟩ := parseExts_inv extb exts h8
    have hr : ∀ e ∈ exts, e.data.length < 65536 := fun e he => (r8 e he).2
    refine ⟨u16 ver ++ rnd ++ (u8 sid.length ++ sid) ++ (u16 cs.length ++ cs) ++ (u8 comp.length ++ comp) ++ (u16 extb.length ++ extb),
      s6, zeros, ?_, ?_, ?_, ?_, l3, l2, h9, ?_, ?_⟩
    · have hss : ss = u16 ver ++ rnd ++ (u8 sid.length ++ sid) ++ (u16 cs.length ++ cs) ++ (u8 comp.length ++ comp) ++ (u16 extb.length ++ extb) ++ s6 := by
        rw [e2, e3, e4, e5, e6, e7]; simp [List.append_assoc]
      rw [e0, e1, hss]; simp only [List.append_assoc]
    · have hss : ss = u16 ver ++ rnd ++ (u8 sid.length ++ sid) ++ (u16 cs.length ++ cs) ++ (u8 comp.length ++ comp) ++ (u16 extb.length ++ extb) ++ s6 := by
        rw [e2, e3, e4, e5, e6, e7]; simp [List.append_assoc]
      rw [← hss]; exact l1
    · dsimp only [marshalBody]
      rw [putExts_false _ exts hr]
      simp [lp8, lp16, l4, l5, l6, e8, l7]
    · simp [e8]
    · intro ht
      by_cases hbc : allZero s6 = true ∧ allZero zeros = true
      · exact hbc
      · exact absurd ⟨ht, hbc⟩ hz
    · intro hne; simp at hne

/-- a marshalled record is never shorter than its 9 header bytes -/
theorem marshalRec_length (aad : Bool) (h : Hello) (buf : Bytes) (hm : marshalRec aad h = .ok buf) :
    9 ≤ buf.length := by
  unfold marshalRec at hm
  split at hm
  · simp at hm
  · split at hm
    · simp at hm
    · rename_i body _ m h24
      split at hm
      · simp at hm
      · rename_i r h16
        simp only [Except.ok.injEq] at hm
        subst hm
        simp only [lp24] at h24
        split at h24
        · simp only [Option.some.injEq] at h24
          subst h24
          simp only [lp16] at h16
          split at h16
          · simp only [Option.some.injEq] at h16
            subst h16
            simp [u8, u16, u24]
          · simp at h16
        · simp at h24

/-- … so `marshalAAD` never takes the `m[9:]` panic branch -/
theorem marshalAAD_no_slice_panic (h : Hello) (m : Bytes) (hm : marshalRec true h = .ok m) :
    h.marshalAAD = .ok (m.drop 9) := by
  have := marshalRec_length true h m hm
  unfold Hello.marshalAAD
  simp only [hm]
  rw [if_neg (by omega)]

end TLS
