import EchVerif.ECH.Ops
import EchVerif.Lemmas.KeyLoop
import EchVerif.Lemmas.Transport
/-! the Conn invariant: established by NewConn, preserved by Read and Write -/
open Wire TLS
namespace ECH

/-- what inspecting one backend record can do to the state -/
theorem inspectWrite_spec (st st' : St) (record : Bytes) (h : inspectWrite st record = .ok st') :
    st' = st ∨ st' = { st with writePT := true } ∨
    (st' = { st with writePT := true, retry := st.retry + 1 } ∧ record.head? = some 22 ∧
      msgTypeOf record = some 2 ∧ parseServerHello (record.drop 5) = .ok true) := by
  unfold inspectWrite at h
  split at h
  · simp only [Except.ok.injEq] at h; exact Or.inr (Or.inl h.symm)
  · split at h
    · rename_i hc
      split at h
      · simp at h
      · rename_i hrr hp
        split at h
        · rename_i hh
          simp only [Except.ok.injEq] at h
          subst hh
          exact Or.inr (Or.inr ⟨h.symm, hc.1, hc.2, hp⟩)
        · simp only [Except.ok.injEq] at h; exact Or.inl h.symm
    · simp only [Except.ok.injEq] at h; exact Or.inl h.symm

/-- a predicate on states that survives everything the write loop can do -/
structure WriteStable (P : St → Prop) : Prop where
  buf : ∀ st b, P st → P { st with writeBuf := b }
  pt : ∀ st, P st → P { st with writePT := true }
  hrr : ∀ st, P st → P { st with writePT := true, retry := st.retry + 1 }

theorem writeLoop_stable (P : St → Prop) (hP : WriteStable P) :
    ∀ fuel blen st t, P st → P (writeLoop fuel blen st t).st := by
  intro fuel
  induction fuel with
  | zero => intro blen st t h; simpa [writeLoop] using h
  | succ n ih =>
    intro blen st t h
    simp only [writeLoop]
    split
    · exact h
    · split
      · exact h
      · split
        · exact h
        · split
          · exact h
          · rename_i st1 hi
            have h1 : P st1 := by
              rcases inspectWrite_spec st st1 _ hi with e | e | ⟨e, _⟩
              · rw [e]; exact h
              · rw [e]; exact hP.pt st h
              · rw [e]; exact hP.hrr st h
            split
            · exact hP.buf st1 _ h1
            · exact ih blen _ _ (hP.buf st1 _ h1)

theorem connWrite_stable (P : St → Prop) (hP : WriteStable P) (st : St) (t : Tr) (b : Bytes) (h : P st) :
    P (connWrite st t b).st := by
  unfold connWrite
  split
  · exact h
  · exact writeLoop_stable P hP _ _ _ _ (hP.buf st _ h)

/-- the part of the invariant that holds for accepted connections is write-stable -/
theorem inv_accepted_stable :
    WriteStable (fun st => Inv st ∧ st.inner.isSome) := by
  refine ⟨?_, ?_, ?_⟩
  · intro st b ⟨hi, hs⟩
    refine ⟨⟨hi.retry_pt, hi.inner_outer, ?_, hi.seq⟩, hs⟩
    intro hn; have hn' : st.inner = none := hn; simp [hn'] at hs
  · intro st ⟨hi, hs⟩
    refine ⟨⟨fun _ => ⟨rfl, hs⟩, hi.inner_outer, ?_, hi.seq⟩, hs⟩
    intro hn; have hn' : st.inner = none := hn; simp [hn'] at hs
  · intro st ⟨hi, hs⟩
    refine ⟨⟨fun _ => ⟨rfl, hs⟩, hi.inner_outer, ?_, hi.seq⟩, hs⟩
    intro hn; have hn' : st.inner = none := hn; simp [hn'] at hs

/-- Conn.Write preserves the invariant -/
theorem inv_write (st : St) (t : Tr) (b : Bytes) (hi : Inv st) : Inv (connWrite st t b).st := by
  cases hn : st.inner with
  | none =>
    obtain ⟨_, h2, _, h4⟩ := hi.no_inner_pt hn
    unfold connWrite
    simp [h2, h4]
    exact hi
  | some i =>
    exact (connWrite_stable _ inv_accepted_stable st t b ⟨hi, by simp [hn]⟩).1

/-- Write never touches the read side, the hellos or the HPKE context -/
theorem connWrite_frame (st : St) (t : Tr) (b : Bytes) :
    (connWrite st t b).st.inner = st.inner ∧ (connWrite st t b).st.outer = st.outer ∧
    (connWrite st t b).st.ctx = st.ctx ∧ (connWrite st t b).st.ctxConfig = st.ctxConfig ∧
    (connWrite st t b).st.readPT = st.readPT ∧ (connWrite st t b).st.readBuf = st.readBuf ∧
    (connWrite st t b).st.readErr = st.readErr ∧ (connWrite st t b).st.keys = st.keys ∧
    (connWrite st t b).st.retry ≥ st.retry := by
  have := connWrite_stable (fun s => s.inner = st.inner ∧ s.outer = st.outer ∧ s.ctx = st.ctx ∧
      s.ctxConfig = st.ctxConfig ∧ s.readPT = st.readPT ∧ s.readBuf = st.readBuf ∧
      s.readErr = st.readErr ∧ s.keys = st.keys ∧ s.retry ≥ st.retry)
    ⟨fun s b h => h, fun s h => h, fun s h => ⟨h.1, h.2.1, h.2.2.1, h.2.2.2.1, h.2.2.2.2.1, h.2.2.2.2.2.1,
      h.2.2.2.2.2.2.1, h.2.2.2.2.2.2.2.1, Nat.le_succ_of_le h.2.2.2.2.2.2.2.2⟩⟩ st t b
    ⟨rfl, rfl, rfl, rfl, rfl, rfl, rfl, rfl, Nat.le_refl _⟩
  exact this

end ECH

namespace ECH

/-- the invariant only looks at these fields; readPT may additionally flip to true -/
theorem Inv.transfer {st st' : St} (h : Inv st) (e1 : st'.retry = st.retry) (e2 : st'.writePT = st.writePT)
    (e3 : st'.inner = st.inner) (e4 : st'.outer = st.outer) (e5 : st'.ctx = st.ctx)
    (e6 : st'.readPT = st.readPT ∨ st'.readPT = true) (e7 : st'.writeBuf = st.writeBuf) : Inv st' := by
  refine ⟨?_, ?_, ?_, ?_⟩
  · intro hr; rw [e1] at hr; rw [e2, e3]; exact h.retry_pt hr
  · intro hi; rw [e3] at hi; rw [e4, e5]; exact h.inner_outer hi
  · intro hn; rw [e3] at hn
    obtain ⟨a, b, c, d⟩ := h.no_inner_pt hn
    refine ⟨?_, by rw [e2, b], by rw [e5, c], by rw [e7, d]⟩
    rcases e6 with e | e
    · rw [e, a]
    · exact e
  · intro c hc; rw [e5] at hc
    rcases h.seq c hc with s1 | ⟨s2, s3⟩
    · exact Or.inl s1
    · right
      refine ⟨s2, ?_⟩
      rcases e6 with e | e
      · rw [e, s3]
      · exact e

theorem deliver_frame (n : Nat) (st : St) (t : Tr) :
    (deliver n st t).st.retry = st.retry ∧ (deliver n st t).st.writePT = st.writePT ∧
    (deliver n st t).st.inner = st.inner ∧ (deliver n st t).st.outer = st.outer ∧
    (deliver n st t).st.ctx = st.ctx ∧ (deliver n st t).st.readPT = st.readPT ∧
    (deliver n st t).st.writeBuf = st.writeBuf ∧ (deliver n st t).st.ctxConfig = st.ctxConfig ∧
    (deliver n st t).st.keys = st.keys ∧ (deliver n st t).st.readErr = st.readErr := by
  unfold deliver
  split
  · simp
  · split
    · simp
    · simp

theorem inv_deliver (n : Nat) (st : St) (t : Tr) (h : Inv st) : Inv (deliver n st t).st := by
  obtain ⟨a, b, c, d, e, f, g, _⟩ := deliver_frame n st t
  exact h.transfer a b c d e (Or.inl f) g

/-- the key loop on a retried hello: the new context is the stored one, one step further -/
theorem keyLoop_retry_ctx (H : Hpke) (st : St) (h : Hello) (ech : EchExt) (pt : Bytes) (c c0 : Ctx) (cfgb : Bytes)
    (hctx : st.ctx = some c0) (hk : keyLoop H st h ech st.keys = .opened pt c cfgb) :
    c = { c0 with seq := c0.seq + 1 } := by
  obtain ⟨pre, k, post, hks, _, hto⟩ := keyLoop_opened H st h ech st.keys pt c cfgb hk
  obtain ⟨cfg, c1, aad, _, _, _, _, hcand, _, _, _, hc, _⟩ := tryKey_opened H st h ech k pt c cfgb hto
  have := candCtx_stored H st ech k cfg c0 hctx
  rw [this] at hcand
  have : c1 = c0 := by simpa using hcand.symm
  rw [hc, this]

theorem inv_readRetry (H : Hpke) (n : Nat) (st : St) (t : Tr) (r : Bytes) (hi : Inv st)
    (hpt : st.readPT = false) (hin : st.inner.isSome) : Inv (readRetry H n st t r).st := by
  have hi1 : Inv { st with readPT := true } := hi.transfer rfl rfl rfl rfl rfl (Or.inr rfl) rfl
  unfold readRetry
  split
  · rename_i e he
    simp only [alertViaConn]
    exact hi.transfer rfl rfl rfl rfl rfl (Or.inr rfl) rfl
  · rename_i o inner st2 hh
    obtain ⟨_, _, _, hproc, _⟩ := handle_inv H _ st2 r true o inner hh
    have hi2 : Inv st2 := by
      rcases process_frame H _ st2 o true inner hproc with ⟨_, e⟩ | ⟨i, pt, c, cfg, ech, _, e, _, hk, _⟩
      · rw [e]; exact hi1
      · rw [e]
        obtain ⟨c0, hc0⟩ := Option.isSome_iff_exists.mp (hi.inner_outer hin).2
        have hc := keyLoop_retry_ctx H { st with readPT := true } o ech pt c c0 cfg hc0 hk
        refine ⟨hi1.retry_pt, ?_, ?_, ?_⟩
        · intro hs; exact ⟨(hi1.inner_outer hs).1, by simp⟩
        · intro hn
          have hn' : st.inner = none := hn
          simp [hn'] at hin
        · intro c' hc'
          simp only [Option.some.injEq] at hc'
          subst hc'
          right
          refine ⟨?_, rfl⟩
          rcases hi.seq c0 hc0 with s1 | ⟨_, s3⟩
          · rw [hc]; simp [s1]
          · rw [hpt] at s3; simp at s3
    cases inner with
    | none => exact hi2
    | some i =>
      simp only
      split
      · exact inv_deliver _ _ _ (hi2.transfer rfl rfl rfl rfl rfl (Or.inl rfl) rfl)
      · exact inv_deliver _ _ _ (hi2.transfer rfl rfl rfl rfl rfl (Or.inl rfl) rfl)

/-- Conn.Read preserves the invariant -/
theorem inv_read (H : Hpke) (st : St) (t : Tr) (n : Nat) (hi : Inv st) : Inv (connRead H st t n).st := by
  unfold connRead
  split
  · rename_i hc
    split
    · exact inv_deliver _ _ _ (hi.transfer rfl rfl rfl rfl rfl (Or.inl rfl) rfl)
    · split
      · exact inv_deliver _ _ _ (hi.transfer rfl rfl rfl rfl rfl (Or.inr rfl) rfl)
      · split
        · rename_i hr
          have hr1 : st.retry = 1 := by
            simp only [isRetryHello, Bool.decide_and, Bool.and_eq_true, decide_eq_true_eq] at hr
            exact hr.2.2.2
          have hpt : st.readPT = false := by simpa using hc.1
          exact inv_readRetry H n st _ _ hi hpt (hi.retry_pt (by omega)).2
        · exact inv_deliver _ _ _ (hi.transfer rfl rfl rfl rfl rfl (Or.inl rfl) rfl)
  · exact inv_deliver _ _ _ hi

/-- NewConn establishes the invariant -/
theorem inv_newConn (H : Hpke) (keys : List Key) (t : Tr) (hok : (newConn H keys t).err = none) :
    Inv (newConn H keys t).st := by
  obtain ⟨record, t1, outer, inner, st1, buf, _, _, hh, _, hr⟩ := newConn_ok H keys t _ rfl hok
  rw [hr]
  obtain ⟨_, _, _, hproc, _⟩ := handle_inv H _ st1 record false outer inner hh
  rcases process_frame H _ st1 outer false inner hproc with ⟨hin, e⟩ | ⟨i, pt, c, cfg, ech, hin, e, hech, hk, _⟩
  · subst hin; subst e
    refine ⟨?_, ?_, ?_, ?_⟩
    · intro hr; simp [afterHello] at hr
    · intro hs; simp [afterHello] at hs
    · intro _; simp [afterHello]
    · intro c hc; simp [afterHello] at hc
  · subst hin; subst e
    refine ⟨?_, ?_, ?_, ?_⟩
    · intro hr; simp [afterHello] at hr
    · intro _; simp [afterHello, hech]
    · intro hn; simp [afterHello] at hn
    · intro c' hc'
      simp [afterHello] at hc'
      subst hc'
      left
      obtain ⟨pre, k, post, hks, _, hto⟩ := keyLoop_opened H _ outer ech _ pt c cfg hk
      obtain ⟨cfg', c1, aad, _, _, _, _, hcand, _, _, _, hc, _⟩ := tryKey_opened H _ outer ech k pt c cfg hto
      obtain ⟨hc1, _⟩ := candCtx_fresh H _ ech k cfg' c1 rfl hcand
      rw [hc, hc1]

end ECH
