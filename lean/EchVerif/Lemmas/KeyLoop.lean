import EchVerif.Lemmas.Conn
/-! inversion lemmas for the key loop and the ideal HPKE -/
open Wire TLS
namespace ECH

theorem keyLoop_opened (H : Hpke) (st : St) (h : Hello) (ech : EchExt) (ks : List Key)
    (pt : Bytes) (c : Ctx) (cfg : Bytes) (hk : keyLoop H st h ech ks = .opened pt c cfg) :
    ∃ pre k post, ks = pre ++ k :: post ∧ (∀ k' ∈ pre, tryKey H st h ech k' = .next) ∧
      tryKey H st h ech k = .opened pt c cfg := by
  induction ks with
  | nil => simp [keyLoop] at hk
  | cons k ks ih =>
    simp only [keyLoop] at hk
    split at hk
    · rename_i hn
      obtain ⟨pre, k', post, e1, e2, e3⟩ := ih hk
      refine ⟨k :: pre, k', post, by simp [e1], ?_, e3⟩
      intro x hx
      simp at hx
      rcases hx with rfl | hx
      · exact hn
      · exact e2 x hx
    · rename_i hnn
      exact ⟨[], k, ks, rfl, by simp, hk⟩

theorem open_some (H : Hpke) (c : Ctx) (aad ct pt : Bytes) (h : H.open c aad ct = some pt) :
    ∃ s ∈ H.seals, s.priv = c.priv ∧ s.kem = c.kem ∧ s.kdf = c.kdf ∧ s.aead = c.aead ∧
      s.info = c.info ∧ s.enc = c.enc ∧ s.seq = c.seq ∧ s.aad = aad ∧ s.ct = ct ∧ s.pt = pt := by
  unfold Hpke.open at h
  rw [Option.map_eq_some_iff] at h
  obtain ⟨s, hf, hpt⟩ := h
  have hm := List.mem_of_find?_eq_some hf
  have hp := List.find?_some hf
  simp only [decide_eq_true_eq] at hp
  exact ⟨s, hm, hp.1, hp.2.1, hp.2.2.1, hp.2.2.2.1, hp.2.2.2.2.1, hp.2.2.2.2.2.1, hp.2.2.2.2.2.2.1,
    hp.2.2.2.2.2.2.2.1, hp.2.2.2.2.2.2.2.2, hpt⟩

theorem open_none_of_no_seal (H : Hpke) (c : Ctx) (aad ct : Bytes)
    (h : ∀ s ∈ H.seals, ¬ (s.priv = c.priv ∧ s.kem = c.kem ∧ s.kdf = c.kdf ∧ s.aead = c.aead ∧
      s.info = c.info ∧ s.enc = c.enc ∧ s.seq = c.seq ∧ s.aad = aad ∧ s.ct = ct)) :
    H.open c aad ct = none := by
  unfold Hpke.open
  rw [List.find?_eq_none.mpr]
  · rfl
  · intro s hs
    simpa using h s hs

theorem candCtx_err (H : Hpke) (st : St) (ech : EchExt) (k : Key) (cfg : ConfigSpec) (r : KeyTry)
    (hc : candCtx H st ech k cfg = .error r) : r = .next ∨ r = .fail .other ∨ r = .fail .illegal := by
  unfold candCtx at hc
  split at hc
  · simp at hc
  · split at hc
    · split at hc
      · simp only [Except.error.injEq] at hc; exact Or.inr (Or.inl hc.symm)
      · split at hc
        · simp only [Except.error.injEq] at hc; exact Or.inl hc.symm
        · simp at hc
    · simp only [Except.error.injEq] at hc; exact Or.inr (Or.inr hc.symm)

/-- everything that must hold for one key to open the payload -/
theorem tryKey_opened (H : Hpke) (st : St) (h : Hello) (ech : EchExt) (k : Key)
    (pt : Bytes) (c' : Ctx) (cfgb : Bytes) (ht : tryKey H st h ech k = .opened pt c' cfgb) :
    ∃ cfg c aad, configSpec k.config = some cfg ∧ cfg.id = ech.configId ∧
      cfg.suites.any (fun s => s.kdf = ech.kdf ∧ s.aead = ech.aead) = true ∧
      ¬ (st.ctx.isSome ∧ st.ctxConfig ≠ k.config) ∧
      candCtx H st ech k cfg = .ok c ∧ h.marshalAAD = .ok aad ∧
      H.open c aad ech.payload = some pt ∧ cfg.publicName = h.d.serverName ∧
      c' = { c with seq := c.seq + 1 } ∧ cfgb = k.config := by
  unfold tryKey at ht
  split at ht
  · simp at ht
  · rename_i cfg hcfg
    split at ht
    · simp at ht
    · rename_i hm
      split at ht
      · simp at ht
      · rename_i hs
        split at ht
        · rename_i r hc
          rcases candCtx_err H st ech k cfg r hc with rfl | rfl | rfl <;> simp at ht
        · rename_i c hc
          split at ht
          · simp at ht
          · rename_i aad ha
            split at ht
            · simp at ht
            · rename_i pt' ho
              split at ht
              · simp at ht
              · rename_i hn
                simp only [KeyTry.opened.injEq] at ht
                obtain ⟨rfl, rfl, rfl⟩ := ht
                refine ⟨cfg, c, aad, hcfg, ?_, ?_, hs, hc, ha, ho, by simpa using hn, rfl, rfl⟩
                · simp only [not_or, Decidable.not_not] at hm; exact hm.1
                · simp only [not_or, Decidable.not_not] at hm; simpa using hm.2

/-- a fresh candidate context is exactly the one RFC 9180 SetupBaseR would build for this key,
    suite, info string "tls ech\0" ‖ config, and encapsulated key, at sequence number 0 -/
theorem candCtx_fresh (H : Hpke) (st : St) (ech : EchExt) (k : Key) (cfg : ConfigSpec) (c : Ctx)
    (hn : st.ctx = none) (hc : candCtx H st ech k cfg = .ok c) :
    c = ⟨k.priv, cfg.kem, ech.kdf, ech.aead, "tls ech\x00".toUTF8.toList ++ k.config, ech.enc, 0⟩ ∧
    ech.enc.length > 0 ∧ H.privOk.contains (cfg.kem, k.priv) = true ∧
    H.setupOk.contains (k.priv, cfg.kem, ech.kdf, ech.aead, ech.enc) = true := by
  unfold candCtx at hc
  simp only [hn] at hc
  split at hc
  · rename_i hl
    split at hc
    · simp at hc
    · rename_i hp
      split at hc
      · simp at hc
      · rename_i hs
        simp only [Except.ok.injEq] at hc
        exact ⟨hc.symm, hl, by simpa using hp, by simpa using hs⟩
  · simp at hc

theorem candCtx_stored (H : Hpke) (st : St) (ech : EchExt) (k : Key) (cfg : ConfigSpec) (c0 : Ctx)
    (hn : st.ctx = some c0) : candCtx H st ech k cfg = .ok c0 := by
  unfold candCtx; simp [hn]

end ECH
