import EchVerif.Lemmas.SpecRefine
import EchVerif.Lemmas.NoPanic
/-
  The ClientHelloOuterAAD computed by the model (marshal(aad = true), then m[9:]) equals the
  byte-level `Spec.aadSpec`, written from draft 5.2 independently of client_hello.go.
-/
open Wire TLS
namespace ECH

/-- shape of the data of an outer (type 0) ECH extension accepted by `parseEchExt` -/
theorem parseEchExt_outer_shape (data : Bytes) (x : EchExt) (h : parseEchExt data = .ok x) (ht : x.typ = 0) :
    data = u8 0 ++ (u16 x.kdf ++ (u16 x.aead ++ (u8 x.configId ++ ((u16 x.enc.length ++ x.enc) ++ (u16 x.payload.length ++ x.payload))))) ∧
    x.enc.length < 65536 ∧ x.payload.length < 65536 := by
  unfold parseEchExt at h
  split at h
  · simp at h
  · rename_i t r0 h0
    split at h
    · simp at h
    · rename_i hle
      split at h
      · split at h
        · simp only [Except.ok.injEq] at h; subst h; simp at ht
        · simp at h
      · rename_i hne1
        split at h
        · simp at h
        · rename_i kdf r1 h1
          split at h
          · simp at h
          · rename_i aead r2 h2
            split at h
            · simp at h
            · rename_i cid r3 h3
              split at h
              · simp at h
              · rename_i enc r4 h4
                split at h
                · simp at h
                · rename_i pl r5 h5
                  split at h
                  · rename_i hr5
                    simp only [Except.ok.injEq] at h; subst h
                    obtain ⟨e0, l0⟩ := readU8_inv h0
                    obtain ⟨e1, _⟩ := readU16_inv h1
                    obtain ⟨e2, _⟩ := readU16_inv h2
                    obtain ⟨e3, _⟩ := readU8_inv h3
                    obtain ⟨e4, l4⟩ := readLP16_inv h4
                    obtain ⟨e5, l5⟩ := readLP16_inv h5
                    have ht0 : t = 0 := by omega
                    subst ht0
                    subst hr5
                    refine ⟨?_, l4, l5⟩
                    rw [e0, e1, e2, e3, e4, e5]
                    simp [List.append_assoc]
                  · simp at h

/-- every ECH extension of a successfully parsed extension list parses to the recorded `ech` -/
theorem parseExtensionsFrom_ech_parse (d d' : Derived) (es : List Ext) (h : parseExtensionsFrom d es = .ok d')
    (hd : d.ech = none) : ∀ x ∈ es, x.typ = 0xfe0d → ∃ y, parseEchExt x.data = .ok y ∧ d'.ech = some y := by
  induction es generalizing d with
  | nil => intro x hx; simp at hx
  | cons a as ih =>
    simp only [parseExtensionsFrom] at h
    split at h
    · simp at h
    · rename_i d1 h1
      intro x hx hxt
      rcases List.mem_cons.mp hx with rfl | hx'
      · -- the head is the ECH extension: the rest contains none
        unfold extStep at h1
        have hne : ¬ x.typ = 0 := by omega
        have hne16 : ¬ x.typ = 16 := by omega
        have hne43 : ¬ x.typ = 43 := by omega
        have hnefd : ¬ x.typ = 0xfd00 := by omega
        rw [if_neg hne, if_neg hne16, if_neg hne43, if_neg hnefd, if_pos hxt] at h1
        simp only [hd, Option.isSome_none, Bool.false_eq_true, if_false] at h1
        split at h1
        · simp at h1
        · rename_i y hy
          simp only [Except.ok.injEq] at h1
          subst h1
          have := (parseExtensionsFrom_ech _ d' as h).1 (by simp)
          exact ⟨y, hy, by rw [this.1]⟩
      · have hax : a.typ ≠ 0xfe0d := by
          intro ha
          obtain ⟨_, y, hy, _⟩ := (extStep_ech d d1 a h1).2 ha
          have := ((parseExtensionsFrom_ech d1 d' as h).1 (by simp [hy])).2 x hx'
          exact this hxt
        have hd1 : d1.ech = none := by rw [(extStep_ech d d1 a h1).1 hax]; exact hd
        exact ih d1 h hd1 x hx' hxt

end ECH

namespace ECH

/-- one outer ECH extension: the model's AAD rendering and the specification's coincide -/
theorem putExt_aad_ech (data : Bytes) (y : EchExt) (hy : parseEchExt data = .ok y) (ht : y.typ = 0)
    (hlen : data.length < 65536) (b : Bytes)
    (hp : putExt true y.payload.length ⟨0xfe0d, data⟩ = .ok b) :
    Spec.aadExts [toRaw ⟨0xfe0d, data⟩] = [⟨0xfe0d, data.take (data.length - y.payload.length) ++ List.replicate y.payload.length 0⟩] ∧
    b = Spec.RawExt.enc ⟨0xfe0d, data.take (data.length - y.payload.length) ++ List.replicate y.payload.length 0⟩ := by
  obtain ⟨hshape, hel, hpl⟩ := parseEchExt_outer_shape data y hy ht
  -- the prefix in front of the payload
  have hA : data = (u8 0 ++ (u16 y.kdf ++ (u16 y.aead ++ (u8 y.configId ++ ((u16 y.enc.length ++ y.enc) ++ u16 y.payload.length))))) ++ y.payload := by
    rw [hshape]; simp [List.append_assoc]
  have hAl : data.length - y.payload.length =
      (u8 0 ++ (u16 y.kdf ++ (u16 y.aead ++ (u8 y.configId ++ ((u16 y.enc.length ++ y.enc) ++ u16 y.payload.length))))).length := by
    have := congrArg List.length hA
    rw [List.length_append] at this
    omega
  have htake : data.take (data.length - y.payload.length) =
      u8 0 ++ (u16 y.kdf ++ (u16 y.aead ++ (u8 y.configId ++ ((u16 y.enc.length ++ y.enc) ++ u16 y.payload.length)))) := by
    rw [hAl]
    conv => lhs; rw [hA]
    exact List.take_left' rfl
  constructor
  · -- specification side
    have hrest : Spec.aadExts [toRaw ⟨0xfe0d, data⟩] =
        [⟨0xfe0d, data.take (8 + y.enc.length) ++ u16 y.payload.length ++ List.replicate y.payload.length 0⟩] := by
      have h1 : readLP16 ((u16 y.enc.length ++ y.enc) ++ (u16 y.payload.length ++ y.payload)) = some (y.enc, u16 y.payload.length ++ y.payload) :=
        readLP16_lp16 (x := y.enc) (e := u16 y.enc.length ++ y.enc) (by simp [lp16, hel]) _
      have h2 : readLP16 (u16 y.payload.length ++ y.payload) = some (y.payload, []) := by
        have := readLP16_lp16 (x := y.payload) (e := u16 y.payload.length ++ y.payload) (by simp [lp16, hpl]) []
        simpa using this
      have hd6 : data = (0 : UInt8) :: UInt8.ofNat (y.kdf / 256) :: UInt8.ofNat y.kdf :: UInt8.ofNat (y.aead / 256) ::
          UInt8.ofNat y.aead :: UInt8.ofNat y.configId :: ((u16 y.enc.length ++ y.enc) ++ (u16 y.payload.length ++ y.payload)) := by
        rw [hshape]; simp [u8, u16]
      have step : ∀ (d : Bytes), d = (0 : UInt8) :: UInt8.ofNat (y.kdf / 256) :: UInt8.ofNat y.kdf :: UInt8.ofNat (y.aead / 256) ::
          UInt8.ofNat y.aead :: UInt8.ofNat y.configId :: ((u16 y.enc.length ++ y.enc) ++ (u16 y.payload.length ++ y.payload)) →
          Spec.aadExts [toRaw ⟨0xfe0d, d⟩] =
            [⟨0xfe0d, d.take (8 + y.enc.length) ++ u16 y.payload.length ++ List.replicate y.payload.length 0⟩] := by
        intro d hd
        subst hd
        simp only [Spec.aadExts, toRaw, if_true, h1, h2]
      exact step data hd6
    rw [hrest]
    have : data.take (8 + y.enc.length) ++ u16 y.payload.length = data.take (data.length - y.payload.length) := by
      rw [htake]
      have h8 : 8 + y.enc.length = (u8 0 ++ (u16 y.kdf ++ (u16 y.aead ++ (u8 y.configId ++ (u16 y.enc.length ++ y.enc))))).length := by
        simp [u8, u16]; omega
      have hB : data = (u8 0 ++ (u16 y.kdf ++ (u16 y.aead ++ (u8 y.configId ++ (u16 y.enc.length ++ y.enc))))) ++ (u16 y.payload.length ++ y.payload) := by
        rw [hshape]; simp [List.append_assoc]
      rw [h8]
      conv => lhs; rw [hB]
      rw [List.take_left' rfl]
      simp [List.append_assoc]
    rw [this]
  · -- model side
    simp only [putExt, true_and, if_true] at hp
    split at hp
    · simp at hp
    · split at hp
      · rename_i x hx
        simp only [Except.ok.injEq] at hp
        subst hp
        obtain ⟨_, rfl⟩ := lp16_inv hx
        simp [Spec.RawExt.enc, List.append_assoc]
      · simp at hp

end ECH

namespace ECH

theorem aadExts_cons (e : Spec.RawExt) (es : List Spec.RawExt) :
    Spec.aadExts (e :: es) = Spec.aadExts [e] ++ Spec.aadExts es := by
  simp only [Spec.aadExts]
  split
  · split
    · split
      · split
        · simp
        · simp
      · simp
    · simp
  · simp

theorem putExts_aad (pl : Nat) : ∀ (es : List Ext) (eb : Bytes),
    (∀ x ∈ es, x.typ = 0xfe0d → ∃ y, parseEchExt x.data = .ok y ∧ y.typ = 0 ∧ y.payload.length = pl) →
    putExts true pl es = .ok eb → eb = Spec.encExts (Spec.aadExts (es.map toRaw)) := by
  intro es
  induction es with
  | nil => intro eb _ h; simp only [putExts, Except.ok.injEq] at h; subst h; simp [Spec.aadExts, Spec.encExts]
  | cons x xs ih =>
    intro eb hech h
    simp only [putExts] at h
    split at h
    · rename_i a b ha hb
      simp only [Except.ok.injEq] at h
      subst h
      have hrest := ih b (fun z hz => hech z (by simp [hz])) hb
      rw [List.map_cons, aadExts_cons]
      simp only [Spec.encExts, List.map_append, List.flatten_append] at hrest ⊢
      rw [← hrest]
      congr 1
      by_cases hx : x.typ = 0xfe0d
      · obtain ⟨y, hy, hty, hpl⟩ := hech x (by simp) hx
        subst hpl
        have hxx : x = ⟨0xfe0d, x.data⟩ := by cases x; simp at hx; simp [hx]
        rw [hxx] at ha
        have hdl : x.data.length < 65536 := by
          simp only [putExt, true_and, if_true] at ha
          split at ha
          · simp at ha
          · split at ha
            · rename_i z hz
              have := (lp16_inv hz).1
              simp only [List.length_append, List.length_take, List.length_replicate] at this
              have := parseEchExt_payload _ _ hy
              omega
            · simp at ha
        obtain ⟨h1, h2⟩ := putExt_aad_ech x.data y hy hty hdl a ha
        rw [hxx, h1, h2]
        simp
      · have hspec : Spec.aadExts [toRaw x] = [toRaw x] := by
          simp [Spec.aadExts, toRaw, hx]
        rw [hspec]
        simp only [putExt, hx, and_false, if_false] at ha
        split at ha
        · rename_i z hz
          simp only [Except.ok.injEq] at ha
          subst ha
          obtain ⟨_, rfl⟩ := lp16_inv hz
          simp [Spec.RawExt.enc, toRaw, List.append_assoc]
        · simp at ha
    · simp at h
    · simp at h

end ECH

namespace ECH

theorem marshalRecA_inv (aad : Bool) (h : Hello) (rec : Bytes) (hm : marshalRec aad h = .ok rec) :
    ∃ body, marshalBody aad h = .ok body ∧
      rec = u8 0x16 ++ u16 h.legacyVersion ++ (u16 (4 + body.length) ++ (u8 1 ++ (u24 body.length ++ body))) := by
  simp only [marshalRec] at hm
  split at hm
  · simp at hm
  · rename_i body hb
    split at hm
    · simp at hm
    · rename_i m h24
      split at hm
      · simp at hm
      · rename_i r h16
        simp only [Except.ok.injEq] at hm
        obtain ⟨_, rfl⟩ := lp24_inv h24
        obtain ⟨_, rfl⟩ := lp16_inv h16
        have hlen : (u8 1 ++ (u24 body.length ++ body)).length = 4 + body.length := by simp [u8, u24]; omega
        refine ⟨body, hb, ?_⟩
        rw [← hm, hlen]

end ECH
