import EchVerif.Lemmas.Inv
/-! error-class lemmas: which errors each function of the model can return; in particular where the
    explicit `.panic` outcomes (Go index / slice / nil-dereference panics) are unreachable -/
open Wire TLS
namespace TLS

/-- "a protocol error": one of the alert classes, never a Go panic -/
def Err.proto (e : Err) : Prop := e = .decode ∨ e = .illegal ∨ e = .unexpected ∨ e = .other

theorem sniLoopF_err (fuel : Nat) (b sn : Bytes) (e : Err) (h : sniLoopF fuel b sn = .error e) :
    e = .decode ∨ e = .illegal := by
  induction fuel generalizing b sn with
  | zero => simp only [sniLoopF] at h; split at h <;> simp at h; exact Or.inl h.symm
  | succ n ih =>
    simp only [sniLoopF] at h
    split at h
    · simp at h
    · split at h
      · simp at h; exact Or.inl h.symm
      · split at h
        · simp at h; exact Or.inr h.symm
        · split at h
          · simp at h; exact Or.inl h.symm
          · split at h
            · simp at h; exact Or.inl h.symm
            · exact ih _ _ h

theorem alpnLoopF_err (fuel : Nat) (b : Bytes) (acc : List Bytes) (e : Err) (h : alpnLoopF fuel b acc = .error e) :
    e = .decode := by
  induction fuel generalizing b acc with
  | zero => simp only [alpnLoopF] at h; split at h <;> simp at h; exact h.symm
  | succ n ih =>
    simp only [alpnLoopF] at h
    split at h
    · simp at h
    · split at h
      · simp at h; exact h.symm
      · exact ih _ _ h

theorem versionsLoopF_err (fuel : Nat) (b : Bytes) (acc : Bool) (e : Err) (h : versionsLoopF fuel b acc = .error e) :
    e = .decode := by
  induction fuel generalizing b acc with
  | zero => simp only [versionsLoopF] at h; split at h <;> simp at h; exact h.symm
  | succ n ih =>
    simp only [versionsLoopF] at h
    split at h
    · simp at h
    · split at h
      · simp at h; exact h.symm
      · exact ih _ _ h

theorem parseEchExt_err (data : Bytes) (e : Err) (h : parseEchExt data = .error e) :
    e = .decode ∨ e = .illegal := by
  unfold parseEchExt at h
  repeat' (split at h <;> try (simp at h))
  all_goals (first | exact Or.inl h.symm | exact Or.inr h.symm)

/-- the payload of a parsed outer ECH extension is a part of the extension data -/
theorem parseEchExt_payload (data : Bytes) (x : EchExt) (h : parseEchExt data = .ok x) :
    x.payload.length ≤ data.length := by
  unfold parseEchExt at h
  split at h
  · simp at h
  · rename_i t r0 h0
    split at h
    · simp at h
    · split at h
      · split at h
        · simp at h; subst h; simp
        · simp at h
      · split at h
        · simp at h
        · rename_i kdf r1 h1
          split at h
          · simp at h
          · rename_i aead r2 h2
            split at h
            · simp at h
            · rename_i cid r3 h3
              split at h
              · simp at h
              · rename_i enc r4 h4
                split at h
                · simp at h
                · rename_i pl r5 h5
                  split at h
                  · simp at h; subst h
                    have a0 := readU8_len h0
                    have a1 := readU16_len h1
                    have a2 := readU16_len h2
                    have a3 := readU8_len h3
                    have a4 := readLP16_len h4
                    have a5 := readLP16_len h5
                    simp; omega
                  · simp at h

theorem extStep_err (d : Derived) (x : Ext) (e : Err) (h : extStep d x = .error e) :
    e = .decode ∨ e = .illegal := by
  unfold extStep at h
  split at h
  · split at h
    · simp at h; exact Or.inl h.symm
    · split at h
      · rename_i hh; simp at h; subst h; exact sniLoopF_err _ _ _ _ hh
      · simp at h
  · split at h
    · split at h
      · simp at h; exact Or.inl h.symm
      · split at h
        · rename_i hh; simp at h; subst h; exact Or.inl (alpnLoopF_err _ _ _ _ hh)
        · simp at h
    · split at h
      · split at h
        · simp at h; exact Or.inl h.symm
        · split at h
          · rename_i hh; simp at h; subst h; exact Or.inl (versionsLoopF_err _ _ _ _ hh)
          · simp at h
      · split at h
        · simp at h
        · split at h
          · split at h
            · simp at h; exact Or.inr h.symm
            · split at h
              · rename_i hh; simp at h; subst h; exact parseEchExt_err _ _ hh
              · simp at h
          · simp at h

theorem parseExtensionsFrom_err (d : Derived) (es : List Ext) (e : Err)
    (h : parseExtensionsFrom d es = .error e) : e = .decode ∨ e = .illegal := by
  induction es generalizing d with
  | nil => simp [parseExtensionsFrom] at h
  | cons x xs ih =>
    simp only [parseExtensionsFrom] at h
    split at h
    · rename_i hh; simp at h; subst h; exact extStep_err _ _ _ hh
    · exact ih _ h

/-- uniqueness of the ECH extension and where its payload sits -/
theorem extStep_ech (d d' : Derived) (x : Ext) (h : extStep d x = .ok d') :
    (x.typ ≠ 0xfe0d → d'.ech = d.ech) ∧
    (x.typ = 0xfe0d → d.ech = none ∧ ∃ y, d'.ech = some y ∧ y.payload.length ≤ x.data.length) := by
  unfold extStep at h
  split at h
  · rename_i ht
    refine ⟨fun _ => ?_, fun hx => by omega⟩
    repeat' (split at h <;> try (simp at h))
    subst h; rfl
  · split at h
    · rename_i ht
      refine ⟨fun _ => ?_, fun hx => by omega⟩
      repeat' (split at h <;> try (simp at h))
      subst h; rfl
    · split at h
      · rename_i ht
        refine ⟨fun _ => ?_, fun hx => by omega⟩
        repeat' (split at h <;> try (simp at h))
        subst h; rfl
      · split at h
        · rename_i ht
          refine ⟨fun _ => ?_, fun hx => by omega⟩
          simp at h; subst h; rfl
        · split at h
          · rename_i ht
            refine ⟨fun hx => absurd ht hx, fun _ => ?_⟩
            split at h
            · simp at h
            · rename_i hn
              split at h
              · simp at h
              · rename_i y hy
                simp at h; subst h
                exact ⟨by simpa using hn, y, rfl, parseEchExt_payload _ _ hy⟩
          · rename_i ht
            simp at h; subst h
            exact ⟨fun _ => rfl, fun hx => absurd hx ht⟩

theorem parseExtensionsFrom_ech (d d' : Derived) (es : List Ext) (h : parseExtensionsFrom d es = .ok d') :
    (d.ech.isSome → d'.ech = d.ech ∧ ∀ x ∈ es, x.typ ≠ 0xfe0d) ∧
    (d.ech = none → ∀ y, d'.ech = some y → ∀ x ∈ es, x.typ = 0xfe0d → y.payload.length ≤ x.data.length) ∧
    (d.ech = none → d'.ech = none → ∀ x ∈ es, x.typ ≠ 0xfe0d) := by
  induction es generalizing d with
  | nil =>
    simp only [parseExtensionsFrom, Except.ok.injEq] at h; subst h
    simp
  | cons x xs ih =>
    simp only [parseExtensionsFrom] at h
    split at h
    · simp at h
    · rename_i d1 h1
      obtain ⟨a1, a2⟩ := extStep_ech d d1 x h1
      obtain ⟨b1, b2, b3⟩ := ih d1 h
      refine ⟨?_, ?_, ?_⟩
      · intro hs
        have hx : x.typ ≠ 0xfe0d := by
          intro hx
          have := (a2 hx).1
          simp [this] at hs
        have e1 := a1 hx
        have := b1 (by rw [e1]; exact hs)
        refine ⟨by rw [this.1, e1], ?_⟩
        intro z hz
        simp at hz
        rcases hz with rfl | hz
        · exact hx
        · exact this.2 z hz
      · intro hn y hy z hz hzt
        simp at hz
        by_cases hx : x.typ = 0xfe0d
        · obtain ⟨_, y1, hy1, hy2⟩ := a2 hx
          have := b1 (by simp [hy1])
          rcases hz with rfl | hz
          · rw [this.1, hy1] at hy
            simp at hy; subst hy; exact hy2
          · exact absurd hzt (this.2 z hz)
        · have e1 := a1 hx
          rcases hz with rfl | hz
          · exact absurd hzt hx
          · exact b2 (by rw [e1, hn]) y hy z hz hzt
      · intro hn hn' z hz
        simp at hz
        by_cases hx : x.typ = 0xfe0d
        · obtain ⟨_, y1, hy1, _⟩ := a2 hx
          have := b1 (by simp [hy1])
          rw [this.1, hy1] at hn'
          simp at hn'
        · have e1 := a1 hx
          rcases hz with rfl | hz
          · exact hx
          · exact b3 (by rw [e1, hn]) hn' z hz

theorem parseClientHello_err (buf : Bytes) (e : Err) (h : parseClientHello buf = .error e) :
    e = .decode ∨ e = .illegal ∨ e = .unexpected := by
  unfold parseClientHello at h
  repeat' (split at h <;> try (simp at h))
  all_goals (first
    | exact Or.inl h.symm
    | exact Or.inr (Or.inl h.symm)
    | exact Or.inr (Or.inr h.symm)
    | (rename_i hh; subst h; rcases parseExtensionsFrom_err _ _ _ hh with r | r
       · exact Or.inl r
       · exact Or.inr (Or.inl r)))

end TLS

namespace TLS

theorem putExt_false_err (pl : Nat) (x : Ext) (e : Err) (h : putExt false pl x = .error e) : e = .other := by
  unfold putExt at h
  simp only [Bool.false_eq_true, false_and, if_false] at h
  split at h <;> simp at h
  exact h.symm

theorem putExts_false_err (pl : Nat) (es : List Ext) (e : Err) (h : putExts false pl es = .error e) : e = .other := by
  induction es with
  | nil => simp [putExts] at h
  | cons x xs ih =>
    simp only [putExts] at h
    cases hx : putExt false pl x with
    | error e' =>
      simp only [hx] at h
      simp at h; subst h
      exact putExt_false_err pl x _ hx
    | ok a =>
      cases hxs : putExts false pl xs with
      | error e' => simp only [hx, hxs] at h; simp at h; subst h; exact ih hxs
      | ok b => simp [hx, hxs] at h

theorem putExt_true_err (pl : Nat) (x : Ext) (e : Err) (hl : x.typ = 0xfe0d → pl ≤ x.data.length)
    (h : putExt true pl x = .error e) : e = .other := by
  unfold putExt at h
  split at h
  · rename_i hc
    have := hl hc.2
    rw [if_neg (by omega)] at h
    split at h <;> simp at h
    exact h.symm
  · split at h <;> simp at h
    exact h.symm

/-- in AAD mode the only possible panic is the `ext.Data[:n]` slice; it is excluded when every
    ECH extension is at least as long as the payload -/
theorem putExts_true_err (pl : Nat) (es : List Ext) (e : Err)
    (hl : ∀ x ∈ es, x.typ = 0xfe0d → pl ≤ x.data.length) (h : putExts true pl es = .error e) : e = .other := by
  induction es with
  | nil => simp [putExts] at h
  | cons x xs ih =>
    simp only [putExts] at h
    cases hx : putExt true pl x with
    | error e' =>
      simp only [hx] at h
      simp at h; subst h
      exact putExt_true_err pl x _ (hl x (by simp)) hx
    | ok a =>
      cases hxs : putExts true pl xs with
      | error e' => simp only [hx, hxs] at h; simp at h; subst h; exact ih (fun y hy => hl y (by simp [hy])) hxs
      | ok b => simp [hx, hxs] at h

theorem marshalRec_err (aad : Bool) (h : Hello) (e : Err)
    (hl : aad = true → ∀ x ∈ h.exts, x.typ = 0xfe0d →
          (match h.d.ech with | some y => y.payload.length | none => 0) ≤ x.data.length)
    (hm : marshalRec aad h = .error e) : e = .other := by
  unfold marshalRec at hm
  split at hm
  · rename_i e' hb
    simp only [Except.error.injEq] at hm; subst hm
    unfold marshalBody at hb
    simp only at hb
    split at hb
    · rename_i e'' hp
      simp only [Except.error.injEq] at hb; subst hb
      cases aad with
      | false => exact putExts_false_err _ _ _ hp
      | true => exact putExts_true_err _ _ _ (hl rfl) hp
    · split at hb <;> simp at hb
      exact hb.symm
  · split at hm
    · simp at hm; exact hm.symm
    · split at hm
      · simp at hm; exact hm.symm
      · simp at hm

/-- a hello that came out of the parser can always be marshalled for the AAD without panicking -/
theorem marshalAAD_err_of_parsed (buf : Bytes) (h : Hello) (e : Err)
    (hp : parseClientHello buf = .ok h) (hm : h.marshalAAD = .error e) : e = .other := by
  obtain ⟨_, _, _, _, _, _, _, _, _, hpe, _⟩ := parseClientHello_inv buf h hp
  have hech := parseExtensionsFrom_ech {} h.d h.exts hpe
  have hl : ∀ x ∈ h.exts, x.typ = 0xfe0d →
      (match h.d.ech with | some y => y.payload.length | none => 0) ≤ x.data.length := by
    intro x hx hxt
    cases he : h.d.ech with
    | none => simp
    | some y => exact hech.2.1 rfl y he x hx hxt
  unfold Hello.marshalAAD at hm
  split at hm
  · rename_i e' hr
    simp only [Except.error.injEq] at hm; subst hm
    exact marshalRec_err true h _ (fun _ => hl) hr
  · rename_i m hr
    have := marshalRec_length true h m hr
    rw [if_neg (by omega)] at hm
    simp at hm

theorem marshal_err (h : Hello) (e : Err) (hm : h.marshal = .error e) : e = .other :=
  marshalRec_err false h e (fun hf => by simp at hf) hm

end TLS

namespace ECH

theorem refsLoopF_err (fuel : Nat) (want : Bytes) (outer : List Ext) (e : Err)
    (h : refsLoopF fuel want outer = .error e) : e = .decode ∨ e = .illegal := by
  induction fuel generalizing want outer with
  | zero => simp only [refsLoopF] at h; split at h <;> simp at h; exact Or.inl h.symm
  | succ n ih =>
    simp only [refsLoopF] at h
    repeat' (split at h <;> try (simp at h))
    all_goals (first | exact Or.inl h.symm | exact Or.inr h.symm | skip)
    rename_i hh
    subst h
    exact ih _ _ hh

theorem expandExts_err (outer inner : List Ext) (seen : Bool) (e : Err)
    (h : expandExts outer inner seen = .error e) : e = .decode ∨ e = .illegal := by
  induction inner generalizing seen with
  | nil => simp [expandExts] at h
  | cons x xs ih =>
    simp only [expandExts] at h
    split at h
    · split at h
      · rename_i hh; simp at h; subst h; exact ih _ hh
      · simp at h
    · split at h
      · simp at h; exact Or.inr h.symm
      · split at h
        · simp at h; exact Or.inl h.symm
        · split at h
          · rename_i hh; simp at h; subst h; exact refsLoopF_err _ _ _ _ hh
          · split at h
            · rename_i hh; simp at h; subst h; exact ih _ hh
            · simp at h

theorem decodeInner_err (outer : Hello) (pt : Bytes) (e : Err) (h : decodeInner outer pt = .error e) :
    e.proto := by
  unfold decodeInner at h
  split at h
  · simp at h; exact Or.inr (Or.inr (Or.inr h.symm))
  · split at h
    · rename_i hh; simp at h; subst h
      rcases parseClientHello_err _ _ hh with r | r | r
      · exact Or.inl r
      · exact Or.inr (Or.inl r)
      · exact Or.inr (Or.inr (Or.inl r))
    · split at h
      · simp at h; exact Or.inr (Or.inl h.symm)
      · split at h
        · rename_i hh; simp at h; subst h
          rcases expandExts_err _ _ _ _ hh with r | r
          · exact Or.inl r
          · exact Or.inr (Or.inl r)
        · split at h
          · rename_i hh; simp at h; subst h
            rcases parseExtensionsFrom_err _ _ _ hh with r | r
            · exact Or.inl r
            · exact Or.inr (Or.inl r)
          · split at h
            · simp at h; exact Or.inr (Or.inl h.symm)
            · simp at h

theorem tryKey_fail (H : Hpke) (st : St) (h : Hello) (ech : EchExt) (k : Key) (buf : Bytes) (x : Err)
    (hp : parseClientHello buf = .ok h) (ht : tryKey H st h ech k = .fail x) : x = .other ∨ x = .illegal := by
  unfold tryKey at ht
  split at ht
  · simp at ht
  · split at ht
    · simp at ht
    · split at ht
      · simp at ht
      · split at ht
        · rename_i r hc
          rcases candCtx_err H st ech k _ r hc with rfl | rfl | rfl <;> simp at ht
          · exact Or.inl ht.symm
          · exact Or.inr ht.symm
        · split at ht
          · rename_i x' ha
            simp at ht; subst ht
            exact Or.inl (marshalAAD_err_of_parsed buf h _ hp ha)
          · split at ht
            · simp at ht
            · split at ht
              · simp at ht; exact Or.inr ht.symm
              · simp at ht

theorem keyLoop_fail (H : Hpke) (st : St) (h : Hello) (ech : EchExt) (ks : List Key) (buf : Bytes) (x : Err)
    (hp : parseClientHello buf = .ok h) (hk : keyLoop H st h ech ks = .fail x) : x = .other ∨ x = .illegal := by
  induction ks with
  | nil => simp [keyLoop] at hk
  | cons k ks ih =>
    simp only [keyLoop] at hk
    split at hk
    · exact ih hk
    · exact tryKey_fail H st h ech k buf _ hp hk

theorem processCore_err (H : Hpke) (st : St) (h : Hello) (r : Bool) (buf : Bytes) (e : Err)
    (hp : parseClientHello buf = .ok h) (he : processCore H st h r = .error e) :
    e.proto ∨ e = .decrypt := by
  unfold processCore at he
  split at he
  · simp at he
  · split at he
    · simp at he
    · split at he
      · rename_i x hk
        simp at he; subst he
        rcases keyLoop_fail H st h _ _ buf _ hp hk with r | r
        · exact Or.inl (Or.inr (Or.inr (Or.inr r)))
        · exact Or.inl (Or.inr (Or.inl r))
      · split at he
        · simp at he; exact Or.inr he.symm
        · simp at he
      · split at he
        · rename_i hd; simp at he; subst he; exact Or.inl (decodeInner_err _ _ _ hd)
        · simp at he

/-- the first hello can never panic -/
theorem handle_first_err (H : Hpke) (st : St) (record : Bytes) (e : Err)
    (h : handle H st record false = .error e) : e.proto ∨ e = .decrypt := by
  unfold handle at h
  split at h
  · rename_i hh; simp at h; subst h
    rcases parseClientHello_err _ _ hh with r | r | r
    · exact Or.inl (Or.inl r)
    · exact Or.inl (Or.inr (Or.inl r))
    · exact Or.inl (Or.inr (Or.inr (Or.inl r)))
  · rename_i outer hp
    split at h
    · simp at h; exact Or.inl (Or.inr (Or.inl h.symm))
    · split at h
      · simp at h; exact Or.inl (Or.inr (Or.inl h.symm))
      · split at h
        · rename_i hh; simp at h; subst h
          unfold process at hh
          simp only [Bool.false_eq_true, if_false] at hh
          exact processCore_err H st outer false _ _ hp hh
        · simp at h

/-- a retried hello can only panic through the nil dereferences the invariant excludes -/
theorem handle_retry_err (H : Hpke) (st : St) (record : Bytes) (e : Err)
    (hin : st.inner.isSome) (hout : (st.outer.bind (·.d.ech)).isSome)
    (h : handle H st record true = .error e) : e.proto ∨ e = .decrypt ∨ e = .missing := by
  unfold handle at h
  split at h
  · rename_i hh; simp at h; subst h
    rcases parseClientHello_err _ _ hh with r | r | r
    · exact Or.inl (Or.inl r)
    · exact Or.inl (Or.inr (Or.inl r))
    · exact Or.inl (Or.inr (Or.inr (Or.inl r)))
  · rename_i outer hp
    split at h
    · simp at h; exact Or.inl (Or.inr (Or.inl h.symm))
    · split at h
      · simp at h; exact Or.inl (Or.inr (Or.inl h.symm))
      · split at h
        · rename_i hh; simp at h; subst h
          unfold process at hh
          simp only [if_true] at hh
          split at hh
          · rename_i x hpre
            simp at hh; subst hh
            unfold retryPre at hpre
            split at hpre
            · simp at hpre; exact Or.inr (Or.inr hpre.symm)
            · split at hpre <;> simp at hpre
              exact Or.inl (Or.inr (Or.inl hpre.symm))
            · rename_i hn
              simp [hn] at hout
          · rcases processCore_err H st outer true _ _ hp hh with r | r
            · exact Or.inl r
            · exact Or.inr (Or.inl r)
        · rename_i inner st' _
          simp only [if_true] at h
          split at h
          · rename_i x hrc
            simp at h; subst h
            unfold retryCheck at hrc
            split at hrc
            · split at hrc <;> simp at hrc
              exact Or.inl (Or.inr (Or.inl hrc.symm))
            · simp at hrc; exact Or.inl (Or.inr (Or.inl hrc.symm))
            · simp_all
          · simp at h

end ECH
