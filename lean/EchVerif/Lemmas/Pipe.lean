import EchVerif.Lemmas.Inv
/-! pipe lemmas: bytes move from (readBuf ++ client stream) to the caller, and from the caller's
    writes to (client output ++ writeBuf), in order, nothing lost or duplicated -/
open Wire TLS
namespace ECH

theorem deliver_pipe (n : Nat) (st : St) (t : Tr) :
    (deliver n st t).data ++ (deliver n st t).st.readBuf ++ (deliver n st t).tr.stream = st.readBuf ++ t.stream ∧
    (deliver n st t).tr.out = t.out ∧ (deliver n st t).tr.closed = t.closed ∧
    (deliver n st t).data.length ≤ n := by
  unfold deliver
  split
  · simp [List.take_append_drop]
    exact Nat.min_le_left _ _
  · rename_i hb
    have hb' : st.readBuf = [] := by simpa using hb
    split
    · simp [hb']
    · have h := read1_spec n t
      simp only
      refine ⟨?_, h.2.2.2.1, h.2.2.2.2.1, h.2.1⟩
      simp [hb', h.1]

/-- one Read that does not process a retried hello is a pure pipe step -/
theorem connRead_pipe (H : Hpke) (st : St) (t : Tr) (n : Nat) (hr : st.retry ≠ 1 ∨ st.readPT = true) :
    (connRead H st t n).data ++ (connRead H st t n).st.readBuf ++ (connRead H st t n).tr.stream
      = st.readBuf ++ t.stream ∧
    (connRead H st t n).tr.out = t.out ∧ (connRead H st t n).tr.closed = t.closed ∧
    (connRead H st t n).data.length ≤ n ∧ (connRead H st t n).st.retry = st.retry ∧
    (st.readPT = true → (connRead H st t n).st.readPT = true) := by
  unfold connRead
  split
  · rename_i hc
    have hb : st.readBuf = [] := hc.2.1
    have hrr := readRecord_spec t
    split
    · rename_i r e t1 heq
      rw [heq] at hrr
      simp only at hrr
      obtain ⟨a1, _, a3, a4, _⟩ := hrr
      have hd := deliver_pipe n { st with readErr := some e, readBuf := r } t1
      refine ⟨?_, by rw [hd.2.1, a3], by rw [hd.2.2.1, a4], hd.2.2.2, (deliver_frame _ _ _).1, ?_⟩
      · rw [hd.1, hb]; simp [a1]
      · intro h; rw [(deliver_frame _ _ _).2.2.2.2.2.1]; exact h
    · rename_i r t1 heq
      rw [heq] at hrr
      simp only at hrr
      obtain ⟨a1, _, a3, a4, _⟩ := hrr
      split
      · have hd := deliver_pipe n { st with readPT := true, readBuf := r } t1
        refine ⟨?_, by rw [hd.2.1, a3], by rw [hd.2.2.1, a4], hd.2.2.2, (deliver_frame _ _ _).1, ?_⟩
        · rw [hd.1, hb]; simp [a1]
        · intro _; rw [(deliver_frame _ _ _).2.2.2.2.2.1]
      · split
        · rename_i hh
          simp only [isRetryHello, Bool.decide_and, Bool.and_eq_true, decide_eq_true_eq] at hh
          rcases hr with h | h
          · exact absurd hh.2.2.2 h
          · exact absurd h (by simpa using hc.1)
        · have hd := deliver_pipe n { st with readBuf := r } t1
          refine ⟨?_, by rw [hd.2.1, a3], by rw [hd.2.2.1, a4], hd.2.2.2, (deliver_frame _ _ _).1, ?_⟩
          · rw [hd.1, hb]; simp [a1]
          · intro h; rw [(deliver_frame _ _ _).2.2.2.2.2.1]; exact h
  · have hd := deliver_pipe n st t
    exact ⟨hd.1, hd.2.1, hd.2.2.1, hd.2.2.2, (deliver_frame _ _ _).1,
      fun h => by rw [(deliver_frame _ _ _).2.2.2.2.2.1]; exact h⟩

/-- a list of reads with arbitrary buffer sizes -/
def readsRun (H : Hpke) : St → Tr → List Nat → List Bytes × St × Tr
  | st, t, [] => ([], st, t)
  | st, t, n :: ns =>
    let r := connRead H st t n
    let rest := readsRun H r.st r.tr ns
    (r.data :: rest.1, rest.2.1, rest.2.2)

theorem readsRun_pipe (H : Hpke) (ns : List Nat) (st : St) (t : Tr) (hr : st.retry ≠ 1 ∨ st.readPT = true) :
    (readsRun H st t ns).1.flatten ++ (readsRun H st t ns).2.1.readBuf ++ (readsRun H st t ns).2.2.stream
      = st.readBuf ++ t.stream ∧ (readsRun H st t ns).2.2.out = t.out := by
  induction ns generalizing st t with
  | nil => simp [readsRun]
  | cons n ns ih =>
    simp only [readsRun]
    have h1 := connRead_pipe H st t n hr
    have hr' : (connRead H st t n).st.retry ≠ 1 ∨ (connRead H st t n).st.readPT = true := by
      rcases hr with h | h
      · left; rw [h1.2.2.2.2.1]; exact h
      · right; exact h1.2.2.2.2.2 h
    have h2 := ih (connRead H st t n).st (connRead H st t n).tr hr'
    refine ⟨?_, by rw [h2.2, h1.2.1]⟩
    simp only [List.flatten_cons, List.append_assoc]
    rw [← List.append_assoc (readsRun H _ _ ns).1.flatten, h2.1, ← List.append_assoc, h1.1]

/-! ### write side -/

/-- at most one incomplete TLS record -/
def Incomplete (b : Bytes) : Prop := b.length < 5 ∨ b.length < recLen b + 5

theorem writeLoop_pipe (fuel blen : Nat) (st : St) (t : Tr) (hopen : t.closed = false)
    (hok : (writeLoop fuel blen st t).err = none) :
    (writeLoop fuel blen st t).tr.out ++ (writeLoop fuel blen st t).st.writeBuf = t.out ++ st.writeBuf ∧
    (writeLoop fuel blen st t).n = blen ∧ (writeLoop fuel blen st t).tr.closed = false ∧
    (writeLoop fuel blen st t).tr.chunks = t.chunks ∧
    (st.writeBuf.length < fuel → Incomplete (writeLoop fuel blen st t).st.writeBuf) := by
  induction fuel generalizing st t with
  | zero => simp [writeLoop, hopen]
  | succ k ih =>
    simp only [writeLoop] at hok ⊢
    split
    · rename_i hl; simp [hopen]; intro _; exact Or.inl hl
    · rename_i hl
      split
      · rename_i hmax; simp [hmax, hl] at hok
      · rename_i hmax
        split
        · rename_i hsz; simp [hopen]; intro _; exact Or.inr (by omega)
        · rename_i hsz
          simp only [hl, hmax, hsz, if_false] at hok
          split
          · rename_i e he; simp [he] at hok
          · rename_i st1 hi
            simp only [hi] at hok
            have hwb : st1.writeBuf = st.writeBuf := by
              rcases inspectWrite_spec st st1 _ hi with e | e | ⟨e, _⟩ <;> rw [e]
            have hw := (write_spec (st1.writeBuf.take (recLen st.writeBuf + 5)) t).1 hopen
            rw [hw] at hok ⊢
            simp only at hok ⊢
            have hlen : (st1.writeBuf.take (recLen st.writeBuf + 5)).length = recLen st.writeBuf + 5 := by
              rw [hwb, List.length_take]; omega
            have := ih { st1 with writeBuf := st1.writeBuf.drop (st1.writeBuf.take (recLen st.writeBuf + 5)).length }
              { t with out := t.out ++ st1.writeBuf.take (recLen st.writeBuf + 5) } hopen hok
            obtain ⟨p1, p2, p3, p4, p5⟩ := this
            refine ⟨?_, p2, p3, p4, ?_⟩
            · rw [p1]
              simp only [List.append_assoc]
              rw [hlen, List.take_append_drop, hwb]
            · intro hf
              apply p5
              show (st1.writeBuf.drop (st1.writeBuf.take (recLen st.writeBuf + 5)).length).length < k
              rw [hlen, List.length_drop, hwb]
              omega

/-- Conn.Write on an open transport: if it reports success, the client has received the backend's
    bytes minus exactly the withheld buffer, which is at most one incomplete record, and Write
    reports len(b). -/
theorem connWrite_pipe (st : St) (t : Tr) (b : Bytes) (hopen : t.closed = false)
    (hok : (connWrite st t b).err = none) :
    (connWrite st t b).tr.out ++ (connWrite st t b).st.writeBuf = t.out ++ st.writeBuf ++ b ∧
    (connWrite st t b).n = b.length ∧ (connWrite st t b).tr.closed = false ∧
    (connWrite st t b).tr.chunks = t.chunks ∧
    ((connWrite st t b).st.writeBuf = [] ∨ Incomplete (connWrite st t b).st.writeBuf) := by
  unfold connWrite at hok ⊢
  split
  · rename_i hc
    have hw := (write_spec b t).1 hopen
    simp only [hw]
    simp [hc.2, hopen]
  · rename_i hc
    simp only [hc, if_false] at hok
    have := writeLoop_pipe ((st.writeBuf ++ b).length + 1) b.length { st with writeBuf := st.writeBuf ++ b } t hopen hok
    obtain ⟨p1, p2, p3, p4, p5⟩ := this
    refine ⟨by rw [p1]; simp [List.append_assoc], p2, p3, p4, Or.inr (p5 (by simp))⟩

end ECH
