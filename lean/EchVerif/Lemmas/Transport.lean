import EchVerif.ECH.Conn
/-! transport lemmas: reads move bytes from the front of the stream, never touch the output side -/
open Wire TLS
namespace ECH

theorem read1_spec (k : Nat) (t : Tr) :
    (t.read1 k).1 ++ (t.read1 k).2.2.stream = t.stream ∧ (t.read1 k).1.length ≤ k ∧
    (t.read1 k).2.2.fin = t.fin ∧ (t.read1 k).2.2.out = t.out ∧ (t.read1 k).2.2.closed = t.closed ∧
    ((t.read1 k).2.1.isSome → (t.read1 k).1 = [] ∧ (t.read1 k).2.2 = t) := by
  unfold Tr.read1 Tr.stream
  split
  · simp
  · cases h : t.chunks with
    | nil => simp [h]
    | cons c cs =>
      simp only
      split
      · simp [*]
      · refine ⟨?_, ?_, rfl, rfl, rfl, by simp⟩
        · simp [← List.append_assoc, List.take_append_drop]
        · simp [List.length_take]; exact Nat.min_le_left _ _

theorem readFull_spec (fuel k : Nat) (t : Tr) :
    (Tr.readFull fuel k t).1 ++ (Tr.readFull fuel k t).2.2.stream = t.stream ∧
    (Tr.readFull fuel k t).1.length ≤ k ∧
    (Tr.readFull fuel k t).2.2.fin = t.fin ∧ (Tr.readFull fuel k t).2.2.out = t.out ∧
    (Tr.readFull fuel k t).2.2.closed = t.closed ∧
    ((Tr.readFull fuel k t).2.1 = none → (Tr.readFull fuel k t).1.length = k) := by
  induction fuel generalizing k t with
  | zero =>
    cases k with
    | zero => simp [Tr.readFull]
    | succ k => simp [Tr.readFull]
  | succ n ih =>
    cases k with
    | zero => simp [Tr.readFull]
    | succ k =>
      simp only [Tr.readFull]
      have h1 := read1_spec (k+1) t
      rcases hr : t.read1 (k+1) with ⟨d, e, t'⟩
      rw [hr] at h1
      simp only at h1
      obtain ⟨a1, a2, a3, a4, a5, _⟩ := h1
      cases e with
      | some e => simp; exact ⟨a1, a2, a3, a4, a5⟩
      | none =>
        simp only
        have h2 := ih (k + 1 - d.length) t'
        rcases hr2 : Tr.readFull n (k + 1 - d.length) t' with ⟨d2, e2, t''⟩
        rw [hr2] at h2
        simp only at h2 ⊢
        obtain ⟨b1, b2, b3, b4, b5, b6⟩ := h2
        refine ⟨?_, ?_, by rw [b3, a3], by rw [b4, a4], by rw [b5, a5], ?_⟩
        · rw [List.append_assoc, b1, a1]
        · simp; omega
        · intro he
          have := b6 he
          simp; omega

/-- `readRecord` consumes a prefix of the client stream and leaves the output side alone -/
theorem readRecord_spec (t : Tr) :
    (readRecord t).1 ++ (readRecord t).2.2.stream = t.stream ∧
    (readRecord t).2.2.fin = t.fin ∧ (readRecord t).2.2.out = t.out ∧
    (readRecord t).2.2.closed = t.closed ∧
    ((readRecord t).2.1 = none → 5 ≤ (readRecord t).1.length ∧
       (readRecord t).1.length = 5 + recLen ((readRecord t).1.take 5) ∧
       recLen ((readRecord t).1.take 5) ≤ maxRecordLength) := by
  unfold readRecord
  have h1 := readFull_spec (t.chunks.length + 1) 5 t
  rcases hr : Tr.readFull (t.chunks.length + 1) 5 t with ⟨h, e, t'⟩
  rw [hr] at h1
  simp only at h1
  obtain ⟨a1, a2, a3, a4, a5, a6⟩ := h1
  cases e with
  | some e => simp; exact ⟨a1, a3, a4, a5⟩
  | none =>
    simp only
    have hl := a6 rfl
    split
    · simp; exact ⟨a1, a3, a4, a5⟩
    · rename_i hmax
      have h2 := readFull_spec (t'.chunks.length + 1) (recLen h) t'
      rcases hr2 : Tr.readFull (t'.chunks.length + 1) (recLen h) t' with ⟨b, e2, t''⟩
      rw [hr2] at h2
      simp only at h2
      obtain ⟨b1, b2, b3, b4, b5, b6⟩ := h2
      cases e2 with
      | some e2 =>
        simp only
        refine ⟨by rw [List.append_assoc, b1, a1], by rw [b3, a3], by rw [b4, a4], by rw [b5, a5], by simp⟩
      | none =>
        simp only
        refine ⟨by rw [List.append_assoc, b1, a1], by rw [b3, a3], by rw [b4, a4], by rw [b5, a5], ?_⟩
        intro _
        have hb := b6 rfl
        have ht : (h ++ b).take 5 = h := by
          rw [List.take_append_of_le_length (by omega)]
          exact List.take_of_length_le (by omega)
        refine ⟨by simp; omega, ?_, ?_⟩
        · rw [ht]; simp; omega
        · rw [ht]; omega

theorem write_spec (b : Bytes) (t : Tr) :
    (t.closed = false → (t.write b) = (b.length, none, { t with out := t.out ++ b })) ∧
    (t.closed = true → (t.write b) = (0, some .closed, t)) ∧
    (t.write b).2.2.chunks = t.chunks ∧ (t.write b).2.2.fin = t.fin ∧ (t.write b).2.2.closed = t.closed := by
  unfold Tr.write
  cases h : t.closed <;> simp [h]

end ECH
