import EchVerif.Resolve.CacheLts
/-
  Invariants of the fine-grained cache model (Resolve/CacheLts.lean), by induction over schedules.
-/
namespace CacheLts

/-! ### invariants -/

/-- the goroutine is inside the critical section of entry `o` -/
def Pc.inCS : Pc → Nat → Prop
  | .locked o' _, o => o' = o
  | .fetching o', o => o' = o
  | _, _ => False

/-- a stored or copied (expiration, result) pair belongs together -/
def PairOk (now : Nat) (exp : Option Nat) (res : Option Fetch) : Prop :=
  ∀ e, exp = some e → ∃ f, res = some f ∧ e = f.rcvd + f.ttl ∧ f.rcvd ≤ now

def ThOk (s : St) (t : Nat) : Prop :=
  (s.ths t).startedAt ≤ s.now ∧
  match (s.ths t).pc with
  | .snap _ exp res => PairOk s.now exp res
  | .locked o _ => (s.objs o).holder = some t
  | .fetching o => (s.objs o).holder = some t ∧ fresh (s.objs o).exp s.now = false
  | .done r τ own =>
      (s.ths t).startedAt ≤ τ ∧ τ ≤ s.now ∧
      ∃ f, r = some f ∧ (own = true → f.rcvd = τ) ∧ (own = false → f.rcvd ≤ τ ∧ τ < f.rcvd + f.ttl)
  | _ => True

structure Inv (s : St) : Prop where
  objs : ∀ o, PairOk s.now (s.objs o).exp (s.objs o).res
  ths : ∀ t, ThOk s t
  held : ∀ o t, (s.objs o).holder = some t → (s.ths t).pc.inCS o

theorem PairOk.mono {now now' : Nat} {exp res} (h : PairOk now exp res) (hle : now ≤ now') : PairOk now' exp res := by
  intro e he
  obtain ⟨f, h1, h2, h3⟩ := h e he
  exact ⟨f, h1, h2, Nat.le_trans h3 hle⟩

theorem fresh_true {exp : Option Nat} {now : Nat} (h : fresh exp now = true) : ∃ e, exp = some e ∧ now < e := by
  unfold fresh at h
  split at h
  · exact ⟨_, rfl, by simpa using h⟩
  · simp at h

theorem fresh_false_mono {exp : Option Nat} {now now' : Nat} (h : fresh exp now = false) (hle : now ≤ now') :
    fresh exp now' = false := by
  unfold fresh at *
  split
  · rename_i e
    simp only [decide_eq_false_iff_not, Nat.not_lt] at h ⊢
    omega
  · rfl

theorem inv_init : Inv init := by
  refine ⟨?_, ?_, ?_⟩
  · intro o e he; simp [init] at he
  · intro t; simp [ThOk, init]
  · intro o t h; simp [init] at h


@[simp] theorem setTh_ths (s : St) (t : Nat) (th : Th) (i : Nat) :
    (s.setTh t th).ths i = if i = t then th else s.ths i := rfl
@[simp] theorem setTh_objs (s : St) (t : Nat) (th : Th) : (s.setTh t th).objs = s.objs := rfl
@[simp] theorem setTh_now (s : St) (t : Nat) (th : Th) : (s.setTh t th).now = s.now := rfl
@[simp] theorem setObj_objs (s : St) (o : Nat) (ob : Obj) (i : Nat) :
    (s.setObj o ob).objs i = if i = o then ob else s.objs i := rfl
@[simp] theorem setObj_ths (s : St) (o : Nat) (ob : Obj) : (s.setObj o ob).ths = s.ths := rfl
@[simp] theorem setObj_now (s : St) (o : Nat) (ob : Obj) : (s.setObj o ob).now = s.now := rfl

/-- what a step does not touch stays in order: thread `t'` is unchanged, time does not go back,
    and no object that `t'` holds has been written -/
theorem thOk_frame (s s' : St) (t' : Nat) (hth : s'.ths t' = s.ths t') (hnow : s.now ≤ s'.now)
    (hobj : ∀ o, (s.objs o).holder = some t' → s'.objs o = s.objs o) (h : ThOk s t') : ThOk s' t' := by
  unfold ThOk at *
  rw [hth]
  refine ⟨Nat.le_trans h.1 hnow, ?_⟩
  have h2 := h.2
  split
  · rename_i o exp res hpc
    rw [hpc] at h2
    exact PairOk.mono h2 hnow
  · rename_i o sr hpc
    rw [hpc] at h2
    simp only at h2
    rw [hobj o h2]; exact h2
  · rename_i o hpc
    rw [hpc] at h2
    simp only at h2
    rw [hobj o h2.1]
    exact ⟨h2.1, fresh_false_mono h2.2 hnow⟩
  · rename_i r τ own hpc
    rw [hpc] at h2
    simp only at h2
    exact ⟨h2.1, Nat.le_trans h2.2.1 hnow, h2.2.2⟩
  · trivial


/-- a step of thread `t` that writes no object and leaves `t` outside the critical section -/
theorem inv_setTh (s : St) (t : Nat) (th : Th) (hi : Inv s)
    (hout : ∀ o, ¬ (s.ths t).pc.inCS o)
    (hnew : ThOk (s.setTh t th) t) : Inv (s.setTh t th) := by
  refine ⟨hi.objs, ?_, ?_⟩
  · intro t'
    by_cases hne : t' = t
    · subst hne; exact hnew
    · exact thOk_frame s _ t' (by simp [hne]) (Nat.le_refl _) (fun _ _ => rfl) (hi.ths t')
  · intro o t' hh
    simp only [setTh_objs] at hh
    have := hi.held o t' hh
    by_cases hne : t' = t
    · subst hne
      exact absurd this (hout o)
    · simpa [hne] using this

/-- a step of thread `t` that writes object `o`, which nobody else holds -/
theorem inv_setBoth (s : St) (t o : Nat) (th : Th) (ob : Obj) (hi : Inv s)
    (hfree : (s.objs o).holder = none ∨ (s.objs o).holder = some t)
    (hone : ∀ o', (s.objs o').holder = some t → o' = o)
    (hpair : PairOk s.now ob.exp ob.res)
    (hheld : ob.holder = none ∨ (ob.holder = some t ∧ th.pc.inCS o))
    (hnew : ThOk ((s.setTh t th).setObj o ob) t) : Inv ((s.setTh t th).setObj o ob) := by
  refine ⟨?_, ?_, ?_⟩
  · intro o'
    by_cases ho : o' = o
    · subst ho; simpa using hpair
    · simpa [ho] using hi.objs o'
  · intro t'
    by_cases hne : t' = t
    · subst hne; exact hnew
    · refine thOk_frame s ((s.setTh t th).setObj o ob) t' (by simp [hne]) (Nat.le_refl _) ?_ (hi.ths t')
      intro o' hh
      by_cases ho : o' = o
      · subst ho
        rcases hfree with h1 | h1
        · rw [h1] at hh; simp at hh
        · rw [h1] at hh; simp only [Option.some.injEq] at hh; exact absurd hh.symm hne
      · simp [ho]
  · intro o' t' hh
    by_cases ho : o' = o
    · subst ho
      simp only [setObj_objs, if_true] at hh
      rcases hheld with h1 | ⟨h1, h2⟩
      · rw [h1] at hh; simp at hh
      · rw [h1] at hh
        simp only [Option.some.injEq] at hh
        subst hh
        simpa using h2
    · simp only [setObj_objs, ho, if_false, setTh_objs] at hh
      have := hi.held o' t' hh
      by_cases hne : t' = t
      · subst hne; exact absurd (hone o' hh) ho
      · simpa [hne] using this

theorem inv_congr {s s' : St} (hi : Inv s) (h1 : s'.now = s.now) (h2 : s'.objs = s.objs) (h3 : s'.ths = s.ths) :
    Inv s' := by
  cases s; cases s'
  simp only at h1 h2 h3
  subst h1 h2 h3
  exact ⟨hi.objs, hi.ths, hi.held⟩

theorem step_inv (s s' : St) (l : Label) (hi : Inv s) (h : step false s l = some s') : Inv s' := by
  cases l with
  | tick d =>
    simp only [step, Option.some.injEq] at h
    subst h
    refine ⟨fun o => (hi.objs o).mono (Nat.le_add_right _ _), ?_, hi.held⟩
    intro t
    exact thOk_frame s _ t rfl (Nat.le_add_right _ _) (fun _ _ => rfl) (hi.ths t)
  | evict =>
    simp only [step, Option.some.injEq] at h
    subst h
    exact ⟨hi.objs, fun t => thOk_frame s _ t rfl (Nat.le_refl _) (fun _ _ => rfl) (hi.ths t), hi.held⟩
  | call t =>
    simp only [step] at h
    have key : ∀ pc', (∀ o, ¬ (s.ths t).pc.inCS o) →
        (match pc' with | .got _ => True | .adding => True | _ => False) →
        Inv (s.setTh t ⟨pc', s.now⟩) := by
      intro pc' hout hpc
      apply inv_setTh s t _ hi hout
      unfold ThOk
      simp only [setTh_ths, if_true, setTh_now, Nat.le_refl, true_and]
      cases pc' <;> simp_all
    split at h
    all_goals first
      | (split at h <;> (simp only [Option.some.injEq] at h; subst h; apply key _ (by intro o; simp_all [Pc.inCS]) (by trivial)))
      | simp at h
  | add t =>
    simp only [step] at h
    split at h
    · rename_i hpc
      simp only [Option.some.injEq] at h
      subst h
      have h0 := (hi.ths t).1
      have := inv_setTh s t ⟨.got s.nObjs, (s.ths t).startedAt⟩ hi (by intro o; simp [hpc, Pc.inCS])
        (by unfold ThOk; simpa using h0)
      exact inv_congr this rfl rfl rfl
    · simp at h
  | snapshot t =>
    simp only [step] at h
    split at h
    · rename_i o hpc
      split at h
      · simp only [Option.some.injEq] at h
        subst h
        apply inv_setTh s t _ hi (by intro o; simp [hpc, Pc.inCS])
        have := (hi.ths t).1
        unfold ThOk
        simp only [setTh_ths, if_true, setTh_now]
        exact ⟨this, hi.objs o⟩
      · simp at h
    · simp at h
  | fastCheck t =>
    simp only [step] at h
    split at h
    · rename_i o exp res hpc
      have ht := hi.ths t
      unfold ThOk at ht
      rw [hpc] at ht
      simp only at ht
      split at h
      · rename_i hf
        simp only [Option.some.injEq] at h
        subst h
        apply inv_setTh s t _ hi (by intro o; simp [hpc, Pc.inCS])
        obtain ⟨e, he, hlt⟩ := fresh_true hf
        obtain ⟨f, hf1, hf2, hf3⟩ := ht.2 e he
        unfold ThOk
        simp only [setTh_ths, if_true, setTh_now]
        refine ⟨ht.1, ht.1, Nat.le_refl _, f, hf1, by simp, fun _ => ⟨hf3, by omega⟩⟩
      · simp only [Option.some.injEq] at h
        subst h
        apply inv_setTh s t _ hi (by intro o; simp [hpc, Pc.inCS])
        unfold ThOk
        simp only [setTh_ths, if_true, setTh_now]
        exact ⟨ht.1, trivial⟩
    · simp at h
  | acquire t =>
    simp only [step] at h
    split at h
    · rename_i o sr hpc
      split at h
      · rename_i hfree
        simp only [Option.some.injEq] at h
        subst h
        apply inv_setBoth s t o _ _ hi (Or.inl hfree)
        · intro o' hh
          have h1 := hi.held o' t hh
          rw [hpc] at h1
          simp [Pc.inCS] at h1
        · exact hi.objs o
        · exact Or.inr ⟨rfl, by simp [Pc.inCS]⟩
        · have := (hi.ths t).1
          unfold ThOk
          simpa using this
      · simp at h
    · simp at h
  | recheck t =>
    simp only [step] at h
    split at h
    · rename_i o sr hpc
      have ht := hi.ths t
      unfold ThOk at ht
      rw [hpc] at ht
      simp only at ht
      have hone : ∀ o', (s.objs o').holder = some t → o' = o := by
        intro o' hh
        have h1 := hi.held o' t hh
        rw [hpc] at h1
        simp only [Pc.inCS] at h1
        exact h1.symm
      split at h
      · rename_i hf
        simp only [Option.some.injEq] at h
        subst h
        obtain ⟨e, he, hlt⟩ := fresh_true hf
        obtain ⟨f, hf1, hf2, hf3⟩ := hi.objs o e he
        apply inv_setBoth s t o _ _ hi (Or.inr ht.2) hone
        · exact hi.objs o
        · exact Or.inl rfl
        · unfold ThOk
          simp only [setObj_ths, setTh_ths, if_true, setObj_now, setTh_now, Bool.false_eq_true, if_false]
          refine ⟨ht.1, ht.1, Nat.le_refl _, f, hf1, by simp, fun _ => ⟨hf3, by omega⟩⟩
      · rename_i hf
        simp only [Option.some.injEq] at h
        subst h
        have := inv_setBoth s t o ⟨.fetching o, (s.ths t).startedAt⟩ (s.objs o) hi (Or.inr ht.2) hone (hi.objs o)
          (Or.inr ⟨ht.2, by simp [Pc.inCS]⟩)
          (by unfold ThOk
              simp only [setObj_ths, setTh_ths, if_true, setObj_now, setTh_now, setObj_objs]
              exact ⟨ht.1, ht.2, by simpa using hf⟩)
        refine inv_congr this rfl ?_ rfl
        funext o'
        by_cases ho : o' = o
        · subst ho; simp
        · simp [ho]
    · simp at h
  | fetchOk t val ttl =>
    simp only [step] at h
    split at h
    · rename_i o hpc
      have ht := hi.ths t
      unfold ThOk at ht
      rw [hpc] at ht
      simp only at ht
      have hone : ∀ o', (s.objs o').holder = some t → o' = o := by
        intro o' hh
        have h1 := hi.held o' t hh
        rw [hpc] at h1
        simp only [Pc.inCS] at h1
        exact h1.symm
      simp only [Option.some.injEq] at h
      subst h
      apply inv_setBoth s t o _ _ hi (Or.inr ht.2.1) hone
      · intro e he
        simp only [Option.some.injEq] at he
        exact ⟨_, rfl, he.symm, Nat.le_refl _⟩
      · exact Or.inl rfl
      · unfold ThOk
        simp only [setObj_ths, setTh_ths, if_true, setObj_now, setTh_now]
        exact ⟨ht.1, ht.1, Nat.le_refl _, _, rfl, fun _ => rfl, fun h => by simp at h⟩
    · simp at h
  | fetchErr t =>
    simp only [step] at h
    split at h
    · rename_i o hpc
      have ht := hi.ths t
      unfold ThOk at ht
      rw [hpc] at ht
      simp only at ht
      have hone : ∀ o', (s.objs o').holder = some t → o' = o := by
        intro o' hh
        have h1 := hi.held o' t hh
        rw [hpc] at h1
        simp only [Pc.inCS] at h1
        exact h1.symm
      simp only [Option.some.injEq] at h
      subst h
      have := inv_setBoth s t o ⟨.failed, (s.ths t).startedAt⟩ { s.objs o with holder := none } hi
        (Or.inr ht.2.1) hone (hi.objs o) (Or.inl rfl)
        (by unfold ThOk
            simp only [setObj_ths, setTh_ths, if_true, setObj_now, setTh_now]
            exact ⟨ht.1, trivial⟩)
      exact inv_congr this rfl rfl rfl
    · simp at h

/-- every reachable state satisfies the invariant -/
theorem run_inv (ls : List Label) (s s' : St) (hi : Inv s) (h : run false s ls = some s') : Inv s' := by
  induction ls generalizing s with
  | nil => simp only [run, Option.some.injEq] at h; subst h; exact hi
  | cons l ls ih =>
    simp only [run] at h
    split at h
    · simp at h
    · rename_i s1 hs1
      exact ih s1 (step_inv s s1 l hi hs1) h


/-! ### allocation: an added entry really is a new, empty `cacheValue` -/

def Pc.obj : Pc → Option Nat
  | .got o | .snap o _ _ | .want o _ | .locked o _ | .fetching o => some o
  | _ => none

structure Alloc (s : St) : Prop where
  unused : ∀ o, s.nObjs ≤ o → s.objs o = {}
  cur : ∀ o, s.cur = some o → o < s.nObjs
  ths : ∀ t o, (s.ths t).pc.obj = some o → o < s.nObjs

theorem alloc_init : Alloc init :=
  ⟨fun _ _ => rfl, fun o h => by simp [init] at h, fun t o h => by simp [init, Pc.obj] at h⟩

theorem step_alloc (s s' : St) (l : Label) (ha : Alloc s) (h : step false s l = some s') : Alloc s' := by
  have hth : ∀ (t : Nat) (th : Th) (s0 : St), s0.nObjs = s.nObjs → s0.ths = (s.setTh t th).ths →
      (∀ o, th.pc.obj = some o → o < s.nObjs) → ∀ t' o, (s0.ths t').pc.obj = some o → o < s.nObjs := by
    intro t th s0 _ h2 hnew t' o ho
    rw [h2] at ho
    by_cases hne : t' = t
    · subst hne; simp only [setTh_ths, if_true] at ho; exact hnew o ho
    · simp only [setTh_ths, hne, if_false] at ho; exact ha.ths t' o ho
  have hobj : ∀ (o : Nat) (ob : Obj) (s0 : St), s0.objs = (s.setObj o ob).objs → o < s.nObjs →
      ∀ o', s.nObjs ≤ o' → s0.objs o' = {} := by
    intro o ob s0 h1 hlt o' hle
    rw [h1]
    have : o' ≠ o := by omega
    simp only [setObj_objs, this, if_false]
    exact ha.unused o' hle
  cases l with
  | tick d => simp only [step, Option.some.injEq] at h; subst h; exact ⟨ha.unused, ha.cur, ha.ths⟩
  | evict =>
    simp only [step, Option.some.injEq] at h; subst h
    exact ⟨ha.unused, fun o h => by simp at h, ha.ths⟩
  | call t =>
    simp only [step] at h
    split at h
    all_goals first
      | (split at h <;> (rename_i hc; simp only [Option.some.injEq] at h; subst h
                         refine ⟨ha.unused, ha.cur, hth t _ _ rfl rfl ?_⟩
                         intro o ho
                         first
                           | (simp only [Pc.obj, Option.some.injEq] at ho; subst ho; exact ha.cur _ hc)
                           | simp [Pc.obj] at ho))
      | simp at h
  | add t =>
    simp only [step] at h
    split at h
    · simp only [Option.some.injEq] at h; subst h
      refine ⟨fun o ho => ha.unused o (by simp only at ho; omega), ?_, ?_⟩
      · intro o ho; simp only [Option.some.injEq] at ho; subst ho; simp
      · intro t' o ho
        have := hth t ⟨.got s.nObjs, (s.ths t).startedAt⟩ (s.setTh t ⟨.got s.nObjs, (s.ths t).startedAt⟩) rfl rfl
        simp only at ho ⊢
        by_cases hne : t' = t
        · subst hne; simp only [setTh_ths, if_true, Pc.obj, Option.some.injEq] at ho; omega
        · simp only [setTh_ths, hne, if_false] at ho
          have := ha.ths t' o ho; omega
    · simp at h
  | snapshot t =>
    simp only [step] at h
    split at h
    · rename_i o hpc
      split at h
      · simp only [Option.some.injEq] at h; subst h
        refine ⟨ha.unused, ha.cur, hth t _ _ rfl rfl ?_⟩
        intro o' ho
        simp only [Pc.obj, Option.some.injEq] at ho; subst ho
        exact ha.ths t o (by rw [hpc]; rfl)
      · simp at h
    · simp at h
  | fastCheck t =>
    simp only [step] at h
    split at h
    · rename_i o exp res hpc
      split at h <;>
        (simp only [Option.some.injEq] at h; subst h
         refine ⟨ha.unused, ha.cur, hth t _ _ rfl rfl ?_⟩
         intro o' ho
         first
           | (simp only [Pc.obj, Option.some.injEq] at ho; subst ho; exact ha.ths t o (by rw [hpc]; rfl))
           | simp [Pc.obj] at ho)
    · simp at h
  | acquire t =>
    simp only [step] at h
    split at h
    · rename_i o sr hpc
      have hlt := ha.ths t o (by rw [hpc]; rfl)
      split at h
      · simp only [Option.some.injEq] at h; subst h
        refine ⟨hobj o _ _ rfl hlt, ha.cur, hth t _ _ rfl rfl ?_⟩
        intro o' ho
        simp only [Pc.obj, Option.some.injEq] at ho; subst ho; exact hlt
      · simp at h
    · simp at h
  | recheck t =>
    simp only [step] at h
    split at h
    · rename_i o sr hpc
      have hlt := ha.ths t o (by rw [hpc]; rfl)
      split at h
      · simp only [Option.some.injEq] at h; subst h
        refine ⟨hobj o _ _ rfl hlt, ha.cur, hth t _ _ rfl rfl ?_⟩
        intro o' ho; simp [Pc.obj] at ho
      · simp only [Option.some.injEq] at h; subst h
        refine ⟨ha.unused, ha.cur, hth t _ _ rfl rfl ?_⟩
        intro o' ho
        simp only [Pc.obj, Option.some.injEq] at ho; subst ho; exact hlt
    · simp at h
  | fetchOk t val ttl =>
    simp only [step] at h
    split at h
    · rename_i o hpc
      have hlt := ha.ths t o (by rw [hpc]; rfl)
      simp only [Option.some.injEq] at h; subst h
      refine ⟨hobj o _ _ rfl hlt, ha.cur, hth t _ _ rfl rfl ?_⟩
      intro o' ho; simp [Pc.obj] at ho
    · simp at h
  | fetchErr t =>
    simp only [step] at h
    split at h
    · rename_i o hpc
      have hlt := ha.ths t o (by rw [hpc]; rfl)
      simp only [Option.some.injEq] at h; subst h
      refine ⟨hobj o _ _ rfl hlt, fun o h => by simp at h, hth t _ _ rfl rfl ?_⟩
      intro o' ho; simp [Pc.obj] at ho
    · simp at h

theorem run_alloc (ls : List Label) (s s' : St) (ha : Alloc s) (h : run false s ls = some s') : Alloc s' := by
  induction ls generalizing s with
  | nil => simp only [run, Option.some.injEq] at h; subst h; exact ha
  | cons l ls ih =>
    simp only [run] at h
    split at h
    · simp at h
    · rename_i s1 hs1
      exact ih s1 (step_alloc s s1 l ha hs1) h

end CacheLts
