import EchVerif.DNS.Message
import EchVerif.Spec.DNSName
import EchVerif.Lemmas.DNS
/-
  The name decoder refines the relational RFC 1035 definition of `Spec/DNSName.lean`.
-/
open Wire
namespace DNS
open Spec

/-- a window lies inside the message: its bytes are the message's bytes at its position -/
def Win.Inside (raw : Bytes) (w : Win) : Prop := ∃ t, raw.drop w.pos = w.b ++ t

theorem Win.inside_whole (raw : Bytes) (p : Nat) : Win.Inside raw ⟨p, raw.drop p⟩ := ⟨[], by simp⟩

theorem Win.inside_adv {raw : Bytes} {w : Win} (p rest : Bytes) (hw : Win.Inside raw w) (hb : w.b = p ++ rest) :
    Win.Inside raw (w.adv rest) ∧ (w.adv rest).pos = w.pos + p.length := by
  obtain ⟨t, ht⟩ := hw
  have hpos : (w.adv rest).pos = w.pos + p.length := by
    simp only [Win.adv, hb, List.length_append]; omega
  refine ⟨⟨t, ?_⟩, hpos⟩
  rw [hpos, adv_b, ← List.drop_drop, ht, hb]
  simp

theorem inside_head {raw : Bytes} {w : Win} {b0 : UInt8} {r : Bytes} (hw : Win.Inside raw w) (hb : w.b = b0 :: r) :
    raw[w.pos]? = some b0 := by
  obtain ⟨t, ht⟩ := hw
  have : (raw.drop w.pos)[0]? = some b0 := by rw [ht, hb]; rfl
  simpa using this

theorem inside_second {raw : Bytes} {w : Win} {b0 b1 : UInt8} {r : Bytes} (hw : Win.Inside raw w) (hb : w.b = b0 :: b1 :: r) :
    raw[w.pos + 1]? = some b1 := by
  obtain ⟨t, ht⟩ := hw
  have : (raw.drop w.pos)[1]? = some b1 := by rw [ht, hb]; rfl
  simpa using this

theorem nameLabelsF_sound (raw : Bytes) :
    ∀ (f : Nat) (jumped : Bool) (cur w : Win) (ptrs size : Nat) (n : Name) (c : Win),
      Win.Inside raw w → ptrs ≤ maxPointers →
      nameLabelsF raw f jumped cur w ptrs size = some (n, c) →
      ∃ k, NameAtBack raw w.pos n k ∧ ptrs + k ≤ maxPointers := by
  intro f
  induction f with
  | zero => intro j cur w p s n c _ _ h; simp [nameLabelsF] at h
  | succ k ih =>
    intro j cur w p s n c hw hp h
    simp only [nameLabelsF] at h
    cases hwb : w.b with
    | nil => simp [hwb] at h
    | cons b0 rest0 =>
      simp only [hwb] at h
      have h0 := inside_head hw hwb
      split at h
      · rename_i hptr
        split at h
        · simp at h
        · rename_i hpc
          split at h
          · simp at h
          · rename_i v rest hr
            split at h
            · simp at h
            · rename_i hback
              cases rest0 with
              | nil => simp [readU16] at hr
              | cons b1 r1 =>
                simp only [readU16, Option.some.injEq, Prod.mk.injEq] at hr
                obtain ⟨hv, _⟩ := hr
                have h1 := inside_second hw hwb
                obtain ⟨k', hrec, hk'⟩ := ih _ _ _ _ _ _ _ (Win.inside_whole raw (v % 16384)) (by omega) h
                simp only [not_or, Nat.not_le] at hback
                subst hv
                exact ⟨k' + 1, .ptr h0 hptr h1 hback.2 hrec, by omega⟩
      · rename_i hnp
        split at h
        · simp at h
        · rename_i lab rest hl
          have hinv := readLP8_inv hl
          obtain ⟨hb, hlen⟩ := hinv
          have hb0 : b0 = UInt8.ofNat lab.length ∧ rest0 = lab ++ rest := by
            simp only [u8, List.cons_append, List.nil_append, List.cons.injEq] at hb
            exact ⟨hb.1, by simpa using hb.2⟩
          obtain ⟨hb0, hr0⟩ := hb0
          have hb0n : b0.toNat = lab.length := by
            subst hb0; simp [UInt8.toNat_ofNat']; omega
          split at h
          · rename_i hnil
            simp only [Option.some.injEq, Prod.mk.injEq] at h
            obtain ⟨rfl, _⟩ := h
            have : b0 = 0 := by subst hb0; subst hnil; rfl
            subst this
            exact ⟨0, .root h0, by omega⟩
          · rename_i hne
            split at h
            · simp at h
            · split at h
              · simp at h
              · rename_i ls c' hrec
                simp only [Option.some.injEq, Prod.mk.injEq] at h
                obtain ⟨rfl, _⟩ := h
                have hwb' : w.b = ([b0] ++ lab) ++ rest := by rw [hwb, hr0]; simp
                obtain ⟨hin, hpos⟩ := Win.inside_adv ([b0] ++ lab) rest hw hwb'
                obtain ⟨k', hr, hk'⟩ := ih _ _ _ _ _ _ _ hin hp hrec
                obtain ⟨t, ht⟩ := hw
                have hlen2 : w.pos + 1 + b0.toNat ≤ raw.length := by
                  have := congrArg List.length ht
                  simp only [List.length_drop, hwb, hr0, List.length_append, List.length_cons] at this
                  omega
                have hlab : (raw.drop (w.pos + 1)).take b0.toNat = lab := by
                  rw [← List.drop_drop, ht, hwb, hr0, hb0n]
                  simp
                have hne0 : b0 ≠ 0 := by
                  intro e; subst e
                  have : lab.length = 0 := by simpa using hb0n.symm
                  exact hne (List.length_eq_zero_iff.mp this)
                rw [hpos] at hr
                simp only [List.length_append, List.length_singleton] at hr
                rw [← hlab]
                rw [← hb0n] at hr
                have hr' : NameAtBack raw (w.pos + 1 + b0.toNat) ls k' := by
                  have e : w.pos + (1 + b0.toNat) = w.pos + 1 + b0.toNat := by omega
                  rw [← e]; exact hr
                exact ⟨k', .label h0 hne0 hnp hlen2 hr', hk'⟩

/-- the caller's cursor stays inside the message -/
theorem nameLabelsF_cursor (raw : Bytes) :
    ∀ (f : Nat) (jumped : Bool) (cur w : Win) (ptrs size : Nat) (n : Name) (c : Win),
      Win.Inside raw w → Win.Inside raw cur →
      nameLabelsF raw f jumped cur w ptrs size = some (n, c) →
      Win.Inside raw c := by
  intro f
  induction f with
  | zero => intro j cur w p s n c _ _ h; simp [nameLabelsF] at h
  | succ k ih =>
    intro j cur w p s n c hw hc h
    simp only [nameLabelsF] at h
    cases hwb : w.b with
    | nil => simp [hwb] at h
    | cons b0 rest0 =>
      simp only [hwb] at h
      split at h
      · split at h
        · simp at h
        · split at h
          · simp at h
          · rename_i v rest hr
            split at h
            · simp at h
            · have hinv := (readU16_inv hr).1
              have hadv := (Win.inside_adv (u16 v) rest hw (by rw [hwb]; exact hinv)).1
              refine ih _ _ _ _ _ _ _ (Win.inside_whole raw _) ?_ h
              cases j <;> simp [hc, hadv]
      · split at h
        · simp at h
        · rename_i lab rest hl
          have hinv := (readLP8_inv hl).1
          have hadv := (Win.inside_adv (u8 lab.length ++ lab) rest hw (by rw [hwb]; exact hinv)).1
          split at h
          · simp only [Option.some.injEq, Prod.mk.injEq] at h
            obtain ⟨_, rfl⟩ := h
            cases j <;> simp [hc, hadv]
          · split at h
            · simp at h
            · split at h
              · simp at h
              · rename_i ls c' hrec
                simp only [Option.some.injEq, Prod.mk.injEq] at h
                obtain ⟨_, rfl⟩ := h
                refine ih _ _ _ _ _ _ _ hadv ?_ hrec
                cases j <;> simp [hc, hadv]


/-! ### completeness: the decoder finds every name the (backward-pointer) relation defines, within
    the 255-octet / 255-pointer budget -/

theorem drop_cons_of_get {raw : Bytes} {pos : Nat} {b : UInt8} (h : raw[pos]? = some b) :
    raw.drop pos = b :: raw.drop (pos + 1) := by
  obtain ⟨hlt, he⟩ := List.getElem?_eq_some_iff.mp h
  rw [List.drop_eq_getElem_cons hlt, he]

theorem whole_adv (raw : Bytes) (pos k : Nat) (h : pos + k ≤ raw.length) :
    (Win.mk pos (raw.drop pos)).adv (raw.drop (pos + k)) = ⟨pos + k, raw.drop (pos + k)⟩ := by
  simp only [Win.adv, List.length_drop, Win.mk.injEq, and_true]
  omega

theorem octets_eq (n : Name) : Spec.octets n = octets n := by
  induction n with
  | nil => rfl
  | cons l ls ih => simp [Spec.octets, octets, ih]

theorem nameLabelsF_complete (raw : Bytes) {pos k : Nat} {n : Name} (h : NameAtBack raw pos n k) :
    ∀ (fuel : Nat) (jumped : Bool) (cur : Win) (ptrs size : Nat),
      ptrs + k ≤ maxPointers → size + octets n ≤ maxNameOctets → k + n.length + 1 ≤ fuel →
      ∃ c, nameLabelsF raw fuel jumped cur ⟨pos, raw.drop pos⟩ ptrs size = some (n, c) := by
  induction h with
  | @root pos h0 =>
    intro fuel j cur p s _ _ hf
    cases fuel with
    | zero => omega
    | succ f =>
      have hd := drop_cons_of_get h0
      simp only [nameLabelsF, hd]
      have : ¬ ((0 : UInt8).toNat / 64 = 3) := by decide
      simp only [this, ↓reduceIte, readLP8, readU8, readN]
      simp
  | @label pos len rest k h0 hne hnp hlen _ ih =>
    intro fuel j cur p s hp hs hf
    cases fuel with
    | zero => omega
    | succ f =>
      have hd := drop_cons_of_get h0
      have hll : ((raw.drop (pos + 1)).take len.toNat).length = len.toNat := by
        simp only [List.length_take, List.length_drop]; omega
      have hpos : 0 < len.toNat := by
        rcases Nat.eq_zero_or_pos len.toNat with h | h
        · exact absurd (UInt8.toNat_inj.mp (by simpa using h)) hne
        · exact h
      simp only [octets, hll] at hs
      simp only [List.length_cons] at hf
      obtain ⟨c, hc⟩ := ih f j (if j then cur else ⟨pos + 1 + len.toNat, raw.drop (pos + 1 + len.toNat)⟩) p
        (s + len.toNat + 1) hp (by omega) (by omega)
      have hrd : readLP8 (len :: raw.drop (pos + 1)) =
          some ((raw.drop (pos + 1)).take len.toNat, raw.drop (pos + 1 + len.toNat)) := by
        simp only [readLP8, readU8, readN, List.length_drop, List.drop_drop]
        rw [if_pos (by omega)]
      have hadv := whole_adv raw pos (1 + len.toNat) (by omega)
      have e : pos + (1 + len.toNat) = pos + 1 + len.toNat := by omega
      rw [e] at hadv
      have hnil : (raw.drop (pos + 1)).take len.toNat ≠ [] := by
        intro e; rw [e] at hll; simp at hll; omega
      refine ⟨c, ?_⟩
      simp only [nameLabelsF, hd, hnp, ↓reduceIte, hrd, hnil, hll]
      rw [if_neg (by simp only [maxNameOctets] at hs ⊢; omega)]
      rw [← hd, hadv, hc]
  | @ptr pos b0 b1 n k h0 hptr h1 hback _ ih =>
    intro fuel j cur p s hp hs hf
    cases fuel with
    | zero => omega
    | succ f =>
      have hd := drop_cons_of_get h0
      have hd1 := drop_cons_of_get h1
      have hlt : pos < raw.length := (List.getElem?_eq_some_iff.mp h0).1
      obtain ⟨c, hc⟩ := ih f true (if j then cur else ⟨pos + 2, raw.drop (pos + 2)⟩) (p + 1) s
        (by omega) hs (by omega)
      refine ⟨c, ?_⟩
      have hadv := whole_adv raw pos 2 (by have := (List.getElem?_eq_some_iff.mp h1).1; omega)
      simp only [nameLabelsF, hd, hd1, hptr, ↓reduceIte, readU16]
      rw [if_neg (by simp only [maxPointers] at hp ⊢; omega)]
      rw [if_neg (by omega)]
      rw [← hd1, ← hd, hadv]
      exact hc

end DNS
