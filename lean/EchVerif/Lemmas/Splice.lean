import EchVerif.ECH.Conn
/-! Appendix B outer-extension substitution: the byte/fuel loop of the model refines a list-level
    loop, which is characterised declaratively (`keep`). -/
open Wire TLS
namespace ECH

/-- Go: `for p < len(outer) && outer[p].Type != t { p++ }` on the remaining suffix -/
def seek (t : Nat) : List Ext → Option (Ext × List Ext)
  | [] => none
  | e :: es => if e.typ = t then some (e, es) else seek t es

def refsLoop : List Nat → List Ext → Except Err (List Ext)
  | [], _ => .ok []
  | t :: ts, rem =>
    if t = 0xfe0d ∨ t = 0xfd00 then .error .illegal else
    match seek t rem with
    | none => .error .illegal
    | some (e, rem') =>
      match refsLoop ts rem' with
      | .error x => .error x
      | .ok es => .ok (e :: es)

/-- the reference list carried by the marker: big-endian uint16s -/
def refTypes : Nat → Bytes → Option (List Nat)
  | 0, b => if b = [] then some [] else none
  | fuel+1, b =>
    if b = [] then some [] else
    match readU16 b with
    | some (t, r) => (refTypes fuel r).map (t :: ·)
    | none => none

/-- declarative spec: the outer extensions whose type is referenced, in outer order -/
def keep (refs : List Nat) (outer : List Ext) : List Ext := outer.filter (fun e => refs.contains e.typ)

theorem dropWhile_seek (t : Nat) (l : List Ext) :
    (match l.dropWhile (fun e => e.typ ≠ t) with
     | [] => (none : Option (Ext × List Ext))
     | e :: r => some (e, r)) = seek t l := by
  induction l with
  | nil => rfl
  | cons a as ih =>
    simp only [List.dropWhile, seek]
    by_cases h : a.typ = t
    · simp [h]
    · have : (fun e : Ext => !decide (e.typ = t)) = (fun e => decide (e.typ ≠ t)) := by
        funext e; simp
      simp [h, this, ih]

theorem refsLoopF_refines (fuel : Nat) (want : Bytes) (outer res : List Ext)
    (h : refsLoopF fuel want outer = .ok res) :
    ∃ ts, refTypes fuel want = some ts ∧ refsLoop ts outer = .ok res := by
  induction fuel generalizing want outer res with
  | zero =>
    simp only [refsLoopF] at h
    split at h
    · rename_i hw
      simp only [Except.ok.injEq] at h
      subst h
      exact ⟨[], by simp [refTypes, hw], rfl⟩
    · simp at h
  | succ n ih =>
    simp only [refsLoopF] at h
    split at h
    · rename_i hw
      simp only [Except.ok.injEq] at h
      subst h
      exact ⟨[], by simp [refTypes, hw], rfl⟩
    · rename_i hw
      split at h
      · simp at h
      · rename_i t rest hr
        split at h
        · simp at h
        · rename_i hne
          have hs := dropWhile_seek t outer
          split at h
          · simp at h
          · rename_i e outer' hd
            rw [hd] at hs
            split at h
            · simp at h
            · rename_i es hes
              simp only [Except.ok.injEq] at h
              subst h
              obtain ⟨ts, h1, h2⟩ := ih rest outer' es hes
              refine ⟨t :: ts, by simp [refTypes, hw, hr, h1], ?_⟩
              simp only [refsLoop, hne, if_false, ← hs, h2]

theorem seek_some {t : Nat} {l : List Ext} {e : Ext} {r : List Ext} (h : seek t l = some (e, r)) :
    ∃ pre, l = pre ++ e :: r ∧ e.typ = t ∧ ∀ x ∈ pre, x.typ ≠ t := by
  induction l with
  | nil => simp [seek] at h
  | cons a as ih =>
    simp only [seek] at h
    split at h
    · simp at h; obtain ⟨rfl, rfl⟩ := h
      exact ⟨[], by simp, by assumption, by simp⟩
    · obtain ⟨pre, h1, h2, h3⟩ := ih h
      refine ⟨a :: pre, by simp [h1], h2, ?_⟩
      intro x hx
      simp at hx
      rcases hx with rfl | hx
      · assumption
      · exact h3 x hx

/-- Main characterisation: when the outer extension types are pairwise distinct, a successful
    substitution returns exactly the outer extensions whose type is referenced, in outer order,
    and the reference list is the list of their types (so: in order, no repeats, all present). -/
theorem refsLoop_eq_keep (refs : List Nat) (outer res : List Ext)
    (hnd : (outer.map (·.typ)).Nodup)
    (h : refsLoop refs outer = .ok res) :
    res = keep refs outer ∧ res.map (·.typ) = refs ∧
    (∀ t ∈ refs, t ≠ 0xfe0d ∧ t ≠ 0xfd00) := by
  induction refs generalizing outer res with
  | nil =>
    simp [refsLoop] at h; subst h
    simp [keep]
  | cons t ts ih =>
    simp only [refsLoop] at h
    split at h
    · simp at h
    · rename_i hne
      split at h
      · simp at h
      · rename_i e rem' hs
        split at h
        · simp at h
        · rename_i es hes
          simp at h; subst h
          obtain ⟨pre, hl, het, hpre⟩ := seek_some hs
          subst hl
          have hnd' : (rem'.map (·.typ)).Nodup := by
            simp [List.map_append, List.nodup_append] at hnd
            exact hnd.2.1.2
          obtain ⟨ih1, ih2, ih3⟩ := ih rem' es hnd' hes
          have hts_in : ∀ u ∈ ts, u ∈ rem'.map (·.typ) := by
            intro u hu
            rw [← ih2] at hu
            rw [ih1] at hu
            simp [keep] at hu
            obtain ⟨a, ⟨ha, _⟩, rfl⟩ := hu
            exact List.mem_map.mpr ⟨a, ha, rfl⟩
          simp [List.map_append, List.nodup_append] at hnd
          obtain ⟨hnd1, ⟨hnd2, hnd3⟩, hnd4⟩ := hnd
          refine ⟨?_, by simp [het, ih2], ?_⟩
          · have hpre_none : pre.filter (fun x => (t :: ts).contains x.typ) = [] := by
              apply List.filter_eq_nil_iff.mpr
              intro x hx
              simp only [List.contains_eq_mem, List.mem_cons, decide_eq_true_eq, not_or]
              refine ⟨hpre x hx, ?_⟩
              intro hmem
              have := hts_in _ hmem
              simp only [List.mem_map] at this
              obtain ⟨b, hb, hbt⟩ := this
              exact (hnd4 x hx).2 b hb hbt.symm
            have he_keep : (t :: ts).contains e.typ = true := by simp [het]
            have hrem : rem'.filter (fun x => (t :: ts).contains x.typ) = keep ts rem' := by
              simp only [keep]
              apply List.filter_congr
              intro x hx
              have hxne : x.typ ≠ t := by
                intro hxt
                exact hnd2 x hx (by rw [het, hxt])
              simp [hxne]
            simp only [keep, List.filter_append, List.filter_cons, hpre_none, he_keep, hrem,
              List.nil_append, if_true]
            rw [ih1]; rfl
          · intro u hu
            simp only [List.mem_cons] at hu
            rcases hu with rfl | hu
            · simpa [not_or] using hne
            · exact ih3 u hu

/-- without the distinctness hypothesis: the result is still a sublist of the outer list whose
    types are exactly the references — nothing invented, order preserved -/
theorem refsLoop_sublist (refs : List Nat) (outer res : List Ext) (h : refsLoop refs outer = .ok res) :
    res.Sublist outer ∧ res.map (·.typ) = refs := by
  induction refs generalizing outer res with
  | nil => simp [refsLoop] at h; subst h; simp
  | cons t ts ih =>
    simp only [refsLoop] at h
    split at h
    · simp at h
    · split at h
      · simp at h
      · rename_i e rem' hs
        split at h
        · simp at h
        · rename_i es hes
          simp at h; subst h
          obtain ⟨pre, hl, het, _⟩ := seek_some hs
          obtain ⟨i1, i2⟩ := ih rem' es hes
          subst hl
          refine ⟨?_, by simp [het, i2]⟩
          exact List.Sublist.trans (List.Sublist.cons_cons e i1) (List.sublist_append_right pre (e :: rem'))

end ECH
