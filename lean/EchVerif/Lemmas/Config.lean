import EchVerif.ECH.Config
open Wire
namespace ECH

def SuitesInRange (cs : List CipherSuite) : Prop := ∀ s ∈ cs, s.kdf < 65536 ∧ s.aead < 65536

theorem putSuites_length (cs : List CipherSuite) : (putSuites cs).length = 4 * cs.length := by
  induction cs with
  | nil => rfl
  | cons c cs ih => simp [putSuites, u16, ih]; omega

theorem parseSuitesF_putSuites (cs : List CipherSuite) (h : SuitesInRange cs) :
    ∀ fuel, (putSuites cs).length ≤ fuel → parseSuitesF fuel (putSuites cs) = some cs := by
  induction cs with
  | nil => intro fuel _; cases fuel <;> simp [putSuites, parseSuitesF]
  | cons c cs ih =>
    intro fuel hf
    have hc := h c (by simp)
    have hcs : SuitesInRange cs := fun s hs => h s (by simp [hs])
    cases fuel with
    | zero => simp [putSuites, u16] at hf
    | succ n =>
      have hl : (putSuites cs).length ≤ n := by simp [putSuites, u16] at hf; omega
      have hne : putSuites (c :: cs) ≠ [] := by simp [putSuites, u16]
      simp only [parseSuitesF, hne, if_false]
      simp only [putSuites, List.append_assoc]
      simp only [readU16_u16 hc.1, readU16_u16 hc.2, ih hcs n hl]

theorem parseSuites_putSuites (cs : List CipherSuite) (h : SuitesInRange cs) :
    parseSuites (putSuites cs) = some cs := parseSuitesF_putSuites cs h _ (Nat.le_refl _)

/-- converse: what the suite parser accepted is exactly the encoding of its result -/
theorem parseSuitesF_inv (fuel : Nat) (b : Bytes) (cs : List CipherSuite)
    (h : parseSuitesF fuel b = some cs) : putSuites cs = b ∧ SuitesInRange cs := by
  induction fuel generalizing b cs with
  | zero =>
    simp [parseSuitesF] at h
    obtain ⟨h1, h2⟩ := h; subst h1; subst h2
    exact ⟨rfl, fun _ hs => by simp at hs⟩
  | succ n ih =>
    unfold parseSuitesF at h
    split at h
    · simp at h; subst h; simp_all [putSuites, SuitesInRange]
    · split at h
      · simp at h
      · rename_i k r1 h1
        split at h
        · simp at h
        · rename_i a r2 h2
          split at h
          · simp at h
          · rename_i cs' h3
            simp at h; subst h
            obtain ⟨e1, k1⟩ := readU16_inv h1
            obtain ⟨e2, k2⟩ := readU16_inv h2
            obtain ⟨e3, k3⟩ := ih r2 cs' h3
            refine ⟨by simp [putSuites, e3, e1, e2], ?_⟩
            intro s hs
            simp at hs
            rcases hs with rfl | hs
            · exact ⟨k1, k2⟩
            · exact k3 s hs

theorem u16_recombine {n : Nat} (h : n < 65536) :
    (UInt8.ofNat (n / 256)).toNat * 256 + (UInt8.ofNat n).toNat = n := by
  simp [UInt8.toNat_ofNat']; omega

theorem isECHConfig_of (body : Bytes) (hl : body.length < 65536) (hc : Spec.contentsOk body = true) :
    Spec.isECHConfig (u16 0xfe0d ++ (u16 body.length ++ body)) = true := by
  have hfe : UInt8.ofNat (0xfe0d / 256) = 0xfe := by decide
  have h0d : UInt8.ofNat 0xfe0d = 0x0d := by decide
  simp only [u16, List.cons_append, List.nil_append, hfe, h0d, Spec.isECHConfig, u16_recombine hl, hc]
  simp

theorem contentsOk_of (id kem m : Nat) (pk cs nm pkE csE nmE : Bytes)
    (hpk : lp16 pk = some pkE) (hcs : lp16 cs = some csE) (hnm : lp8 nm = some nmE)
    (h1 : 1 ≤ pk.length) (h2 : 4 ≤ cs.length) (h3 : cs.length % 4 = 0) (h4 : 1 ≤ nm.length) :
    Spec.contentsOk (u8 id ++ u16 kem ++ pkE ++ csE ++ u8 m ++ nmE ++ u16 0) = true := by
  have hnm' := readLP8_lp8 hnm
  have hpk' := readLP16_lp16 hpk
  have hcs' := readLP16_lp16 hcs
  have h0 : readLP16 [UInt8.ofNat (0 / 256), UInt8.ofNat 0] = some ([], []) := by decide
  simp only [u8, u16, List.cons_append, List.nil_append, List.append_assoc, Spec.contentsOk, hpk', hcs', hnm', h0]
  have a1 : ¬ pk.length < 1 := by omega
  have a2 : ¬ (cs.length < 4 ∨ cs.length % 4 ≠ 0) := by omega
  have a3 : ¬ nm.length < 1 := by omega
  simp [a1, a2, a3, Spec.extsOk]

/-- shape of every encoding: 2-byte version, 2-byte length, exactly that many bytes -/
theorem bytes_shape (c : ConfigSpec) (e : Bytes) (h : c.bytes = some e) :
   ∃ body, e = u16 c.version ++ (u16 body.length ++ body) ∧ body.length < 65536 := by
    unfold ConfigSpec.bytes at h
    split at h
    · simp at h
    · split at h
      · split at h
        · rename_i body hbody
          unfold lp16 at hbody
          split at hbody
          · rename_i hl
            simp only [Option.some.injEq] at hbody h
            exact ⟨_, by rw [← h, ← hbody], hl⟩
          · simp at hbody
        · simp at h
      · simp at h

end ECH
